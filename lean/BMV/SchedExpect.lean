/-
  BMV.SchedExpect — the HAND-WRITTEN classification of every nondeterminism site of the build
  tools (property C07).  `BMV.Gen.MapRanges.sites` is regenerated from the Go source on every
  run; `BMV.Props.C07.sites_classified_partial` (by `decide`) demands that every generated site
  occurs here with the same syntactic class.  A new `range` over a map, a new clock / rand / go
  use, or a loop body that changed class (started to append, concatenate, print, return early…)
  is therefore an unclassified site and breaks the check until a human has looked at it and
  added / changed a row.

  Kind `ordered` = a `range` over a slice that other code extends in map-iteration order
  (procbuilder.Allopcodes, BasmInstance.matchers / matchersOps): walking it is as order sensitive as
  walking the map, so these loops are inventoried and classified like the map walks; a loop that
  loses its `sorted` flag (the sort after it was removed) no longer matches its row.

  Kind `sortcmp` = a sort with a custom comparator (sort.Slice / SliceStable / slices.SortFunc with
  a less function, sort.Sort / Stable with a Less method).  A sort canonicalises what came out of a
  map only if the comparator is a TOTAL order on the elements; one that ignores part of the element
  (natural order without tie-break: r1 = r01, stage = stage0) leaves tied elements in map order.  Class =
  shape of the comparator (direct / calls / multi / loop / iface / named); the verdict says why the
  order is total on the elements that can occur, or why ties do not matter.

  Kind `policy` = anchor on a function whose POLICY other rows rely on: class = hash of its persistent
  state (variables declared before its service loop) and of the headers of its scan loops.  Today:
  bondgo's allocator `Var_assigner` (lowest free id, no memory of releases), on which the `.insens`
  verdict of the scope-release walks depends.

  Rows of sites that no longer exist MUST BE REMOVED once the fix is in /repo: a leftover pre-fix row
  (`.finding`, class without `sorted`) would silently accept a regression to the pre-fix loop.

  ROWS MUST STAY SORTED BY IDENTITY (bytewise), see `covered`.

  Row = site identity `kind|file|function|expression|ordinal` (no line numbers), the class the
  extractor computed when the row was written, and a verdict:
    .thm c          covered by the theorem(s) named by `Cover c` (BMV.Props.C07.cover_sound)
    (sites of class `sortedkeys` — collect into a fresh local slice, library sort before any other
    use — have NO row: they are accepted by the generic rule, see `Sched.sortedKeysKey`)
    .sortedAfter    the slice built by the walk is sorted before use (class has flag "sorted";
                    theorem opcodes_sorted_det / sort_perm)
    .insens why     order insensitive for the stated reason (read from the code, not proved)
    .debugOnly      the only effect is a debug / String() dump printed with -d
    .offpath why    not reachable from a build path (tests, simulation, evolutionary tools)
    .unproved why   syntactically order sensitive, writes something a build emits, no theorem:
                    rests on the repeated fresh-process runs only (or is not exercised at all —
                    then `why` says so); these are the residue that makes C07 PARTIAL
    .finding id     reproduced or statically evident nondeterminism; id is the known-finding /
                    fix-patch identifier (docs/C07.md)
  Flags of a class: accum (writes an outer scalar / last-wins variable), append, calls (opaque
  calls), concat (string +=), early (return / break / goto / panic / exit), go, keyed (writes
  cells indexed by the ranged key or through the ranged value), output (Print / Write), send
  (channel send / close), sorted (an appended slice is sorted later in the function), xdep (what one
  iteration writes to an outer variable is decided by reading ANOTHER outer variable the loop also
  writes: order sensitive although every statement is a plain assignment), pure.
-/
import BMV.Sched
namespace BMV.Sched.Expect

/-- theorem families a site can be covered by -/
inductive Cover
  | importString      -- first accepting matcher, disjoint table (C08)
  | firstMatchUnique  -- first entry with a property that at most one entry has
  | symbolTagger      -- symbolTagger_det
  | framedWalk        -- sections_walk_det / framed walks: writes only what belongs to the ranged key
  | keyedCopy         -- keyed_copy_det: copies entries (distinct keys) into another map
  | setInsert         -- set_insert_det: inserts into a set
  | membership        -- membership_det: only asks whether some / every entry has a property
  | consumers         -- getReqs_consumers_det
deriving DecidableEq, Repr

inductive Verdict
  | thm (c : Cover)
  | sortedAfter
  | insens (why : String)
  | debugOnly
  | offpath (why : String)
  | unproved (why : String)
  | finding (id : String)
deriving DecidableEq, Repr

structure Row where
  key : Nat
  id : String
  cls : List String
  verdict : Verdict
deriving Repr

/-- verdicts that close a site (no residual risk) -/
def Verdict.closed : Verdict → Bool
  | .unproved _ => false
  | .finding _ => false
  | _ => true

/-- a verdict must fit the class: "sorted after" needs the extractor to have seen the sort; an
    explanation must not be empty -/
def Row.admissible (r : Row) : Bool :=
  match r.verdict with
  | .sortedAfter => r.cls.contains "sorted"
  | .insens w => w != ""
  | .offpath w => w != ""
  | .unproved w => w != ""
  | .finding i => i != ""
  | _ => true

def rows : List Row := [
  ⟨0xdbcd3dff176909ef, "clock|cmd/bondmachine/bondmachine.go|init|time.Now|0", [], .insens "seeds math/rand for the simulator and the evolutionary tools; no build path draws from it"⟩,
  ⟨0xba15681d395285f4, "clock|pkg/bondgo/verif_on.go|verifYield|time.Sleep|0", [], .offpath "verification hook (build tag verif) used by the C12 harness to force interleavings of bondgo's allocator / usage monitor; absent without the tag and inert unless VERIF_SCHED_SEED is set"⟩,
  ⟨0x89debab41112beff, "clock|pkg/bondmachine/verif_on.go|verifYield|time.Sleep|0", [], .offpath "verification hook (build tag verif, called from Processor_execute in the simulator only) used by the C09 harness to perturb the goroutine schedule; absent without the tag and inert unless VERIF_SCHED_SEED is set"⟩,
  ⟨0xda2645038075ea8b, "clock|pkg/procbuilder/machine.go|init|time.Now|0", [], .insens "seeds math/rand; only Program_generate (evolutionary tools) draws from it"⟩,
  ⟨0x223eb87e9cea34cc, "env|pkg/bmnumbers/dyntype_flopoco.go|FloPoCo.ExportString|os.MkdirTemp|0", [], .insens "temp directory for the external flopoco converter; removed afterwards, its path is not part of any result"⟩,
  ⟨0x3ff1eb979b3960fe, "env|pkg/bmnumbers/dyntype_flopoco.go|floPoCoImport|os.MkdirTemp|0", [], .insens "temp directory for the external flopoco converter; removed afterwards, its path is not part of any result"⟩,
  ⟨0x6cc8db7efb07329f, "env|pkg/procbuilder/dynamical_flopoco.go|DynFloPoCo.CreateInstruction|os.MkdirTemp|0", [], .unproved "temp directory for the external flopoco generator (needs the flopoco binary; not exercised)"⟩,
  ⟨0x8991cf8803721a51, "go|cmd/bondgo/bondgo.go|main|reqmnts.Usage_Monitor|0", [], .insens "compiler service goroutines (allocator, usage monitor): request/answer protocol, C12 proves its determinism and termination"⟩,
  ⟨0x1294de297b6b69d0, "go|cmd/bondgo/bondgo.go|main|run.Var_assigner|0", [], .insens "compiler service goroutines (allocator, usage monitor): request/answer protocol, C12 proves its determinism and termination"⟩,
  ⟨0x047b25651bfe252a, "go|pkg/bmreqs/engine.go|(*ReqRoot).run|rg.Clone|0", [], .insens "requirement engine: one server goroutine answering requests in order over unbuffered channels (sequential by construction); Clone is a request to itself"⟩,
  ⟨0xe9bdf4a35c6a5a72, "go|pkg/bmreqs/reqroot.go|NewReqRoot|rg.run|0", [], .insens "requirement engine: one server goroutine answering requests in order over unbuffered channels (sequential by construction); Clone is a request to itself"⟩,
  ⟨0x0f823cefe591fca3, "go|pkg/bondgo/converter.go|Assembly_2_Processor|reqmnts.Usage_Monitor|0", [], .insens "usage monitor service goroutine, same protocol as in cmd/bondgo (C12)"⟩,
  ⟨0x6b89f360dbbb5589, "ordered|pkg/basm/basm.go|(*BasmInstance).BasmInstanceInit|procbuilder.Allopcodes|0", ["append", "calls", "output"], .insens "runs in BasmInstanceInit, before any dynamic instruction has been created by this assembler run: Allopcodes still holds its static part (and what a loaded machine file created, in file order)"⟩,
  ⟨0xf7235ee36d7f3a9c, "ordered|pkg/basm/basm.go|(*BasmInstance).PrintInit|bi.matchers|0", ["calls", "output"], .debugOnly⟩,
  ⟨0x4b6a75d50efca41b, "ordered|pkg/basm/basm.go|(*BasmInstance).String|bi.matchers|0", ["calls", "concat"], .debugOnly⟩,
  ⟨0x09f46cbf5513dd83, "ordered|pkg/basm/creatorbm.go|(*BasmInstance).CreateConnectingProcessor|procbuilder.Allopcodes|0", ["append", "calls", "sorted"], .sortedAfter⟩,
  ⟨0x51bca7163fba20a6, "ordered|pkg/basm/fragmentanalyzer.go|fragmentAnalyzer|bi.matchers|0", ["append", "calls", "output"], .insens "filters bi.matchers into a list that is only used for any-match tests on fragment lines"⟩,
  ⟨0x6878880c31ad28da, "ordered|pkg/basm/fragmentanalyzer.go|fragmentAnalyzer|bi.matchers|1", ["accum", "calls", "early", "output"], .insens "a second matching matcher is an error (ambiguous, more than one operator match): the result is the unique matching opcode or the error, whatever the order"⟩,
  ⟨0x38db60523639280a, "ordered|pkg/basm/matcherresolver.go|matcherResolver|bi.matchers|0", ["accum", "append", "calls", "output", "sorted"], .unproved "the indices of the matching matchers are sorted, but the indices of dynamically created instructions are themselves assigned in section-map order: choice keys and the numbering of alternatives may follow; CodeChoice takes the strict minimum word size; no artefact difference in repeated runs (corpus dyn_order_*.basm exercise it)"⟩,
  ⟨0xc61d1271599207f3, "ordered|pkg/basm/matcherresolver.go|matcherResolver|bi.matchers|1", ["append", "calls", "output", "sorted"], .unproved "the indices of the matching matchers are sorted, but the indices of dynamically created instructions are themselves assigned in section-map order: choice keys and the numbering of alternatives may follow; CodeChoice takes the strict minimum word size; no artefact difference in repeated runs (corpus dyn_order_*.basm exercise it)"⟩,
  ⟨0xa8fba5abe4a9d92f, "ordered|pkg/basm/metadatainfer.go|(*BasmInstance).bodyMetadataInfer|bi.matchers|0", ["append", "calls"], .insens "filters bi.matchers into lists that are only used for any-match tests (is this argument a symbol for some matcher)"⟩,
  ⟨0x921413dc86d1477a, "ordered|pkg/basm/metadatainfer.go|(*BasmInstance).bodyMetadataInfer|bi.matchers|1", ["append", "calls"], .insens "filters bi.matchers into lists that are only used for any-match tests (is this argument a symbol for some matcher)"⟩,
  ⟨0x4c230f1aa2dc149f, "ordered|pkg/bondgo/converter.go|(*BondgoCheck).Create_Connecting_Processor|procbuilder.Allopcodes|0", ["append", "calls", "sorted"], .sortedAfter⟩,
  ⟨0x659006f57cdd5272, "ordered|pkg/bondgo/converter.go|(*BondgoRequirements).Abstract_assembler|procbuilder.Allopcodes|0", ["calls", "early", "send"], .thm .firstMatchUnique⟩,
  ⟨0xe9c6798eaeb06582, "ordered|pkg/bondmachine/bondmachine.go|(*Bondmachine).AttachBenchmarkCoreV2|procbuilder.Allopcodes|0", ["append", "calls", "sorted"], .sortedAfter⟩,
  ⟨0x71d7b5c00d4b83c0, "ordered|pkg/bondmachine/bondmachine.go|(*Bondmachine).Attach_benchmark_core|procbuilder.Allopcodes|0", ["append", "calls", "sorted"], .sortedAfter⟩,
  ⟨0x4c1414bf89936100, "ordered|pkg/procbuilder/dynamical_instructions.go|EventuallyCreateInstruction|Allopcodes|0", ["calls", "early"], .thm .firstMatchUnique⟩,
  ⟨0x45c661b8f2a89d4d, "ordered|pkg/procbuilder/evolutionary.go|(*Machine).MelInit|Allopcodes|0", ["append", "calls"], .offpath "evolutionary tools (mel), not a build path"⟩,
  ⟨0x7110862d7cd8f9df, "ordered|pkg/procbuilder/evolutionary.go|(*Machine).MelInit|Allopcodes|1", ["accum", "calls"], .offpath "evolutionary tools (mel), not a build path"⟩,
  ⟨0x7a5abe6923dfa07f, "ordered|pkg/procbuilder/machine.go|(*Machine_json).Dejsoner|Allopcodes|0", ["accum", "calls"], .thm .firstMatchUnique⟩,
  ⟨0x03b619de5ebb6d07, "policy|pkg/bondgo/runinfo.go|(*BondgoRuninfo).Var_assigner|state+scans|0", ["hcf9205778dce5fb6"], .insens "POLICY ANCHOR. bondgo register / memory / io / channel allocator: persistent state = busylist, busychan, busyio (what is in use, no record of releases), every scan is `for i := 0; i < MAX_…; i++` = lowest free id. The rows of the release walks over bgfunct.Vars and bg.Clean.Vars rely on exactly this; the class is the hash of state{…} loops{…} printed by `c07 json` (field note): if it changes, re-review those rows before re-keying this one"⟩,
  ⟨0x0dd23e0d0dd9ca5c, "rand|cmd/bondmachine/bondmachine.go|init|math/rand.Seed|0", [], .insens "seeds math/rand for the simulator and the evolutionary tools; no build path draws from it"⟩,
  ⟨0xc47184300f840b3a, "rand|pkg/procbuilder/arch.go|(*Arch).Program_generate|math/rand.Intn|0", [], .offpath "random program generation for pkg/procbuilder/evolutionary.go, by design"⟩,
  ⟨0xb69c9b7d37652484, "rand|pkg/procbuilder/conproc.go|RandStringBytes|math/rand.Intn|0", [], .offpath "helper without callers in the build tools"⟩,
  ⟨0x0348cf8c2aef57ed, "rand|pkg/procbuilder/dynop_call.go|Call.Generate|math/rand.Intn|0", [], .offpath "Opcode.Generate: random instruction for Program_generate (evolutionary tools), by design"⟩,
  ⟨0x8841a9126925568b, "rand|pkg/procbuilder/dynop_rsets.go|Rsets.Generate|math/rand.Intn|0", [], .offpath "Opcode.Generate: random instruction for Program_generate (evolutionary tools), by design"⟩,
  ⟨0xc2591e7a4f810761, "rand|pkg/procbuilder/dynop_stack.go|DynOpStack.Generate|math/rand.Intn|0", [], .offpath "Opcode.Generate: random instruction for Program_generate (evolutionary tools), by design"⟩,
  ⟨0x3dd564bc02d19240, "rand|pkg/procbuilder/machine.go|init|math/rand.Seed|0", [], .insens "seeds math/rand; only Program_generate (evolutionary tools) draws from it"⟩,
  ⟨0x2c3612feb2aeb134, "rand|pkg/procbuilder/op_addi.go|Addi.Generate|math/rand.Intn|0", [], .offpath "Opcode.Generate: random instruction for Program_generate (evolutionary tools), by design"⟩,
  ⟨0x3ca260e7850db4e8, "rand|pkg/procbuilder/op_cilc.go|Cilc.Generate|math/rand.Intn|0", [], .offpath "Opcode.Generate: random instruction for Program_generate (evolutionary tools), by design"⟩,
  ⟨0x43cea01579d4b9e8, "rand|pkg/procbuilder/op_clc.go|Clc.Generate|math/rand.Intn|0", [], .offpath "Opcode.Generate: random instruction for Program_generate (evolutionary tools), by design"⟩,
  ⟨0x2cb5601010285f06, "rand|pkg/procbuilder/op_clr.go|Clr.Generate|math/rand.Intn|0", [], .offpath "Opcode.Generate: random instruction for Program_generate (evolutionary tools), by design"⟩,
  ⟨0xf4549f1f6f8c0a54, "rand|pkg/procbuilder/op_cset.go|Cset.Generate|math/rand.Intn|0", [], .offpath "Opcode.Generate: random instruction for Program_generate (evolutionary tools), by design"⟩,
  ⟨0x3c400abb6e65d32c, "rand|pkg/procbuilder/op_dec.go|Dec.Generate|math/rand.Intn|0", [], .offpath "Opcode.Generate: random instruction for Program_generate (evolutionary tools), by design"⟩,
  ⟨0xc7946b30fd614204, "rand|pkg/procbuilder/op_expf.go|Expf.Generate|math/rand.Intn|0", [], .offpath "Opcode.Generate: random instruction for Program_generate (evolutionary tools), by design"⟩,
  ⟨0x834270e75ebc13b2, "rand|pkg/procbuilder/op_i2r.go|I2r.Generate|math/rand.Intn|0", [], .offpath "Opcode.Generate: random instruction for Program_generate (evolutionary tools), by design"⟩,
  ⟨0x79bac8c2236817fc, "rand|pkg/procbuilder/op_i2rw.go|I2rw.Generate|math/rand.Intn|0", [], .offpath "Opcode.Generate: random instruction for Program_generate (evolutionary tools), by design"⟩,
  ⟨0x3da47f8b60ce0108, "rand|pkg/procbuilder/op_inc.go|Inc.Generate|math/rand.Intn|0", [], .offpath "Opcode.Generate: random instruction for Program_generate (evolutionary tools), by design"⟩,
  ⟨0xdfee57fcfff7d6d8, "rand|pkg/procbuilder/op_incc.go|Incc.Generate|math/rand.Intn|0", [], .offpath "Opcode.Generate: random instruction for Program_generate (evolutionary tools), by design"⟩,
  ⟨0x2570603e7589042c, "rand|pkg/procbuilder/op_j.go|J.Generate|math/rand.Intn|0", [], .offpath "Opcode.Generate: random instruction for Program_generate (evolutionary tools), by design"⟩,
  ⟨0x3501bfb3ecfb8c80, "rand|pkg/procbuilder/op_ja.go|Ja.Generate|math/rand.Intn|0", [], .offpath "Opcode.Generate: random instruction for Program_generate (evolutionary tools), by design"⟩,
  ⟨0x12d9527e1b1f24a4, "rand|pkg/procbuilder/op_jc.go|Jc.Generate|math/rand.Intn|0", [], .offpath "Opcode.Generate: random instruction for Program_generate (evolutionary tools), by design"⟩,
  ⟨0x5c266b2cd3a1412a, "rand|pkg/procbuilder/op_jcmpa.go|Jcmpa.Generate|math/rand.Intn|0", [], .offpath "Opcode.Generate: random instruction for Program_generate (evolutionary tools), by design"⟩,
  ⟨0x40859ff0752acb4c, "rand|pkg/procbuilder/op_jcmpl.go|Jcmpl.Generate|math/rand.Intn|0", [], .offpath "Opcode.Generate: random instruction for Program_generate (evolutionary tools), by design"⟩,
  ⟨0xb6a460d7f2644cae, "rand|pkg/procbuilder/op_jcmpo.go|Jcmpo.Generate|math/rand.Intn|0", [], .offpath "Opcode.Generate: random instruction for Program_generate (evolutionary tools), by design"⟩,
  ⟨0x5b04e3a0132c6e84, "rand|pkg/procbuilder/op_jcmpria.go|Jcmpria.Generate|math/rand.Intn|0", [], .offpath "Opcode.Generate: random instruction for Program_generate (evolutionary tools), by design"⟩,
  ⟨0x2c694152f532df80, "rand|pkg/procbuilder/op_jcmprio.go|Jcmprio.Generate|math/rand.Intn|0", [], .offpath "Opcode.Generate: random instruction for Program_generate (evolutionary tools), by design"⟩,
  ⟨0x985cce9a11cdf1b4, "rand|pkg/procbuilder/op_jo.go|Jo.Generate|math/rand.Intn|0", [], .offpath "Opcode.Generate: random instruction for Program_generate (evolutionary tools), by design"⟩,
  ⟨0x58087f2e7db18cb2, "rand|pkg/procbuilder/op_jri.go|Jri.Generate|math/rand.Intn|0", [], .offpath "Opcode.Generate: random instruction for Program_generate (evolutionary tools), by design"⟩,
  ⟨0xc30db208c0d2b35c, "rand|pkg/procbuilder/op_jria.go|Jria.Generate|math/rand.Intn|0", [], .offpath "Opcode.Generate: random instruction for Program_generate (evolutionary tools), by design"⟩,
  ⟨0x138fdc310be06b0c, "rand|pkg/procbuilder/op_jrio.go|Jrio.Generate|math/rand.Intn|0", [], .offpath "Opcode.Generate: random instruction for Program_generate (evolutionary tools), by design"⟩,
  ⟨0xd1650188be40381a, "rand|pkg/procbuilder/op_m2r.go|M2r.Generate|math/rand.Intn|0", [], .offpath "Opcode.Generate: random instruction for Program_generate (evolutionary tools), by design"⟩,
  ⟨0xa98ef92cbbd1cea2, "rand|pkg/procbuilder/op_r2o.go|R2o.Generate|math/rand.Intn|0", [], .offpath "Opcode.Generate: random instruction for Program_generate (evolutionary tools), by design"⟩,
  ⟨0x9da123a3f0ee8f3e, "rand|pkg/procbuilder/op_r2owa.go|R2owa.Generate|math/rand.Intn|0", [], .offpath "Opcode.Generate: random instruction for Program_generate (evolutionary tools), by design"⟩,
  ⟨0x18625f53274df49c, "rand|pkg/procbuilder/op_r2owaa.go|R2owaa.Generate|math/rand.Intn|0", [], .offpath "Opcode.Generate: random instruction for Program_generate (evolutionary tools), by design"⟩,
  ⟨0x91a719fbc07dd164, "rand|pkg/procbuilder/op_rset.go|Rset.Generate|math/rand.Intn|0", [], .offpath "Opcode.Generate: random instruction for Program_generate (evolutionary tools), by design"⟩,
  ⟨0xd151c96152ef1e46, "rand|pkg/procbuilder/op_sic.go|Sic.Generate|math/rand.Intn|0", [], .offpath "Opcode.Generate: random instruction for Program_generate (evolutionary tools), by design"⟩,
  ⟨0x81e782373302fa5a, "rand|pkg/procbuilder/op_sicv2.go|Sicv2.Generate|math/rand.Intn|0", [], .offpath "Opcode.Generate: random instruction for Program_generate (evolutionary tools), by design"⟩,
  ⟨0xbf71e2071a63576c, "rand|pkg/procbuilder/op_sicv3.go|Sicv3.Generate|math/rand.Intn|0", [], .offpath "Opcode.Generate: random instruction for Program_generate (evolutionary tools), by design"⟩,
  ⟨0xe3e6e8558ad4a076, "rand|pkg/procbuilder/op_tsp.go|Tsp.Generate|math/rand.Intn|0", [], .offpath "Opcode.Generate: random instruction for Program_generate (evolutionary tools), by design"⟩,
  ⟨0x2e7e387c70b42e32, "rand|pkg/procbuilder/op_wrd.go|Wrd.Generate|math/rand.Intn|0", [], .offpath "Opcode.Generate: random instruction for Program_generate (evolutionary tools), by design"⟩,
  ⟨0x54fbf07cdfa33bdc, "rand|pkg/procbuilder/op_wwr.go|Wwr.Generate|math/rand.Intn|0", [], .offpath "Opcode.Generate: random instruction for Program_generate (evolutionary tools), by design"⟩,
  ⟨0xd29ede4cd9ec2cc9, "range|cmd/basm/main.go|main|bi.GetClusteredName()|0", ["calls", "early", "output"], .insens "one output file per cluster member, paths are distinct (content is the cluster finding)"⟩,
  ⟨0xad98b46efe1140ae, "range|cmd/bmqsim/bmqsim.go|main|bmqsim.AppFlavors|0", ["calls", "output"], .unproved "-*-flavor-list prints the flavour names in map order (a listing on stdout, not a build artefact)"⟩,
  ⟨0x5a7e3fa3c637fb08, "range|cmd/bmqsim/bmqsim.go|main|bmqsim.HLSFlavors|0", ["calls", "output"], .unproved "-*-flavor-list prints the flavour names in map order (a listing on stdout, not a build artefact)"⟩,
  ⟨0x395c9f1ab991f2fd, "range|cmd/bmqsim/bmqsim.go|main|bmqsim.HardwareFlavors|0", ["calls", "output"], .unproved "-*-flavor-list prints the flavour names in map order (a listing on stdout, not a build artefact)"⟩,
  ⟨0x09655efe3d7d74ee, "range|cmd/bondgo/bondgo.go|main|bgmain.Program|0", ["calls", "send"], .insens "notifications to the usage monitor, which keeps per-processor sets and maxima"⟩,
  ⟨0x77d04629e09a9431, "range|cmd/bondgo/bondgo.go|main|bgmain.Program|1", ["send"], .insens "notifications to the usage monitor, which keeps per-processor sets and maxima"⟩,
  ⟨0xb5e069417739cdc7, "range|cmd/bondgo/bondgo.go|main|bgmain.Program|2", ["calls", "output"], .insens "one assembly file per routine: distinct paths"⟩,
  ⟨0x70f443c61cac6533, "range|cmd/bondgo/bondgo.go|main|bgmain.Program|3", ["send"], .insens "notifications to the usage monitor, which keeps per-processor sets and maxima"⟩,
  ⟨0x8b32198757a1d357, "range|cmd/bondgo/bondgo.go|main|functs.Functions|0", ["accum", "calls", "early"], .thm .firstMatchUnique⟩,
  ⟨0xf804d12ed050534e, "range|cmd/bondmachine/bondmachine.go|main|act|0", ["accum", "keyed"], .offpath "simulation loop of cmd/bondmachine (-sim), C09 / C15"⟩,
  ⟨0xa2e6075d7452df3d, "range|cmd/bondmachine/bondmachine.go|main|act|1", ["accum", "keyed"], .offpath "simulation loop of cmd/bondmachine (-sim): periodic set actions (fix 0fcd9ab), C09 / C15"⟩,
  ⟨0x8ec63f8862df347c, "range|cmd/bondmachine/bondmachine.go|main|bmach.List_bonds()|0", ["output"], .unproved "-list-bonds prints the bond map in map order (a listing on stdout)"⟩,
  ⟨0x0764e81556c3daed, "range|cmd/bondmachine/bondmachine.go|main|rep|0", ["append"], .offpath "simulation loop of cmd/bondmachine (-sim), C09 / C15"⟩,
  ⟨0x500027ddaea9f5e8, "range|cmd/bondmachine/bondmachine.go|main|rep|1", ["append"], .offpath "simulation loop of cmd/bondmachine (-sim), C09 / C15"⟩,
  ⟨0x15743899c7518249, "range|cmd/bondmachine/bondmachine.go|main|slist|0", ["append", "sorted"], .offpath "simulation loop of cmd/bondmachine (-sim), C09 / C15"⟩,
  ⟨0xf6f5b3c24852afe2, "range|cmd/bondmachine/bondmachine.go|main|slist|1", ["append", "sorted"], .offpath "simulation loop of cmd/bondmachine (-sim), C09 / C15"⟩,
  ⟨0xae9b354db61ab79b, "range|cmd/bondmachine/bondmachine.go|main|slist|2", ["append", "sorted"], .offpath "simulation loop of cmd/bondmachine (-sim), C09 / C15"⟩,
  ⟨0x73f713b67670c721, "range|cmd/bondmachine/bondmachine.go|main|srep.PerGet|0", ["append"], .offpath "simulation loop of cmd/bondmachine (-sim), C09 / C15"⟩,
  ⟨0x21ee4d3157905f22, "range|cmd/bondmachine/bondmachine.go|main|srep.PerShow|0", ["append", "sorted"], .offpath "simulation loop of cmd/bondmachine (-sim), C09 / C15"⟩,
  ⟨0x3b36480650ec2c66, "range|cmd/neuralbond/neuralbond.go|main|tpy.ShowInstructions()|0", ["keyed"], .thm .keyedCopy⟩,
  ⟨0x05d081017cdf11a9, "range|cmd/neuralbond/neuralbond.go|main|tpy.ShowInstructions()|1", ["keyed"], .thm .keyedCopy⟩,
  ⟨0x2c9f80c6462802fc, "range|pkg/basm/basm.go|(*BasmInstance).String|bi.chunks|0", ["calls", "concat"], .debugOnly⟩,
  ⟨0x241ee26f6639910f, "range|pkg/basm/basm.go|(*BasmInstance).String|bi.fragments|0", ["calls", "concat"], .debugOnly⟩,
  ⟨0x557cbbd6cefd7af9, "range|pkg/basm/basm.go|(*BasmInstance).String|bi.macros|0", ["calls", "concat"], .debugOnly⟩,
  ⟨0x75c9c97ad94c955e, "range|pkg/basm/basm.go|(*BasmInstance).String|bi.sections|0", ["calls", "concat"], .debugOnly⟩,
  ⟨0x2c64ec414b89a95f, "range|pkg/basm/basm.go|(*BasmInstance).String|bi.symbols|0", ["calls", "concat"], .debugOnly⟩,
  ⟨0x657d60dd666f4ab0, "range|pkg/basm/basm.go|lineHeader|line.LoopMeta()|0", ["append", "sorted"], .sortedAfter⟩,
  ⟨0xd77dd96267094d49, "range|pkg/basm/callresolver.go|callResolver|bi.sections|0", ["calls", "early", "keyed", "output"], .thm .framedWalk⟩,
  ⟨0xc8226c67df4c85f1, "range|pkg/basm/clusterchecker.go|clusterChecker|bi.clusteredNames|0", ["early"], .thm .membership⟩,
  ⟨0xcb0450a6be7a620b, "range|pkg/basm/clusterchecker.go|clusterChecker|bi.clusteredNames|1", ["keyed"], .thm .setInsert⟩,
  ⟨0xd7db3f56fd6248a4, "range|pkg/basm/clusterchecker.go|clusterChecker|bi.clusteredNames|2", ["accum", "append", "early"], .insens "existence test: device ids are unique values (enforced a few lines above), at most one entry matches, the body does not use the entry"⟩,
  ⟨0x2ed1d3907e57e83c, "range|pkg/basm/creatorbcof.go|(*BasmInstance).Assembler2BCOF|bi.BMinfo.CPNames|0", ["accum", "calls", "early", "keyed", "output"], .unproved "first id whose CP name matches; unique only if BMinfo.CPNames is injective, which the code does not check"⟩,
  ⟨0x79a2607666c88274, "range|pkg/basm/datasects2bytes.go|dataSections2Bytes|bi.sections|0", ["accum", "calls", "early", "output"], .thm .framedWalk⟩,
  ⟨0x82c9a59fb44f501e, "range|pkg/basm/dynamicalinstructions.go|dynamicalInstructions|bi.fragments|0", ["append", "calls", "early", "output"], .unproved "dynamic instructions are created at first use in map order: the order of bi.matchers and procbuilder.Allopcodes follows it, and matcher indices feed matcherResolver; no artefact difference seen in repeated runs"⟩,
  ⟨0x9aa2e1e6a7232763, "range|pkg/basm/dynamicalinstructions.go|dynamicalInstructions|bi.sections|0", ["append", "calls", "early", "output"], .unproved "dynamic instructions are created at first use in map order: the order of bi.matchers and procbuilder.Allopcodes follows it, and matcher indices feed matcherResolver; no artefact difference seen in repeated runs"⟩,
  ⟨0xaa3242fe4b3db3ec, "range|pkg/basm/entrypoints.go|entryPoints|bi.sections|0", ["calls", "early", "output"], .thm .framedWalk⟩,
  ⟨0x86048351562388f3, "range|pkg/basm/fragmentanalyzer.go|(*BasmInstance).fragmentResUsage|resStart|0", ["accum", "calls"], .insens "BasmMeta.AddMeta keeps the colon list sorted and duplicate free: insertions commute"⟩,
  ⟨0x006241365dc8bf12, "range|pkg/basm/fragmentanalyzer.go|fragmentAnalyzer|bi.fragments|0", ["calls", "early", "keyed", "output"], .thm .framedWalk⟩,
  ⟨0x634a2bb4d2b3d4d9, "range|pkg/basm/fragmentanalyzer.go|fragmentAnalyzer|branchingBlocks|0", ["calls", "early"], .thm .framedWalk⟩,
  ⟨0xd8ead987daa4d2b2, "range|pkg/basm/fragmentanalyzer.go|fragmentAnalyzer|meta.LoopMeta()|0", ["accum", "calls"], .thm .keyedCopy⟩,
  ⟨0xbe2524f708872667, "range|pkg/basm/fragmentanalyzer.go|fragmentAnalyzer|resUsed|0", ["concat"], .unproved "the resused colon list is built in map order and read by fragmentComposer / fragmentResUsage; no artefact difference seen in repeated runs on the neural-network corpus"⟩,
  ⟨0x2d2cf02557c528fc, "range|pkg/basm/fragmentoptimizer.go|fragmentOptimizer|bi.fragments|0", ["calls", "early", "keyed", "output"], .thm .framedWalk⟩,
  ⟨0xd3ad6974c9522ab3, "range|pkg/basm/fragmentoptimizer.go|fragmentOptimizer|fBody.BasmMeta.LoopMeta()|0", ["accum", "calls"], .thm .keyedCopy⟩,
  ⟨0x559cc587aee91789, "range|pkg/basm/macroresolver.go|macroResolver|bi.fragments|0", ["calls", "early", "output"], .thm .framedWalk⟩,
  ⟨0x0d432f6b319ee2e2, "range|pkg/basm/macroresolver.go|macroResolver|bi.sections|0", ["calls", "early", "output"], .thm .framedWalk⟩,
  ⟨0xc96bc8bc9cb15704, "range|pkg/basm/mapfile.go|(*BasmInstance).CreateMappingFile|bi.global.LoopMeta()|0", ["accum"], .insens "switch on the key with one assignment per distinct key: a keyed copy"⟩,
  ⟨0x0915858a217426d3, "range|pkg/basm/mapfile.go|(*BasmInstance).CreateMappingFile|ioatt.LoopMeta()|0", ["accum"], .insens "switch on the key with one assignment per distinct key: a keyed copy"⟩,
  ⟨0x7fdc539db386383d, "range|pkg/basm/matcherresolver.go|matcherResolver|bi.sections|0", ["accum", "calls", "early", "keyed", "output"], .thm .framedWalk⟩,
  ⟨0x3110178ab85af947, "range|pkg/basm/matcherresolver.go|matcherResolver|body.Lines[i].LoopMeta()|0", ["accum", "calls"], .thm .keyedCopy⟩,
  ⟨0xa6dd2a1d5a3e3fe4, "range|pkg/basm/matcherresolver.go|matcherResolver|body.Lines[i].LoopMeta()|1", ["accum", "calls"], .thm .keyedCopy⟩,
  ⟨0xb8166cefa721264a, "range|pkg/basm/matcherresolver.go|matcherResolver|sectionsIncoming|0", ["keyed"], .thm .keyedCopy⟩,
  ⟨0xa51ec73b43f66ed9, "range|pkg/basm/meta.go|(*BasmInstance).metaProcessor|resultDict|0", ["calls", "early"], .thm .keyedCopy⟩,
  ⟨0x8748c777fcefcd66, "range|pkg/basm/meta.go|(*BasmInstance).metaProcessor|resultDict|1", ["calls", "early"], .thm .keyedCopy⟩,
  ⟨0x387d3d57fd18eae3, "range|pkg/basm/meta.go|(*BasmInstance).metaProcessor|resultDict|2", ["calls", "early"], .thm .keyedCopy⟩,
  ⟨0x088eec6f5d386a20, "range|pkg/basm/meta.go|(*BasmInstance).metaProcessor|resultDict|3", ["calls", "early"], .thm .keyedCopy⟩,
  ⟨0x77c64e56fc9c607d, "range|pkg/basm/meta.go|(*BasmInstance).metaProcessor|resultDict|4", ["calls", "early"], .thm .keyedCopy⟩,
  ⟨0xaf33f4133687e73a, "range|pkg/basm/meta.go|(*BasmInstance).metaProcessor|resultDict|5", ["calls", "early"], .thm .keyedCopy⟩,
  ⟨0xabd18b1b7ca58837, "range|pkg/basm/meta.go|(*BasmInstance).metaProcessor|resultDict|6", ["calls", "early"], .thm .keyedCopy⟩,
  ⟨0x7f8883496f6d741b, "range|pkg/basm/metadatainfer.go|metadataInfer|bi.fragments|0", ["calls", "early", "output"], .thm .framedWalk⟩,
  ⟨0x8ec310ac700ca938, "range|pkg/basm/metadatainfer.go|metadataInfer|bi.sections|0", ["calls", "early", "output"], .thm .framedWalk⟩,
  ⟨0xef366971a3c6ccb5, "range|pkg/basm/metadatainfer.go|metadataInfer|bi.sections|1", ["calls", "early", "output"], .thm .framedWalk⟩,
  ⟨0xd5f7e604d0860c4f, "range|pkg/basm/passes.go|(*BasmInstance).SetActive|GetPassMnemonic()|0", ["accum", "calls", "early"], .thm .firstMatchUnique⟩,
  ⟨0x596a1396b42d129a, "range|pkg/basm/passes.go|(*BasmInstance).UnsetActive|GetPassMnemonic()|0", ["accum", "calls", "early"], .thm .firstMatchUnique⟩,
  ⟨0x6411b79f559bcaa5, "range|pkg/basm/sectioncleaner.go|sectionCleaner|bi.sections|0", ["calls", "keyed", "output"], .thm .framedWalk⟩,
  ⟨0x816d57adbdccab72, "range|pkg/basm/symbolresolver.go|symbolResolver|bi.sections|0", ["calls", "early", "output"], .thm .framedWalk⟩,
  ⟨0x7995c6417bb3896d, "range|pkg/basm/symboltagger.go|symbolTagger|bi.fragments|0", ["accum", "calls", "early", "output"], .thm .symbolTagger⟩,
  ⟨0xf9b383ea1187c8a6, "range|pkg/basm/symboltagger.go|symbolTagger|bi.sections|0", ["accum", "calls", "early", "output"], .thm .symbolTagger⟩,
  ⟨0xee86140761b302ca, "range|pkg/basm/templatefinalizer.go|templateFinalizer|bi.sections|0", ["calls", "early", "output"], .thm .framedWalk⟩,
  ⟨0xbba2402d79045c3a, "range|pkg/basm/templateresolver.go|templateResolver|bi.fragments[fragCode].fragmentBody.LoopMeta()|0", ["accum"], .insens "fills only keys that are absent, from keys with the distinct prefix default_: a keyed copy"⟩,
  ⟨0x76d88146c5c1d4c3, "range|pkg/basm/templateresolver.go|templateResolver|cp.LoopMeta()|0", ["keyed"], .thm .keyedCopy⟩,
  ⟨0x2c06ff01b2268ebd, "range|pkg/basm/templateresolver.go|templateResolver|fi.LoopMeta()|0", ["keyed"], .thm .keyedCopy⟩,
  ⟨0x2b14c2251cf7fa18, "range|pkg/basm/templateresolver.go|templateResolver|fragmentRem|0", ["keyed"], .thm .keyedCopy⟩,
  ⟨0xf842abc8b16903f1, "range|pkg/basm/templateresolver.go|templateResolver|sectionRem|0", ["calls", "keyed"], .insens "deletes bi.sections[name] for the ranged name unless a processor still runs that section (reads bi.cps only): every iteration touches only the cell of its own key"⟩,
  ⟨0x56242f343e6d8cd4, "range|pkg/basm/templates.go|(*BasmInstance).templateAutoMark|bi.fragments|0", ["calls", "keyed"], .thm .framedWalk⟩,
  ⟨0x04d1a6251cbda531, "range|pkg/basm/templates.go|(*BasmInstance).templateAutoMark|bi.sections|0", ["calls", "keyed"], .thm .framedWalk⟩,
  ⟨0x1181f1ad8cfca388, "range|pkg/basm/templates.go|applyTemplate|params|0", ["accum"], .unproved "writes params[key] while ranging over params (entries added during the walk may or may not be visited); result is the same only because a default_ key never names another default_ key"⟩,
  ⟨0x241871560d380ef2, "range|pkg/basm/templates.go|applyTemplate|params|1", ["keyed"], .thm .keyedCopy⟩,
  ⟨0x4530b61e188d5859, "range|pkg/bmline/basmlineconv.go|BasmLine2Text|arg.LoopMeta()|0", ["concat"], .offpath "BasmLine2Text is called from the package tests only"⟩,
  ⟨0x74ec6bbf02ab0a3e, "range|pkg/bmline/basmlineconv.go|BasmLine2Text|bline.Operation.LoopMeta()|0", ["concat"], .offpath "BasmLine2Text is called from the package tests only"⟩,
  ⟨0x6c2cfd8e736c0ebb, "range|pkg/bmline/copy.go|(*BasmBody).Copy|body.BasmMeta.LoopMeta()|0", ["accum", "calls"], .thm .keyedCopy⟩,
  ⟨0x949c1320412c21dc, "range|pkg/bmline/copy.go|(*BasmElement).Copy|el.BasmMeta.LoopMeta()|0", ["accum", "calls"], .thm .keyedCopy⟩,
  ⟨0xc53e7168aa4f7513, "range|pkg/bmline/copy.go|(*BasmLine).Copy|line.BasmMeta.LoopMeta()|0", ["accum", "calls"], .thm .keyedCopy⟩,
  ⟨0x83f33fecb1345684, "range|pkg/bmline/matchers.go|MatchArg|m.LoopMeta()|0", ["calls", "early"], .thm .membership⟩,
  ⟨0x7cbdc9fc001dac65, "range|pkg/bmline/matchers.go|MatchMeta|m.LoopMeta()|0", ["calls", "early"], .thm .membership⟩,
  ⟨0xef247dc3bc1b50dc, "range|pkg/bmline/transform.go|(*BasmBody).PrefixMeta|prefix.LoopMeta()|0", ["accum", "calls"], .thm .keyedCopy⟩,
  ⟨0xf99bf66849266fdf, "range|pkg/bmline/transform.go|(*BasmBody).PrefixMeta|prefix.LoopMeta()|1", ["accum", "calls"], .thm .keyedCopy⟩,
  ⟨0x4da042309b08bd96, "range|pkg/bmline/transform.go|(*BasmBody).PrefixMeta|prefix.LoopMeta()|2", ["accum", "calls"], .thm .keyedCopy⟩,
  ⟨0xa1ff059b6c1aca41, "range|pkg/bmline/transform.go|(*BasmBody).PrefixMeta|prefix.LoopMeta()|3", ["accum", "calls"], .thm .keyedCopy⟩,
  ⟨0x8c39be07d9e04da4, "range|pkg/bmnumbers/bmnumbers.go|init|t.importMatchers()|0", ["keyed"], .thm .keyedCopy⟩,
  ⟨0xd9c76593c9268bcd, "range|pkg/bmnumbers/dynamical_type.go|EventuallyCreateType|newType.importMatchers()|0", ["keyed"], .thm .keyedCopy⟩,
  ⟨0x27846a94d96448bc, "range|pkg/bmnumbers/import.go|ImportString|AllMatchers|0", ["calls", "early"], .thm .importString⟩,
  ⟨0x7bf769d3d2306045, "range|pkg/bmqsim/templates.go|(*BmQSimulator).ApplyTemplateBundle|allTemplates|0", ["calls", "early", "output"], .insens "one output file per key of a literal table: distinct paths; a template error aborts the tool"⟩,
  ⟨0x83d6a7976ad65a8f, "range|pkg/bmreqs/engine.go|(*ReqRoot).Clone|n.bmReqMap|0", ["accum", "calls", "early"], .thm .consumers⟩,
  ⟨0x62d66fb401f3dcb5, "range|pkg/bondgo/bondgoextra.go|(*Output).Write|link_outputs|0", ["pure"], .offpath "runtime stub of the bondgo package, not part of the compiler"⟩,
  ⟨0x1289afd9240c2089, "range|pkg/bondgo/converter.go|(*BondgoCheck).Create_Bondmachine|bg.IOr|0", ["accum"], .thm .setInsert⟩,
  ⟨0x99792a54b5b6c347, "range|pkg/bondgo/converter.go|(*BondgoCheck).Create_Bondmachine|bg.IOr|1", ["accum", "append", "calls", "sorted"], .unproved "bonds are added to the machine in map order of the processor table (Add_bond appends to Links): bond numbering of multi-processor programs follows it"⟩,
  ⟨0x11c8127a26d4072d, "range|pkg/bondgo/converter.go|(*BondgoCheck).Create_Bondmachine|bg.IOr|2", ["accum", "calls"], .unproved "bonds are added to the machine in map order of the processor table (Add_bond appends to Links): bond numbering of multi-processor programs follows it"⟩,
  ⟨0x71dcf720ddea952b, "range|pkg/bondgo/converter.go|(*BondgoCheck).Create_Bondmachine|bg.IOr|3", ["accum", "append", "sorted"], .sortedAfter⟩,
  ⟨0x9cdf0261becbadd4, "range|pkg/bondgo/converter.go|(*BondgoCheck).Create_Bondmachine|creqs|0", ["accum", "calls"], .insens "body ignores the entry: one identical call per entry"⟩,
  ⟨0x5a1febdac180ec18, "range|pkg/bondgo/converter.go|(*BondgoCheck).Create_Bondmachine|unconnected_inputs|0", ["append", "keyed", "sorted"], .sortedAfter⟩,
  ⟨0x0391eafd608e8397, "range|pkg/bondgo/converter.go|(*BondgoCheck).Create_Etherbond_Cluster|otherres.Map.Assoc|0", ["accum", "early", "xdep"], .insens "counts the outputs connected to this id up to two (connected, then multi): whether there are at least one / at least two does not depend on the order"⟩,
  ⟨0x10de6c3ab149bfbe, "range|pkg/bondgo/converter.go|(*BondgoCheck).Create_Etherbond_Cluster|otherres.Map.Assoc|1", ["accum"], .insens "computes existence flags (connected / multi) over all entries"⟩,
  ⟨0x1fed7db5a9bf6031, "range|pkg/bondgo/converter.go|(*BondgoCheck).Create_Etherbond_Cluster|res.Map.Assoc|0", ["append", "early", "keyed"], .unproved "cluster peers inputs/outputs are appended in map order of the io map; not exercised by the corpus (needs -use-etherbond / -use-udpbond)"⟩,
  ⟨0xee955ca9e0611778, "range|pkg/bondgo/converter.go|(*BondgoCheck).Create_Udpbond_Cluster|otherres.Map.Assoc|0", ["accum", "early", "xdep"], .insens "counts the outputs connected to this id up to two (connected, then multi): whether there are at least one / at least two does not depend on the order"⟩,
  ⟨0x3b4c200f144274ef, "range|pkg/bondgo/converter.go|(*BondgoCheck).Create_Udpbond_Cluster|otherres.Map.Assoc|1", ["accum"], .insens "computes existence flags (connected / multi) over all entries"⟩,
  ⟨0x40f771f0051b7928, "range|pkg/bondgo/converter.go|(*BondgoCheck).Create_Udpbond_Cluster|res.Map.Assoc|0", ["append", "early", "keyed"], .unproved "cluster peers inputs/outputs are appended in map order of the io map; not exercised by the corpus (needs -use-etherbond / -use-udpbond)"⟩,
  ⟨0xb51dce4ca8586608, "range|pkg/bondgo/converter.go|Assembly_2_Processor|bgmain.Program|0", ["send"], .insens "one ROM-size notification per routine to the usage monitor, which keeps a maximum per processor"⟩,
  ⟨0xf6c4480ba6e185ba, "range|pkg/bondgo/expr.go|(*BondgoCheck).Expr_eval|bgfunct.Vars|0", ["calls", "early", "output", "send"], .insens "releases every variable of the scope. Order insensitive ONLY because the allocator answers a request with the lowest free register and keeps no memory of releases (row policy|pkg/bondgo/runinfo.go|(*BondgoRuninfo).Var_assigner): under a policy that depends on the order of earlier releases (last-released-first, free lists) this walk leaks map order into the register numbers of the emitted assembly"⟩,
  ⟨0xf5d9ab90b99753bb, "range|pkg/bondgo/functcell.go|(*BondgoFunctions).String|fn.Functions|0", ["calls", "concat"], .debugOnly⟩,
  ⟨0xece72facaaa94f00, "range|pkg/bondgo/requirements.go|(*BondgoRequirements).Dump_Requirements|reqmnt.Chanr|0", ["calls", "concat"], .unproved "-show-requirements text lists processors / io / channels in map order (diagnostic output on stdout)"⟩,
  ⟨0x36960c7ab9eeaf88, "range|pkg/bondgo/requirements.go|(*BondgoRequirements).Dump_Requirements|reqmnt.IOr|0", ["calls", "concat"], .unproved "-show-requirements text lists processors / io / channels in map order (diagnostic output on stdout)"⟩,
  ⟨0x67d152c059e4b778, "range|pkg/bondgo/requirements.go|(*BondgoRequirements).Dump_Requirements|reqmnt.Procr|0", ["calls", "concat"], .unproved "-show-requirements text lists processors / io / channels in map order (diagnostic output on stdout)"⟩,
  ⟨0x4408ca4dadd0dec3, "range|pkg/bondgo/visiter.go|(*BondgoCheck).Visit|bg.Clean.Vars|0", ["calls", "early", "output", "send"], .insens "releases every variable of the scope. Order insensitive ONLY because the allocator answers a request with the lowest free register and keeps no memory of releases (row policy|pkg/bondgo/runinfo.go|(*BondgoRuninfo).Var_assigner): under a policy that depends on the order of earlier releases (last-released-first, free lists) this walk leaks map order into the register numbers of the emitted assembly"⟩,
  ⟨0xb7f805fd813d9087, "range|pkg/bondmachine/bmapi.go|(*Bondmachine).WriteBMAPI|apiFiles|0", ["calls", "early"], .insens "one output file per key of a literal table: distinct paths; an error aborts the tool"⟩,
  ⟨0x5748b5d5be3ee5e4, "range|pkg/bondmachine/bmapi.go|(*Bondmachine).WriteBMAPI|apiFiles|1", ["calls", "early"], .insens "one output file per key of a literal table: distinct paths; an error aborts the tool"⟩,
  ⟨0x4e35cb0ba595c175, "range|pkg/bondmachine/bmapi.go|(*Bondmachine).WriteBMAPI|auxFiles|0", ["calls", "early"], .insens "one output file per key of a literal table: distinct paths; an error aborts the tool"⟩,
  ⟨0xb20fe8364f0e63f4, "range|pkg/bondmachine/bmapi.go|(*Bondmachine).WriteBMAPI|bmapiParams|0", ["append", "sorted"], .sortedAfter⟩,
  ⟨0x75597d4ed9e20a9b, "range|pkg/bondmachine/bmapi.go|(*Bondmachine).WriteBMAPI|bmapiParams|1", ["append", "sorted"], .sortedAfter⟩,
  ⟨0x4b1f4a161f11cab0, "range|pkg/bondmachine/bmapi.go|(*Bondmachine).WriteBMAPI|cFiles|0", ["calls", "early"], .insens "one output file per key of a literal table: distinct paths; an error aborts the tool"⟩,
  ⟨0x6f93b9b45a8993f3, "range|pkg/bondmachine/bmapi.go|(*Bondmachine).WriteBMAPI|cFiles|1", ["calls", "early"], .insens "one output file per key of a literal table: distinct paths; an error aborts the tool"⟩,
  ⟨0x84360e10a45824ec, "range|pkg/bondmachine/bmapi.go|(*Bondmachine).WriteBMAPI|exFiles|0", ["calls", "early"], .insens "one output file per key of a literal table: distinct paths; an error aborts the tool"⟩,
  ⟨0xc0684d144b8a838f, "range|pkg/bondmachine/bmapi.go|(*Bondmachine).WriteBMAPI|exFiles|1", ["calls", "early"], .insens "one output file per key of a literal table: distinct paths; an error aborts the tool"⟩,
  ⟨0x105bc0e75391d66f, "range|pkg/bondmachine/bmapi.go|(*Bondmachine).WriteBMAPI|modFiles|0", ["calls", "early"], .insens "one output file per key of a literal table: distinct paths; an error aborts the tool"⟩,
  ⟨0x4bbb3b1d05669fed, "range|pkg/bondmachine/bmapi.go|(*Bondmachine).WriteBMAPI|vFiles|0", ["calls", "early"], .insens "one output file per key of a literal table: distinct paths; an error aborts the tool"⟩,
  ⟨0xf892d5e93b2bf9ea, "range|pkg/bondmachine/bmapi.go|(*Bondmachine).WriteBMAPI|vFiles|1", ["calls", "early"], .insens "one output file per key of a literal table: distinct paths; an error aborts the tool"⟩,
  ⟨0x6a36787e524ee0b2, "range|pkg/bondmachine/bondmachine.go|(*Bondmachine).Dot|subresult|0", ["concat"], .unproved "graphviz clusters are emitted in map order (-emit-dot, a drawing, not a build artefact)"⟩,
  ⟨0x39f5d1bf7c29c51b, "range|pkg/bondmachine/bondmachine.go|(*Bondmachine).Dot|subresult|1", ["concat"], .unproved "graphviz clusters are emitted in map order (-emit-dot, a drawing, not a build artefact)"⟩,
  ⟨0xdc40f339dbb4a34c, "range|pkg/bondmachine/bondmachine.go|(*Bondmachine).GetMultiAssembly|bmach.List_bonds()|0", ["append"], .unproved "List_bonds returns a map: bond list of the multi assembly in map order"⟩,
  ⟨0x1e7770f74c0402c6, "range|pkg/bondmachine/deferred.go|(*VM).ExecuteDeferredInstructions|vm.DeferredInstructions|0", ["calls", "keyed"], .offpath "simulation (deferred instructions of the VM), C09"⟩,
  ⟨0xa9fcc41d1c5e8c87, "range|pkg/bondmachine/exmod_bmapi.go|(*BMAPIExtra).Get_Params|sl.Maps.Assoc|0", ["concat", "keyed"], .unproved "the inputs / outputs comma lists of the bmapi extra module are built in map order: every consumer has to sort before use. Write_verilog_board sorts them in place for aximm; for uartusb it did not (finding C07-bmapi-uartusb-port-order, repo_patches/C07-bmapi-uartusb-ports-sorted.diff); exercised by the create-verilog-bmapi-* jobs"⟩,
  ⟨0x9b528672e1e4d548, "range|pkg/bondmachine/exmod_bondirect.go|(*Bondirect_extra).ExtraFiles|wire2wireSenders|0", ["append"], .unproved "wire senders appended in map order; not exercised by the corpus (needs a bondirect cluster)"⟩,
  ⟨0x1e7df36d31b35351, "range|pkg/bondmachine/exmod_bondirect.go|(*Bondirect_extra).Get_Params|sl.Maps.Assoc|0", ["concat"], .unproved "comma lists of the extra module parameters follow map order of the io map; not exercised by the corpus (needs a cluster description)"⟩,
  ⟨0x106249185143d030, "range|pkg/bondmachine/exmod_bondirect.go|(*Bondirect_extra).Get_Params|sl.Maps.Assoc|1", ["concat"], .unproved "comma lists of the extra module parameters follow map order of the io map; not exercised by the corpus (needs a cluster description)"⟩,
  ⟨0xad2de1266ddd0a33, "range|pkg/bondmachine/exmod_etherbond.go|(*Etherbond_extra).Get_Params|sl.Maps.Assoc|0", ["concat"], .unproved "comma lists of the extra module parameters follow map order of the io map; not exercised by the corpus (needs a cluster description)"⟩,
  ⟨0xbad6ed45a5afa54a, "range|pkg/bondmachine/exmod_etherbond.go|(*Etherbond_extra).Get_Params|sl.Maps.Assoc|1", ["concat"], .unproved "comma lists of the extra module parameters follow map order of the io map; not exercised by the corpus (needs a cluster description)"⟩,
  ⟨0x18e1be50a773dcfa, "range|pkg/bondmachine/exmod_uart.go|(*UartExtra).Get_Params|sl.Maps.Assoc|0", ["keyed"], .thm .keyedCopy⟩,
  ⟨0xc1641135e3e75961, "range|pkg/bondmachine/exmod_udpbond.go|(*Udpbond_extra).Get_Params|sl.Maps.Assoc|0", ["concat"], .unproved "comma lists of the extra module parameters follow map order of the io map; not exercised by the corpus (needs a cluster description)"⟩,
  ⟨0xac1d6227958dfc80, "range|pkg/bondmachine/exmod_udpbond.go|(*Udpbond_extra).Get_Params|sl.Maps.Assoc|1", ["concat"], .unproved "comma lists of the extra module parameters follow map order of the io map; not exercised by the corpus (needs a cluster description)"⟩,
  ⟨0xe6be2c19af16f794, "range|pkg/bondmachine/verilog.go|(*Bondmachine).Write_verilog_board|resolved_io|0", ["calls", "concat", "early"], .unproved "board glue emitted per resolved io in map order; not exercised by the corpus (needs a board mapping)"⟩,
  ⟨0x3d0855a93026b0d1, "range|pkg/bondmachine/verilog.go|(*Bondmachine).Write_verilog_board|uartParams|0", ["concat", "output"], .unproved "uart port list emitted in map order; not exercised by the corpus (needs -uart-mapfile)"⟩,
  ⟨0x165ddbeca674a11a, "range|pkg/bondmachine/verilog.go|(*Bondmachine).Write_verilog_board|uartParams|1", ["concat", "output"], .unproved "uart port list emitted in map order; not exercised by the corpus (needs -uart-mapfile)"⟩,
  ⟨0xf9e9fc7c270aac2f, "range|pkg/neuralbond/neuralbond.go|(*TrainedNet).WriteBasm|c.List|0", ["keyed"], .thm .setInsert⟩,
  ⟨0x9857194de328b30f, "range|pkg/procbuilder/deferred.go|(*VM).ExecuteDeferredInstructions|vm.DeferredInstructions|0", ["calls", "keyed"], .offpath "simulation (deferred instructions of the VM), C09"⟩,
  ⟨0xbc24251af4206835, "sortcmp|pkg/basm/creatorbm.go|(*BasmInstance).CreateConnectingProcessor|sort.Slice(ins)|0", ["calls"], .insens "compareStrings compares only the first number in the name (r1 and r01 tie), but the sorted list is used only through its length and the NUMBER of its last element, which is the same for every arrangement of tied elements"⟩,
  ⟨0x6cfaddcfd735b8c6, "sortcmp|pkg/basm/creatorbm.go|(*BasmInstance).CreateConnectingProcessor|sort.Slice(outs)|0", ["calls"], .insens "compareStrings compares only the first number in the name (r1 and r01 tie), but the sorted list is used only through its length and the NUMBER of its last element, which is the same for every arrangement of tied elements"⟩,
  ⟨0xb27df47c8dc40994, "sortcmp|pkg/basm/creatorbm.go|(*BasmInstance).CreateConnectingProcessor|sort.Slice(regs)|0", ["calls"], .insens "compareStrings compares only the first number in the name (r1 and r01 tie), but the sorted list is used only through its length and the NUMBER of its last element, which is the same for every arrangement of tied elements"⟩,
  ⟨0x35c24be1eb68369b, "sortcmp|pkg/basm/creatorbm.go|(*BasmInstance).CreateConnectingProcessor|sort.Sort(procbuilder.ByName(opCodes))|0", ["iface"], .insens "ByName.Less is < on Op_get_name(): a total order on the elements because opcode names are unique in Allopcodes (EventuallyCreateInstruction refuses a second opcode of the same name)"⟩,
  ⟨0x97196f9bf094ca59, "sortcmp|pkg/basm/templateresolver.go|templateResolver|sort.Sort(bmline.ByName(bi.cps))|0", ["iface"], .insens "bmline.ByName.Less is < on the element value (the CP name); metaProcessor keeps one element per CP name"⟩,
  ⟨0x0c3170105da858a1, "sortcmp|pkg/bondgo/converter.go|(*BondgoCheck).Create_Connecting_Processor|sort.Sort(procbuilder.ByName(opcodes))|0", ["iface"], .insens "ByName.Less is < on Op_get_name(): a total order on the elements because opcode names are unique in Allopcodes (EventuallyCreateInstruction refuses a second opcode of the same name)"⟩,
  ⟨0xf578f9fc1dfbea3a, "sortcmp|pkg/bondmachine/bmapi.go|(*Bondmachine).WriteBMAPI|sort.Slice(sortedKeys)|0", ["calls", "loop", "multi"], .unproved "natural-order comparator without tie-break: keys that differ only in leading zeros of the index compare equal and keep map order; the bmapi flow is not exercised by the corpus"⟩,
  ⟨0xd8cd1091d48398ef, "sortcmp|pkg/bondmachine/bmapi.go|(*Bondmachine).WriteBMAPI|sort.Slice(sortedKeys)|1", ["calls", "loop", "multi"], .unproved "natural-order comparator without tie-break: keys that differ only in leading zeros of the index compare equal and keep map order; the bmapi flow is not exercised by the corpus"⟩,
  ⟨0x55b70ce3c8a91306, "sortcmp|pkg/bondmachine/bondmachine.go|(*Bondmachine).AttachBenchmarkCoreV2|sort.Sort(procbuilder.ByName(opcodes))|0", ["iface"], .insens "ByName.Less is < on Op_get_name(): a total order on the elements because opcode names are unique in Allopcodes (EventuallyCreateInstruction refuses a second opcode of the same name)"⟩,
  ⟨0xe31d0563eaef5234, "sortcmp|pkg/bondmachine/bondmachine.go|(*Bondmachine).Attach_benchmark_core|sort.Sort(procbuilder.ByName(opcodes))|0", ["iface"], .insens "ByName.Less is < on Op_get_name(): a total order on the elements because opcode names are unique in Allopcodes (EventuallyCreateInstruction refuses a second opcode of the same name)"⟩,
  ⟨0xa32de049cb0a5889, "sortcmp|pkg/procbuilder/evolutionary.go|(*Machine).MelInit|sort.Sort(ByName(opcodes))|0", ["iface"], .offpath "evolutionary tools (mel), not a build path"⟩
]

/-- Does the table classify every generated site (same identity, same class)?  One merge pass:
    both lists are sorted by identity (the extractor sorts its output; KEEP `rows` SORTED BY ID,
    bytewise), so the kernel does at most `rows.length` comparisons — of the numeric keys
    (`siteKey id cls`), not of the strings.  The `#eval` below recomputes every row's key from its
    strings when this file is compiled, so a row cannot claim a key that is not the hash of what it
    says. -/
def coveredRows : List Site → List Row → Bool
  | [], _ => true
  | _ :: _, [] => false
  | s :: ss, r :: rs =>
    if r.key == s.key then coveredRows ss rs else coveredRows (s :: ss) rs

/-- sites of the generic shape (`Sched.sortedKeysKey`) are accepted by the rule, all the others need
    their row -/
def covered (sites : List Site) (rows : List Row) : Bool :=
  coveredRows (sites.filter (fun s => s.key != sortedKeysKey)) rows

/-- rows whose key is not the hash of their identity and class (must be empty) -/
def badKeys : List (String × Nat) :=
  rows.filterMap (fun r => if siteKey r.id r.cls == r.key then none else some (r.id, siteKey r.id r.cls))

-- evaluated by the Lean interpreter at compile time; an error here fails the build and prints
-- the key every offending row should carry
#eval show IO Unit from do
  unless badKeys.isEmpty do
    throw (IO.userError s!"SchedExpect: rows with a wrong key (id, expected key): {badKeys}")
  unless siteKey "*" ["sortedkeys"] == sortedKeysKey do
    throw (IO.userError s!"Sched.sortedKeysKey must be {siteKey "*" ["sortedkeys"]}")

end BMV.Sched.Expect
