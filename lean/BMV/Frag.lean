/-
  BMV.Frag — model of basm's fragment composer (C06).

  Go code modelled (/repo/pkg/basm): `fragmentComposer` (fragmentcomposer.go), `GetLinks` /
  `GetEndpoints` (links.go), the `filinkatt`/`fidef`/`cpdef fragcollapse` meta data (meta.go),
  `CheckArg` / `NextResource` / `ReplaceArg` (pkg/bmline/transform.go) and, for the bonds, the
  ioatt pairing of `assembler2NewBondMachine` (creatorbm.go).

  * `Graph`    : fragment instances (declared resin/resout, straight-line integer body), links
                 between ports, external attachments.  Instances are numbered in a topological order.
  * `evalOut`  : dataflow evaluation of the graph.
  * `secSym`   : the section the composer builds for one `fragcollapse` list, with the symbolic
                 temporaries `tK`; `allocTemps`/`secRes` : NextResource/ReplaceArg; `render*` : text.
  * `bonds`    : link → IO renumbering (the currNewInput/currNewOutput counters) as bond list.
  * `runSec`   : sequential register-machine semantics of a section (one round).
  * `Net.run`  : operational semantics of the composed network with blocking hand-shaken channels
                 (executable; used by the oracle, predicts dead-locks).
  Core only (the oracle links this file).
-/
namespace BMV.Frag

/-! ## fragment bodies: straight-line integer code over the fragment's own registers -/

inductive Instr where
  | rset (d v : Nat)
  | inc (d : Nat)
  | dec (d : Nat)
  | clr (d : Nat)
  | add (d s : Nat)
  | cpy (d s : Nat)
  | mult (d s : Nat)
  deriving DecidableEq, Repr, Inhabited

namespace Instr

def dst : Instr → Nat
  | rset d _ | inc d | dec d | clr d | add d _ | cpy d _ | mult d _ => d

/-- registers read -/
def srcs : Instr → List Nat
  | rset _ _ | clr _ => []
  | inc d | dec d => [d]
  | add d s | mult d s => [d, s]
  | cpy _ s => [s]

def regs (i : Instr) : List Nat := i.dst :: i.srcs

/-- new value of the destination at register size `w` (values are taken modulo `2^w`, as the Go
    simulator's uintN registers do) -/
def val (w : Nat) (ρ : Nat → Nat) : Instr → Nat
  | rset _ v => v % 2 ^ w
  | inc d => (ρ d + 1) % 2 ^ w
  | dec d => (ρ d + 2 ^ w - 1) % 2 ^ w
  | clr _ => 0
  | add d s => (ρ d + ρ s) % 2 ^ w
  | cpy _ s => ρ s
  | mult d s => (ρ d * ρ s) % 2 ^ w

def name : Instr → String
  | rset .. => "rset" | inc .. => "inc" | dec .. => "dec" | clr .. => "clr"
  | add .. => "add" | cpy .. => "cpy" | mult .. => "mult"

end Instr

def upd {α : Type} [DecidableEq α] (ρ : α → Nat) (d : α) (v : Nat) : α → Nat :=
  fun r => if r = d then v else ρ r

def Instr.exec (w : Nat) (ρ : Nat → Nat) (i : Instr) : Nat → Nat := upd ρ i.dst (i.val w ρ)

def runBody (w : Nat) (b : List Instr) (ρ : Nat → Nat) : Nat → Nat :=
  b.foldl (fun ρ i => i.exec w ρ) ρ

structure Fragment where
  name : String := ""
  resin : List Nat := []
  resout : List Nat := []
  body : List Instr := []
  deriving Repr, Inhabited

def loadRegs (rs vs : List Nat) (ρ : Nat → Nat) : Nat → Nat :=
  (rs.zip vs).foldl (fun ρ rv => upd ρ rv.1 rv.2) ρ

/-- the function a fragment computes: load `resin`, run the body, read `resout` -/
def Fragment.fn (w : Nat) (f : Fragment) (vs : List Nat) : List Nat :=
  f.resout.map (runBody w f.body (loadRegs f.resin vs (fun _ => 0)))

/-- "defined before use": every register read is in `D` or written earlier; returns the final set -/
def defsOk : List Nat → List Instr → Option (List Nat)
  | D, [] => some D
  | D, i :: is => if i.srcs.all (· ∈ D) then defsOk (i.dst :: D) is else none

/-- well behaved fragment: distinct `resin`, the body reads only `resin` (or what it wrote itself),
    every `resout` register is defined at the end -/
def Fragment.wb (f : Fragment) : Bool :=
  decide f.resin.Nodup &&
  match defsOk f.resin f.body with
  | some D => f.resout.all (· ∈ D)
  | none => false

/-! ## graphs -/

inductive Src where
  | ext (k : Nat)            -- BM input k
  | out (i p : Nat)          -- output port p of instance i
  deriving DecidableEq, Repr, Inhabited

inductive Dst where
  | ext (k : Nat)            -- BM output k
  | inp (i j : Nat)          -- input port j of instance i
  deriving DecidableEq, Repr, Inhabited

structure Link where
  name : String := ""
  src : Src
  dst : Dst
  deriving Repr, Inhabited

structure Inst where
  name : String := ""
  frag : Fragment
  deriving Repr, Inhabited

structure Graph where
  w : Nat := 16
  insts : List Inst := []
  links : List Link := []
  deriving Repr, Inhabited

namespace Graph

def frag (g : Graph) (i : Nat) : Fragment := ((g.insts[i]?).map (·.frag)).getD {}
def iname (g : Graph) (i : Nat) : String := ((g.insts[i]?).map (·.name)).getD "?"
def nIn (g : Graph) (i : Nat) : Nat := (g.frag i).resin.length
def nOut (g : Graph) (i : Nat) : Nat := (g.frag i).resout.length

/-- the link feeding input port j of instance i (Go: `GetLinks(FILINK, fi, j, "input")`, first) -/
def inSrc (g : Graph) (i j : Nat) : Option Src :=
  (g.links.find? (fun L => L.dst == Dst.inp i j)).map (·.src)

/-- number of links attached to an input port (Go rejects > 1) -/
def inCount (g : Graph) (i j : Nat) : Nat := g.links.countP (fun L => L.dst == Dst.inp i j)

def srcOk (g : Graph) (i : Nat) : Src → Bool
  | .ext _ => true
  | .out i' p => decide (i' < i) && decide (p < g.nOut i')

/-- well formed: links go from a lower to a higher instance index (the numbering is a topological
    order), ports exist, every input port has exactly one link, fragments are well behaved -/
def wf (g : Graph) : Bool :=
  (List.range g.insts.length).all (fun i =>
    (g.frag i).wb &&
    (List.range (g.nIn i)).all (fun j =>
      g.inCount i j == 1 &&
      match g.inSrc i j with
      | some s => g.srcOk i s
      | none => false)) &&
  g.links.all (fun L =>
    (match L.dst with
      | .ext _ => true
      | .inp i j => decide (i < g.insts.length) && decide (j < g.nIn i)) &&
    (match L.src with
      | .ext _ => true
      | .out i p => decide (i < g.insts.length) && decide (p < g.nOut i)))

end Graph

/-! ## dataflow evaluation -/

/-- value of a source with `fuel` levels of recursion (instance i needs fuel i+1) -/
def val (g : Graph) (inputs : List Nat) : Nat → Src → Nat
  | _, .ext k => inputs.getD k 0
  | 0, .out _ _ => 0
  | f + 1, .out i p =>
    (((g.frag i).fn g.w ((List.range (g.nIn i)).map fun j =>
        match g.inSrc i j with
        | some s => val g inputs f s
        | none => 0))).getD p 0

/-- value of output port p of instance i -/
def evalPort (g : Graph) (inputs : List Nat) (i p : Nat) : Nat :=
  val g inputs g.insts.length (.out i p)

/-- the link feeding BM output k -/
def outSrc (g : Graph) (k : Nat) : Option Src :=
  (g.links.find? (fun L => L.dst == Dst.ext k)).map (·.src)

def evalSrc (g : Graph) (inputs : List Nat) : Src → Nat
  | .ext k => inputs.getD k 0
  | .out i p => evalPort g inputs i p

/-- dataflow evaluation: value at BM output k -/
def evalOut (g : Graph) (inputs : List Nat) (k : Nat) : Option Nat :=
  (outSrc g k).map (evalSrc g inputs)

/-- BM outputs that are attached, ascending -/
def extOuts (g : Graph) : List Nat :=
  let ks := g.links.filterMap (fun L => match L.dst with | .ext k => some k | _ => none)
  (List.range (ks.foldl max 0 + 1)).filter (fun k => ks.contains k)

def nExtOut (g : Graph) : Nat :=
  (g.links.filterMap (fun L => match L.dst with | .ext k => some (k + 1) | _ => none)).foldl max 0
def nExtIn (g : Graph) : Nat :=
  (g.links.filterMap (fun L => match L.src with | .ext k => some (k + 1) | _ => none)).foldl max 0

/-! ## the composer: one `cpdef … fragcollapse:` list `l` (instance indices, in list order) -/

inductive InKind where
  | none                      -- no link: nothing is emitted
  | port                      -- external endpoint: `mov resin, iK`
  | temp (i p : Nat)          -- producer (instance i, port p) is in the same list: `mov resin, tK`
  deriving DecidableEq, Repr

def inKind (g : Graph) (l : List Nat) (i j : Nat) : InKind :=
  match g.inSrc i j with
  | none => .none
  | some (.ext _) => .port
  | some (.out i' p') => if l.contains i' then .temp i' p' else .port

def isPortIn (g : Graph) (l : List Nat) (ij : Nat × Nat) : Bool := inKind g l ij.1 ij.2 == .port

/-- some consumer of output port (i,p) is outside the list (another CP or a BM output) -/
def hasExtCons (g : Graph) (l : List Nat) (ip : Nat × Nat) : Bool :=
  g.links.any (fun L => L.src == Src.out ip.1 ip.2 &&
    match L.dst with | .ext _ => true | .inp i' _ => !(l.contains i'))

/-- some consumer of output port (i,p) is inside the list -/
def hasIntCons (g : Graph) (l : List Nat) (ip : Nat × Nat) : Bool :=
  g.links.any (fun L => L.src == Src.out ip.1 ip.2 &&
    match L.dst with | .ext _ => false | .inp i' _ => l.contains i')

def outPairs (g : Graph) (l : List Nat) : List (Nat × Nat) :=
  l.flatMap (fun i => (List.range (g.nOut i)).map (fun p => (i, p)))
def inPairs (g : Graph) (l : List Nat) : List (Nat × Nat) :=
  l.flatMap (fun i => (List.range (g.nIn i)).map (fun j => (i, j)))

/-- number of `pred` elements strictly before the first occurrence of `x`
    (the value of a `currNew…` counter when `x` is reached) -/
def rank {α : Type} [DecidableEq α] (pred : α → Bool) : List α → α → Nat
  | [], _ => 0
  | y :: ys, x => if y = x then 0 else (if pred y then 1 else 0) + rank pred ys x

def outIdx (g : Graph) (l : List Nat) (i p : Nat) : Nat := rank (hasExtCons g l) (outPairs g l) (i, p)
def tmpIdx (g : Graph) (l : List Nat) (i p : Nat) : Nat := rank (hasIntCons g l) (outPairs g l) (i, p)
def inIdx (g : Graph) (l : List Nat) (i j : Nat) : Nat := rank (isPortIn g l) (inPairs g l) (i, j)

/-- `newOutputs[i][p]` : CP output index, if some consumer is external -/
def outPort (g : Graph) (l : List Nat) (i p : Nat) : Option Nat :=
  if hasExtCons g l (i, p) then some (outIdx g l i p) else none
/-- `newRegAsOutputs[i][p]` : temporary index, if some consumer is internal -/
def tempIdx (g : Graph) (l : List Nat) (i p : Nat) : Option Nat :=
  if hasIntCons g l (i, p) then some (tmpIdx g l i p) else none
/-- `newInputs[i][j]` : CP input index, if the producer is external -/
def inPort (g : Graph) (l : List Nat) (i j : Nat) : Option Nat :=
  if isPortIn g l (i, j) then some (inIdx g l i j) else none

/-- register names of a section: real registers and the composer's temporaries -/
inductive Reg where
  | r (n : Nat)
  | t (k : Nat)
  deriving DecidableEq, Repr, Inhabited

inductive SInstr where
  | movIn (d : Reg) (port : Nat)        -- mov d, iK
  | movOut (port : Nat) (s : Reg)       -- mov oK, s
  | movReg (d s : Reg)                  -- mov d, s
  | op (i : Instr)                      -- a fragment body line
  | jStart                              -- j _start
  deriving DecidableEq, Repr, Inhabited

def enumFrom {α : Type} : Nat → List α → List (Nat × α)
  | _, [] => []
  | n, x :: xs => (n, x) :: enumFrom (n + 1) xs
def enum {α : Type} (l : List α) : List (Nat × α) := enumFrom 0 l

def loadsInL (g : Graph) (l : List Nat) (i : Nat) (items : List (Nat × Nat)) : List SInstr :=
  items.filterMap fun jr => (inPort g l i jr.1).map fun k => SInstr.movIn (.r jr.2) k

def loadsTempL (g : Graph) (l : List Nat) (i : Nat) (items : List (Nat × Nat)) : List SInstr :=
  items.filterMap fun jr =>
    match inKind g l i jr.1 with
    | .temp i' p' => (tempIdx g l i' p').map fun k => SInstr.movReg (.r jr.2) (.t k)
    | _ => none

def storesOutL (g : Graph) (l : List Nat) (i : Nat) (items : List (Nat × Nat)) : List SInstr :=
  items.filterMap fun pr => (outPort g l i pr.1).map fun k => SInstr.movOut k (.r pr.2)

def storesTempL (g : Graph) (l : List Nat) (i : Nat) (items : List (Nat × Nat)) : List SInstr :=
  items.filterMap fun pr => (tempIdx g l i pr.1).map fun k => SInstr.movReg (.t k) (.r pr.2)

/-- `mov resin[j], iK` for the externally fed input ports -/
def loadsIn (g : Graph) (l : List Nat) (i : Nat) : List SInstr := loadsInL g l i (enum (g.frag i).resin)
/-- `mov resin[j], tK` for the input ports fed from inside the list -/
def loadsTemp (g : Graph) (l : List Nat) (i : Nat) : List SInstr := loadsTempL g l i (enum (g.frag i).resin)
/-- `mov oK, resout[p]` -/
def storesOut (g : Graph) (l : List Nat) (i : Nat) : List SInstr := storesOutL g l i (enum (g.frag i).resout)
/-- `mov tK, resout[p]` -/
def storesTemp (g : Graph) (l : List Nat) (i : Nat) : List SInstr := storesTempL g l i (enum (g.frag i).resout)

/-- the lines emitted for one instance of the list -/
def block (g : Graph) (l : List Nat) (i : Nat) : List SInstr :=
  loadsIn g l i ++ loadsTemp g l i ++ (g.frag i).body.map .op ++ storesOut g l i ++ storesTemp g l i

/-- the composed section before the temporaries are resolved -/
def secSym (g : Graph) (l : List Nat) : List SInstr :=
  l.flatMap (block g l) ++ [.jStart]

namespace SInstr
def regs : SInstr → List Reg
  | movIn d _ => [d]
  | movOut _ s => [s]
  | movReg d s => [d, s]
  | op i => i.regs.map .r
  | jStart => []
def mapReg (σ : Reg → Reg) : SInstr → SInstr
  | movIn d k => movIn (σ d) k
  | movOut k s => movOut k (σ s)
  | movReg d s => movReg (σ d) (σ s)
  | op i => op i
  | jStart => jStart
end SInstr

def secRegs (sec : List SInstr) : List Reg := sec.flatMap SInstr.regs

/-- real registers occurring in a section (what `CheckArg` sees for `r<N>`) -/
def usedR (sec : List SInstr) : List Nat :=
  (secRegs sec).filterMap fun | .r n => some n | .t _ => none

/-- `NextResource`: the lowest `rN` not occurring (the search is bounded by max+2, below which a
    free index always exists; Go's own bound is 10000) -/
def lowestFree (used : List Nat) : Nat :=
  ((List.range (used.foldl max 0 + 2)).find? (fun n => !used.contains n)).getD (used.foldl max 0 + 1)

/-- registers chosen for t0 … t(k-1): each `ReplaceArg` makes the chosen register occur -/
def allocTemps : List Nat → Nat → List Nat
  | _, 0 => []
  | used, k + 1 => let f := lowestFree used; f :: allocTemps (f :: used) k

/-- number of temporaries the resolution loop handles: t0, t1, … while they occur -/
def countTemps (sec : List SInstr) : Nat :=
  let ts := (secRegs sec).filterMap fun | .t k => some k | .r _ => none
  ((List.range (ts.length + 1)).find? (fun k => !ts.contains k)).getD ts.length

def tempRegs (sec : List SInstr) : List Nat := allocTemps (usedR sec) (countTemps sec)

def substReg (T : List Nat) : Reg → Reg
  | .r n => .r n
  | .t k => match T[k]? with | some n => .r n | none => .t k

/-- the composed section as the composer leaves it (temporaries replaced) -/
def secRes (g : Graph) (l : List Nat) : List SInstr :=
  let s := secSym g l
  s.map (SInstr.mapReg (substReg (tempRegs s)))

/-! ## partitions, bonds -/

structure CP where
  name : String := ""
  list : List Nat := []
  deriving Repr, Inhabited

abbrev Part := List CP

/-- producers precede consumers inside the list (`pre` = the instances already emitted) -/
def listTopoAux (g : Graph) (l : List Nat) : List Nat → List Nat → Bool
  | _, [] => true
  | pre, i :: suf =>
    ((List.range (g.nIn i)).all fun j =>
      match g.inSrc i j with
      | some (.out i' _) => !(l.contains i') || pre.contains i'
      | _ => true) && listTopoAux g l (pre ++ [i]) suf

def listTopo (g : Graph) (l : List Nat) : Bool := listTopoAux g l [] l

/-- every instance is in exactly one list, once; every list topologically ordered -/
def Part.ok (g : Graph) (pt : Part) : Bool :=
  let all := pt.flatMap (·.list)
  decide all.Nodup && (List.range g.insts.length).all (fun i => all.contains i) &&
  all.all (fun i => decide (i < g.insts.length)) && pt.all (fun c => listTopo g c.list)

def cpOf (pt : Part) (i : Nat) : Option Nat := pt.findIdx? (fun c => c.list.contains i)

inductive End where
  | bmIn (k : Nat) | bmOut (k : Nat) | cpIn (c k : Nat) | cpOut (c k : Nat)
  deriving DecidableEq, Repr, Inhabited

def End.render : End → String
  | .bmIn k => s!"i{k}" | .bmOut k => s!"o{k}"
  | .cpIn c k => s!"p{c}i{k}" | .cpOut c k => s!"p{c}o{k}"

def listOf (pt : Part) (c : Nat) : List Nat := ((pt[c]?).map (·.list)).getD []

def srcEnd (g : Graph) (pt : Part) : Src → Option End
  | .ext k => some (.bmIn k)
  | .out i p => (cpOf pt i).bind fun c => (outPort g (listOf pt c) i p).map fun k => .cpOut c k

def dstEnd (g : Graph) (pt : Part) : Dst → Option End
  | .ext k => some (.bmOut k)
  | .inp i j => (cpOf pt i).bind fun c => (inPort g (listOf pt c) i j).map fun k => .cpIn c k

/-- a link is internal when both ends are instances of the same list -/
def Link.internal (pt : Part) (L : Link) : Bool :=
  match L.src, L.dst with
  | .out i _, .inp i' _ => (cpOf pt i).isSome && cpOf pt i == cpOf pt i'
  | _, _ => false

/-- the bonds of the composed machine: one per non-internal link -/
def bonds (g : Graph) (pt : Part) : List (End × End) :=
  g.links.filterMap fun L =>
    if L.internal pt then none else
    match srcEnd g pt L.src, dstEnd g pt L.dst with
    | some a, some b => some (a, b)
    | _, _ => none

/-! ## semantics of a section: sequential register machine, one round -/

abbrev RegFile := Reg → Nat

def Instr.execR (w : Nat) (ρ : RegFile) (i : Instr) : RegFile :=
  upd ρ (.r i.dst) (i.val w (fun n => ρ (.r n)))

structure SecSt where
  regs : RegFile
  outs : List (Nat × Nat) := []        -- (output port, value) in emission order

def SInstr.step (w : Nat) (inp : Nat → Nat) (st : SecSt) : SInstr → SecSt
  | .movIn d k => { st with regs := upd st.regs d (inp k) }
  | .movOut k s => { st with outs := st.outs ++ [(k, st.regs s)] }
  | .movReg d s => { st with regs := upd st.regs d (st.regs s) }
  | .op i => { st with regs := i.execR w st.regs }
  | .jStart => st

/-- one round of a section: inputs are read from `inp` (by port), outputs are collected -/
def runSec (w : Nat) (inp : Nat → Nat) (sec : List SInstr) (st : SecSt) : SecSt :=
  sec.foldl (SInstr.step w inp) st

/-! ## dataflow evaluation of one collapse list, given the values at the CP's input ports -/

/-- value arriving at input port j of instance i of the list: from a CP input port, or the output
    (`F`) of a producer inside the list -/
def localIn (g : Graph) (l : List Nat) (inp : Nat → Nat) (F : Nat → Nat → Nat) (i j : Nat) : Nat :=
  match inKind g l i j with
  | .none => 0
  | .port => inp (inIdx g l i j)
  | .temp i' p' => F i' p'

/-- `F` satisfies the dataflow equations of the instances of the list -/
def LocalSol (g : Graph) (l : List Nat) (inp : Nat → Nat) (F : Nat → Nat → Nat) : Prop :=
  ∀ i ∈ l, ∀ p, p < g.nOut i →
    F i p = ((g.frag i).fn g.w ((List.range (g.nIn i)).map (localIn g l inp F i))).getD p 0

/-- what the section must emit, in order: (CP output port, value) for every output port of the list
    that has an external consumer -/
def expectedOuts (g : Graph) (l : List Nat) (F : Nat → Nat → Nat) : List (Nat × Nat) :=
  l.flatMap fun i => (enum (g.frag i).resout).filterMap fun pr =>
    (outPort g l i pr.1).map fun k => (k, F i pr.1)

/-! ## denotational semantics of the composed network

  Channel assumption, stated explicitly (it is C04's property: a bond delivers every value exactly
  once, in order, to every consumer): in round n every blocking read `mov r, iK` returns the value the
  bonded producer wrote in its round n.  A round of the whole network is then described by one value
  per endpoint, `σ : End → Nat`, and `σ` is *consistent* with the composed machine when
  (1) both ends of every bond carry the same value, (2) every CP, running its section sequentially
  from ANY register contents and reading `σ` on its input ports, writes on every output port the
  value `σ` gives to it, (3) the BM inputs carry the input vector.  -/

def srcValV (inputs : List Nat) (V : Nat → Nat → Nat) : Src → Nat
  | .ext k => inputs.getD k 0
  | .out i p => V i p

def inValV (g : Graph) (inputs : List Nat) (V : Nat → Nat → Nat) (i j : Nat) : Nat :=
  match g.inSrc i j with
  | some s => srcValV inputs V s
  | none => 0

/-- `V` (instance, output port ↦ value) satisfies the dataflow equations of the graph -/
def IsSolution (g : Graph) (inputs : List Nat) (V : Nat → Nat → Nat) : Prop :=
  ∀ i, i < g.insts.length → ∀ p, p < g.nOut i →
    V i p = ((g.frag i).fn g.w ((List.range (g.nIn i)).map (inValV g inputs V i))).getD p 0

structure Consistent (g : Graph) (pt : Part) (inputs : List Nat) (σ : End → Nat) : Prop where
  bond : ∀ ab ∈ bonds g pt, σ ab.2 = σ ab.1
  sec : ∀ c, c < pt.length → ∀ ρ : RegFile,
    ∀ kv ∈ (runSec g.w (fun k => σ (.cpIn c k)) (secRes g (listOf pt c)) ⟨ρ, []⟩).outs,
      σ (.cpOut c kv.1) = kv.2
  inp : ∀ k, σ (.bmIn k) = inputs.getD k 0

/-! ## operational semantics of the composed network (executable; the oracle uses it)

  Channel assumption (C04's property): an output port *offers* one value; every consumer bonded to
  it takes that value exactly once; the producer's `mov oK, r` completes when all consumers have
  taken it; a `mov r, iK` blocks until its producer offers a value it has not taken yet. -/

structure CpSt where
  pc : Nat := 0
  regs : List (Reg × Nat) := []          -- association list (executable, printable)
  offering : List (Nat × Nat × List End) := []   -- (out port, value, consumers that took it)
  deriving Inhabited

def getReg (rs : List (Reg × Nat)) (x : Reg) : Nat := ((rs.find? (·.1 == x)).map (·.2)).getD 0
def setReg (rs : List (Reg × Nat)) (x : Reg) (v : Nat) : List (Reg × Nat) :=
  (x, v) :: rs.filter (·.1 != x)

structure NetSt where
  cps : List CpSt
  inRound : List Nat                      -- per BM input: round being offered
  inTaken : List (List End)               -- per BM input: consumers that took the current value
  outs : List (List Nat)                  -- per BM output: captured stream
  deriving Inhabited

structure Net where
  w : Nat
  secs : List (List SInstr)
  bonds : List (End × End)
  nIn : Nat
  nOut : Nat

def Net.consumers (n : Net) (s : End) : List End := (n.bonds.filter (·.1 == s)).map (·.2)
def Net.producer (n : Net) (d : End) : Option End := (n.bonds.find? (·.2 == d)).map (·.1)

def instrRegsUpd (w : Nat) (rs : List (Reg × Nat)) (i : Instr) : List (Reg × Nat) :=
  setReg rs (.r i.dst) (i.val w (fun n => getReg rs (.r n)))

/-- try to advance CP `c` by one action; returns the new state and whether something happened -/
def Net.stepCp (n : Net) (inputs : List (List Nat)) (st : NetSt) (c : Nat) : NetSt × Bool :=
  match st.cps[c]?, n.secs[c]? with
  | some cs, some sec =>
    let len := sec.length
    let setCp (cs' : CpSt) : NetSt := { st with cps := st.cps.set c cs' }
    match sec[cs.pc % (if len = 0 then 1 else len)]? with
    | none => (st, false)
    | some ins =>
      let next : Nat := (cs.pc + 1) % (if len = 0 then 1 else len)
      match ins with
      | .jStart => (setCp { cs with pc := 0 }, true)
      | .op i => (setCp { cs with pc := next, regs := instrRegsUpd n.w cs.regs i }, true)
      | .movReg d s => (setCp { cs with pc := next, regs := setReg cs.regs d (getReg cs.regs s) }, true)
      | .movOut k s =>
        let me := End.cpOut c k
        let cons := n.consumers me
        match cs.offering.find? (·.1 == k) with
        | none =>
          -- raise valid; BM outputs capture at once
          let taken := cons.filter (fun e => match e with | .bmOut _ => true | _ => false)
          let outs' := cons.foldl (fun (o : List (List Nat)) e =>
            match e with
            | .bmOut m => o.set m ((o.getD m []) ++ [getReg cs.regs s])
            | _ => o) st.outs
          ({ st with cps := st.cps.set c { cs with offering := (k, getReg cs.regs s, taken) :: cs.offering },
                     outs := outs' }, true)
        | some (_, _, taken) =>
          if cons.all (fun e => taken.contains e) then
            (setCp { cs with pc := next, offering := cs.offering.filter (·.1 != k) }, true)
          else (st, false)
      | .movIn d k =>
        let me := End.cpIn c k
        match n.producer me with
        | some (.bmIn m) =>
          let rnd := st.inRound.getD m 0
          let tk := st.inTaken.getD m []
          match inputs[rnd]? with
          | none => (st, false)
          | some row =>
            if tk.contains me then (st, false) else
            let tk' := me :: tk
            let cs' := { cs with pc := next, regs := setReg cs.regs d (row.getD m 0) }
            let st' := { st with cps := st.cps.set c cs' }
            if (n.consumers (.bmIn m)).all (fun e => tk'.contains e) then
              ({ st' with inRound := st.inRound.set m (rnd + 1), inTaken := st.inTaken.set m [] }, true)
            else ({ st' with inTaken := st.inTaken.set m tk' }, true)
        | some (.cpOut c' k') =>
          match st.cps[c']? with
          | none => (st, false)
          | some ps =>
            match ps.offering.find? (·.1 == k') with
            | none => (st, false)
            | some (_, v, taken) =>
              if taken.contains me then (st, false) else
              let ps' := { ps with offering := ps.offering.map fun o =>
                              if o.1 == k' then (o.1, o.2.1, me :: o.2.2) else o }
              -- (c' ≠ c for composer output; handle c' = c by updating in sequence)
              let cps1 := st.cps.set c' ps'
              let cs1 := if c' = c then ps' else cs
              let cs' := { cs1 with pc := next, regs := setReg cs1.regs d v }
              ({ st with cps := cps1.set c cs' }, true)
        | _ => (st, false)
  | _, _ => (st, false)

/-- round-robin sweeps until every BM output has `rounds` values, or nothing moves (dead-lock), or
    the fuel ends -/
def Net.sweeps (n : Net) (inputs : List (List Nat)) (rounds : Nat) : Nat → NetSt → NetSt × String
  | 0, st => (st, "deadlock")   -- (a free-running producer keeps moving: no completion within the fuel)
  | f + 1, st =>
    if (List.range n.nOut).all (fun m => decide (rounds ≤ (st.outs.getD m []).length)) then (st, "ok")
    else
      let (st', moved) := (List.range n.secs.length).foldl
        (fun (acc : NetSt × Bool) c =>
          let (s', m) := n.stepCp inputs acc.1 c
          (s', acc.2 || m)) (st, false)
      if moved then n.sweeps inputs rounds f st' else (st', "deadlock")

def Net.init (n : Net) : NetSt :=
  { cps := n.secs.map (fun _ => {}), inRound := List.replicate n.nIn 0,
    inTaken := List.replicate n.nIn [], outs := List.replicate n.nOut [] }

def Net.run (n : Net) (inputs : List (List Nat)) : List (List Nat) × String :=
  let rounds := inputs.length
  let fuel := (rounds + 2) * ((n.secs.map List.length).foldl (· + ·) 0 + 4) * 4 + 16
  let (st, status) := n.sweeps inputs rounds fuel n.init
  (st.outs.map (·.take rounds), status)

/-- the network the composer builds for a partition -/
def compose (g : Graph) (pt : Part) : Net :=
  { w := g.w, secs := pt.map (fun c => secRes g c.list), bonds := bonds g pt,
    nIn := nExtIn g, nOut := nExtOut g }

/-! ## text -/

def Reg.render : Reg → String
  | .r n => s!"r{n}"
  | .t k => s!"t{k}"

def Instr.render : Instr → String
  | .rset d v => s!"rset r{d} {v}"
  | .inc d => s!"inc r{d}"
  | .dec d => s!"dec r{d}"
  | .clr d => s!"clr r{d}"
  | .add d s => s!"add r{d} r{s}"
  | .cpy d s => s!"cpy r{d} r{s}"
  | .mult d s => s!"mult r{d} r{s}"

/-- a section line as the composer leaves it (`mov` pseudo-instructions, symbols) -/
def SInstr.render : SInstr → String
  | .movIn d k => s!"mov {d.render} i{k}"
  | .movOut k s => s!"mov o{k} {s.render}"
  | .movReg d s => s!"mov {d.render} {s.render}"
  | .op i => i.render
  | .jStart => "j _start"

/-- the section text: `entry _start`, the first emitted line carries the symbol `_start`
    (the final `j _start` is not given the symbol by the composer) -/
def renderSec (sec : List SInstr) : List String :=
  let ls := sec.map SInstr.render
  let n := ls.length
  "entry _start" :: (enum ls).map fun kl =>
    if kl.1 = 0 && n > 1 then "_start: " ++ kl.2 else kl.2

/-- the assembled program as the disassembler prints it (iomode sync: i2rw / r2owa; cpy; j 0) -/
def SInstr.lower : SInstr → String
  | .movIn d k => s!"i2rw {d.render} i{k}"
  | .movOut k s => s!"r2owa {s.render} o{k}"
  | .movReg d s => s!"cpy {d.render} {s.render}"
  | .op i => i.render
  | .jStart => "j 0"

def secName (g : Graph) (l : List Nat) : String :=
  "coll_" ++ "_".intercalate (l.map g.iname)

/-- the IO attach list the composer appends (cp order, instance order, outputs before inputs) and
    the closing `ext` entries (in filinkatt order: per link, source attach then destination attach) -/
def ioAtt (g : Graph) (pt : Part) : List String :=
  let perCp := (enum pt).flatMap fun cc =>
    let l := cc.2.list
    l.flatMap fun i =>
      ((List.range (g.nOut i)).flatMap fun p =>
        match outPort g l i p with
        | none => []
        | some k =>
          g.links.filterMap fun L =>
            if L.src == Src.out i p &&
               (match L.dst with | .ext _ => true | .inp i' _ => !(l.contains i')) then
              some s!"{L.name}[cp:{cc.2.name},index:{k},type:output]"
            else none) ++
      ((List.range (g.nIn i)).flatMap fun j =>
        match inPort g l i j with
        | none => []
        | some k =>
          match g.links.find? (fun L => L.dst == Dst.inp i j) with
          | some L => [s!"{L.name}[cp:{cc.2.name},index:{k},type:input]"]
          | none => [])
  let exts := g.links.flatMap fun L =>
    (match L.src with | .ext k => [s!"{L.name}[cp:bm,index:{k},type:input]"] | _ => []) ++
    (match L.dst with | .ext k => [s!"{L.name}[cp:bm,index:{k},type:output]"] | _ => [])
  perCp ++ exts

end BMV.Frag
