/-
  BMV.Encode — model of the per-line assembler and the disassembler
  (Arch.Assembler_process_line + Opcode.Assembler, Machine.Disassembler + Opcode.Disassembler),
  generic over the layout table.  Operands are structured (the textual layer "r3"/"i2"/"17" is
  parsed by the oracle; strconv.Itoa/Atoi round-trip is trusted-base).  Core-only.
-/
import BMV.Arch
namespace BMV
open BMV.Bits

inductive Operand where
  | reg (k : Nat)
  | inp (k : Nat)
  | out (k : Nat)
  | num (n : Nat)
  | so (short : String) (k : Nat)   -- shared-object name <short><k>
  | bad                      -- any token that is none of the above
deriving DecidableEq, Repr, Inhabited

structure Instr where
  op : String
  args : List Operand
deriving DecidableEq, Repr, Inhabited

inductive AsmErr where
  | unknownOpcode | unmodelled | arity | operand | width | tooLong
deriving DecidableEq, Repr, Inhabited

namespace Encode

/-- one operand field; `none` = the Go assembler reports an error for this operand.
    Numbers are NOT range-checked here (zeros_prefix never truncates): an over-wide number yields a
    longer field, which `asm`'s final width check then rejects. -/
def encOperand (a : Arch) : FieldKind → Operand → Option Bits
  | .reg, .reg k => if k < 2 ^ a.r then some (encField a.r k) else none
  | .inp, .inp k => if k < a.n then some (encField a.inBits k) else none
  | .out, .out k => if k < a.m then some (encField a.outBits k) else none
  | .imm, .num n => some (encField a.rsize n)
  | .rom, .num n => some (encField a.o n)
  | .ram, .num n => some (encField a.l n)
  | .loc, .num n => some (encField a.locBits n)
  | .locO, .num n => some (encField (a.width .locO) n)
  | .const w, .num n => some (encField w n)
  | .so kind short, .so s k =>
    if s = short ∧ k < a.sharedNum kind then some (encField (a.sharedBits kind) k) else none   -- Process_shared
  | _, _ => none

def encOperands (a : Arch) : List FieldKind → List Operand → Option Bits
  | [], [] => some []
  | f :: fs, x :: xs =>
    match encOperand a f x, encOperands a fs xs with
    | some b, some bs => some (b ++ bs)
    | _, _ => none
  | _, _ => none

/-- what the assembler actually looks at: operand-less opcodes ignore the rest of the line -/
def normalise (i : Instr) : Instr := ⟨i.op, if lenientArity i.op then [] else i.args⟩

/-- the word *before* the width check (what the unrepaired `Assembler_process_line` returned) -/
def asmRaw (a : Arch) (i : Instr) : Except AsmErr Bits :=
  match a.ops.findIdx? (· == i.op) with
  | none => .error .unknownOpcode
  | some idx =>
    match layout i.op with
    | none => .error .unmodelled
    | some fs =>
      if fs.length ≠ (normalise i).args.length then .error .arity
      else match encOperands a fs (normalise i).args with
        | none => .error .operand
        | some body =>
          let nominal := a.opBits + (fs.map a.width).sum
          .ok (encField a.opBits idx ++ body ++ List.replicate (a.maxWord - nominal) false)

/-- `Arch.Assembler_process_line` for an instruction line: the word, or an error.  The last
    step is the fixed-width check (a word that is not exactly `Max_word` bits is rejected). -/
def asm (a : Arch) (i : Instr) : Except AsmErr Bits :=
  match asmRaw a i with
  | .error e => .error e
  | .ok w => if w.length = a.maxWord then .ok w else .error .width

/-- number of words the code memory of the execution mode holds (`Arch.Assembler`'s `maxLines`) -/
def codeCapacity (a : Arch) : Nat :=
  match a.mode with
  | .ha => 2 ^ a.o
  | .vn => 2 ^ a.l
  | .hy => if a.o > a.l then 2 ^ a.o else 2 ^ a.l

/-- `Arch.Assembler` on a whole source text: comment lines (`#…`) and blank lines (`none`) produce
    no word and take no address; every instruction line produces exactly one word, in order; the
    first failing line fails the whole program; a program longer than the code memory is refused -/
def asmProgram (a : Arch) (lines : List (Option Instr)) : Except AsmErr (List Bits) :=
  match (lines.filterMap id).mapM (asm a) with
  | .error e => .error e
  | .ok ws => if ws.length ≤ codeCapacity a then .ok ws else .error .tooLong

def decOperand (f : FieldKind) (v : Nat) : Operand :=
  match f with
  | .reg => .reg v
  | .inp => .inp v
  | .out => .out v
  | .so _ short => .so short v
  | _ => .num v

/-- slice the operand fields off a body, in order -/
def decOperands (a : Arch) : List FieldKind → Bits → List Operand
  | [], _ => []
  | f :: fs, body =>
    decOperand f (getId (body.take (a.width f))) :: decOperands a fs (body.drop (a.width f))

/-- `Machine.Disassembler` for one word -/
def disasm (a : Arch) (w : Bits) : Option Instr :=
  let idx := getId (w.take a.opBits)
  match a.ops[idx]? with
  | none => none
  | some op =>
    match layout op with
    | none => none
    | some fs => some ⟨op, decOperands a fs (w.drop a.opBits)⟩

/-- `Machine.Disassembler` on a whole program: every word on its own, in order (`none` = the Go
    code returns an error for some word) -/
def disasmProgram (a : Arch) (ws : List Bits) : Option (List Instr) := ws.mapM (disasm a)

end Encode
end BMV
