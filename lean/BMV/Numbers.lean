/-
  BMV.Numbers — model of pkg/bmnumbers import/export for the integer-like notations (C08).

  Strings are lists of code points (as in BMV.Regex).  A `BMNumber` is (bytes little-endian, bits,
  type), as in Go.  Modelled: `ImportString` for
      [0-9]+  0u…  0d…  0u….0+  0d….0+  0u<n>…  0d<n>…      (type_unsigned.go)
      0s…  0sd…                                             (type_signed.go)
      0b…  0b<n>…                                           (type_bin.go)
      0x…  0x<n>…                                           (type_hex.go)
  and `ExportString`, `ExportBinary`, `ExportBinaryNBits`, `ExportVerilogBinary` (export.go).
  Literals starting with `0f` / `0l` (float16/32, fixed point, FXP, FloPoCo, linear quantiser) are
  classified `unmodelled`: their round trip is searched directly on the Go side (strconv/float).

  The model is value-level where Go is string-level (e.g. the bytes of an imported binary literal are
  `toBytesLE` of its value rather than parsed 8-character chunks); the tie is the correspondence run.
  Core only.
-/
namespace BMV.Numbers

inductive NType where
  | unsigned | signed | hex | bin
  deriving DecidableEq, Repr

structure BMNumber where
  bytes : List Nat      -- little endian, each < 256
  bits : Nat
  ty : NType
  deriving DecidableEq, Repr

def valOf : List Nat → Nat
  | [] => 0
  | b :: bs => b + 256 * valOf bs

def toBytesLE : Nat → Nat → List Nat
  | 0, _ => []
  | n + 1, v => v % 256 :: toBytesLE n (v / 256)

/-! ### digits -/

/-- digit value → code point ('0'..'9', 'a'..'z') -/
def digitChar (d : Nat) : Nat := if d < 10 then 48 + d else 87 + d

def digitsAux (b : Nat) : Nat → Nat → List Nat → List Nat
  | 0, _, acc => acc
  | f + 1, n, acc =>
    if n < b then digitChar n :: acc else digitsAux b f (n / b) (digitChar (n % b) :: acc)

/-- digits of `n` in base `b` (2 ≤ b ≤ 36), most significant first, `"0"` for 0
    (= `strconv.FormatUint(n, b)`) -/
def digits (b n : Nat) : List Nat := digitsAux b (n + 1) n []

def isDigit (c : Nat) : Bool := Nat.ble 48 c && Nat.ble c 57
def isBinDigit (c : Nat) : Bool := c == 48 || c == 49
def isHexDigit (c : Nat) : Bool :=
  isDigit c || (Nat.ble 97 c && Nat.ble c 102) || (Nat.ble 65 c && Nat.ble c 70)

/-- value of a digit code point (decimal, hex lower/upper) -/
def digitVal (c : Nat) : Nat :=
  if Nat.ble 97 c then c - 87 else if Nat.ble 65 c then c - 55 else c - 48

def ofDigits (b : Nat) (ds : List Nat) : Nat := ds.foldl (fun acc c => acc * b + digitVal c) 0

/-! ### classification of a literal (hand-written counterpart of the matcher table) -/

inductive Lit where
  | unsignedNoSize (ds : List Nat)
  | unsignedSized (sz ds : List Nat)
  | signed (neg : Bool) (ds : List Nat)
  | bin (ds : List Nat)
  | binSized (sz ds : List Nat)
  | hex (ds : List Nat)
  | hexSized (sz ds : List Nat)
  | unmodelled          -- starts with 0f / 0l: float & dynamic types
  | noMatch             -- no matcher accepts the string
  deriving DecidableEq, Repr

def spanP (p : Nat → Bool) : List Nat → List Nat × List Nat
  | [] => ([], [])
  | c :: cs => if p c then let (a, b) := spanP p cs; (c :: a, b) else ([], c :: cs)

def allP (p : Nat → Bool) : List Nat → Bool
  | [] => true
  | c :: cs => p c && allP p cs

def nonEmptyAll (p : Nat → Bool) (s : List Nat) : Bool := !s.isEmpty && allP p s

/-- `<size>body` with `size` decimal digits and `body` non-empty over `p` -/
def sizedTail (p : Nat → Bool) (mk : List Nat → List Nat → Lit) (r : List Nat) : Lit :=
  let (sz, r2) := spanP isDigit r
  match sz, r2 with
  | [], _ => .noMatch
  | _ :: _, 62 :: body => if nonEmptyAll p body then mk sz body else .noMatch
  | _ :: _, _ => .noMatch

def unsignedTail (rest : List Nat) : Lit :=
  match rest with
  | 60 :: r => sizedTail isDigit .unsignedSized r
  | _ =>
    let (ds, r2) := spanP isDigit rest
    match ds, r2 with
    | [], _ => .noMatch
    | _ :: _, [] => .unsignedNoSize ds
    | _ :: _, 46 :: zs => if nonEmptyAll (· == 48) zs then .unsignedNoSize ds else .noMatch
    | _ :: _, _ => .noMatch

def signedTail (rest : List Nat) : Lit :=
  match rest with
  | 45 :: ds => if nonEmptyAll isDigit ds then .signed true ds else .noMatch
  | ds => if nonEmptyAll isDigit ds then .signed false ds else .noMatch

def binTail (rest : List Nat) : Lit :=
  match rest with
  | 60 :: r => sizedTail isBinDigit .binSized r
  | ds => if nonEmptyAll isBinDigit ds then .bin ds else .noMatch

def hexTail (rest : List Nat) : Lit :=
  match rest with
  | 60 :: r => sizedTail isHexDigit .hexSized r
  | ds => if nonEmptyAll isHexDigit ds then .hex ds else .noMatch

def classify (s : List Nat) : Lit :=
  match s with
  | 48 :: 117 :: rest => unsignedTail rest            -- 0u
  | 48 :: 100 :: rest => unsignedTail rest            -- 0d
  | 48 :: 115 :: 100 :: rest => signedTail rest       -- 0sd
  | 48 :: 115 :: rest => signedTail rest              -- 0s
  | 48 :: 98 :: rest => binTail rest                  -- 0b
  | 48 :: 120 :: rest => hexTail rest                 -- 0x
  | 48 :: 102 :: _ => .unmodelled                     -- 0f…
  | 48 :: 108 :: _ => .unmodelled                     -- 0l…
  | _ => if nonEmptyAll isDigit s then .unsignedNoSize s else .noMatch

/-! ### import -/

def two64 : Nat := 18446744073709551616
def two63 : Nat := 9223372036854775808

/-- `strconv.Atoi` on a digits-only string: fails from 2^63 on -/
def atoi (ds : List Nat) : Option Nat :=
  let v := ofDigits 10 ds
  if v < two63 then some v else none

def importLit : Lit → Option BMNumber
  | .unsignedNoSize ds =>
    let v := ofDigits 10 ds
    if v < two64 then some ⟨toBytesLE 8 v, 64, .unsigned⟩ else none
  | .unsignedSized sz ds =>
    match atoi sz with
    | none => none
    | some size =>
      if size = 0 || 64 < size then none
      else
        let v := ofDigits 10 ds
        if two64 ≤ v then none
        else if size < 64 && 2 ^ size ≤ v then none
        else some ⟨toBytesLE ((size + 7) / 8) v, size, .unsigned⟩
  | .signed neg ds =>
    let v := ofDigits 10 ds
    if neg then
      if v ≤ two63 then some ⟨toBytesLE 8 ((two64 - v) % two64), 64, .signed⟩ else none
    else
      if v < two63 then some ⟨toBytesLE 8 v, 64, .signed⟩ else none
  | .bin ds => some ⟨toBytesLE ((ds.length - 1) / 8 + 1) (ofDigits 2 ds), ds.length, .bin⟩
  | .binSized sz ds =>
    match atoi sz with
    | none => none
    | some size =>
      if size < ds.length then none
      else some ⟨toBytesLE ((size - 1) / 8 + 1) (ofDigits 2 ds), size, .bin⟩
  | .hex ds =>
    let nb := (ds.length + 1) / 2
    some ⟨toBytesLE nb (ofDigits 16 ds), 8 * nb, .hex⟩
  | .hexSized sz ds =>
    match atoi sz with
    | none => none
    | some size =>
      if size % 8 != 0 then none
      else if size < 8 * ((ds.length + 1) / 2) then none
      -- the implementation allocates `size` *bytes* (make([]byte, hexSize)), not size/8
      else some ⟨toBytesLE size (ofDigits 16 ds), size, .hex⟩
  | .unmodelled => none
  | .noMatch => none

def importString (s : List Nat) : Option BMNumber := importLit (classify s)

/-! ### export -/

def binRaw (v : BMNumber) : List Nat := digits 2 (valOf v.bytes)

def zeros (n : Nat) : List Nat := List.replicate n 48

/-- `ExportBinary(withSize)` -/
def exportBinary (withSize : Bool) (v : BMNumber) : List Nat :=
  if withSize then [48, 98, 60] ++ digits 10 v.bits ++ [62] ++ binRaw v else binRaw v

/-- `ExportBinaryNBits(n)`: `none` = "number too big" -/
def exportBinaryNBits (v : BMNumber) (n : Nat) : Option (List Nat) :=
  let r := binRaw v
  if n < r.length then none else some (zeros (n - r.length) ++ r)

/-- the digit part of `ExportVerilogBinary` (after `<bits>'b`) -/
def verilogDigits (v : BMNumber) : List Nat :=
  let r := binRaw v
  zeros (v.bits - r.length) ++ r

def exportVerilogBinary (v : BMNumber) : List Nat :=
  digits 10 v.bits ++ [39, 98] ++ verilogDigits v

/-- `ExportString(nil)`: `none` = error -/
def exportString (v : BMNumber) : Option (List Nat) :=
  match v.ty with
  | .unsigned => if 8 < v.bytes.length then none else some (digits 10 (valOf v.bytes))
  | .signed => none                                   -- "not implemented"
  | .bin => some (exportBinary true v)
  | .hex => some ([48, 120, 60] ++ digits 10 v.bits ++ [62] ++ digits 16 (valOf v.bytes))

/-- two's complement reading of a 64-bit pattern, printed like `strconv.FormatInt` -/
def signedDec (v : Nat) : List Nat :=
  if v < two63 then digits 10 v else 45 :: digits 10 (two64 - v)

/-- sign extension of a `bits`-wide two's complement pattern to 64 bits -/
def sext (bits val : Nat) : Nat :=
  if bits < 64 ∧ val < 2 ^ bits ∧ 2 ^ (bits - 1) ≤ val then val + (two64 - 2 ^ bits) else val

/-- `ExportString` with the repaired `Signed.ExportString` (fix 4051846 and
    repo_patches/C08-signed-narrow-export.diff): `0s` followed by the signed decimal value of the
    `bits`-wide pattern; all other types as implemented -/
def exportStringSpec (v : BMNumber) : Option (List Nat) :=
  match v.ty with
  | .signed =>
    if 1 ≤ v.bytes.length ∧ v.bytes.length ≤ 8 ∧ 1 ≤ v.bits ∧ v.bits ≤ 64 then
      some ([48, 115] ++ signedDec (sext v.bits (valOf v.bytes)))
    else none
  | _ => exportString v

/-! ### the export option `BMNumberConfig.OmitPrefix` -/

/-- `strings.ReplaceAll(s, string([a,b]), "")`: every non-overlapping occurrence, left to right -/
def removeAll2 (a b : Nat) : List Nat → List Nat
  | x :: y :: rest => if x = a ∧ y = b then removeAll2 a b rest else x :: removeAll2 a b (y :: rest)
  | s => s
termination_by s => s.length

/-- `ShowPrefix()` of the integer-like types: `0u`, `0s`, `0x`, `0b` -/
def prefixLetter : NType → Nat
  | .unsigned => 117 | .signed => 115 | .hex => 120 | .bin => 98

def showPrefix (t : NType) : List Nat := [48, prefixLetter t]

/-- what `ExportString(&BMNumberConfig{OmitPrefix: true})` does to the text of `ExportString(nil)` -/
def omitPrefix (t : NType) (s : List Nat) : List Nat := removeAll2 48 (prefixLetter t) s

def exportStringOmit (v : BMNumber) : Option (List Nat) := (exportString v).map (omitPrefix v.ty)

/-! ### the other import entry points and `ExportUint64` -/

/-- `ImportUint(input, optionalBits)`: `w` ∈ {8,16,32,64} is the Go width of `input`; the value is
    laid out little endian in `w/8` bytes; a positive `optionalBits` overrides the width field only; zero and the
    negative 'any size' sentinel (`GetSize() = -1` of unsigned/signed/hex/bin) keep the native width -/
def importUint (w v : Nat) (optBits : Int) : BMNumber :=
  if 0 < optBits then
    -- (repaired behaviour, repo_patches/C08-importuint-width.diff) the number holds exactly `optBits`
    -- bits: bytes padded / cut to ⌈optBits/8⌉ and the unused high bits of the last byte cleared
    ⟨toBytesLE ((optBits.toNat + 7) / 8) (v % 2 ^ optBits.toNat), optBits.toNat, .unsigned⟩
  else ⟨toBytesLE (w / 8) v, w, .unsigned⟩

/-- `ImportBytes(input, bits)`: `input` is big endian; the result is unsigned -/
def importBytes (be : List Nat) (bits : Nat) : BMNumber := ⟨be.reverse, bits, .unsigned⟩

/-- `CastType` to one of the size-free types (unsigned, signed, hex, bin) -/
def castType (v : BMNumber) (t : NType) : BMNumber := { v with ty := t }

/-- `ExportUint64`: `none` = more than 8 bytes -/
def exportUint64 (v : BMNumber) : Option Nat :=
  if 8 < v.bytes.length then none else some (valOf v.bytes)

/-! ### well-formed values -/

def bytesOK (bs : List Nat) : Prop := ∀ b ∈ bs, b < 256

/-- same typed bit pattern: value, width and type (the byte slice may be longer: see hexSized) -/
def BMNumber.same (a b : BMNumber) : Prop :=
  valOf a.bytes = valOf b.bytes ∧ a.bits = b.bits ∧ a.ty = b.ty

end BMV.Numbers
