/-
  BMV.Stack — executable, line-by-line model of the LIFO/FIFO template of
  /repo/pkg/bmstack/stackfile.go (rendered by `BmStack.WriteHDL()`).

  Core-only (no Mathlib) so that the oracle executable links.

  template (stackfile.go)                       model
  --------------------------------------------  ------------------------------------------------
  .MemType  "LIFO" | "FIFO"                     Cfg.fifo
  .Depth                                        Cfg.D            (D ≥ 1)
  len .Senders, len .Receivers                  Cfg.nS, Cfg.nR   (≥ 1)
  .DataSize                                     data is opaque: a type α with a reset value
  reg memory[Depth-1:0]                         S.mem  : Nat → α      (indices < D are meaningful)
  reg sp, readsp, writesp                       S.sp, S.rp, S.wp      (rp = wp = 0 always for LIFO)
  reg sendSM, recvSM                            S.sendSM, S.recvSM
  output reg <sender k>Ack                      S.sAck k              (k < nS)
  output reg <receiver j>Ack, <receiver j>Data  S.rAck j, S.rData j   (j < nR)
  input reset, <sender k>Write/Data, <recv j>Read   In.reset, In.wr k, In.wdata k, In.rd j
  assign empty / full                           S.empty, S.full c
  template func `next k n`                      next k n

  Registers are natural numbers without width truncation.  `BMV.Props.C13.fits` shows that under the
  invariant every register value fits the declared width, and in the arithmetic below every
  subtraction is exact (no borrow), so the 32-bit modular evaluation of the emitted Verilog and
  the natural-number evaluation here agree on every state reachable from reset.

  One `step` = one rising edge of `clk` (the single `always @(posedge clk)` of the template).
  All right-hand sides read the pre-edge state `s`; every assignment of the template is
  non-blocking.
-/
namespace BMV.Stack

structure Cfg where
  fifo : Bool
  D : Nat
  nS : Nat
  nR : Nat
deriving Repr, DecidableEq, Inhabited

/-- the configurations the property quantifies over -/
def Cfg.WF (c : Cfg) : Prop := 1 ≤ c.D ∧ 1 ≤ c.nS ∧ 1 ≤ c.nR

instance (c : Cfg) : Decidable c.WF := by unfold Cfg.WF; infer_instance

structure S (α : Type) where
  mem : Nat → α
  sp : Nat
  rp : Nat
  wp : Nat
  sendSM : Nat
  recvSM : Nat
  sAck : Nat → Bool
  rAck : Nat → Bool
  rData : Nat → α

structure In (α : Type) where
  reset : Bool
  wr : Nat → Bool
  wdata : Nat → α
  rd : Nat → Bool

/-- template function `next`: `if i < max-1 then i+1 else 0` -/
def next (k n : Nat) : Nat := if k < n - 1 then k + 1 else 0

/-- `( 1'b0 | x0 | x1 | … )` over the first `n` agents -/
def anyLt (n : Nat) (f : Nat → Bool) : Bool := (List.range n).any f

/-- pointwise register-file update -/
def upd {β : Type} (f : Nat → β) (k : Nat) (v : β) : Nat → β := fun i => if i = k then v else f i

variable {α : Type}

/-- `assign empty = (sp==0)` -/
def S.empty (s : S α) : Bool := s.sp == 0
/-- `assign full = (sp==Depth)` -/
def S.full (c : Cfg) (s : S α) : Bool := s.sp == c.D

/-- the `if (reset)` arm: every register gets its reset value (`z` is the data value `'d0`) -/
def reset (z : α) : S α :=
  { mem := fun _ => z, sp := 0, rp := 0, wp := 0, sendSM := 0, recvSM := 0,
    sAck := fun _ => false, rAck := fun _ => false, rData := fun _ => z }

/-- `readneed && !empty` : the read arm of the state machine is taken -/
def rBranch (c : Cfg) (s : S α) (i : In α) : Bool := anyLt c.nR i.rd && !s.empty
/-- `else if (writeneed && !full)` : the write arm is taken -/
def wBranch (c : Cfg) (s : S α) (i : In α) : Bool := !rBranch c s i && anyLt c.nS i.wr && !s.full c

/-- the receiver whose `if (<r>Read && !<r>Ack)` body runs this cycle (an element leaves) -/
def rFire (c : Cfg) (s : S α) (i : In α) : Option Nat :=
  if !i.reset && rBranch c s i && decide (s.recvSM < c.nR) && i.rd s.recvSM && !s.rAck s.recvSM
  then some s.recvSM else none

/-- the sender whose `if (<s>Write && !<s>Ack)` body runs this cycle (an element enters) -/
def wFire (c : Cfg) (s : S α) (i : In α) : Option Nat :=
  if !i.reset && wBranch c s i && decide (s.sendSM < c.nS) && i.wr s.sendSM && !s.sAck s.sendSM
  then some s.sendSM else none

/-- occupancy / pointer update of the read arm (`sp`, `readsp`) -/
def readPtrs (c : Cfg) (s : S α) : Nat × Nat :=   -- (sp', rp')
  if c.fifo then
    if s.rp == c.D - 1 then (s.wp, 0)
    else if s.wp < s.rp + 1 then (c.D - s.rp - 1 + s.wp, s.rp + 1)
    else (s.wp - s.rp - 1, s.rp + 1)
  else (s.sp - 1, s.rp)

/-- occupancy / pointer update of the write arm (`sp`, `writesp`) -/
def writePtrs (c : Cfg) (s : S α) : Nat × Nat :=  -- (sp', wp')
  if c.fifo then
    if s.wp == c.D - 1 then (c.D - s.rp, 0)
    else if s.wp + 1 > s.rp then (s.wp - s.rp + 1, s.wp + 1)
    else (c.D - s.rp + s.wp + 1, s.wp + 1)
  else (s.sp + 1, s.wp)

/-- one rising clock edge -/
def step (z : α) (c : Cfg) (s : S α) (i : In α) : S α :=
  if i.reset then reset z else
  let rb := rBranch c s i
  let wb := wBranch c s i
  let rf := (rFire c s i).isSome
  let wf := (wFire c s i).isSome
  let rpt := readPtrs c s
  let wpt := writePtrs c s
  { mem := if wf then upd s.mem (if c.fifo then s.wp else s.sp) (i.wdata s.sendSM) else s.mem
    rData := if rf then upd s.rData s.recvSM (s.mem (if c.fifo then s.rp else s.sp - 1)) else s.rData
    sp := if rf then rpt.1 else if wf then wpt.1 else s.sp
    rp := if rf then rpt.2 else s.rp
    wp := if wf then wpt.2 else s.wp
    -- `recvSM <= next` sits outside the inner `if`: the pointer rotates whenever the arm is taken
    recvSM := if rb && decide (s.recvSM < c.nR) then next s.recvSM c.nR else s.recvSM
    sendSM := if wb && decide (s.sendSM < c.nS) then next s.sendSM c.nS else s.sendSM
    -- "Read ack process"
    rAck := fun j =>
      if j < c.nR then
        if i.rd j && !s.rAck j && s.recvSM == j && !s.empty then true
        else if !i.rd j then false else s.rAck j
      else s.rAck j
    -- "Write ack process"
    sAck := fun k =>
      if k < c.nS then
        if !rb && i.wr k && !s.sAck k && s.sendSM == k && !s.full c then true
        else if !i.wr k then false else s.sAck k
      else s.sAck k }

def run (z : α) (c : Cfg) (s : S α) : List (In α) → S α
  | [] => s
  | i :: is => run z c (step z c s i) is

/-- the stored elements, oldest first.  LIFO: `memory[0 .. sp-1]` (top of stack = last);
    FIFO: `memory[readsp], memory[readsp+1 mod D], …` (`sp` of them; front = first). -/
def abs (c : Cfg) (s : S α) : List α :=
  (List.range s.sp).map fun i => s.mem (if c.fifo then (s.rp + i) % c.D else i)

/-- what every reachable state satisfies -/
def Inv (c : Cfg) (s : S α) : Prop :=
  s.sp ≤ c.D ∧ s.sendSM < c.nS ∧ s.recvSM < c.nR ∧
  (if c.fifo then s.rp < c.D ∧ s.wp < c.D ∧ (s.rp + s.sp) % c.D = s.wp else s.rp = 0 ∧ s.wp = 0)

/-- `NeededBits` of bmstack.go: least b ≥ 1 with 2^b ≥ n (0 for n = 0); searched up to `n` -/
def neededBits (n : Nat) : Nat :=
  if n = 0 then 0 else
  match (List.range (n + 1)).find? (fun b => decide (1 ≤ b) && decide (n ≤ 2 ^ b)) with
  | some b => b
  | none => 0

end BMV.Stack
