/-
  BMV.Bond — executable model of the top-level netlist that
  /repo/pkg/bondmachine/verilog.go `Write_verilog_main` emits for a machine (module `bondmachine`
  of `bondmachine.v`): the header, the declarations, one positional instance `aP aP_inst(…)` per
  processor, the `assign`s of the external outputs and the `_received` conjunction of every
  internal output.  The machine is a `BMV.Topology.Topo` (the C10 model of the bond graph).

  Nets are structured (`Net`: which endpoint, which of its three lines) so that theorems can talk
  about connectivity; `Net.render` gives the identifier the Go code writes
  (`strings.ToLower(bond.String())` + `_valid` / `_received`) and `Netlist.render` the textual
  netlist that the oracle compares, names included, with what the reader extracted from the
  emitted file.  Core-only.

  Go (verilog.go)                                   model
  -----------------------------------------------   ------------------------------------------
  header loop over Inputs / Outputs (199-213)       `headerPorts`
  input/output declarations (230-246)               `portDecls`
  wires of unlinked internal inputs (261-265)       `unlinkedDecls`
  wires of internal outputs + consumers (270-309)   `outputDecls`
  instance of processor i (332-384)                 `procInst` (`procInputConns`: the search loop
                                                     348-361 with its `break`)
  assign of linked external outputs (434-442)       `extAssigns`
  `_received` of each internal output (446-472)     `recvAssign` (0 consumers: nothing is emitted,
                                                     the wire stays undriven; 1: plain assign;
                                                     >1: `( 1'b1 & (a) & (b) … )`)
  Shared objects are outside the model (C02 is about bonds).
-/
import BMV.Topology
namespace BMV.Bond
open BMV.Topology

/-- `strings.ToLower(Bond.String())` -/
def name (b : Bond) : String :=
  if b.kind = 0 then "i" ++ toString b.res
  else if b.kind = 1 then "o" ++ toString b.res
  else if b.kind = 2 then "p" ++ toString b.res ++ "i" ++ toString b.ext
  else if b.kind = 3 then "p" ++ toString b.res ++ "o" ++ toString b.ext
  else ""

/-- a net of module `bondmachine` -/
inductive Net where
  | clk
  | reset
  | data (b : Bond)
  | valid (b : Bond)
  | recv (b : Bond)
deriving DecidableEq, Repr, Inhabited

def Net.render : Net → String
  | .clk => "clk"
  | .reset => "reset"
  | .data b => name b
  | .valid b => name b ++ "_valid"
  | .recv b => name b ++ "_received"

/-- right-hand side of a continuous assignment: an identifier, or `( 1'b1 & (a) & (b) … )` -/
inductive Rhs where
  | id (n : Net)
  | and1 (ns : List Net)
deriving DecidableEq, Repr, Inhabited

inductive Dir where
  | input | output | none
deriving DecidableEq, Repr, Inhabited

/-- a declared name: direction (`none` = a `wire` declaration), width in bits -/
structure Decl where
  dir : Dir
  isWire : Bool
  width : Nat
  net : Net
deriving DecidableEq, Repr, Inhabited

/-- `a<proc> a<proc>_inst(conns…)` -/
structure Inst where
  proc : Nat
  conns : List Net
deriving DecidableEq, Repr, Inhabited

structure Netlist where
  ports : List Net
  decls : List Decl
  insts : List Inst
  assigns : List (Net × Rhs)
deriving DecidableEq, Repr, Inhabited

/-! ### what `Write_verilog_main` emits -/

def triple (b : Bond) : List Net := [.data b, .valid b, .recv b]

def extIn (k : Nat) : Bond := ⟨0, k, 0⟩
def extOut (k : Nat) : Bond := ⟨1, k, 0⟩

def headerPorts (t : Topo) : List Net :=
  [.clk, .reset] ++ (List.range t.inputs).flatMap (fun k => triple (extIn k))
    ++ (List.range t.outputs).flatMap (fun k => triple (extOut k))

def portDecls (t : Topo) (rsize : Nat) : List Decl :=
  [⟨.input, false, 1, .clk⟩, ⟨.input, false, 1, .reset⟩]
  ++ (List.range t.inputs).flatMap (fun k =>
      [⟨.input, false, rsize, .data (extIn k)⟩, ⟨.input, false, 1, .valid (extIn k)⟩, ⟨.output, false, 1, .recv (extIn k)⟩])
  ++ (List.range t.outputs).flatMap (fun k =>
      [⟨.output, false, rsize, .data (extOut k)⟩, ⟨.output, false, 1, .valid (extOut k)⟩, ⟨.input, false, 1, .recv (extOut k)⟩])

/-- the internal inputs bonded to internal output `j`, in the order of `Links` -/
def consumers (t : Topo) (j : Nat) : List Bond :=
  (t.iin.zip t.links).filterMap fun (b, l) => if l = some j then some b else none

def unlinkedDecls (t : Topo) (rsize : Nat) : List Decl :=
  (t.iin.zip t.links).filterMap fun (b, l) =>
    match l with
    | none => some ⟨.none, true, rsize, .data b⟩
    | some _ => none

def outputDecls (t : Topo) (rsize : Nat) : List Decl :=
  t.iout.zipIdx.flatMap fun (o, j) =>
    [⟨.none, true, rsize, .data o⟩, ⟨.none, true, 1, .valid o⟩, ⟨.none, true, 1, .recv o⟩]
      ++ (consumers t j).map (fun c => ⟨.none, true, 1, .recv c⟩)

/-- the three connections of processor input `(p, e)`: the search loop over `Links` with its
    `break` (first internal input equal to the bond); nothing is emitted when there is none -/
def procInputConns (t : Topo) (p e : Nat) : List Net :=
  match (t.iin.zip t.links).find? (fun q => q.1 = ⟨2, p, e⟩) with
  | none => []
  | some (b, none) => triple b
  | some (b, some j) =>
    match t.iout[j]? with
    | some o => [.data o, .valid o, .recv b]
    | none => []                                  -- Go: index out of range (not a WF machine)

def procInst (t : Topo) (p : Nat) (nm : Nat × Nat) : Inst :=
  { proc := p
    conns := [.clk, .reset] ++ (List.range nm.1).flatMap (procInputConns t p)
               ++ (List.range nm.2).flatMap (fun e => triple ⟨3, p, e⟩) }

def extAssigns (t : Topo) : List (Net × Rhs) :=
  (t.iin.zip t.links).flatMap fun (b, l) =>
    match l with
    | none => []
    | some j =>
      if b.kind = 1 then
        match t.iout[j]? with
        | some o => [(.data b, .id (.data o)), (.valid b, .id (.valid o))]
        | none => []
      else []

def recvAssign (t : Topo) (o : Bond) (j : Nat) : List (Net × Rhs) :=
  match consumers t j with
  | [] => []
  | [c] => [(.recv o, .id (.recv c))]
  | cs => [(.recv o, .and1 (cs.map .recv))]

def wire (t : Topo) (rsize : Nat) : Netlist :=
  { ports := headerPorts t
    decls := portDecls t rsize ++ unlinkedDecls t rsize ++ outputDecls t rsize
    insts := t.procs.zipIdx.map fun (nm, p) => procInst t p nm
    assigns := extAssigns t ++ t.iout.zipIdx.flatMap fun (o, j) => recvAssign t o j }

/-! ### reading a netlist: which net is attached to which port of which endpoint

  Processor `p` with `n` inputs and `m` outputs is instance `a<p>_inst`; module `a<p>` has the
  ports `clock_signal, reset_signal, i0, i0_valid, i0_received, …, o0, o0_valid, o0_received, …`
  (procbuilder `Arch.Write_verilog`), so input `e` sits at positions `2+3e …`, output `e` at
  `2+3n+3e …`.  An external input/output *is* a port of `bondmachine`. -/

def Netlist.inst (nl : Netlist) (p : Nat) : Option Inst := nl.insts.find? (fun i => i.proc = p)

def Netlist.assignOf (nl : Netlist) (lhs : Net) : Option Rhs :=
  (nl.assigns.find? (fun a => a.1 = lhs)).map (·.2)

/-- the net feeding line `k` (0 data, 1 valid) of sink `s` — a processor input reads the net at
    its instance position, an external output the right-hand side of its `assign` -/
def Netlist.sinkSrc (nl : Netlist) (s : Bond) (k : Nat) : Option Net :=
  if s.kind = 2 then
    match nl.inst s.res with
    | some i => i.conns[2 + 3 * s.ext + k]?
    | none => none
  else
    match nl.assignOf (if k = 0 then .data s else .valid s) with
    | some (.id n) => some n
    | _ => none

/-- the net driven by the `received` line of sink `s` -/
def Netlist.sinkRecv (nl : Netlist) (s : Bond) : Option Net :=
  if s.kind = 2 then
    match nl.inst s.res with
    | some i => i.conns[2 + 3 * s.ext + 2]?
    | none => none
  else if Net.recv s ∈ nl.ports then some (.recv s) else none

/-- the net attached to line `k` (0 data, 1 valid: driven by the endpoint; 2 received: read by it)
    of driver `o`; `n` = number of inputs of its processor -/
def Netlist.drvNet (nl : Netlist) (o : Bond) (n : Nat) (k : Nat) : Option Net :=
  if o.kind = 3 then
    match nl.inst o.res with
    | some i => i.conns[2 + 3 * n + 3 * o.ext + k]?
    | none => none
  else
    let net : Net := if k = 0 then .data o else if k = 1 then .valid o else .recv o
    if net ∈ nl.ports then some net else none

/-- value of a right-hand side under a valuation of the nets -/
def Rhs.eval (env : Net → Bool) : Rhs → Bool
  | .id n => env n
  | .and1 ns => true && ns.all env

/-- value of a net that only continuous assignments can drive: an undriven wire reads 0 in the
    two-state Verilog semantics of BMV.Vlog (z in a four-state simulator) -/
def Netlist.assigned (nl : Netlist) (env : Net → Bool) (n : Net) : Bool :=
  match nl.assignOf n with
  | some r => r.eval env
  | none => false

/-! ### the statement "the netlist connects exactly the bonds" on an arbitrary netlist -/

/-- the internal output bonded to sink `s` (first internal input equal to `s`, as the instance
    loop of `Write_verilog_main` searches it) -/
def driverOf (t : Topo) (s : Bond) : Option Bond :=
  match (t.iin.zip t.links).find? (fun q => q.1 = s) with
  | some (_, some j) => t.iout[j]?
  | _ => none

/-- line `k` of endpoint `b`: 0 data, 1 valid, otherwise received -/
def lineNet (k : Nat) (b : Bond) : Net := if k = 0 then .data b else if k = 1 then .valid b else .recv b

def procIns (t : Topo) (p : Nat) : Nat := (t.procs.getD p (0, 0)).1

/-- what the `_received` assign of internal output `o` (number `j`) must be -/
def recvSpec (t : Topo) (j : Nat) : Option Rhs :=
  match consumers t j with
  | [] => none
  | [c] => some (.id (.recv c))
  | cs => some (.and1 (cs.map .recv))

/-- where line `k` of sink `s` must come from: its driver's line, or — an unbonded processor
    input — its own undriven net; an unbonded external output is not assigned at all -/
def srcSpec (t : Topo) (s : Bond) (k : Nat) : Option Net :=
  match driverOf t s with
  | some o => some (lineNet k o)
  | none => if s.kind = 2 then some (lineNet k s) else none

/-- **The netlist `nl` connects exactly the bonds of `t`.** -/
structure Exact (nl : Netlist) (t : Topo) : Prop where
  /-- one instance per processor, in order -/
  insts : nl.insts.map (·.proc) = List.range t.procs.length
  /-- every driver drives (data, valid) and reads (received) the nets that carry its own name -/
  drivers : ∀ o ∈ t.iout, ∀ k, k < 3 → nl.drvNet o (procIns t o.res) k = some (lineNet k o)
  /-- every sink reports on the `_received` net that carries its own name -/
  sinkRecv : ∀ s ∈ t.iin, nl.sinkRecv s = some (.recv s)
  /-- every sink reads data and valid from its driver and from nothing else -/
  sinkSrc : ∀ s ∈ t.iin, ∀ k, k < 2 → nl.sinkSrc s k = srcSpec t s k
  /-- `received` of an internal output: nothing (no consumer), the consumer's line (one), the
      conjunction of all consumers' lines (several) -/
  recv : ∀ j o, t.iout[j]? = some o → nl.assignOf (.recv o) = recvSpec t j
  /-- no other continuous assignment -/
  frame : ∀ a ∈ nl.assigns, (∃ o ∈ t.iout, a.1 = .recv o) ∨
            (∃ s ∈ t.iin, s.kind = 1 ∧ (driverOf t s).isSome ∧ (a.1 = .data s ∨ a.1 = .valid s))

/-- the same statement as an executable test (run by the oracle on the *emitted* netlist when it
    differs from `wire t`, to tell a harmless variation from a wrong connection) -/
def exactB (nl : Netlist) (t : Topo) : Bool :=
  (nl.insts.map (·.proc) == List.range t.procs.length) &&
  t.iout.all (fun o => (List.range 3).all fun k => nl.drvNet o (procIns t o.res) k == some (lineNet k o)) &&
  t.iin.all (fun s => nl.sinkRecv s == some (.recv s)) &&
  t.iin.all (fun s => (List.range 2).all fun k => nl.sinkSrc s k == srcSpec t s k) &&
  t.iout.zipIdx.all (fun (o, j) => nl.assignOf (.recv o) == recvSpec t j) &&
  nl.assigns.all (fun a =>
    t.iout.any (fun o => a.1 == .recv o) ||
    t.iin.any (fun s => s.kind == 1 && (driverOf t s).isSome && (a.1 == .data s || a.1 == .valid s)))

/-! ### textual form (what the harness extracts from the emitted file) -/

structure TDecl where
  dir : String
  kind : String
  width : Nat
  name : String
deriving DecidableEq, Repr, Inhabited

structure TNetlist where
  ports : List String
  decls : List TDecl
  insts : List (String × String × List String)         -- module, instance name, connections
  assigns : List (String × String × List String)       -- lhs, "id" | "and1", names
deriving DecidableEq, Repr, Inhabited

def Dir.render : Dir → String
  | .input => "input" | .output => "output" | .none => "none"

def Decl.render (d : Decl) : TDecl :=
  { dir := d.dir.render, kind := if d.isWire then "wire" else "none", width := d.width, name := d.net.render }

def Rhs.render : Rhs → String × List String
  | .id n => ("id", [n.render])
  | .and1 ns => ("and1", ns.map Net.render)

def Netlist.render (nl : Netlist) : TNetlist :=
  { ports := nl.ports.map Net.render
    decls := nl.decls.map Decl.render
    insts := nl.insts.map fun i => ("a" ++ toString i.proc, "a" ++ toString i.proc ++ "_inst", i.conns.map Net.render)
    assigns := nl.assigns.map fun (l, r) => (l.render, r.render.1, r.render.2) }

/-- every net the netlist mentions -/
def Netlist.nets (nl : Netlist) : List Net :=
  nl.ports ++ nl.decls.map (·.net) ++ nl.insts.flatMap (·.conns)
    ++ nl.assigns.flatMap fun (l, r) => l :: (match r with | .id n => [n] | .and1 ns => ns)

end BMV.Bond
