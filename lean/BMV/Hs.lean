/-
  BMV.Hs — the valid/received handshake of one bond (one producer output, k consumers), as two
  transition systems that abstract everything but the protocol:

  * `Hs.Isa`  — the Go simulator: `R2owa.Simulate`, `I2rw.Simulate` + its deferred
    `waitRecvI2rw`, and the data movement of `bondmachine.VM.Step` (every processor sees the other
    side's lines as they were at the end of the previous tick; recv of an output = AND of the recv
    of all inputs bonded to it);
  * `Hs.Rtl`  — the generated hardware: the `waitsm` / `oK_val` / `_auxoK` processes of r2owa,
    the `iK_recv` process and the guarded capture of i2rw, wired combinationally by
    `Write_verilog_main` (registered outputs, so again everybody reads pre-edge values).

  A processor is either *busy* (executing instructions that do not touch the port: arbitrary
  code, arbitrary duration) or *at* its IO instruction; the adversarial schedule says, per tick and
  per agent, whether a busy agent arrives at an IO instruction on this port now.  The producer
  sends the values 0, 1, 2, … so that every transfer is identifiable.  Core-only.
-/
namespace BMV.Hs

/-- schedule of one tick: does the (busy) producer / the i-th (busy) consumer reach its IO
    instruction on this bond in this tick? -/
structure Sched where
  p : Bool
  c : List Bool
deriving Repr, DecidableEq, Inhabited

/-! ## simulator world -/
namespace Isa

structure Cons where
  atIO : Bool := false       -- pc is at an i2rw on this input
  recv : Bool := false       -- InputsRecv
  deferred : Bool := false   -- waitRecvI2rw pending
  got : List Nat := []       -- values captured so far
deriving Repr, DecidableEq, Inhabited

structure St where
  atIO : Bool := false       -- producer's pc is at an r2owa on this output
  next : Nat := 0            -- the value the producer writes next
  valid : Bool := false      -- OutputsValid
  data : Nat := 0            -- Outputs
  sent : List Nat := []      -- values whose r2owa has completed (pc passed it)
  cs : List Cons := []
deriving Repr, DecidableEq, Inhabited

def init (k : Nat) : St := { cs := List.replicate k {} }

/-- one consumer, one `VM.Step`: deferred instruction first, then (if at the instruction) i2rw -/
def cstep (validIn : Bool) (dataIn : Nat) (want : Bool) (c : Cons) : Cons :=
  let c1 : Cons := if c.deferred && !validIn then { c with recv := false, deferred := false } else c
  if c1.atIO || want then
    if validIn && c1.recv then { c1 with atIO := true }                       -- wait
    else if validIn then
      { c1 with got := c1.got ++ [dataIn], recv := true, deferred := true, atIO := false }
    else { c1 with recv := false, atIO := true }
  else c1

/-- one tick of the bond: movement (everybody sees the previous tick's lines), then all step -/
def step (s : St) (sch : Sched) : St :=
  let recvIn := !s.cs.isEmpty && s.cs.all (·.recv)
  let cs' := (s.cs.zip (sch.c ++ List.replicate s.cs.length false)).map
    fun (c, w) => cstep s.valid s.data w c
  if s.atIO || sch.p then
    if !s.valid && recvIn then { s with atIO := true, cs := cs' }              -- stale recv: wait
    else if recvIn then                                                        -- complete
      { s with atIO := false, valid := false, data := s.next, sent := s.sent ++ [s.next],
               next := s.next + 1, cs := cs' }
    else { s with atIO := true, valid := true, data := s.next, cs := cs' }
  else { s with cs := cs' }

def run (s : St) (schs : List Sched) : St := schs.foldl step s

end Isa

/-! ## hardware world -/
namespace Rtl

structure Cons where
  atIO : Bool := false
  recv : Bool := false       -- iK_recv
  got : List Nat := []
deriving Repr, DecidableEq, Inhabited

structure St where
  atIO : Bool := false
  next : Nat := 0
  waitsm : Bool := false
  oVal : Bool := false       -- oK_val
  auxo : Nat := 0            -- _auxoK
  sent : List Nat := []
  cs : List Cons := []
deriving Repr, DecidableEq, Inhabited

def init (k : Nat) : St := { cs := List.replicate k {} }

def cstep (valid : Bool) (data : Nat) (want : Bool) (c : Cons) : Cons :=
  if c.atIO || want then
    -- main block: guarded capture; iK_recv process: recv <= valid
    if valid && !c.recv then { atIO := false, recv := valid, got := c.got ++ [data] }
    else { c with atIO := true, recv := valid }
  else { c with recv := if valid then c.recv else false }

def step (s : St) (sch : Sched) : St :=
  let received := !s.cs.isEmpty && s.cs.all (·.recv)
  let cs' := (s.cs.zip (sch.c ++ List.replicate s.cs.length false)).map
    fun (c, w) => cstep s.oVal s.auxo w c
  if s.atIO || sch.p then
    if !s.waitsm then
      { s with atIO := true, waitsm := !received, oVal := if received then false else s.oVal, cs := cs' }
    else if received then
      { s with atIO := false, waitsm := false, oVal := true, auxo := s.next, sent := s.sent ++ [s.next],
               next := s.next + 1, cs := cs' }
    else { s with atIO := true, oVal := true, auxo := s.next, cs := cs' }
  else { s with oVal := if received then false else s.oVal, cs := cs' }

def run (s : St) (schs : List Sched) : St := schs.foldl step s

end Rtl

end BMV.Hs
