/-
  BMV.SchedSimGen — the `Globals` domain of the scheduling model (BMV.SchedSim) as the Go source
  declares it today (BMV/Gen/OpcodeState.lean, regenerated on every run).  Core only.
-/
import BMV.SchedSim
import BMV.Gen.OpcodeState
namespace BMV.SchedSim
open BMV.Gen.OpcodeState

/-- state that lives outside any VM: (opcode type, cell) pairs.  A reference-typed field of a shared
    opcode object that `Simulate` writes through, or a package-level variable it assigns. -/
def genGlobals : List (String × String) :=
  (refFields.filter fun (_, _, _, w) => w).map (fun (t, f, _, _) => (t, f)) ++ pkgVarWrites

/-- the model's declared `Globals` domain for the pinned commit … -/
def declaredGlobalsPinned : List (String × String) :=
  [("Addp", "pipeline"), ("Divp", "pipeline"), ("FXP", "pipeline"), ("FixedPoint", "pipeline"),
   ("LinearQuantizer", "pipeline"), ("Multp", "pipeline")]

/-- … and once the pipeline phase is kept in `vm.Extra_states` -/
def declaredGlobalsFixed : List (String × String) := []

/-- reference-typed fields of opcode objects that are never written by `Simulate` (shared, read-only) -/
def declaredReadOnly : List (String × String) :=
  [("Cmpr", "pipeline"), ("Cmprlt", "pipeline"), ("FloPoCo", "entities")]

def genReadOnly : List (String × String) :=
  (refFields.filter fun (_, _, _, w) => !w).map (fun (t, f, _, _) => (t, f))

/-- process-wide registries (package-level slices/maps of pkg/bmnumbers and pkg/procbuilder) and the only
    functions allowed to write them: the package initialisers and the explicit registration functions
    (`EventuallyCreateType`, `EventuallyCreateInstruction`), which a driver calls *before* it starts
    simulations.  They are part of `Globals`; a simulation must leave them unchanged — the harness checks
    their sizes around every simulation (`global-state-grew`). -/
def declaredRegistries : List (String × String × String × List String) :=
  [("bmnumbers", "AllDynamicalTypes", "slice", ["init"]),
   ("bmnumbers", "AllMatchers", "map", ["EventuallyCreateType", "init"]),
   ("bmnumbers", "AllTypes", "slice", ["EventuallyCreateType", "init"]),
   ("procbuilder", "AllDynamicalInstructions", "slice", ["init"]),
   ("procbuilder", "Allopcodes", "slice", ["EventuallyCreateInstruction", "init"]),
   ("procbuilder", "Allshared", "slice", ["init"])]

/-- the only uses of the wall clock / timers in the simulator packages: the seeding of math/rand in
    procbuilder's package initialiser.  No step of a simulation may consult the clock (the model's steps are
    functions of the state alone): a `time.After` / `time.Now` / timer in `Simulate`, `Step`, the simbox or
    the number library breaks `clock_sites_match`. -/
def declaredClockSites : List (String × String × String) :=
  [("pkg/procbuilder/machine.go", "init", "time.Now")]

/-- where the ISA model keeps the phase of addp / multp in the current tree -/
def genDom : Dom :=
  { addp := genGlobals.any (fun (t, _) => t == "Addp"),
    multp := genGlobals.any (fun (t, _) => t == "Multp") }

end BMV.SchedSim
