/-
  BMV.Quantum — executable model of pkg/bmqsim (circuit → list of layer matrices) and of the
  reference semantics of a circuit (C14).  Core only.

  Conventions (as in bmqsim.go): qubit 0 is the first declared qubit = the MOST significant bit of
  a basis index; a k-qubit gate matrix is indexed by the bits of its arguments, first argument most
  significant.  A matrix is a function `Nat → Nat → R`; its dimension is carried separately.

  `plan`      control part of `BmMatrixFromOperation` (which factor is tensored when, which swaps are
              recorded) — depends only on the argument lists, not on the entries;
              `stale = true`  : the code as it is at the pinned commit (multi-qubit gate positions
                                are taken from `sim.qbitsNum`, i.e. the ORIGINAL qubit order);
              `stale = false` : positions are taken from the current `localQBits` order (the repair).
  `build`     data part: tensor products of the factors, then the recorded swaps undone through
              `swaps2baseSwaps` / `SwapRowsColsComplex`.
  `layer`     = build ∘ plan.
  `splitLayers` model of `QasmToBmMatrices` (a new matrix starts when a qubit is reused).
  `embed`, `layerRef`, `Uref`  the reference, by bit manipulation of basis indices.
-/
namespace BMV.Quantum

/-! ### carriers -/

/-- multiplicative part: all that tensor products and permutations need -/
class MulOps (R : Type) where
  zero : R
  one : R
  mul : R → R → R

/-- additive part (matrix products) -/
class Ops (R : Type) extends MulOps R where
  add : R → R → R

/-- commutative semiring laws (only used in theorems) -/
class Lawful (R : Type) [Ops R] : Prop where
  add_assoc : ∀ a b c : R, Ops.add (Ops.add a b) c = Ops.add a (Ops.add b c)
  add_comm : ∀ a b : R, Ops.add a b = Ops.add b a
  zero_add : ∀ a : R, Ops.add MulOps.zero a = a
  mul_assoc : ∀ a b c : R, MulOps.mul (MulOps.mul a b) c = MulOps.mul a (MulOps.mul b c)
  mul_comm : ∀ a b : R, MulOps.mul a b = MulOps.mul b a
  one_mul : ∀ a : R, MulOps.mul MulOps.one a = a
  zero_mul : ∀ a : R, MulOps.mul MulOps.zero a = MulOps.zero
  left_distrib : ∀ a b c : R, MulOps.mul a (Ops.add b c) = Ops.add (MulOps.mul a b) (MulOps.mul a c)

abbrev Mat (R : Type) := Nat → Nat → R

structure DMat (R : Type) where
  dim : Nat
  e : Mat R

/-- a gate instance: its matrix and the qubits (indices in declaration order) it acts on -/
structure Gate (R : Type) where
  m : Mat R
  args : List Nat

section generic
variable {R : Type}

/-! ### control part of `BmMatrixFromOperation` -/

structure Plan where
  /-- tensor factors in the order they are multiplied: `none` = 2×2 identity, `some k` = line k -/
  factors : List (Option Nat)
  /-- recorded position swaps, in recording order -/
  swaps : List (Nat × Nat)
  /-- final `localQBits`: the qubit standing at every position -/
  loc : List Nat
deriving Repr, DecidableEq

/-- index of the first line that mentions qubit `qb` (Go: the `found`/`fundLine` loop) -/
def findLine : List (List Nat) → Nat → Nat → Option Nat
  | [], _, _ => none
  | l :: ls, qb, k => if l.contains qb then some k else findLine ls qb (k + 1)

/-- position of `x` in `l` (length if absent) -/
def posOf : List Nat → Nat → Nat
  | [], _ => 0
  | y :: ys, x => if y == x then 0 else posOf ys x + 1

/-- `localQBits[q], localQBits[lq] = localQBits[lq], localQBits[q]`; `none` = index panic -/
def swapPos (loc : List Nat) (q lq : Nat) : Option (List Nat) :=
  match loc[q]?, loc[lq]? with
  | some a, some b => some ((loc.set q b).set lq a)
  | _, _ => none

/-- the `for j, lq2 := range localOrder` renumbering -/
def renumber (lo : List Nat) (q lq : Nat) : List Nat :=
  lo.map fun x => if x == q then lq else if x == lq then q else x

/-- the `for i, lq := range localOrder` loop (elements are read live). `r` = elements left. -/
def argLoop : Nat → Nat → List Nat → Nat → List Nat → List (Nat × Nat) →
    Option (Nat × List Nat × List (Nat × Nat))
  | 0, _, _, q, loc, sw => some (q, loc, sw)
  | r + 1, i, lo, q, loc, sw =>
    match lo[i]? with
    | none => none
    | some lq =>
      let q' := if r == 0 then q else q + 1
      if lq != q then
        match swapPos loc q lq with
        | none => none
        | some loc' => argLoop r (i + 1) (renumber lo q lq) q' loc' (sw ++ [(q, lq)])
      else argLoop r (i + 1) lo q' loc sw

/-- the `for q := 0; q < len(localQBits); q++` walk -/
def walk (stale : Bool) (n : Nat) (L : List (List Nat)) :
    Nat → Nat → List Nat → List (Nat × Nat) → List (Option Nat) → Option Plan
  | 0, q, loc, sw, fac => if n ≤ q then some ⟨fac.reverse, sw, loc⟩ else none
  | f + 1, q, loc, sw, fac =>
    if n ≤ q then some ⟨fac.reverse, sw, loc⟩ else
    match loc[q]? with
    | none => none
    | some qb =>
      match findLine L qb 0 with
      | none => walk stale n L f (q + 1) loc sw (none :: fac)
      | some k =>
        let args := L.getD k []
        if args.length == 1 then walk stale n L f (q + 1) loc sw (some k :: fac)
        else
          let lo := if stale then args else args.map (posOf loc)
          match argLoop args.length 0 lo q loc sw with
          | none => none
          | some (q', loc', sw') => walk stale n L f (q' + 1) loc' sw' (some k :: fac)

def plan (stale : Bool) (n : Nat) (L : List (List Nat)) : Option Plan :=
  walk stale n L (n + 1) 0 (List.range n) [] []

/-! ### `swaps2baseSwaps` -/

/-- bit of qubit `a` (0 = most significant of `n`) in basis index `i` -/
def qbit (n a i : Nat) : Bool := i.testBit (n - 1 - a)

def baseSwapsAux (n s1 s2 : Nat) : Nat → Nat → List Nat → List (Nat × Nat) → List (Nat × Nat)
  | 0, _, _, acc => acc.reverse
  | f + 1, i, done, acc =>
    if done.contains i then baseSwapsAux n s1 s2 f (i + 1) done acc
    else if qbit n s1 i != qbit n s2 i then
      let j := (i ^^^ (2 ^ (n - 1 - s1))) ^^^ (2 ^ (n - 1 - s2))
      baseSwapsAux n s1 s2 f (i + 1) (i :: j :: done) ((i, j) :: acc)
    else baseSwapsAux n s1 s2 f (i + 1) done acc

/-- Go `swaps2baseSwaps(swap{s1,s2}, n)`: the basis-index transpositions realising the exchange of
    qubit positions `s1` and `s2` -/
def baseSwaps (n : Nat) (s : Nat × Nat) : List (Nat × Nat) :=
  baseSwapsAux n s.1 s.2 (2 ^ n) 0 [] []

def tr (x y i : Nat) : Nat := if i = x then y else if i = y then x else i

/-- Go `SwapRowsColsComplex(a, x, y)` -/
def swapRC (a : Mat R) (x y : Nat) : Mat R := fun i j => a (tr x y i) (tr x y j)

def applyBase (a : Mat R) (bs : List (Nat × Nat)) : Mat R :=
  bs.foldl (fun m b => swapRC m b.1 b.2) a

/-- the "swaps back" loop: recorded swaps in reverse order, each through its base swaps -/
def undoSwaps (n : Nat) (a : Mat R) (sw : List (Nat × Nat)) : Mat R :=
  sw.reverse.foldl (fun m s => applyBase m (baseSwaps n s)) a

/-! ### data part -/
variable [MulOps R]
open MulOps

def ident2 : DMat R := ⟨2, fun i j => if i = j then one else zero⟩

/-- Go `TensorProductComplex` -/
def tensor (a b : DMat R) : DMat R :=
  ⟨a.dim * b.dim, fun i j => mul (a.e (i / b.dim) (j / b.dim)) (b.e (i % b.dim) (j % b.dim))⟩

def factorMat (gs : List (Gate R)) : Option Nat → Option (DMat R)
  | none => some ident2
  | some k => match gs[k]? with
    | some g => some ⟨2 ^ g.args.length, g.m⟩
    | none => none

/-- fold of the tensor products (`result == nil` → the first factor itself) -/
def tensorAll (gs : List (Gate R)) : List (Option Nat) → Option (DMat R) → Option (DMat R)
  | [], acc => acc
  | f :: fs, acc =>
    match factorMat gs f with
    | none => none
    | some m => tensorAll gs fs (some (match acc with | none => m | some a => tensor a m))

def build (n : Nat) (gs : List (Gate R)) (p : Plan) : Option (DMat R) :=
  match tensorAll gs p.factors none with
  | none => none
  | some m => some ⟨m.dim, undoSwaps n m.e p.swaps⟩

/-- model of `BmMatrixFromOperation` on `n` qubits -/
def layer (stale : Bool) (n : Nat) (gs : List (Gate R)) : Option (DMat R) :=
  match plan stale n (gs.map (·.args)) with
  | none => none
  | some p => build n gs p

/-! ### model of `QasmToBmMatrices`: greedy split into layers -/

def splitLayers {G : Type} (argsOf : G → List Nat) : List G → List G → List Nat → List (List G)
  | [], cur, _ => if cur.isEmpty then [] else [cur.reverse]
  | g :: gs, cur, used =>
    if (argsOf g).any used.contains then
      (if cur.isEmpty then [] else [cur.reverse]) ++ splitLayers argsOf gs [g] (argsOf g)
    else splitLayers argsOf gs (g :: cur) (argsOf g ++ used)

def compileLayers (c : List (Gate R)) : List (List (Gate R)) := splitLayers (·.args) c [] []

/-! ### reference semantics -/

/-- index into a gate matrix: the bits of the arguments, first argument most significant -/
def locIdx (n : Nat) (args : List Nat) (i : Nat) : Nat :=
  args.foldl (fun acc a => 2 * acc + (qbit n a i).toNat) 0

/-- `i` and `j` agree on every qubit not in `as` -/
def agreeOut (n : Nat) (as : List Nat) (i j : Nat) : Bool :=
  (List.range n).all fun a => as.contains a || (qbit n a i == qbit n a j)

/-- the gate applied to its named qubits, identity elsewhere -/
def embed (n : Nat) (g : Gate R) : Mat R := fun i j =>
  if agreeOut n g.args i j then g.m (locIdx n g.args i) (locIdx n g.args j) else zero

/-- gates on disjoint qubits applied together: product of the gate entries -/
def layerRef (n : Nat) (gs : List (Gate R)) : Mat R := fun i j =>
  if agreeOut n (gs.flatMap (·.args)) i j then
    gs.foldr (fun g acc => mul (g.m (locIdx n g.args i) (locIdx n g.args j)) acc) one
  else zero

end generic

/-! ### matrix algebra over `Ops` -/
section algebra
variable {R : Type} [Ops R]
open MulOps Ops

def sumN (f : Nat → R) : Nat → R
  | 0 => zero
  | k + 1 => add (sumN f k) (f k)

def mmul (N : Nat) (a b : Mat R) : Mat R := fun i j => sumN (fun k => mul (a i k) (b k j)) N

def idMat : Mat R := fun i j => if i = j then one else zero

/-- Go `MatrixVectorProductComplex` -/
def mulVec (N : Nat) (a : Mat R) (v : Nat → R) : Nat → R := fun i => sumN (fun k => mul (a i k) (v k)) N

def basis (k : Nat) : Nat → R := fun i => if i = k then one else zero

/-- the circuit's unitary: gates applied in program order (a later gate multiplies on the left) -/
def Uref (n : Nat) (c : List (Gate R)) : Mat R :=
  c.foldl (fun U g => mmul (2 ^ n) (embed n g) U) idMat

/-- product of the emitted matrices `M_last * … * M_0` (as cmd/bmqsim multiplies them) -/
def prodMats (N : Nat) (ms : List (Mat R)) : Mat R :=
  ms.foldl (fun P m => mmul N m P) idMat

/-- Go `RunSoftwareSimulation` on one input vector: matrices applied first to last -/
def simulate (N : Nat) (ms : List (Mat R)) (v : Nat → R) : Nat → R :=
  ms.foldl (fun s m => mulVec N m s) v

end algebra

/-! ### the whole compiler: one matrix per layer (`QasmToBmMatrices`), `none` = error/panic -/
section compile
variable {R : Type} [MulOps R]

def compileMats (stale : Bool) (n : Nat) : List (List (Gate R)) → Option (List (DMat R))
  | [] => some []
  | l :: ls =>
    match layer stale n l, compileMats stale n ls with
    | some m, some ms => some (m :: ms)
    | _, _ => none

/-- model of `QasmToBmMatrices` on `n` declared qubits -/
def compile (stale : Bool) (n : Nat) (c : List (Gate R)) : Option (List (DMat R)) :=
  compileMats stale n (compileLayers c)

end compile

/-! ### the symbolic instance: an entry is 0 or a product of atoms (gate line, row, column) -/

abbrev Atom := Nat × Nat × Nat

abbrev Sym := Option (List Atom)

instance : MulOps Sym where
  zero := none
  one := some []
  mul a b := match a, b with
    | some x, some y => some (x ++ y)
    | _, _ => none

def symGate (k : Nat) (args : List Nat) : Gate Sym := ⟨fun r c => some [(k, r, c)], args⟩

def symGatesFrom : Nat → List (List Nat) → List (Gate Sym)
  | _, [] => []
  | k, a :: as => symGate k a :: symGatesFrom (k + 1) as

def symGates (L : List (List Nat)) : List (Gate Sym) := symGatesFrom 0 L

def Atom.ble (a b : Atom) : Bool :=
  a.1 < b.1 || (a.1 == b.1 && (a.2.1 < b.2.1 || (a.2.1 == b.2.1 && a.2.2 ≤ b.2.2)))

def insertAtom (a : Atom) : List Atom → List Atom
  | [] => [a]
  | b :: bs => if Atom.ble a b then a :: b :: bs else b :: insertAtom a bs

def sortAtoms : List Atom → List Atom
  | [] => []
  | a :: as => insertAtom a (sortAtoms as)

/-- equality of symbolic entries as commutative monomials -/
def symEq (a b : Sym) : Bool :=
  match a, b with
  | none, none => true
  | some x, some y => sortAtoms x == sortAtoms y
  | _, _ => false

end BMV.Quantum
