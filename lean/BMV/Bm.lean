/-
  BMV.Bm — a whole BondMachine, in both worlds.

  * `isaStep`  — model of /repo/pkg/bondmachine/vm.go `VM.Step`: the six pre-compute movement
    loops (external inputs → internal outputs, internal outputs → internal inputs along `Links`,
    internal inputs → processor ports, external `recv` → internal inputs, the running `&&` of the
    consumers' `recv` per internal output, internal outputs' `recv` → processors), one
    `BMV.Isa.step` of every processor, the six post-compute loops — in exactly that sequence.
    State = every processor's `VmState` + the external / internal register, valid and recv arrays.
  * `rtlCycle` — one clock of the generated top level: every processor's `BMV.Rtl.cycle` with its
    ports wired through the bonds as `Write_verilog_main` wires them (`BMV.Bond.wire`,
    theorem `netlist_exact`): data/valid combinationally from the driver's registers, `received` of
    an internal output = conjunction over its consumers (no consumer: undriven = 0).
  * `envStep`  — the reactive environment automaton used for both worlds (offers a value on an
    external input and holds valid until received, then waits for received to drop; acknowledges
    an external output some stalls after valid, holds the acknowledge until valid drops).
  * `isaHazard` / `rtlHazard` — the C04 signature (hypothesis `PortReuseSafe`): a handshake
    instruction starts on a port whose previous 4-phase cycle has not finished.

  Imports (does not copy) BMV.Topology, BMV.Bond, BMV.Isa, BMV.Rtl.  Core-only.
-/
import BMV.Bond
import BMV.Isa
import BMV.Rtl
import BMV.Kpn
namespace BMV.Bm
open BMV BMV.Bits BMV.Topology

structure Machine where
  topo : Topo
  archs : List Arch
  progs : List (List Bits)
deriving Repr, Inhabited

/-- the state of `bondmachine.VM` -/
structure BmState where
  procs : List VmState := []
  inRegs : List Nat := []        -- Inputs_regs
  inValid : List Bool := []      -- InputsValid
  inRecv : List Bool := []       -- InputsRecv
  outRegs : List Nat := []       -- Outputs_regs
  outValid : List Bool := []     -- OutputsValid
  outRecv : List Bool := []      -- OutputsRecv
  iiRegs : List Nat := []        -- Internal_inputs_regs
  iiValid : List Bool := []      -- InternalInputsValid
  iiRecv : List Bool := []       -- InternalInputsRecv
  ioRegs : List Nat := []        -- Internal_outputs_regs
  ioValid : List Bool := []      -- InternalOutputsValid
  ioRecv : List Bool := []       -- InternalOutputsRecv
deriving DecidableEq, Repr, Inhabited

/-- what the environment drives between two ticks / clocks -/
structure EnvIn where
  inRegs : List Nat := []
  inValid : List Bool := []
  outRecv : List Bool := []
deriving DecidableEq, Repr, Inhabited

/-- what the environment observes after a tick / clock -/
structure EnvOut where
  outRegs : List Nat := []
  outValid : List Bool := []
  inRecv : List Bool := []
deriving DecidableEq, Repr, Inhabited

/-- `VM.Init` -/
def init (m : Machine) : BmState :=
  let t := m.topo
  { procs := m.archs.map Isa.init
    inRegs := List.replicate t.inputs 0, inValid := List.replicate t.inputs false, inRecv := List.replicate t.inputs false
    outRegs := List.replicate t.outputs 0, outValid := List.replicate t.outputs false, outRecv := List.replicate t.outputs false
    iiRegs := List.replicate t.iin.length 0, iiValid := List.replicate t.iin.length false, iiRecv := List.replicate t.iin.length false
    ioRegs := List.replicate t.iout.length 0, ioValid := List.replicate t.iout.length false, ioRecv := List.replicate t.iout.length false }

def modifyAt {α} (l : List α) (i : Nat) (f : α → α) : List α :=
  match l[i]? with
  | some x => l.set i (f x)
  | none => l

/-! ### the running `&&` of VM.Step (vm.go 414-447 and 540-573)

  `dataRecv := make(map[int]bool)`; for every link `i ↦ j` in the order of `Links`: first hit
  stores `InternalInputsRecv[i]`, later hits store `old && InternalInputsRecv[i]`; an internal
  output without entry gets `false`.  The map is an association list (newest binding first). -/

def recvUpd (m : List (Nat × Bool)) (j : Nat) (r : Bool) : List (Nat × Bool) :=
  match m.lookup j with
  | none => (j, r) :: m
  | some v => (j, v && r) :: m

def recvFold (ps : List (Option Nat × Bool)) (m : List (Nat × Bool)) : List (Nat × Bool) :=
  ps.foldl (fun m p => match p.1 with | none => m | some j => recvUpd m j p.2) m

def recvOf (links : List (Option Nat)) (iiRecv : List Bool) (j : Nat) : Bool :=
  ((recvFold (links.zipIdx.map fun (l, i) => (l, iiRecv.getD i false)) []).lookup j).getD false

/-! ### the movement loops, one definition per loop of `VM.Step` -/

/-- 363-373: external inputs → internal outputs (data, valid) -/
def mvExtIn (t : Topo) (s : BmState) : BmState :=
  { s with
    ioRegs := t.iout.zipIdx.map fun (b, i) => if b.kind = 0 then s.inRegs.getD b.res 0 else s.ioRegs.getD i 0
    ioValid := t.iout.zipIdx.map fun (b, i) => if b.kind = 0 then s.inValid.getD b.res false else s.ioValid.getD i false }

/-- 376-386 and 502-512: internal outputs → internal inputs along `Links` (data, valid) -/
def mvLinks (t : Topo) (s : BmState) : BmState :=
  { s with
    iiRegs := t.links.zipIdx.map fun (l, i) => match l with | some j => s.ioRegs.getD j 0 | none => s.iiRegs.getD i 0
    iiValid := t.links.zipIdx.map fun (l, i) => match l with | some j => s.ioValid.getD j false | none => s.iiValid.getD i false }

/-- 389-399: internal inputs → processor inputs (data, valid) -/
def mvToProcs (t : Topo) (s : BmState) : BmState :=
  { s with
    procs := t.iin.zipIdx.foldl (fun ps (b, i) =>
      if b.kind = 2 then
        modifyAt ps b.res fun v => { v with inputs := v.inputs.set b.ext (s.iiRegs.getD i 0),
                                            inValid := v.inValid.set b.ext (s.iiValid.getD i false) }
      else ps) s.procs }

/-- 402-411: external outputs' recv → internal inputs -/
def mvExtRecv (t : Topo) (s : BmState) : BmState :=
  { s with iiRecv := t.iin.zipIdx.map fun (b, i) => if b.kind = 1 then s.outRecv.getD b.res false else s.iiRecv.getD i false }

/-- 414-447 and 540-573: recv of every internal output = running && over its consumers -/
def mvRecvAnd (t : Topo) (s : BmState) : BmState :=
  { s with ioRecv := (List.range t.iout.length).map (recvOf t.links s.iiRecv) }

/-- 450-459: internal outputs' recv → processors' OutputsRecv -/
def mvRecvToProcs (t : Topo) (s : BmState) : BmState :=
  { s with
    procs := t.iout.zipIdx.foldl (fun ps (b, i) =>
      if b.kind = 3 then
        modifyAt ps b.res fun v => { v with outRecv := v.outRecv.set b.ext (s.ioRecv.getD i false) }
      else ps) s.procs }

/-- 489-499: processor outputs → internal outputs (data, valid) -/
def mvFromProcs (t : Topo) (s : BmState) : BmState :=
  { s with
    ioRegs := t.iout.zipIdx.map fun (b, i) =>
      if b.kind = 3 then ((s.procs.getD b.res {}).outputs.getD b.ext 0) else s.ioRegs.getD i 0
    ioValid := t.iout.zipIdx.map fun (b, i) =>
      if b.kind = 3 then ((s.procs.getD b.res {}).outValid.getD b.ext false) else s.ioValid.getD i false }

/-- 515-525: internal inputs → external outputs (data, valid) -/
def mvExtOut (t : Topo) (s : BmState) : BmState :=
  t.iin.zipIdx.foldl (fun s (b, i) =>
    if b.kind = 1 then
      { s with outRegs := s.outRegs.set b.res (s.iiRegs.getD i 0), outValid := s.outValid.set b.res (s.iiValid.getD i false) }
    else s) s

/-- 528-537: processors' InputsRecv → internal inputs -/
def mvProcRecv (t : Topo) (s : BmState) : BmState :=
  { s with iiRecv := t.iin.zipIdx.map fun (b, i) =>
      if b.kind = 2 then ((s.procs.getD b.res {}).inRecv.getD b.ext false) else s.iiRecv.getD i false }

/-- 576-585: internal outputs' recv → external inputs' recv -/
def mvExtInRecv (t : Topo) (s : BmState) : BmState :=
  t.iout.zipIdx.foldl (fun s (b, i) =>
    if b.kind = 0 then { s with inRecv := s.inRecv.set b.res (s.ioRecv.getD i false) } else s) s

def preMove (t : Topo) (s : BmState) : BmState :=
  mvRecvToProcs t (mvRecvAnd t (mvExtRecv t (mvToProcs t (mvLinks t (mvExtIn t s)))))

def postMove (t : Topo) (s : BmState) : BmState :=
  mvExtInRecv t (mvRecvAnd t (mvProcRecv t (mvExtOut t (mvLinks t (mvFromProcs t s)))))

/-- every processor takes one `Isa.step` (the workers run concurrently on disjoint `procbuilder.VM`s) -/
def compute (m : Machine) (s : BmState) : Option BmState := do
  let ps ← (s.procs.zipIdx).mapM fun (v, p) =>
    match m.archs[p]?, m.progs[p]? with
    | some a, some prog => Isa.step a prog v
    | _, _ => none
  pure { s with procs := ps }

/-- the environment writes `Inputs_regs`, `InputsValid`, `OutputsRecv` between steps -/
def setEnv (s : BmState) (e : EnvIn) : BmState :=
  { s with inRegs := e.inRegs, inValid := e.inValid, outRecv := e.outRecv }

/-- `VM.Step` -/
def isaStep (m : Machine) (s : BmState) : Option BmState :=
  (compute m (preMove m.topo s)).map (postMove m.topo)

def observeIsa (s : BmState) : EnvOut :=
  { outRegs := s.outRegs, outValid := s.outValid, inRecv := s.inRecv }

/-! ### the hardware world -/

structure HwState where
  procs : List RtlState := []
deriving DecidableEq, Repr, Inhabited

def hwInit (m : Machine) : HwState := { procs := m.archs.map Rtl.reset }

/-- the internal output bonded to sink `s` -/
abbrev driverOf (t : Topo) (s : Bond) : Option Bond := Bond.driverOf t s

/-- value on the data net of internal output `o`: an external input port, or the `_auxo` register
    of the processor (`assign oK = _auxoK`) -/
def hwData (h : HwState) (e : EnvIn) (o : Bond) : Nat :=
  if o.kind = 0 then e.inRegs.getD o.res 0
  else if o.kind = 3 then (h.procs.getD o.res {}).auxo.getD o.ext 0
  else 0

def hwValid (h : HwState) (e : EnvIn) (o : Bond) : Bool :=
  if o.kind = 0 then e.inValid.getD o.res false
  else if o.kind = 3 then (h.procs.getD o.res {}).oVal.getD o.ext false
  else false

/-- value on the `_received` net of sink `s`: an external output's port, or the `iK_recv` register -/
def hwSinkRecv (h : HwState) (e : EnvIn) (s : Bond) : Bool :=
  if s.kind = 1 then e.outRecv.getD s.res false
  else if s.kind = 2 then (h.procs.getD s.res {}).iRecv.getD s.ext false
  else false

/-- `_received` of internal output number `j`: the emitted conjunction; no consumer: undriven (0) -/
def hwRecv (t : Topo) (h : HwState) (e : EnvIn) (j : Nat) : Bool :=
  let cs := Bond.consumers t j
  !cs.isEmpty && cs.all (hwSinkRecv h e)

def idxOfOut (t : Topo) (o : Bond) : Option Nat := t.iout.findIdx? (· = o)

def portsIn (t : Topo) (h : HwState) (e : EnvIn) (p : Nat) (a : Arch) : PortsIn :=
  { inputs := (List.range a.n).map fun k => match driverOf t ⟨2, p, k⟩ with | some o => hwData h e o | none => 0
    inValid := (List.range a.n).map fun k => match driverOf t ⟨2, p, k⟩ with | some o => hwValid h e o | none => false
    outRecv := (List.range a.m).map fun k => match idxOfOut t ⟨3, p, k⟩ with | some j => hwRecv t h e j | none => false }

/-- one rising clock edge of module `bondmachine` (reset low) -/
def rtlCycle (m : Machine) (h : HwState) (e : EnvIn) : HwState :=
  { procs := h.procs.zipIdx.map fun (s, p) =>
      match m.archs[p]?, m.progs[p]? with
      | some a, some prog => Rtl.cycle a prog s (portsIn m.topo h e p a)
      | _, _ => s }

/-- the external outputs of module `bondmachine` (combinational in the registers and the inputs) -/
def observeHw (t : Topo) (h : HwState) (e : EnvIn) : EnvOut :=
  { outRegs := (List.range t.outputs).map fun k => match driverOf t ⟨1, k, 0⟩ with | some o => hwData h e o | none => 0
    outValid := (List.range t.outputs).map fun k => match driverOf t ⟨1, k, 0⟩ with | some o => hwValid h e o | none => false
    inRecv := (List.range t.inputs).map fun k => match idxOfOut t ⟨0, k, 0⟩ with | some j => hwRecv t h e j | none => false }

/-! ### the environment automaton (the Go harness holds the same automaton: cmd/c02 `envState.step`) -/

structure EnvSpec where
  vals : List (List Nat) := []     -- per external input: the values offered, cyclic
  idel : List (List Nat) := []     -- per external input: idle ticks before each offer, cyclic
  odel : List (List Nat) := []     -- per external output: ticks between valid seen and acknowledge, cyclic
  ihold : List (List Nat) := []    -- per external input: ticks valid is held after received rose, cyclic
  orel : List (List Nat) := []     -- per external output: ticks received is held after valid fell, cyclic
deriving Repr, Inhabited

structure InPort where
  idx : Nat := 0
  ph : Nat := 0        -- 0 idle, 1 offering, 3 holding valid after received, 2 waiting for received to drop
  cnt : Nat := 0
  data : Nat := 0
  valid : Bool := false
deriving DecidableEq, Repr, Inhabited

structure OutPort where
  idx : Nat := 0
  ph : Nat := 0        -- 0 idle, 1 stalling before the acknowledge, 2 acknowledged, 3 holding received after valid fell
  cnt : Nat := 0
  recv : Bool := false
  stream : List Nat := []     -- delivered values, newest first
deriving DecidableEq, Repr, Inhabited

structure EnvSt where
  ins : List InPort := []
  outs : List OutPort := []
deriving DecidableEq, Repr, Inhabited

def cyc (l : List Nat) (i : Nat) : Nat := if l.length = 0 then 0 else l.getD (i % l.length) 0

def envInit (spec : EnvSpec) (ni no : Nat) : EnvSt :=
  { ins := (List.range ni).map fun k => { cnt := cyc (spec.idel.getD k []) 0 }
    outs := (List.range no).map fun _ => {} }

def inStep (vals idel ihold : List Nat) (p : InPort) (recv : Bool) : InPort :=
  if p.ph = 0 then
    if vals.length = 0 then p
    else if p.cnt > 0 then { p with cnt := p.cnt - 1 }
    else { p with data := cyc vals p.idx, valid := true, ph := 1 }
  else if p.ph = 1 then
    if recv then
      -- slow release: valid is held `ihold` more ticks after received rose
      (if cyc ihold p.idx = 0 then { p with valid := false, ph := 2 }
       else { p with cnt := cyc ihold p.idx - 1, ph := 3 })
    else p
  else if p.ph = 3 then
    if p.cnt > 0 then { p with cnt := p.cnt - 1 } else { p with valid := false, ph := 2 }
  else
    if !recv then { p with idx := p.idx + 1, cnt := cyc idel (p.idx + 1), ph := 0 } else p

def outStep (odel orel : List Nat) (p : OutPort) (data : Nat) (valid : Bool) : OutPort :=
  if p.ph = 0 then
    if valid then { p with cnt := cyc odel p.idx, ph := 1 } else p
  else if p.ph = 1 then
    if p.cnt > 0 then { p with cnt := p.cnt - 1 }
    else { p with recv := true, stream := data :: p.stream, idx := p.idx + 1, ph := 2 }
  else if p.ph = 2 then
    if !valid then
      -- slow release: received is held `orel` more ticks after valid fell (`idx` already counts
      -- the value just delivered)
      (if cyc orel (p.idx - 1) = 0 then { p with recv := false, ph := 0 }
       else { p with cnt := cyc orel (p.idx - 1) - 1, ph := 3 })
    else p
  else
    if p.cnt > 0 then { p with cnt := p.cnt - 1 } else { p with recv := false, ph := 0 }

def envStep (spec : EnvSpec) (st : EnvSt) (obs : EnvOut) : EnvSt :=
  { ins := st.ins.zipIdx.map fun (p, k) =>
      inStep (spec.vals.getD k []) (spec.idel.getD k []) (spec.ihold.getD k []) p (obs.inRecv.getD k false)
    outs := st.outs.zipIdx.map fun (p, k) =>
      outStep (spec.odel.getD k []) (spec.orel.getD k []) p (obs.outRegs.getD k 0) (obs.outValid.getD k false) }

def envDrive (st : EnvSt) : EnvIn :=
  { inRegs := st.ins.map (·.data), inValid := st.ins.map (·.valid), outRecv := st.outs.map (·.recv) }

/-- per external output the values delivered so far, oldest first -/
def envStreams (st : EnvSt) : List (List Nat) := st.outs.map fun p => p.stream.reverse

/-! ### the C04 signature: a handshake instruction starts on a port whose previous 4-phase cycle
    is not over (hypothesis `PortReuseSafe`).  Defined on the state right before the processor's
    step / clock, together with the effect that makes it harmful, so that a repaired protocol
    (the instruction waits instead) never meets it. -/

def decode (a : Arch) (prog : List Bits) (pc : Nat) : Option (String × Bits) :=
  match prog[pc]? with
  | none => none
  | some w => (a.ops[getId (w.take a.opBits)]?).map fun op => (op, w.drop a.opBits)

/-- simulator: `i2rw` takes a value while its own `InputsRecv` is still up (valid not yet seen low
    since the last capture); `r2owa` raises valid / completes while `OutputsRecv` is still up from
    the previous transfer -/
def isaHazard (a : Arch) (prog : List Bits) (s : VmState) : Bool :=
  match decode a prog s.pc with
  | some ("i2rw", body) =>
    let k := Isa.field body a.r a.inBits
    (s.inValid[k]? == some true) && (s.inRecv[k]? == some true) &&
      (match Isa.step a prog s with | some s' => s'.pc != s.pc | none => false)
  | some ("r2owa", body) =>
    let o := Isa.field body a.r a.outBits
    (s.outValid[o]? == some false) && (s.outRecv[o]? == some true) &&
      (match Isa.step a prog s with | some s' => s'.pc != s.pc || s'.outValid.getD o false | none => false)
  | _ => false

/-- hardware (decoded as the hardware decodes: part-selects of the ROM word): the `i2rw` arm fires
    while `iK_recv` is still up; `r2owa` starts (waitsm = 0) while `oK_val` is still up and
    received, and valid does not drop (the producer then waits for ever) -/
def rtlHazard (a : Arch) (prog : List Bits) (s : RtlState) (p : PortsIn) : Bool :=
  let cur := Rtl.fetch prog s.pc
  match Rtl.curOp a cur with
  | some "i2rw" =>
    let k := Rtl.part cur a.maxWord (a.opBits + a.r) a.inBits
    p.inValid.getD k false && s.iRecv.getD k false && (Rtl.cycle a prog s p).pc != s.pc
  | some "r2owa" =>
    let o := Rtl.part cur a.maxWord (a.opBits + a.r) a.outBits
    !s.waitsm && s.oVal.getD o false && p.outRecv.getD o false && (Rtl.cycle a prog s p).oVal.getD o false
  | _ => false

/-- some processor of the machine is in the hazard right before this tick's compute phase -/
def bmIsaHazard (m : Machine) (s : BmState) : Bool :=
  ((preMove m.topo s).procs.zipIdx).any fun (v, p) =>
    match m.archs[p]?, m.progs[p]? with
    | some a, some prog => isaHazard a prog v
    | _, _ => false

def bmRtlHazard (m : Machine) (h : HwState) (e : EnvIn) : Bool :=
  (h.procs.zipIdx).any fun (s, p) =>
    match m.archs[p]?, m.progs[p]? with
    | some a, some prog => rtlHazard a prog s (portsIn m.topo h e p a)
    | _, _ => false

/-! ### closed-loop runs: machine + environment, `n` ticks / clocks -/

/-- simulator world: observe, let the environment move, drive, step.  `none` = a processor's
    `Step` fails.  Returns the machine state, the environment and whether a hazard was met. -/
def runIsa (m : Machine) (spec : EnvSpec) : Nat → BmState × EnvSt × Bool → Option (BmState × EnvSt × Bool)
  | 0, x => some x
  | n + 1, (s, env, hz) =>
    let env' := envStep spec env (observeIsa s)
    let s1 := setEnv s (envDrive env')
    match isaStep m s1 with
    | none => none
    | some s2 => runIsa m spec n (s2, env', hz || bmIsaHazard m s1)

/-- hardware world: the environment observes the outputs as they stand after the previous edge
    (with its own previous drive still applied), moves, drives, the clock ticks -/
def runRtl (m : Machine) (spec : EnvSpec) : Nat → HwState × EnvSt × Bool → HwState × EnvSt × Bool
  | 0, x => x
  | n + 1, (h, env, hz) =>
    let env' := envStep spec env (observeHw m.topo h (envDrive env))
    let e := envDrive env'
    runRtl m spec n (rtlCycle m h e, env', hz || bmRtlHazard m h e)

/-! ### the reference semantics: the machine as a blocking-IO process network (BMV.Kpn.ChanNet)

  Agents: every processor, every external input (a writer of its value stream), every external
  output (a reader).  Channels = internal outputs (numbered as in `Internal_outputs`), reader slots
  = internal inputs (numbered as in `Internal_inputs` / `Links`).  A processor's next action is
  decided by the instruction at its pc: `i2rw r, iE` = blocking read of the slot of `pPiE` into
  `r`; `r2owa r, oE` = blocking write of `r` to the channel of `pPoE`; anything else = the
  simulator's `Isa.exec` (an internal step).  Unbonded ports block for ever.  Timing (stalls,
  idle and acknowledge delays of the environment) is not in this semantics: it is the schedule. -/

inductive RefAgent where
  | proc (p : Nat)
  | envIn (k : Nat)
  | envOut (k : Nat)
deriving DecidableEq, Repr

inductive RefLoc where
  | proc (v : VmState)
  | inp (idx : Nat)
  | out
deriving Repr, Inhabited

def slotOf (t : Topo) (s : Bond) : Option Nat := t.iin.findIdx? (· = s)

/-- the channel that slot `i` listens to -/
def chanOfSlot (t : Topo) (i : Nat) : Option Nat := (t.links[i]?).join

def procAct (t : Topo) (a : Arch) (prog : List Bits) (p : Nat) (v : VmState) : Kpn.Act RefLoc :=
  match decode a prog v.pc with
  | none => .blocked
  | some (op, body) =>
    if op = "i2rw" then
      let r := Isa.field body 0 a.r
      let e := Isa.field body a.r a.inBits
      match slotOf t ⟨2, p, e⟩ with
      | none => .blocked
      | some slot =>
        match chanOfSlot t slot with
        | none => .blocked
        | some ch => .read slot ch (fun x => .proc { v with regs := v.regs.set r x, pc := v.pc + 1 })
    else if op = "r2owa" then
      let r := Isa.field body 0 a.r
      let e := Isa.field body a.r a.outBits
      match idxOfOut t ⟨3, p, e⟩ with
      | none => .blocked
      | some ch => .write ch (v.regs.getD r 0) (.proc { v with pc := v.pc + 1 })
    else
      match Isa.exec a prog.length op body v with
      | some v' => .internal (.proc v')
      | none => .blocked

def refAct (m : Machine) (spec : EnvSpec) : RefAgent → RefLoc → Kpn.Act RefLoc
  | .proc p, .proc v =>
    match m.archs[p]?, m.progs[p]? with
    | some a, some prog => procAct m.topo a prog p v
    | _, _ => .blocked
  | .envIn k, .inp idx =>
    let vals := spec.vals.getD k []
    if vals.length = 0 then .blocked
    else match idxOfOut m.topo ⟨0, k, 0⟩ with
      | none => .blocked
      | some ch => .write ch (cyc vals idx) (.inp (idx + 1))
  | .envOut k, _ =>
    match slotOf m.topo ⟨1, k, 0⟩ with
    | none => .blocked
    | some slot =>
      match chanOfSlot m.topo slot with
      | none => .blocked
      | some ch => .read slot ch (fun _ => .out)
  | _, _ => .blocked

/-- the slots of `Links` that point at channel `j` -/
def slotsOfChan (t : Topo) (j : Nat) : List Nat :=
  t.links.zipIdx.filterMap fun (l, i) => if l = some j then some i else none

def slotOwner (t : Topo) (i : Nat) : RefAgent :=
  match t.iin[i]? with
  | some b => if b.kind = 2 then .proc b.res else .envOut b.res
  | none => .envOut 0

def chanOwner (t : Topo) (j : Nat) : RefAgent :=
  match t.iout[j]? with
  | some b => if b.kind = 3 then .proc b.res else .envIn b.res
  | none => .envIn 0

def refNet (m : Machine) (spec : EnvSpec) : Kpn.ChanNet RefAgent RefLoc :=
  { act := refAct m spec
    slotsOf := slotsOfChan m.topo
    slotOwner := slotOwner m.topo
    chanOwner := chanOwner m.topo }

def refInit (m : Machine) : Kpn.NState RefAgent RefLoc :=
  { loc := fun i => match i with
      | .proc p => .proc (match m.archs[p]? with | some a => Isa.init a | none => {})
      | .envIn _ => .inp 0
      | .envOut _ => .out
    sent := fun _ => 0, val := fun _ => 0, cnt := fun _ => 0, got := fun _ => [] }

/-- per external output the values its reader slot has taken -/
def refStreams (t : Topo) (σ : Kpn.NState RefAgent RefLoc) : List (List Nat) :=
  (List.range t.outputs).map fun k => match slotOf t ⟨1, k, 0⟩ with | some s => σ.got s | none => []

/-- all agents of a machine, for round-robin schedules -/
def refAgents (m : Machine) : List RefAgent :=
  (List.range m.topo.procs.length).map .proc ++ (List.range m.topo.inputs).map .envIn
    ++ (List.range m.topo.outputs).map .envOut

/-- `rounds` round-robin rounds; an agent that is not enabled is skipped -/
def refRun (m : Machine) (spec : EnvSpec) (rounds : Nat) : Kpn.NState RefAgent RefLoc :=
  (List.range rounds).foldl (fun σ _ =>
    (refAgents m).foldl (fun σ i => ((refNet m spec).step i σ).getD σ) σ) (refInit m)

end BMV.Bm
