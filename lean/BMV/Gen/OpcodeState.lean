/- REGENERATED on every run by `h-c09 extract <repo>` (harness/cmd/c09/extract.go) from
   pkg/procbuilder.  Do not edit. -/
namespace BMV.Gen.OpcodeState

/-- number of opcode types (struct types with a Simulate method) that were inspected -/
def opcodeTypes : Nat := 100

/-- (opcode type, field, kind of reference type, Simulate writes through it) -/
def refFields : List (String × String × String × Bool) := [
  ("Cmpr", "pipeline", "pointer", false),
  ("Cmprlt", "pipeline", "pointer", false),
  ("FloPoCo", "entities", "slice", false)
]

/-- (opcode type, package-level variable of pkg/procbuilder assigned inside its Simulate) -/
def pkgVarWrites : List (String × String) := [
]

/-- process-wide registries: (package, package-level variable of slice/map type, kind, the functions
    of the package that assign / append to / index-assign it) -/
def pkgGlobals : List (String × String × String × List String) := [
  ("bmnumbers", "AllDynamicalTypes", "slice", ["init"]),
  ("bmnumbers", "AllMatchers", "map", ["EventuallyCreateType", "init"]),
  ("bmnumbers", "AllTypes", "slice", ["EventuallyCreateType", "init"]),
  ("procbuilder", "AllDynamicalInstructions", "slice", ["init"]),
  ("procbuilder", "Allopcodes", "slice", ["EventuallyCreateInstruction", "init"]),
  ("procbuilder", "Allshared", "slice", ["init"])
]

/-- uses of the wall clock / timers (package time) in the simulator packages: (file, function, call).
    A simulation step that consults the clock makes the trace depend on the host's load. -/
def clockSites : List (String × String × String) := [
  ("pkg/procbuilder/machine.go", "init", "time.Now")
]

end BMV.Gen.OpcodeState
