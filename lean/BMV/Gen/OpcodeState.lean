/- REGENERATED on every run by `h-c09 extract <repo>` (harness/cmd/c09/extract.go) from
   pkg/procbuilder.  Do not edit. -/
namespace BMV.Gen.OpcodeState

/-- number of opcode types (struct types with a Simulate method) that were inspected -/
def opcodeTypes : Nat := 100

/-- (opcode type, field, kind of reference type, Simulate writes through it) -/
def refFields : List (String × String × String × Bool) := [
  ("Cmpr", "pipeline", "pointer", false),
  ("Cmprlt", "pipeline", "pointer", false),
  ("FloPoCo", "entities", "slice", false)
]

/-- (opcode type, package-level variable of pkg/procbuilder assigned inside its Simulate) -/
def pkgVarWrites : List (String × String) := [
]

end BMV.Gen.OpcodeState
