/- REGENERATED on every check run by tools/regex2lean.py from `h-c08 matchers`
   (keys of bmnumbers.AllMatchers after init + EventuallyCreateType spread, sorted). Do not edit. -/
import BMV.Regex
namespace BMV.Gen
open BMV.Regex BMV.Regex.Regex

def matcherSources : List String := [
  "^(?P<uint>[0-9]+)$",
  "^0b(?P<bin>[0-1]+)$",
  "^0b<(?P<bits>[0-9]+)>(?P<bin>[0-1]+)$",
  "^0d(?P<uint>[0-9]+)$",
  "^0d(?P<uint>[0-9]+)\\.0+$",
  "^0d<(?P<size>[0-9]+)>(?P<uint>[0-9]+)$",
  "^0f(?P<number>[^pxPlL<].*)$",
  "^0f<16>(?P<number>[^lL].*)$",
  "^0f<32>(?P<number>[^pxPlL].*)$",
  "^0flp<(?P<e>[0-9]+)\\.(?P<f>[0-9]+)>(?P<number>.+)$",
  "^0fp<(?P<s>[0-9]+)\\.(?P<f>[0-9]+)>(?P<number>.+)$",
  "^0fxp<(?P<s>[0-9]+)\\.(?P<f>[0-9]+)>(?P<number>.+)$",
  "^0lq<(?P<s>[0-9]+)\\.(?P<t>[0-9]+)>(?P<number>.+)$",
  "^0s(?P<int>-?[0-9]+)$",
  "^0sd(?P<int>-?[0-9]+)$",
  "^0u(?P<uint>[0-9]+)$",
  "^0u(?P<uint>[0-9]+)\\.0+$",
  "^0u<(?P<size>[0-9]+)>(?P<uint>[0-9]+)$",
  "^0x(?P<hex>[0-9a-fA-F]+)$",
  "^0x<(?P<bits>[0-9]+)>(?P<hex>[0-9a-fA-F]+)$"
]

def matcherFuncs : List String := [
  "unsignedImportNoSize",
  "binImportNoSize",
  "binImportWithSize",
  "unsignedImportNoSize",
  "unsignedImportNoSize",
  "unsignedImportWithSize",
  "float32Import",
  "float16Import",
  "float32Import",
  "floPoCoImport",
  "fixedPointImport",
  "fxpImport",
  "linearQuantizerImport",
  "signedImportNoSize",
  "signedImportNoSize",
  "unsignedImportNoSize",
  "unsignedImportNoSize",
  "unsignedImportWithSize",
  "hexImportNoSize",
  "hexImportWithSize"
]

/-- `^(?P<uint>[0-9]+)$` (unsignedImportNoSize) -/
def m0 : Regex := seq [plus (.cls false [(48, 57)])]

/-- `^0b(?P<bin>[0-1]+)$` (binImportNoSize) -/
def m1 : Regex := seq [chr 48, chr 98, plus (.cls false [(48, 49)])]

/-- `^0b<(?P<bits>[0-9]+)>(?P<bin>[0-1]+)$` (binImportWithSize) -/
def m2 : Regex := seq [chr 48, chr 98, chr 60, plus (.cls false [(48, 57)]), chr 62, plus (.cls false [(48, 49)])]

/-- `^0d(?P<uint>[0-9]+)$` (unsignedImportNoSize) -/
def m3 : Regex := seq [chr 48, chr 100, plus (.cls false [(48, 57)])]

/-- `^0d(?P<uint>[0-9]+)\.0+$` (unsignedImportNoSize) -/
def m4 : Regex := seq [chr 48, chr 100, plus (.cls false [(48, 57)]), chr 46, plus (chr 48)]

/-- `^0d<(?P<size>[0-9]+)>(?P<uint>[0-9]+)$` (unsignedImportWithSize) -/
def m5 : Regex := seq [chr 48, chr 100, chr 60, plus (.cls false [(48, 57)]), chr 62, plus (.cls false [(48, 57)])]

/-- `^0f(?P<number>[^pxPlL<].*)$` (float32Import) -/
def m6 : Regex := seq [chr 48, chr 102, .cls true [(112, 112), (120, 120), (80, 80), (108, 108), (76, 76), (60, 60)], .star (any)]

/-- `^0f<16>(?P<number>[^lL].*)$` (float16Import) -/
def m7 : Regex := seq [chr 48, chr 102, chr 60, chr 49, chr 54, chr 62, .cls true [(108, 108), (76, 76)], .star (any)]

/-- `^0f<32>(?P<number>[^pxPlL].*)$` (float32Import) -/
def m8 : Regex := seq [chr 48, chr 102, chr 60, chr 51, chr 50, chr 62, .cls true [(112, 112), (120, 120), (80, 80), (108, 108), (76, 76)], .star (any)]

/-- `^0flp<(?P<e>[0-9]+)\.(?P<f>[0-9]+)>(?P<number>.+)$` (floPoCoImport) -/
def m9 : Regex := seq [chr 48, chr 102, chr 108, chr 112, chr 60, plus (.cls false [(48, 57)]), chr 46, plus (.cls false [(48, 57)]), chr 62, plus (any)]

/-- `^0fp<(?P<s>[0-9]+)\.(?P<f>[0-9]+)>(?P<number>.+)$` (fixedPointImport) -/
def m10 : Regex := seq [chr 48, chr 102, chr 112, chr 60, plus (.cls false [(48, 57)]), chr 46, plus (.cls false [(48, 57)]), chr 62, plus (any)]

/-- `^0fxp<(?P<s>[0-9]+)\.(?P<f>[0-9]+)>(?P<number>.+)$` (fxpImport) -/
def m11 : Regex := seq [chr 48, chr 102, chr 120, chr 112, chr 60, plus (.cls false [(48, 57)]), chr 46, plus (.cls false [(48, 57)]), chr 62, plus (any)]

/-- `^0lq<(?P<s>[0-9]+)\.(?P<t>[0-9]+)>(?P<number>.+)$` (linearQuantizerImport) -/
def m12 : Regex := seq [chr 48, chr 108, chr 113, chr 60, plus (.cls false [(48, 57)]), chr 46, plus (.cls false [(48, 57)]), chr 62, plus (any)]

/-- `^0s(?P<int>-?[0-9]+)$` (signedImportNoSize) -/
def m13 : Regex := seq [chr 48, chr 115, opt (chr 45), plus (.cls false [(48, 57)])]

/-- `^0sd(?P<int>-?[0-9]+)$` (signedImportNoSize) -/
def m14 : Regex := seq [chr 48, chr 115, chr 100, opt (chr 45), plus (.cls false [(48, 57)])]

/-- `^0u(?P<uint>[0-9]+)$` (unsignedImportNoSize) -/
def m15 : Regex := seq [chr 48, chr 117, plus (.cls false [(48, 57)])]

/-- `^0u(?P<uint>[0-9]+)\.0+$` (unsignedImportNoSize) -/
def m16 : Regex := seq [chr 48, chr 117, plus (.cls false [(48, 57)]), chr 46, plus (chr 48)]

/-- `^0u<(?P<size>[0-9]+)>(?P<uint>[0-9]+)$` (unsignedImportWithSize) -/
def m17 : Regex := seq [chr 48, chr 117, chr 60, plus (.cls false [(48, 57)]), chr 62, plus (.cls false [(48, 57)])]

/-- `^0x(?P<hex>[0-9a-fA-F]+)$` (hexImportNoSize) -/
def m18 : Regex := seq [chr 48, chr 120, plus (.cls false [(48, 57), (97, 102), (65, 70)])]

/-- `^0x<(?P<bits>[0-9]+)>(?P<hex>[0-9a-fA-F]+)$` (hexImportWithSize) -/
def m19 : Regex := seq [chr 48, chr 120, chr 60, plus (.cls false [(48, 57)]), chr 62, plus (.cls false [(48, 57), (97, 102), (65, 70)])]

def matchers : List Regex := [m0, m1, m2, m3, m4, m5, m6, m7, m8, m9, m10, m11, m12, m13, m14, m15, m16, m17, m18, m19]

end BMV.Gen
