/- REGENERATED on every run by `h-c17 extract <repo>` (harness/cmd/c17/extract.go) from the
   anchored Go files of property C17.  Do not edit. -/
namespace BMV.Gen.GoStmts

structure GoStmt where
  file : String
  encl : String
  callee : String
  exit : Option Bool   -- none: the spawned function has no body in the package (interface method)
  deriving DecidableEq, Repr

def goStmts : List GoStmt := [
  ⟨"pkg/bondmachine/vm.go", "Launch_processors", "EmuDriverDispatcher", some true⟩,
  ⟨"pkg/bondmachine/vm.go", "Launch_processors", "Run", none⟩,
  ⟨"pkg/bondmachine/vm.go", "Launch_processors", "Processor_execute", some true⟩,
  ⟨"pkg/bmreqs/reqroot.go", "NewReqRoot", "run", some true⟩,
  ⟨"cmd/simfinetune/simfinetune.go", "FitnessFunction", "func", some true⟩
]

/-- functions of the anchored files that call Launch_processors, and whether they also call Shutdown -/
def launchers : List (String × String × Bool) := [
  ("pkg/bondmachine/simulate.go", "SinglePipelineSimulate", true),
  ("pkg/bondmachine/evolutionary.go", "Fitness_default", true)
]

end BMV.Gen.GoStmts
