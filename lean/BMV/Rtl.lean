/-
  BMV.Rtl — executable model of what the Verilog text emitted by
  /repo/pkg/procbuilder (Conproc.Write_verilog + the per-opcode state-machine / header /
  extra-block templates, Rom.Write_verilog) does in ONE clock, in `ha` mode, for the
  co-implemented opcode set of C01.  The instruction word is a number and every field is a
  part-select `current_instruction[hi:lo]` at exactly the offsets the templates compute
  (`rom_word-opbits-…`).  Tied to the emitted text by running the parsed Verilog under BMV.Vlog
  next to this model (tools/props/c01.py).  Core-only.
-/
import BMV.Arch
namespace BMV
open BMV.Bits

/-- the registers of one pipelined opcode: `<op>_<tag>_state` (put = false / get = true) and the
    latched operands `<op>_<tag>_input_a`, `_input_b` -/
structure Pipe where
  st : Bool := false
  a : Nat := 0
  b : Nat := 0
deriving DecidableEq, Repr, Inhabited

structure RtlState where
  pc : Nat := 0
  regs : List Nat := []        -- _r0 …
  auxo : List Nat := []        -- _auxo0 … (drive the output ports)
  oVal : List Bool := []       -- o0_val …
  iRecv : List Bool := []      -- i0_recv …
  waitsm : Bool := false
  pAdd : Pipe := {}            -- addp_<tag>_state / _input_a / _input_b
  pMult : Pipe := {}
  pDiv : Pipe := {}
  romBus : Nat := 0            -- romread_bus   (ro2rri: address presented to the second ROM port)
  romReady : Bool := false     -- romread_ready (ro2rri: the address was presented in the previous clock)
deriving DecidableEq, Repr, Inhabited

def RtlState.getPipe (s : RtlState) (op : String) : Pipe :=
  if op = "addp" then s.pAdd else if op = "multp" then s.pMult else s.pDiv

def RtlState.setPipe (s : RtlState) (op : String) (p : Pipe) : RtlState :=
  if op = "addp" then { s with pAdd := p } else if op = "multp" then { s with pMult := p } else { s with pDiv := p }

structure PortsIn where
  inputs : List Nat := []
  inValid : List Bool := []
  outRecv : List Bool := []
deriving DecidableEq, Repr, Inhabited

namespace Rtl

def reset (a : Arch) : RtlState :=
  { pc := 0, regs := List.replicate (2 ^ a.r) 0, auxo := List.replicate a.m 0,
    oVal := List.replicate a.m false, iRecv := List.replicate a.n false, waitsm := false }

/-- `word[W-1-off : W-off-w]` of a `W`-bit word: the part-select the templates write for a field
    that starts `off` bits after the most significant bit -/
def part (cur W off w : Nat) : Nat := (cur / 2 ^ (W - off - w)) % 2 ^ w

def binop (op : String) (rs d s : Nat) : Nat :=
  let m := 2 ^ rs
  if op = "add" then (s + d) % m
  else if op = "mult" then (s * d) % m
  else if op = "div" then d / s            -- s = 0 is x in hardware; excluded by the hypotheses
  else if op = "mod" then (if s = 0 then 0 else d % s)   -- s = 0: x in hardware, 0 under BMV.Vlog; excluded by the hypotheses
  else if op = "cpy" then s
  else if op = "and" then s &&& d
  else if op = "or" then s ||| d
  else if op = "xor" then s ^^^ d
  else if op = "nand" then m - 1 - (s &&& d)
  else if op = "nor" then m - 1 - (s ||| d)
  else if op = "xnor" then m - 1 - (s ^^^ d)
  else if op = "not" then m - 1 - s
  else d

def unop (op : String) (rs x : Nat) : Nat :=
  let m := 2 ^ rs
  if op = "inc" then (x + 1) % m
  else if op = "dec" then (x + m - 1) % m
  else if op = "clr" then 0
  else x

def pipeOps : List String := ["addp", "multp", "divp"]

/-- the combinational helper module `<op>_<tag>` (`assign output_z = input_a OP input_b` at
    register width) -/
def pbinop (op : String) (rs x y : Nat) : Nat :=
  let m := 2 ^ rs
  if op = "addp" then (x + y) % m
  else if op = "multp" then (x * y) % m
  else x / y                               -- y = 0 is x in hardware; excluded by the hypotheses

def binops : List String := ["add", "mult", "div", "cpy", "and", "or", "xor", "nand", "nor", "xnor", "not", "mod"]
def unops : List String := ["inc", "dec", "clr"]

/-- the opcode selected by `case(current_instruction[W-1:W-opBits])` (`none` = `default` arm) -/
def curOp (a : Arch) (cur : Nat) : Option String :=
  a.ops[part cur a.maxWord 0 a.opBits]?

/-- the main `always` block (program counter, registers, _auxo, waitsm) -/
def mainBlock (a : Arch) (cur : Nat) (s : RtlState) (p : PortsIn) : RtlState :=
  let W := a.maxWord
  let ob := a.opBits
  let pcNext := (s.pc + 1) % 2 ^ a.o
  let next : RtlState := { s with pc := pcNext }
  match curOp a cur with
  | none => next
  | some op =>
    let k := part cur W ob a.r
    if op = "nop" then next
    else if op = "rset" then { next with regs := s.regs.set k (part cur W (ob + a.r) a.rsize) }
    else if op ∈ unops then
      { next with regs := s.regs.set k (unop op a.rsize (s.regs.getD k 0)) }
    else if op ∈ binops then
      let ks := part cur W (ob + a.r) a.r
      { next with regs := s.regs.set k (binop op a.rsize (s.regs.getD k 0) (s.regs.getD ks 0)) }
    else if op ∈ pipeOps then
      let ks := part cur W (ob + a.r) a.r
      let pp := s.getPipe op
      if pp.st = false then s.setPipe op { st := true, a := s.regs.getD k 0, b := s.regs.getD ks 0 }
      else { (s.setPipe op { pp with st := false }) with
             pc := pcNext, regs := s.regs.set k (pbinop op a.rsize pp.a pp.b) }
    else if op = "j" then { s with pc := part cur W ob a.o }
    else if op = "jz" then
      if s.regs.getD k 0 = 0 then { s with pc := part cur W (ob + a.r) a.o } else next
    else if op = "i2r" then
      let i := part cur W (ob + a.r) a.inBits
      if i < a.n then { next with regs := s.regs.set k (p.inputs.getD i 0) } else next
    else if op = "r2o" then
      let o := part cur W (ob + a.r) a.outBits
      if o < a.m then { next with auxo := s.auxo.set o (s.regs.getD k 0) } else next
    else if op = "i2rw" then
      let i := part cur W (ob + a.r) a.inBits
      if i < a.n ∧ p.inValid.getD i false ∧ s.iRecv.getD i false = false then
        { next with regs := s.regs.set k (p.inputs.getD i 0) }
      else s
    else if op = "r2owa" then
      let o := part cur W (ob + a.r) a.outBits
      if o < a.m then
        if s.waitsm = false then
          (if p.outRecv.getD o false = false then { s with waitsm := true } else s)
        else
          let s1 := { s with auxo := s.auxo.set o (s.regs.getD k 0) }
          if p.outRecv.getD o false then { s1 with pc := pcNext, waitsm := false } else s1
      else s
    else next

/-- the `iK_recv` process of input `i` -/
def recvBlock (a : Arch) (cur : Nat) (s : RtlState) (p : PortsIn) (i : Nat) : Bool :=
  let v := p.inValid.getD i false
  let old := s.iRecv.getD i false
  let sel := part cur a.maxWord (a.opBits + a.r) a.inBits
  match curOp a cur with
  | some "i2rw" => if sel = i then v else (if v then old else false)
  | some "i2r" => if sel = i then (if v then true else old) else (if v then old else false)
  | _ => if v then old else false

/-- the `oK_val` process of output `o` -/
def valBlock (a : Arch) (cur : Nat) (s : RtlState) (p : PortsIn) (o : Nat) : Bool :=
  let rc := p.outRecv.getD o false
  let old := s.oVal.getD o false
  let sel := part cur a.maxWord (a.opBits + a.r) a.outBits
  match curOp a cur with
  | some "r2owa" => if sel = o then (if s.waitsm then true else (if rc then false else old)) else (if rc then false else old)
  | some "r2o" => if sel = o then true else (if rc then false else old)
  | _ => if rc then false else old

/-- the ROM output for the current program counter (a word past the program reads as 0) -/
def fetch (prog : List Bits) (pc : Nat) : Nat :=
  match prog[pc]? with
  | some w => getId w
  | none => 0

/-- one rising clock edge with reset low: all processes read the pre-edge state -/
def cycle (a : Arch) (prog : List Bits) (s : RtlState) (p : PortsIn) : RtlState :=
  let cur := fetch prog s.pc
  let m := mainBlock a cur s p
  { m with
    iRecv := (List.range a.n).map (recvBlock a cur s p)
    oVal := (List.range a.m).map (valBlock a cur s p) }

/-! ### the OnlyDestRegs hardware optimisation

  With the flag set, the templates of `inc`, `dec`, `rset` and `jz` emit a register `case` arm only
  for the registers recorded under `destregs` for that opcode (bmreqs); a pruned arm of
  inc/dec/rset leaves the register file alone (the `_pc` update sits outside the inner case), a
  pruned arm of `jz` does nothing at all.  The pipelined opcodes addp / multp / divp prune the outer
  `case` (destination register) under OnlyDestRegs and the inner one (source register) under
  OnlySrcRegs (`sourceregs`, given here under the key `<op>/src`); a pruned arm does nothing at all
  (the processor stays on the instruction).  A flag that is off = every register recorded. -/

def prunable : List String := ["inc", "dec", "rset", "jz"]

def mainBlockOpt (a : Arch) (used : String → List Nat) (cur : Nat) (s : RtlState) (p : PortsIn) : RtlState :=
  match curOp a cur with
  | none => mainBlock a cur s p
  | some op =>
    let k := part cur a.maxWord a.opBits a.r
    if op ∈ prunable ∧ k ∉ used op then
      (if op = "jz" then s else { s with pc := (s.pc + 1) % 2 ^ a.o })
    else if op ∈ pipeOps ∧ (k ∉ used op ∨ part cur a.maxWord (a.opBits + a.r) a.r ∉ used (op ++ "/src")) then s
    else mainBlock a cur s p

def cycleOpt (a : Arch) (used : String → List Nat) (prog : List Bits) (s : RtlState) (p : PortsIn) : RtlState :=
  let cur := fetch prog s.pc
  let m := mainBlockOpt a used cur s p
  { m with
    iRecv := (List.range a.n).map (recvBlock a cur s p)
    oVal := (List.range a.m).map (valBlock a cur s p) }

/-- what `HLAssemblerNormalize` records as `destregs` of `op`: the first register operand of every
    instruction of the program with that opcode -/
def destRegs (a : Arch) (prog : List Bits) (op : String) : List Nat :=
  prog.filterMap fun w =>
    if a.ops[getId (w.take a.opBits)]? = some op then some (getId ((w.drop a.opBits).take a.r)) else none

/-- what `HLAssemblerNormalize` records as `sourceregs` of `op`: the second register operand -/
def srcRegs (a : Arch) (prog : List Bits) (op : String) : List Nat :=
  prog.filterMap fun w =>
    if a.ops[getId (w.take a.opBits)]? = some op then some (getId (((w.drop a.opBits).drop a.r).take a.r)) else none

/-! ### `ro2rri`: the second ROM port

The RO2RRI arm takes two clocks: with `romread_ready` low it presents the low `O` bits of the source
register on `romread_bus` and raises the flag; with the flag high it writes the word the ROM
(`romread_instance`, the program followed by the data) returns for that address — its low `Rsize`
bits, or the whole word zero-extended when registers are wider than ROM words — into the
destination register, lowers the flag and moves on.  Kept as a wrapper round `cycle`, which it is
equal to on every other opcode. -/

def romArm (a : Arch) (rom : List Bits) (cur : Nat) (s : RtlState) : Option RtlState :=
  if curOp a cur = some "ro2rri" then
    let W := a.maxWord
    let k := part cur W a.opBits a.r
    let ks := part cur W (a.opBits + a.r) a.r
    if s.romReady then
      let v := fetch rom s.romBus
      some { s with pc := (s.pc + 1) % 2 ^ a.o, romReady := false,
                    regs := s.regs.set k (if a.rsize ≤ W then v % 2 ^ a.rsize else v) }
    else some { s with romBus := s.regs.getD ks 0 % 2 ^ a.o, romReady := true }
  else none

/-- one clock of a processor whose ROM holds `prog` followed by `data` (instruction fetch reads the
    same memory: a program counter past the program fetches data words) -/
def cycleRom (a : Arch) (prog data : List Bits) (s : RtlState) (p : PortsIn) : RtlState :=
  let rom := prog ++ data
  let cur := fetch rom s.pc
  match romArm a rom cur s with
  | some m =>
    { m with
      iRecv := (List.range a.n).map (recvBlock a cur s p)
      oVal := (List.range a.m).map (valBlock a cur s p) }
  | none => cycle a rom s p

def cycleOptRom (a : Arch) (used : String → List Nat) (prog data : List Bits) (s : RtlState) (p : PortsIn) : RtlState :=
  let rom := prog ++ data
  let cur := fetch rom s.pc
  match romArm a rom cur s with
  | some m =>
    { m with
      iRecv := (List.range a.n).map (recvBlock a cur s p)
      oVal := (List.range a.m).map (valBlock a cur s p) }
  | none => cycleOpt a used rom s p

end Rtl
end BMV
