/-
  `#audit_module M` prints, for every theorem declared in module `M` under the namespace
  `BMV.Props` (the convention for property theorems), the axioms it depends on:
      AXIOMS <theorem> : [ax1, ax2, ...]
  The driver (tools/check.py) runs this on every check and rejects anything beyond
  propext / Classical.choice / Quot.sound.
-/
import Lean
open Lean Elab Command

elab "#audit_module " m:ident : command => do
  let env ← getEnv
  let some idx := env.getModuleIdx? m.getId
    | throwError "audit: module {m.getId} is not imported"
  let mut names : Array Name := #[]
  for (n, ci) in env.constants.map₁.toList do
    if env.getModuleIdxFor? n == some idx then
      match ci with
      | .thmInfo _ =>
        if !n.isInternal && (`BMV.Props).isPrefixOf n && !(isAuxRecursor env n) && !(isNoConfusion env n) then
          names := names.push n
      | _ => pure ()
  let sorted := names.qsort (fun a b => a.toString < b.toString)
  for n in sorted do
    let axs ← collectAxioms n
    let axs := axs.qsort (fun a b => a.toString < b.toString)
    logInfo m!"AXIOMS {n} : {axs.toList}"
  logInfo m!"AUDIT-COUNT {m.getId} : {sorted.size}"
