/-
  BMV.BasmData — ROM data sections and symbolic data addresses, as the source means them
  (outside the subset the model assembler and `assemble_correct` cover; used by the C05 oracle for
  the semantic tie).
    * the ROM holds the code, then the data cells in declaration order;
    * `name db v1, v2, …` occupies one cell per value; `name N:db v1, …` occupies N copies of the
      value list (N × #values cells); a data symbol denotes the address of its first cell;
    * `mov rK, rom:name` loads that address; `mov rJ, rom:[rK]` loads the cell register K points
      to (a source has no business reading code cells or beyond the data: no meaning).
  Core-only.
-/
import BMV.BasmSem
namespace BMV.Basm

def DataVar.cells (v : DataVar) : List Nat := (List.replicate v.rep v.vals).flatten

def DataSec.cells (d : DataSec) : List Nat := d.vars.flatMap DataVar.cells

/-- offset of a variable's first cell inside its section -/
def dataOffset : List DataVar → String → Option Nat
  | [], _ => none
  | v :: vs, n => if v.name == n then some 0 else (dataOffset vs n).map (· + v.cells.length)

/-- a repeated variable occupies `rep × #values` cells: the next variable starts after all copies -/
theorem cells_length (v : DataVar) : v.cells.length = v.rep * v.vals.length := by
  unfold DataVar.cells
  induction v.rep with
  | zero => simp
  | succ n ih => simp [List.replicate_succ, ih, Nat.succ_mul, Nat.add_comm]

theorem dataOffset_after (v : DataVar) (vs : List DataVar) (n : String) (h : (v.name == n) = false) :
    dataOffset (v :: vs) n = (dataOffset vs n).map (· + v.rep * v.vals.length) := by
  simp [dataOffset, h, cells_length]

/-- one source line when the processor has a ROM data section; `base` = the address of the first
    data cell (number of ROM words before the data) -/
def execLineData (c : SecCtx) (d : DataSec) (base : Nat) (e : Env) (l : Line) (s : RefState) : Option RefState :=
  let next := skip c.lines (s.pos + 1)
  match l.op, l.args with
  | "mov", [.reg k, .romSym n] =>
    (dataOffset d.vars n).map fun off => { s with pos := next, regs := upd s.regs k (base + off) }
  | "mov", [.reg k, .romReg j] =>
    let a := s.regs j
    if base ≤ a then (d.cells[a - base]?).map fun v => { s with pos := next, regs := upd s.regs k (v % 2 ^ c.rsize) }
    else none
  | _, _ => execLine c e l s

def refStepData (c : SecCtx) (d : DataSec) (base : Nat) (e : Env) (s : RefState) : Option RefState :=
  let s1 := refDeferred e s
  match c.lines[s1.pos]? with
  | none => if s1.pos = c.lines.length then some s1 else none
  | some l => if isEntry l then none else execLineData c d base e l s1

end BMV.Basm
