/-
  BMV.Bits — bit strings as the Go code handles them (strings of '0'/'1', most significant
  first), modelled as `List Bool`.   Go (pkg/procbuilder/utils.go, conproc.go)  ↔  model:
    get_id          getId            zeros_prefix   zerosPrefix (pads, never truncates)
    get_binary      getBinary        zeros_suffix   zerosSuffix
    Needed_bits     neededBits       Opcodes_bits / Inputs_bits / Outputs_bits   fieldBits
  Core-only.
-/
namespace BMV.Bits

abbrev Bits := List Bool

/-- `get_id`: value of a bit string, MSB first -/
def getId (b : Bits) : Nat := b.foldl (fun acc x => 2 * acc + x.toNat) 0

/-- `get_binary` = strconv.FormatInt(_, 2): minimal binary, `[false]` for 0.
    Structural recursion on fuel (so that `decide` can evaluate it); `getBinary_eq` in
    Proofs/Bits.lean gives the natural recursion equation. -/
def getBinaryAux : Nat → Nat → Bits
  | 0, n => [n == 1]
  | fuel + 1, n => if n < 2 then [n == 1] else getBinaryAux fuel (n / 2) ++ [n % 2 == 1]

def getBinary (n : Nat) : Bits := getBinaryAux n n

def zerosPrefix (w : Nat) (b : Bits) : Bits := List.replicate (w - b.length) false ++ b
def zerosSuffix (w : Nat) (b : Bits) : Bits := b ++ List.replicate (w - b.length) false

/-- a field of width `w` holding `n` the way every `Assembler` builds it -/
def encField (w n : Nat) : Bits := zerosPrefix w (getBinary n)

/-- least `b` in `lo..hi-1` with `2^b ≥ n`, else `dflt` (the loops of conproc.go / utils.go) -/
def leastBits (n lo hi dflt : Nat) : Nat :=
  match (List.range' lo (hi - lo)).find? (fun b => decide (2 ^ b ≥ n)) with
  | some b => b
  | none => dflt

/-- `Opcodes_bits`, `Inputs_bits`, `Outputs_bits`: bits in 1..15, default 1 -/
def fieldBits (n : Nat) : Nat := leastBits n 1 16 1

/-- `Needed_bits` (0 for 0; the Go loop is unbounded, `uint8` shift wraps at 256: bounded here) -/
def neededBits (n : Nat) : Nat := if n > 0 then leastBits n 1 64 0 else 0

def toString01 (b : Bits) : String := String.ofList (b.map fun x => if x then '1' else '0')
def ofString01 (s : String) : Bits := s.toList.map (· == '1')

end BMV.Bits
