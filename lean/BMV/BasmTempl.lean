/-
  BMV.BasmTempl — a first subset of BASM templating (property C05), as a source-to-source pre-pass.

  In real BASM a code section may contain Go `text/template` constructs; every `cpdef` key the
  assembler does not know (`start:7`, `twice:1`, …) is a *parameter* of that processor, and a
  processor with parameters gets its own instance of its code section, in which the constructs are
  evaluated with that processor's parameters (`templateResolver`).  Modelled here:

    * `{{.Params.<name>}}` standing for a whole operand — replaced by the parameter's value;
    * `{{if .Params.<name>}}` … `{{end}}` around whole lines (not nested, no else) — the lines are
      kept iff the processor has the parameter (a Go template `if` on a string tests non-emptiness;
      a missing key of the map is the empty string).

  `instantiate : TSource → Option Source` produces the plain source the rest of the model works on
  (`Basm.assemble`, `Basm.refStep`): the meaning of a templated source IS the meaning of its
  instantiation, so `assemble_correct` applies to it as it stands.  What is tied to the real tool
  (C05's structural and semantic tie) is that `instantiate` is what `templateResolver` does:
  per processor, in name order, with that processor's parameters only.

  Mirrored details: the instance of section `S` is called `S_templ_<i>` (first free `i`); the
  section a parameterised processor named is removed afterwards unless a processor WITHOUT
  parameters still names it (it runs it as it is); a processor with parameters gets an instance
  even when its section has no template construct.
  Core-only.
-/
import BMV.Basm
namespace BMV.Basm
open BMV

/-- an operand of a template line: a plain operand or `{{.Params.<name>}}` -/
inductive TArg where
  | arg (a : Arg)
  | param (name : String)
deriving DecidableEq, Repr, Inhabited

structure TLine where
  labels : List String := []
  op : String
  args : List TArg := []
  iomode : Option IoMode := none
deriving DecidableEq, Repr, Inhabited

/-- a line, or a block of lines under `{{if .Params.<name>}}` … `{{end}}` -/
inductive TItem where
  | line (l : TLine)
  | ifp (name : String) (body : List TLine)
deriving Repr, Inhabited

structure TSection where
  name : String
  iomode : Option IoMode := none
  items : List TItem
deriving Repr, Inhabited

/-- a source with template sections: `base` holds everything else (plain sections, processors,
    wiring); `params` gives each processor's user-defined `cpdef` keys, in source order -/
structure TSource where
  base : Source := {}
  templates : List TSection := []
  params : List (String × List (String × Arg)) := []
deriving Repr, Inhabited

abbrev Params := List (String × Arg)

def Params.get (ps : Params) (n : String) : Option Arg := (ps.find? (·.1 == n)).map (·.2)
def Params.has (ps : Params) (n : String) : Bool := ps.any (·.1 == n)

def substArg (ps : Params) : TArg → Option Arg
  | .arg a => some a
  | .param n => ps.get n

def instLine (ps : Params) (l : TLine) : Option Line :=
  (l.args.mapM (substArg ps)).map fun as => { labels := l.labels, op := l.op, args := as, iomode := l.iomode }

/-- the lines a processor with parameters `ps` runs -/
def instItems (ps : Params) : List TItem → Option (List Line)
  | [] => some []
  | .line l :: rest =>
    match instLine ps l, instItems ps rest with
    | some x, some xs => some (x :: xs)
    | _, _ => none
  | .ifp n body :: rest =>
    match (if ps.has n then body.mapM (instLine ps) else some []), instItems ps rest with
    | some xs, some ys => some (xs ++ ys)
    | _, _ => none

/-- `S_templ_<i>` for the first `i` not taken (at most `taken.length` names can be in the way) -/
def freshName (taken : List String) (base : String) : String :=
  let cands := (List.range (taken.length + 1)).map fun i => base ++ "_templ_" ++ toString i
  (cands.find? fun c => !taken.contains c).getD (base ++ "_templ_" ++ toString taken.length)

structure InstState where
  sections : List Section          -- plain sections + the instances made so far
  tnames : List String             -- names of the template sections (they occupy names too)
  cps : List CpDef := []
  removed : List String := []

def paramsOf (ts : TSource) (cp : String) : Params := ((ts.params.find? (·.1 == cp)).map (·.2)).getD []

/-- one processor: nothing to do without parameters; otherwise its own instance of its section -/
def instCp (ts : TSource) (st : InstState) (cp : CpDef) : Option InstState :=
  let ps := paramsOf ts cp.name
  if ps.isEmpty then
    -- a processor without parameters cannot run a template section (nothing would evaluate it)
    if ts.templates.any (·.name == cp.romcode) then none else some { st with cps := st.cps ++ [cp] }
  else
    let name := freshName (st.sections.map (·.name) ++ st.tnames) cp.romcode
    let body : Option (Option IoMode × List Line) :=
      match ts.templates.reverse.find? (·.name == cp.romcode) with
      | some t => (instItems ps t.items).map fun ls => (t.iomode, ls)
      | none => (st.sections.reverse.find? (·.name == cp.romcode)).map fun s => (s.iomode, s.lines)
    match body with
    | none => none
    | some (m, ls) =>
      some { st with sections := st.sections ++ [{ name := name, iomode := m, lines := ls }],
                     cps := st.cps ++ [{ cp with romcode := name }],
                     removed := cp.romcode :: st.removed }

/-- `templateResolver`: processors in name order; afterwards the sections the parameterised
    processors named are gone, unless a processor without parameters still runs one as it is
    (/repo f1b3cb1; before, such a processor found nothing).  The processors keep their source
    order in the result. -/
def instantiate (ts : TSource) : Option Source :=
  let st0 : InstState := { sections := ts.base.sections, tnames := ts.templates.map (·.name) }
  match (sortCps ts.base.cps).foldlM (instCp ts) st0 with
  | none => none
  | some st =>
    let cps := ts.base.cps.filterMap fun c => st.cps.find? (·.name == c.name)
    some { ts.base with
      sections := st.sections.filter (fun s => !st.removed.contains s.name || st.cps.any (·.romcode == s.name)),
      cps := cps }

/-! ### what the pre-pass guarantees -/

/-- nothing templated, no parameters: the source is left as it is -/
theorem instCp_plain (ts : TSource) (st : InstState) (cp : CpDef) (hp : ts.params = []) (ht : ts.templates = []) :
    instCp ts st cp = some { st with cps := st.cps ++ [cp] } := by
  simp [instCp, paramsOf, hp, ht]

/-- a conditional block contributes its lines exactly when the processor has the parameter -/
theorem instItems_ifp (ps : Params) (n : String) (body : List TLine) (rest : List TItem) :
    instItems ps (.ifp n body :: rest) =
      (if ps.has n then
        (match body.mapM (instLine ps), instItems ps rest with | some xs, some ys => some (xs ++ ys) | _, _ => none)
       else instItems ps rest) := by
  by_cases h : ps.has n = true
  · simp [instItems, h]
  · simp only [instItems, h]
    cases instItems ps rest <;> simp

/-- the instance of a processor is a function of that processor's own parameters (and of the
    template): parameters of other processors cannot reach it -/
theorem instItems_own (ps qs : Params) (items : List TItem)
    (h : ∀ n, ps.get n = qs.get n ∧ ps.has n = qs.has n) : instItems ps items = instItems qs items := by
  have hs : ∀ a, substArg ps a = substArg qs a := by
    intro a; cases a <;> simp [substArg, (h _).1]
  have hl : ∀ l, instLine ps l = instLine qs l := by
    intro l; simp only [instLine]
    have : l.args.mapM (substArg ps) = l.args.mapM (substArg qs) := by
      congr 1; funext a; exact hs a
    rw [this]
  induction items with
  | nil => rfl
  | cons it rest ih =>
    cases it with
    | line l => simp only [instItems, hl, ih]
    | ifp n body =>
      have hb : body.mapM (instLine ps) = body.mapM (instLine qs) := by
        congr 1; funext l; exact hl l
      simp only [instItems, (h n).2, hb, ih]

end BMV.Basm
