/-
  BMV.Isa — executable model of the Go instruction-set simulator
  (/repo/pkg/procbuilder/vm.go `VM.Step` + the `Simulate` method of each opcode), for the
  co-implemented opcode set of C01.  Instruction words are bit strings sliced exactly like the Go
  code slices them (`instr[a:b]` = drop/take, `get_id`).  Core-only.

  What is modelled: DelayCounter = 0 (no simbox delay distributions), Emulating = false.
-/
import BMV.Arch
namespace BMV
open BMV.Bits

structure VmState where
  pc : Nat := 0
  regs : List Nat := []
  inputs : List Nat := []
  outputs : List Nat := []
  inValid : List Bool := []
  outValid : List Bool := []
  inRecv : List Bool := []
  outRecv : List Bool := []
  deferred : List Nat := []        -- inputs with a pending `waitRecvI2rw<inp>` deferred instruction
  phase : List String := []        -- pipelined opcodes whose `Extra_states["pipeline_<op>"]` is 1
deriving DecidableEq, Repr, Inhabited

namespace Isa

/-- `VM.Init` -/
def init (a : Arch) : VmState :=
  { pc := 0, regs := List.replicate (2 ^ a.r) 0, inputs := List.replicate a.n 0,
    outputs := List.replicate a.m 0, inValid := List.replicate a.n false,
    outValid := List.replicate a.m false, inRecv := List.replicate a.n false,
    outRecv := List.replicate a.m false, deferred := [] }

/-- `get_id(instr[off : off+w])` -/
def field (body : Bits) (off w : Nat) : Nat := getId ((body.drop off).take w)

def stdSize (rs : Nat) : Bool := rs == 8 || rs == 16 || rs == 32 || rs == 64
def smallSize (rs : Nat) : Bool := rs == 8 || rs == 16

/-- binary register operations: result from (dest, src) at register size `rs`; `none` = the Go
    code errors or panics -/
def binop (op : String) (rs d s : Nat) : Option Nat :=
  let m := 2 ^ rs
  if op = "add" then (if stdSize rs then some ((d + s) % m) else none)
  else if op = "mult" then (if stdSize rs then some ((d * s) % m) else some d)
  else if op = "div" then (if stdSize rs then (if s = 0 then none else some (d / s)) else none)
  else if op = "cpy" then some s
  else if op = "and" then (if smallSize rs then some (d &&& s) else some d)
  else if op = "or" then (if smallSize rs then some (d ||| s) else some d)
  else if op = "xor" then (if smallSize rs then some (d ^^^ s) else some d)
  else if op = "nand" then (if smallSize rs then some (m - 1 - (d &&& s)) else some d)
  else if op = "nor" then (if smallSize rs then some (m - 1 - (d ||| s)) else some d)
  else if op = "xnor" then (if smallSize rs then some (m - 1 - (d ^^^ s)) else some d)
  else if op = "not" then (if smallSize rs then some (m - 1 - s) else some d)
  else if op = "mod" then (if smallSize rs then (if s = 0 then none else some (d % s)) else some d)
  else none

/-- the two-step ("pipelined") integer opcodes addp / multp / divp: the first `Simulate` only sets
    the phase, the second computes from the registers as they are then and retires -/
def pipeOps : List String := ["addp", "multp", "divp"]

def pbinop (op : String) (rs d s : Nat) : Option Nat :=
  let m := 2 ^ rs
  if ¬ stdSize rs then none                   -- "invalid register size"
  else if op = "addp" then some ((d + s) % m)
  else if op = "multp" then some ((d * s) % m)
  else if op = "divp" then (if s = 0 then none else some (d / s))   -- integer divide by zero panics
  else none

def unop (op : String) (rs x : Nat) : Option Nat :=
  let m := 2 ^ rs
  if ¬ stdSize rs then none
  else if op = "inc" then some ((x + 1) % m)
  else if op = "dec" then some ((x + m - 1) % m)
  else if op = "clr" then some 0
  else none

/-- `ExecuteDeferredInstructions`: each pending `waitRecvI2rw<i>` clears `InputsRecv[i]` and
    completes once `InputsValid[i]` is low -/
def runDeferred (s : VmState) : VmState :=
  let done := s.deferred.filter (fun i => s.inValid[i]? = some false)
  { s with
    inRecv := done.foldl (fun l i => l.set i false) s.inRecv
    deferred := s.deferred.filter (fun i => s.inValid[i]? ≠ some false) }

/-- `Simulate` of one opcode on the operand part of the word. `none` = error / panic in Go. -/
def exec (a : Arch) (progLen : Nat) (op : String) (body : Bits) (s : VmState) : Option VmState :=
  let r := a.r
  let next : VmState := { s with pc := s.pc + 1 }
  if op = "nop" then some next
  else if op = "rset" then
    if a.rsize ≤ 64 then
      some { next with regs := s.regs.set (field body 0 r) (field body r a.rsize) }
    else none
  else if op ∈ ["inc", "dec", "clr"] then
    let k := field body 0 r
    match s.regs[k]? with
    | none => none
    | some x => match unop op a.rsize x with
      | none => none
      | some v => some { next with regs := s.regs.set k v }
  else if op ∈ ["add", "mult", "div", "cpy", "and", "or", "xor", "nand", "nor", "xnor", "not", "mod"] then
    let kd := field body 0 r
    let ks := field body r r
    match s.regs[kd]?, s.regs[ks]? with
    | some d, some sv => match binop op a.rsize d sv with
      | none => none
      | some v => some { next with regs := s.regs.set kd v }
    | _, _ => none
  else if op ∈ pipeOps then
    if op ∈ s.phase then
      let kd := field body 0 r
      let ks := field body r r
      match s.regs[kd]?, s.regs[ks]? with
      | some d, some sv => match pbinop op a.rsize d sv with
        | none => none
        | some v => some { next with regs := s.regs.set kd v, phase := s.phase.erase op }
      | _, _ => none
    else some { s with phase := s.phase ++ [op] }
  else if op = "j" then
    let v := field body 0 a.o
    some (if v < progLen then { s with pc := v } else next)
  else if op = "jz" then
    let k := field body 0 r
    let v := field body r a.o
    match s.regs[k]? with
    | none => none
    | some x => if ¬ stdSize a.rsize then none
                else some (if x = 0 then { s with pc := v } else next)
  else if op = "i2r" then
    let k := field body 0 r
    let i := field body r a.inBits
    match s.inputs[i]? with
    | none => none
    | some v => if k < s.regs.length then some { next with regs := s.regs.set k v } else none
  else if op = "r2o" then
    let k := field body 0 r
    let o := field body r a.outBits
    match s.regs[k]? with
    | none => none
    | some v => if o < s.outputs.length then some { next with outputs := s.outputs.set o v } else none
  else if op = "i2rw" then
    let k := field body 0 r
    let i := field body r a.inBits
    match s.inValid[i]?, s.inputs[i]? with
    | some true, some v =>
      if s.inRecv[i]? = some true then some s      -- previous transfer not over (valid still high): wait
      else if k < s.regs.length then
        some { next with regs := s.regs.set k v, inRecv := s.inRecv.set i true,
                         deferred := if i ∈ s.deferred then s.deferred else s.deferred ++ [i] }
      else none
    | some false, some _ => some { s with inRecv := s.inRecv.set i false }
    | _, _ => none
  else if op = "r2owa" then
    let k := field body 0 r
    let o := field body r a.outBits
    match s.regs[k]?, s.outRecv[o]? with
    | some v, some rc =>
      if s.outValid[o]? = some false ∧ rc then some s   -- stale recv of the previous transfer: wait
      else if o < s.outputs.length then
        let s1 := { s with outputs := s.outputs.set o v }
        some (if rc then { s1 with outValid := s.outValid.set o false, pc := s.pc + 1 }
              else { s1 with outValid := s.outValid.set o true })
      else none
    | _, _ => none
  else none

/-- opcodes with a modelled `Simulate` -/
def modelled : List String :=
  ["nop", "rset", "inc", "dec", "clr", "add", "mult", "div", "cpy", "and", "or", "xor", "nand", "nor",
   "xnor", "not", "mod", "j", "jz", "i2r", "r2o", "i2rw", "r2owa", "addp", "multp", "divp", "ro2rri"]

/-- `VM.Step` (DelayCounter = 0). `none` = Step returns an error or the Go code panics. -/
def step (a : Arch) (prog : List Bits) (s : VmState) : Option VmState :=
  if s.pc > prog.length then none
  else
    let s1 := runDeferred s
    match prog[s1.pc]? with
    | none => some s1                      -- pc = len: halted
    | some w =>
      let idx := getId (w.take a.opBits)
      match a.ops[idx]? with
      | none => none
      | some op => exec a prog.length op (w.drop a.opBits) s1

/-! ### `ro2rri`: reading the ROM as data

`Ro2rri.Simulate` reads the ROM cell whose address is in the source register — a program word
(`Program.Slocs`) or, past the program, a data word (`Data.Vars`) — and keeps its low
`min Rsize wordSize` bits.  The ROM contents are a parameter of this step only, so the rest of the
model (and everything proved about it) is unchanged: `stepRom` is `step` with one more opcode. -/

/-- `none` = the Go code returns an error or panics (cell past the data, word shorter than the first one) -/
def execRom (a : Arch) (prog data : List Bits) (op : String) (body : Bits) (s : VmState) : Option VmState :=
  if op = "ro2rri" then
    if a.rsize > 64 then none                               -- "invalid register size, must be <= 64"
    else
      let kd := field body 0 a.r
      let ks := field body a.r a.r
      let W := (prog.headD []).length                       -- len(Slocs[0])
      let sl := min a.rsize W
      match s.regs[ks]? with
      | none => none
      | some loc =>
        match (prog ++ data)[loc]? with
        | none => none                                      -- index out of range
        | some w =>
          if w.length < W then none                         -- slice bounds out of range
          else if kd < s.regs.length then
            some { s with pc := s.pc + 1, regs := s.regs.set kd (getId ((w.drop (W - sl)).take sl)) }
          else none
  else exec a prog.length op body s

/-- `VM.Step` of a machine whose ROM holds `prog` followed by `data` -/
def stepRom (a : Arch) (prog data : List Bits) (s : VmState) : Option VmState :=
  if s.pc > prog.length then none
  else
    let s1 := runDeferred s
    match prog[s1.pc]? with
    | none => some s1
    | some w =>
      let idx := getId (w.take a.opBits)
      match a.ops[idx]? with
      | none => none
      | some op => execRom a prog data op (w.drop a.opBits) s1

end Isa
end BMV
