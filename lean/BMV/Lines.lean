/-
  BMV.Lines — tiny helpers shared by the oracle executables (line protocol with the Go harness).
-/
namespace BMV.Lines

def splitOn (s : String) (sep : String) : List String := s.splitOn sep

def fields (s : String) : List String :=
  (s.splitOn " ").filter (· ≠ "")

def nat! (s : String) : Nat := s.toNat?.getD 0

/-- `key=value` lookup among space separated fields. -/
def kv (fs : List String) (key : String) : Option String :=
  fs.findSome? fun f =>
    if f.startsWith (key ++ "=") then some (f.drop (key.length + 1)).toString else none

def commaList (s : String) : List String :=
  if s = "" then [] else s.splitOn ","

/-- read all lines of stdin, apply `step` with a state, print each produced line -/
partial def foldStdin {σ : Type} (init : σ) (step : σ → String → σ × List String) : IO σ := do
  let h ← IO.getStdin
  let out ← IO.getStdout
  let rec loop (s : σ) : IO σ := do
    let line ← h.getLine
    if line.isEmpty then return s
    let l := (line.dropEndWhile (fun c => c = '\n' || c = '\r')).toString
    let (s', outs) := step s l
    for o in outs do out.putStrLn o
    loop s'
  let r ← loop init
  out.flush
  return r

end BMV.Lines
