/-
  C09 — Simulation results do not depend on scheduling or on other simulations.  (level: PARTIAL)

  Statement (properties.jsonl): simulating a given BondMachine with given stimuli yields the same
  tick-by-tick state on every run, for every Go scheduler interleaving of the per-processor workers
  and every GOMAXPROCS; concurrent simulations in one process do not influence one another; and no
  execution contains a data race.

  Proved here, on the model BMV.SchedSim (the scheduler is the explicit parameter `Schedule` / the
  interleaving of `Ev`s / the interleaving of channel operations):
    * `step_sched_indep`  — if no processor touches `Globals`, every complete schedule of a tick gives
      the same result (steps with disjoint footprints commute);
    * `sim_isolation`     — a product of simulations sharing only untouched `Globals`: under any
      interleaving each component's state is the state of its own events run alone;
    * `barrier_ok`        — in every reachable state of the token/answer protocol, data movement
      never overlaps a worker's step;
    * `globals_break_it`  — with the pipeline phase in `Globals` (the pinned tree) two processors
      running `addp` give different results under two schedules; one simulation changes another's.
  The `Globals` domain itself is regenerated from pkg/procbuilder (BMV/Gen/OpcodeState.lean) and tied
  by `opcode_state_matches`.  What stays runtime truth (partial): that the Go steps really have the
  footprints the model gives them and that no execution has a data race — observed by the harness
  (digests under perturbed schedules, `-race`).
-/
import BMV.Proofs.SchedSim
import BMV.SchedSimGen
namespace BMV.Props.C09
open BMV.SchedSim

/-- `step_sched_indep`: no processor touches `Globals` ⇒ the tick is independent of the schedule -/
theorem step_sched_indep (m : Machine) (hfree : ∀ i, GlobalsFree (m.proc i))
    (σ₁ σ₂ : Schedule) (h₁ : Complete m.n σ₁) (h₂ : Complete m.n σ₂) (g : Globals) (st : BmState) :
    stepSched m σ₁ g st = stepSched m σ₂ g st := by
  simp only [stepSched]
  rw [foldl_stepOne_complete m hfree m.n σ₁ h₁, foldl_stepOne_complete m hfree m.n σ₂ h₂]

/-- … and `Globals` come out untouched -/
theorem step_sched_globals (m : Machine) (hfree : ∀ i, GlobalsFree (m.proc i))
    (σ : Schedule) (h : Complete m.n σ) (g : Globals) (st : BmState) :
    (stepSched m σ g st).1 = g := by
  simp only [stepSched]
  rw [foldl_stepOne_complete m hfree m.n σ h]

/-- `sim_isolation`: any number of simulations in one process, any interleaving `evs` of all their
    events (each simulation may be at a different tick): the state of simulation a is what a's own
    events produce when a runs alone — from any value g' of the (untouched) Globals.  Holds for every
    prefix of every interleaving, hence for the whole tick-by-tick trace. -/
theorem sim_isolation (ms : Nat → Machine) (hfree : ∀ a i, GlobalsFree ((ms a).proc i)) (a : Nat)
    (evs : List Ev) (g g' : Globals) (S : Nat → BmState) :
    (runEvs ms (g, S) evs).2 a = (runEvs1 (ms a) (g', S a) (evs.filter fun e => e.sim = a)).2 := by
  rw [(runEvs_proj ms hfree a evs g S).2, runEvs1_free (ms a) (hfree a) g g']

/-- the events of one tick are `stepSched` (links `sim_isolation` to `step_sched_indep`) -/
theorem tick_is_stepSched (m : Machine) (a : Nat) (σ : Schedule) (g : Globals) (st : BmState) :
    runEvs1 m (g, st) (tickEvents a σ) = stepSched m σ g st :=
  runEvs1_tick m a σ g st

/-- `barrier_ok`: for every number of processors and every interleaving of the channel operations of
    `VM.Step` and the `Processor_execute` workers, whenever main moves data (pre- or post-compute
    movement) no worker is inside its step -/
theorem barrier_ok (P : Nat) (s : BSt) (hr : BReach P s) (hm : s.main.isMovement = true) (i : Nat) :
    getW s.ws i ≠ some .stepping := by
  have hinv := binv_reach P s hr
  obtain ⟨_, hmain⟩ := hinv
  intro hst
  have hb : busy s.ws = 0 := by
    cases hmn : s.main <;> rw [hmn] at hmain hm <;> simp_all [MainPc.isMovement]
  have := busy_zero s.ws hb i .stepping hst
  cases this

/-- stronger: during movement every worker is blocked on its token channel -/
theorem barrier_all_idle (P : Nat) (s : BSt) (hr : BReach P s) (hm : s.main.isMovement = true)
    (i : Nat) (w : WSt) (hw : getW s.ws i = some w) : w = .idle := by
  obtain ⟨_, hmain⟩ := binv_reach P s hr
  have hb : busy s.ws = 0 := by
    cases hmn : s.main <;> rw [hmn] at hmain hm <;> simp_all [MainPc.isMovement]
  exact busy_zero s.ws hb i w hw

/-- the ISA processors are globals-free exactly when the phase cells are per-VM -/
theorem isa_globals_free (mod : Nat) (prog : List Op) : GlobalsFree (isaProc ⟨false, false⟩ mod prog) := by
  intro g c
  simp only [isaProc]
  cases prog[lget c 0]? with
  | none => rfl
  | some op => cases op <;> simp [exec, pipelined] <;> split <;> rfl

/-! ### the counterexample for the pinned tree -/

def brkProgs : List (List Op) :=
  [[.rset 0 1, .rset 1 2, .addp 0 1, .r2o 0], [.rset 0 10, .rset 1 20, .addp 0 1, .r2o 0]]

def cellsOf (r : Globals × BmState) : List PState := [r.2.cells 0, r.2.cells 1]

/-- `globals_break_it`: two processors running `addp`, pipeline phase in the shared opcode object:
    the two schedules [0,1] and [1,0] are both complete and give different machine states after
    three ticks — and with per-VM phase cells the same two schedules agree. -/
theorem globals_break_it :
    Complete 2 [0, 1] ∧ Complete 2 [1, 0]
    ∧ cellsOf (isaRun ⟨true, true⟩ 256 brkProgs [0, 1] gInit 3 isaInit)
        ≠ cellsOf (isaRun ⟨true, true⟩ 256 brkProgs [1, 0] gInit 3 isaInit)
    ∧ cellsOf (isaRun ⟨false, false⟩ 256 brkProgs [0, 1] gInit 3 isaInit)
        = cellsOf (isaRun ⟨false, false⟩ 256 brkProgs [1, 0] gInit 3 isaInit) := by
  refine ⟨⟨by decide, ?_⟩, ⟨by decide, ?_⟩, by decide, by decide⟩
  · intro i; simp only [List.mem_cons, List.not_mem_nil, or_false]; omega
  · intro i; simp only [List.mem_cons, List.not_mem_nil, or_false]; omega

/-- interference between simulations: the same one-processor simulation, run for three ticks, ends in
    a different state depending on the `Globals` an earlier simulation left behind -/
theorem globals_break_isolation :
    cellsOf (isaRun ⟨true, true⟩ 256 [[.rset 0 1, .rset 1 2, .addp 0 1]] [0] [0, 0] 3 isaInit)
      ≠ cellsOf (isaRun ⟨true, true⟩ 256 [[.rset 0 1, .rset 1 2, .addp 0 1]] [0] [1, 0] 3 isaInit) := by
  decide

/-! ### regenerated obligation (BMV/Gen/OpcodeState.lean is rewritten from pkg/procbuilder each run) -/

/-- the state outside any VM that the Go opcodes write is exactly the model's declared `Globals`
    domain (pinned tree, or empty after the repair), and the shared read-only reference fields are
    the declared ones: a new pointer/map/slice field of an opcode object, a new write through one,
    or a package-level variable assigned in a `Simulate` breaks this obligation -/
theorem opcode_state_matches :
    (genGlobals = declaredGlobalsPinned ∨ genGlobals = declaredGlobalsFixed)
    ∧ genReadOnly = declaredReadOnly := by decide

/-- the process-wide registries of pkg/bmnumbers and pkg/procbuilder and their writers are exactly the
    declared ones: a new package-level table, or a new function writing one of them (e.g. a `Simulate`
    or a step of the simulation loop), breaks this obligation.  That the registration functions do not
    write when the entry already exists is checked dynamically (registry sizes around every simulation). -/
theorem process_registries_match : BMV.Gen.OpcodeState.pkgGlobals = declaredRegistries := by decide

/-- clock dependence: the calls of package time in pkg/procbuilder, pkg/bondmachine, pkg/simbox and
    pkg/bmnumbers are exactly the declared ones (none inside a simulation step) -/
theorem clock_sites_match : BMV.Gen.OpcodeState.clockSites = declaredClockSites := by decide

/-! ### non-vacuity -/

example : Complete 3 [2, 0, 1] := by
  refine ⟨by decide, ?_⟩
  intro i; simp only [List.mem_cons, List.not_mem_nil, or_false]; omega

/-- a reachable barrier state in which main moves data (two processors, a whole tick) -/
example : BReach 2 ⟨.moving, [.idle, .idle]⟩ := by
  have s0 := BReach.init (P := 2)
  have s1 := BReach.step (s' := ⟨.sending 0, [.idle, .idle]⟩) .startTick s0 (by decide)
  have s2 := BReach.step (s' := ⟨.sending 1, [.stepping, .idle]⟩) .token s1 (by decide)
  have s3 := BReach.step (s' := ⟨.sending 1, [.answering, .idle]⟩) (.finish 0) s2 (by decide)
  have s4 := BReach.step (s' := ⟨.collecting 0, [.answering, .stepping]⟩) .token s3 (by decide)
  have s5 := BReach.step (s' := ⟨.waitResult 0 0, [.resulting, .stepping]⟩) (.answer 0) s4 (by decide)
  have s6 := BReach.step (s' := ⟨.collecting 1, [.idle, .stepping]⟩) (.result 0) s5 (by decide)
  have s7 := BReach.step (s' := ⟨.collecting 1, [.idle, .answering]⟩) (.finish 1) s6 (by decide)
  have s8 := BReach.step (s' := ⟨.waitResult 1 1, [.idle, .resulting]⟩) (.answer 1) s7 (by decide)
  exact BReach.step (s' := ⟨.moving, [.idle, .idle]⟩) (.result 1) s8 (by decide)

/-- a state that violates the barrier is expressible (the theorem excludes it from `BReach`) -/
example : (⟨.moving, [.stepping]⟩ : BSt).main.isMovement = true ∧ getW [WSt.stepping] 0 = some .stepping := by
  decide

end BMV.Props.C09
