/-
  C04 — A bond delivers every value exactly once, in order, to every consumer.

  Property theorems only.  Models: BMV/Hs.lean — the valid/received handshake of one bond with k
  consumers as two transition systems, `Hs.Isa` (Go simulator: R2owa/I2rw.Simulate, the deferred
  waitRecvI2rw, the one-tick data movement of bondmachine.VM.Step) and `Hs.Rtl` (generated hardware:
  waitsm / oK_val / _auxoK / iK_recv processes, combinational wiring), under an ADVERSARIAL schedule:
  in every tick every agent is either busy with arbitrary other instructions for an arbitrary time
  or at its IO instruction on this bond.  Invariant proofs: BMV/Proofs/Hs.lean.

  The theorems hold for EVERY fan-out k, EVERY schedule (relative speeds, stalls, instruction
  mixes) and EVERY length of run, in both worlds.  They are about the protocol as repaired by the
  `fix:` commit 18c0f8e (see `old_protocol_*` below for what the pinned code did).
-/
import BMV.Proofs.Hs
import BMV.Proofs.HsLive
namespace BMV.Props.C04
open BMV.Hs

/-! ### simulator -/

theorem isa_inv_run (k : Nat) (schs : List Sched) : Isa.Inv (Isa.run (Isa.init k) schs) := by
  unfold Isa.run
  suffices ∀ s, Isa.Inv s → Isa.Inv (schs.foldl Isa.step s) from this _ (Isa.inv_init k)
  induction schs with
  | nil => intro s h; exact h
  | cons a t ih => intro s h; exact ih _ (Isa.inv_step s a h)

/-- Exactly once, in order (simulator): the values whose write has completed are 0,1,…,n-1 in
    order; every consumer holds exactly those, or — while the producer is still holding valid —
    those plus the value on offer.  Nothing is lost, duplicated or reordered, and no consumer is
    more than the one in-flight value away from the producer. -/
theorem exactly_once_isa (k : Nat) (schs : List Sched) :
    let s := Isa.run (Isa.init k) schs
    s.sent = List.range s.next ∧
    ∀ c ∈ s.cs, c.got = s.sent ∨ (s.valid = true ∧ c.got = s.sent ++ [s.next]) := by
  intro s
  have hI : Isa.Inv s := isa_inv_run k schs
  clear_value s
  obtain ⟨hsent, _, hcs, _⟩ := hI
  refine ⟨hsent, fun c hc => ?_⟩
  have := (hcs c hc).2
  cases hv : s.valid
  · left; simpa [hv] using this
  · simp only [hv, if_true] at this
    rcases this with ⟨_, g⟩ | ⟨_, g⟩
    · exact Or.inr ⟨rfl, g⟩
    · exact Or.inl g

/-- The producer does not get past its write before every consumer has the value: whenever it is
    not holding valid, all consumers hold exactly everything written. -/
theorem producer_waits_isa (k : Nat) (schs : List Sched) :
    let s := Isa.run (Isa.init k) schs
    s.valid = false → ∀ c ∈ s.cs, c.got = s.sent := by
  intro s
  have hI : Isa.Inv s := isa_inv_run k schs
  clear_value s
  intro hv c hc
  obtain ⟨_, _, hcs, _⟩ := hI
  simpa [Isa.CInv, hv] using (hcs c hc).2

/-- A consumer does not get past its read without having captured a value: it leaves the IO
    instruction only in a tick in which valid is high, and then its stream grows by that datum. -/
theorem consumer_waits_isa (v : Bool) (d : Nat) (w : Bool) (c : Isa.Cons)
    (hat : (c.atIO || w) = true) (hleft : (Isa.cstep v d w c).atIO = false) :
    v = true ∧ (Isa.cstep v d w c).got = c.got ++ [d] := by
  unfold Isa.cstep at *
  cases v <;> cases hr : c.recv <;> cases hd : c.deferred <;> cases ha : c.atIO <;> cases w <;> simp_all

/-! ### generated hardware -/

theorem rtl_inv_run (k : Nat) (schs : List Sched) : Rtl.Inv (Rtl.run (Rtl.init k) schs) := by
  unfold Rtl.run
  suffices ∀ s, Rtl.Inv s → Rtl.Inv (schs.foldl Rtl.step s) from this _ (Rtl.inv_init k)
  induction schs with
  | nil => intro s h; exact h
  | cons a t ih => intro s h; exact ih _ (Rtl.inv_step s a h)

/-- Exactly once, in order (hardware). -/
theorem exactly_once_rtl (k : Nat) (schs : List Sched) :
    let s := Rtl.run (Rtl.init k) schs
    s.sent = List.range s.next ∧
    ∀ c ∈ s.cs, c.got = s.sent ∨ ((s.waitsm && s.oVal) = true ∧ c.got = s.sent ++ [s.next]) := by
  intro s
  have hI : Rtl.Inv s := rtl_inv_run k schs
  clear_value s
  obtain ⟨hsent, _, _, hcs, _⟩ := hI
  refine ⟨hsent, fun c hc => ?_⟩
  have := hcs c hc
  unfold Rtl.CInv at this
  cases ho : (s.waitsm && s.oVal)
  · left; simpa [ho] using this
  · simp only [ho, if_true] at this
    rcases this with ⟨_, g⟩ | ⟨_, g⟩
    · exact Or.inr ⟨rfl, g⟩
    · exact Or.inl g

theorem producer_waits_rtl (k : Nat) (schs : List Sched) :
    let s := Rtl.run (Rtl.init k) schs
    (s.waitsm && s.oVal) = false → ∀ c ∈ s.cs, c.got = s.sent := by
  intro s
  have hI : Rtl.Inv s := rtl_inv_run k schs
  clear_value s
  intro ho c hc
  obtain ⟨_, _, _, hcs, _⟩ := hI
  simpa [Rtl.CInv, ho] using hcs c hc

theorem consumer_waits_rtl (v : Bool) (d : Nat) (w : Bool) (c : Rtl.Cons)
    (hat : (c.atIO || w) = true) (hleft : (Rtl.cstep v d w c).atIO = false) :
    v = true ∧ (Rtl.cstep v d w c).got = c.got ++ [d] := by
  unfold Rtl.cstep at *
  cases v <;> cases hr : c.recv <;> cases ha : c.atIO <;> cases w <;> simp_all

/-- both worlds deliver the same thing: a consumer's stream is always an initial segment of
    0,1,2,… (consequence of the two theorems above, stated once for the record) -/
theorem streams_are_prefixes (k : Nat) (schs : List Sched) :
    (∀ c ∈ (Isa.run (Isa.init k) schs).cs, c.got = List.range c.got.length) ∧
    (∀ c ∈ (Rtl.run (Rtl.init k) schs).cs, c.got = List.range c.got.length) := by
  constructor
  · intro c hc
    obtain ⟨hs, hall⟩ := exactly_once_isa k schs
    rcases hall c hc with g | ⟨_, g⟩
    · rw [g, hs]; simp
    · rw [g, hs]; simp [List.range_succ]
  · intro c hc
    obtain ⟨hs, hall⟩ := exactly_once_rtl k schs
    rcases hall c hc with g | ⟨_, g⟩
    · rw [g, hs]; simp
    · rw [g, hs]; simp [List.range_succ]

/-! ### the property's own wording

`offered` = the values the producer has put on the bond so far (the completed writes plus the one
it is holding valid for); every consumer's received stream is a prefix of it and at most one value
behind — `forall i : received(c_i) is a prefix of sent and |sent| - |received(c_i)| <= 1`. -/

def Isa.offered (s : Isa.St) : List Nat := if s.valid then s.sent ++ [s.next] else s.sent
def Rtl.offered (s : Rtl.St) : List Nat := if (s.waitsm && s.oVal) then s.sent ++ [s.next] else s.sent

theorem quantifier_isa (k : Nat) (schs : List Sched) :
    let s := Isa.run (Isa.init k) schs
    ∀ c ∈ s.cs, c.got <+: Isa.offered s ∧ (Isa.offered s).length - c.got.length ≤ 1 := by
  intro s c hc
  obtain ⟨_, hall⟩ := exactly_once_isa k schs
  unfold Isa.offered
  rcases hall c hc with g | ⟨hv, g⟩
  · cases hv : (Isa.run (Isa.init k) schs).valid
    · exact ⟨by simp only [s, hv, g]; exact List.prefix_refl _, by simp [s, hv, g]⟩
    · exact ⟨by simp only [s, hv, g, if_true]; exact List.prefix_append _ _, by simp [s, hv, g]⟩
  · exact ⟨by simp only [s, hv, g, if_true]; exact List.prefix_refl _, by simp [s, hv, g]⟩

theorem quantifier_rtl (k : Nat) (schs : List Sched) :
    let s := Rtl.run (Rtl.init k) schs
    ∀ c ∈ s.cs, c.got <+: Rtl.offered s ∧ (Rtl.offered s).length - c.got.length ≤ 1 := by
  intro s c hc
  obtain ⟨_, hall⟩ := exactly_once_rtl k schs
  unfold Rtl.offered
  rcases hall c hc with g | ⟨hv, g⟩
  · cases hv : ((Rtl.run (Rtl.init k) schs).waitsm && (Rtl.run (Rtl.init k) schs).oVal)
    · exact ⟨by simp only [s, hv, g]; exact List.prefix_refl _, by simp [s, hv, g]⟩
    · exact ⟨by simp only [s, hv, g, if_true]; exact List.prefix_append _ _, by simp [s, hv, g]⟩
  · exact ⟨by simp only [s, hv, g, if_true]; exact List.prefix_refl _, by simp [s, hv, g]⟩

/-! ### liveness: no deadlock under any fair schedule

`Fair k σ`: in the infinite schedule σ the producer and each of the k consumers reach their IO
instruction on this bond again and again; how long each stays away (arbitrary other instructions,
stalls, delays) and in which order they come back is arbitrary.  Then every value is eventually
written and eventually held by every consumer — in the simulator and in the generated hardware.
(With no consumer bonded to the output, `k = 0`, the producer waits for ever by design: the AND of
no recv line is taken as low.) -/

theorem no_deadlock_isa (k : Nat) (hk : 0 < k) (σ : Nat → Sched) (hf : Fair k σ) (n : Nat) :
    ∃ t, n ≤ (Isa.runF σ (Isa.init k) t).next ∧
      ∀ c ∈ (Isa.runF σ (Isa.init k) t).cs, n ≤ c.got.length := by
  have hlen : (Isa.init k).cs.length = k := by simp [Isa.init]
  have hex : ∀ n, ∃ t, n ≤ (Isa.runF σ (Isa.init k) t).next := by
    intro n
    induction n with
    | zero => exact ⟨0, Nat.zero_le _⟩
    | succ n ih =>
      obtain ⟨t0, h0⟩ := ih
      obtain ⟨t, ht⟩ := Isa.progress σ (Isa.init k) (Isa.inv_init k) (by rw [hlen]; exact hk) (by rw [hlen]; exact hf) t0
      exact ⟨t, by omega⟩
  obtain ⟨t, ht⟩ := hex n
  refine ⟨t, ht, fun c hc => ?_⟩
  obtain ⟨hsent, _, hcs, _⟩ := Isa.runF_inv σ (Isa.init k) (Isa.inv_init k) t
  have hl : (Isa.runF σ (Isa.init k) t).sent.length = (Isa.runF σ (Isa.init k) t).next := by
    rw [hsent]; simp
  have := (hcs c hc).2
  cases hv : (Isa.runF σ (Isa.init k) t).valid
  · simp only [hv] at this
    have e : c.got = (Isa.runF σ (Isa.init k) t).sent := by simpa using this
    rw [e, hl]; exact ht
  · simp only [hv, if_true] at this
    rcases this with ⟨_, g⟩ | ⟨_, g⟩
    · rw [g]; simp; omega
    · rw [g, hl]; exact ht

theorem no_deadlock_rtl (k : Nat) (hk : 0 < k) (σ : Nat → Sched) (hf : Fair k σ) (n : Nat) :
    ∃ t, n ≤ (Rtl.runF σ (Rtl.init k) t).next ∧
      ∀ c ∈ (Rtl.runF σ (Rtl.init k) t).cs, n ≤ c.got.length := by
  have hlen : (Rtl.init k).cs.length = k := by simp [Rtl.init]
  have hex : ∀ n, ∃ t, n ≤ (Rtl.runF σ (Rtl.init k) t).next := by
    intro n
    induction n with
    | zero => exact ⟨0, Nat.zero_le _⟩
    | succ n ih =>
      obtain ⟨t0, h0⟩ := ih
      obtain ⟨t, ht⟩ := Rtl.progress σ (Rtl.init k) (Rtl.inv_init k) (by rw [hlen]; exact hk) (by rw [hlen]; exact hf) t0
      exact ⟨t, by omega⟩
  obtain ⟨t, ht⟩ := hex n
  refine ⟨t, ht, fun c hc => ?_⟩
  obtain ⟨hsent, _, _, hcs, _⟩ := Rtl.runF_inv σ (Rtl.init k) (Rtl.inv_init k) t
  have hl : (Rtl.runF σ (Rtl.init k) t).sent.length = (Rtl.runF σ (Rtl.init k) t).next := by
    rw [hsent]; simp
  have := hcs c hc
  unfold Rtl.CInv at this
  cases ho : ((Rtl.runF σ (Rtl.init k) t).waitsm && (Rtl.runF σ (Rtl.init k) t).oVal)
  · simp only [ho] at this
    have e : c.got = (Rtl.runF σ (Rtl.init k) t).sent := by simpa using this
    rw [e, hl]; exact ht
  · simp only [ho, if_true] at this
    rcases this with ⟨_, g⟩ | ⟨_, g⟩
    · rw [g]; simp; omega
    · rw [g, hl]; exact ht

/-- the infinite runs of the liveness theorems are the finite runs of the safety theorems -/
theorem runF_is_run (σ : Nat → Sched) (k t : Nat) :
    Isa.runF σ (Isa.init k) t = Isa.run (Isa.init k) ((List.range t).map σ) ∧
    Rtl.runF σ (Rtl.init k) t = Rtl.run (Rtl.init k) ((List.range t).map σ) :=
  ⟨Isa.runF_eq_run _ _ _, Rtl.runF_eq_run _ _ _⟩

/-- the premise is satisfiable: e.g. everybody always eager; or a producer that shows up every
    third tick with consumers that alternate -/
example (k : Nat) : Fair k (fun _ => ⟨true, List.replicate k true⟩) :=
  ⟨fun t => ⟨t, Nat.le_refl _, rfl⟩, fun i hi t => ⟨t, Nat.le_refl _, by simp [hi]⟩⟩
example : Fair 2 (fun t => ⟨t % 3 == 0, [t % 2 == 0, t % 2 == 1]⟩) := by
  refine ⟨fun t => ⟨3 * t, by omega, by simp⟩, fun i hi t => ?_⟩
  rcases (by omega : i = 0 ∨ i = 1) with rfl | rfl
  · exact ⟨2 * t, by omega, by simp⟩
  · exact ⟨2 * t + 1, by omega, by simp⟩
/-- and needed: with an unfair schedule (the consumer never comes) nothing is ever written -/
example : ∀ n ≤ 20, (Isa.run (Isa.init 1) (List.replicate n ⟨true, [false]⟩)).next = 0 := by decide

/-! ### the protocol of the pinned code (before fix 18c0f8e) violates the property -/

/-- old `I2rw.Simulate`: takes the value whenever valid is high, even if recv of the previous
    transfer is still up -/
def oldCstep (validIn : Bool) (dataIn : Nat) (want : Bool) (c : Isa.Cons) : Isa.Cons :=
  let c1 : Isa.Cons := if c.deferred && !validIn then { c with recv := false, deferred := false } else c
  if c1.atIO || want then
    if validIn then { c1 with got := c1.got ++ [dataIn], recv := true, deferred := true, atIO := false }
    else { c1 with recv := false, atIO := true }
  else c1

/-- old `R2owa.Simulate`: raises valid and completes at once on a stale recv -/
def oldStep (s : Isa.St) (sch : Sched) : Isa.St :=
  let recvIn := !s.cs.isEmpty && s.cs.all (·.recv)
  let cs' := (s.cs.zip (sch.c ++ List.replicate s.cs.length false)).map
    fun (c, w) => oldCstep s.valid s.data w c
  if s.atIO || sch.p then
    if recvIn then
      { s with atIO := false, valid := false, data := s.next, sent := s.sent ++ [s.next], next := s.next + 1, cs := cs' }
    else { s with atIO := true, valid := true, data := s.next, cs := cs' }
  else { s with cs := cs' }

/-- a consumer that reads the same input in two consecutive instructions gets value 0 twice -/
theorem old_protocol_duplicates :
    ((List.replicate 3 ({ p := true, c := [true] } : Sched)).foldl oldStep (Isa.init 1)).cs.map (·.got) = [[0, 0]] := by
  decide

/-- a producer that writes the same output in two consecutive instructions loses value 1: it is
    recorded as sent, but the (slower) consumer never sees it -/
theorem old_protocol_loses :
    let schs : List Sched := [⟨true, [true]⟩, ⟨true, [true]⟩, ⟨true, [false]⟩, ⟨true, [false]⟩, ⟨false, [false]⟩, ⟨false, [false]⟩]
    let s := schs.foldl oldStep (Isa.init 1)
    s.sent = [0, 1] ∧ s.valid = false ∧ s.cs.map (·.got) = [[0]] := by
  decide

/-! ### non-vacuity -/

/-- with everybody always eager values do flow (a transfer takes 4 ticks in the simulator, 6 clocks
    in hardware) through a fan-out of two -/
example : (Isa.run (Isa.init 2) (List.replicate 12 ⟨true, [true, true]⟩)).sent = [0, 1, 2] := by decide
example : (Rtl.run (Rtl.init 2) (List.replicate 14 ⟨true, [true, true]⟩)).sent = [0, 1] := by decide
example : (Rtl.run (Rtl.init 2) (List.replicate 14 ⟨true, [true, true]⟩)).cs.map (·.got) = [[0, 1], [0, 1]] := by decide

end BMV.Props.C04
