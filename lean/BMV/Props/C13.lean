/-
  C13 — Generated stacks and queues never lose, duplicate or reorder an element.

  Property theorems only (helper lemmas: BMV/Proofs/Stack.lean; model: BMV/Stack.lean, a
  line-by-line model of the Verilog template pkg/bmstack/stackfile.go, tied to the code by the
  correspondence check of tools/props/c13.py: every register of the rendered module, cycle by cycle).

  Statement (properties.jsonl): for every generated LIFO or FIFO module (any depth, data width, number
  of senders and receivers) and every behaviour of the agents, each acknowledged write stores its
  value exactly once, each acknowledged read returns exactly the element the LIFO/FIFO discipline
  prescribes and removes it, nothing is accepted when full or returned when empty, the empty/full
  flags always reflect the number of stored elements, and a continuously requesting agent is
  acknowledged within a bounded number of cycles once space/data is available.

  Everything below is for EVERY configuration `c` (depth `D`, `nS` senders, `nR` receivers, LIFO or
  FIFO; `c.WF` = all three ≥ 1, no upper bound), every data type `α`, every reset value `z`, and
  ANY input valuation (agents need not follow the handshake for the safety theorems).
-/
import BMV.Proofs.Stack
namespace BMV.Props.C13
open BMV.Stack

variable {α : Type}

/-! ### concrete witnesses used by the non-vacuity examples -/

/-- FIFO, depth 3, two senders, two receivers -/
def cF : Cfg := ⟨true, 3, 2, 2⟩
/-- LIFO, depth 3, two senders, two receivers -/
def cL : Cfg := ⟨false, 3, 2, 2⟩
/-- a FIFO state with two elements stored across the wrap-around (`memory[2], memory[0]`),
    sender 1 and receiver 0 being served -/
def sF : S Nat :=
  { mem := fun i => 10 + i, sp := 2, rp := 2, wp := 1, sendSM := 1, recvSM := 0,
    sAck := fun _ => false, rAck := fun _ => false, rData := fun _ => 0 }
/-- a LIFO state with two elements -/
def sL : S Nat := { sF with rp := 0, wp := 0 }
/-- a full FIFO state (three elements, `readsp = writesp = 1`) -/
def sFull : S Nat := { sF with sp := 3, rp := 1, wp := 1 }
/-- nobody requests -/
def iIdle : In Nat := { reset := false, wr := fun _ => false, wdata := fun k => 100 + k, rd := fun _ => false }
/-- sender 1 writes 101 -/
def iW : In Nat := { iIdle with wr := fun k => k == 1 }
/-- receiver 0 reads (and sender 1 writes: reads have priority) -/
def iR : In Nat := { iW with rd := fun j => j == 0 }
/-- both senders write -/
def iWW : In Nat := { iIdle with wr := fun _ => true }
def iReset : In Nat := { iR with reset := true }

theorem cF_wf : cF.WF := by decide
theorem cL_wf : cL.WF := by decide
theorem sF_inv : Inv cF sF := ⟨by decide, by decide, by decide, by decide⟩
theorem sL_inv : Inv cL sL := ⟨by decide, by decide, by decide, by decide⟩
theorem sFull_inv : Inv cF sFull := ⟨by decide, by decide, by decide, by decide⟩

/-! ### 1. the invariant -/

/-- the reset state satisfies the invariant -/
theorem inv_reset (z : α) {c : Cfg} (hc : c.WF) : Inv c (reset z) := inv_reset' z hc

/-- every clock edge preserves the invariant, under ANY input valuation -/
theorem inv_step (z : α) {c : Cfg} {s : S α} (i : In α) (hc : c.WF) (h : Inv c s) :
    Inv c (step z c s i) := inv_step' z i hc h

/-- all finite input histories from any state satisfying the invariant -/
theorem inv_run (z : α) {c : Cfg} (hc : c.WF) (is : List (In α)) {s : S α} (h : Inv c s) :
    Inv c (run z c s is) := by
  induction is generalizing s with
  | nil => exact h
  | cons i is ih => exact ih (inv_step z i hc h)

/-- every state reachable from reset -/
theorem inv_reachable (z : α) {c : Cfg} (hc : c.WF) (is : List (In α)) :
    Inv c (run z c (reset z) is) := inv_run z hc is (inv_reset z hc)

-- non-vacuity: WF configurations and non-trivial invariant states exist; a wrapped FIFO state is
-- reached from reset by three writes, one read and a fourth write
example : cF.WF ∧ Inv cF sF ∧ Inv cL sL ∧ Inv cF sFull := ⟨cF_wf, sF_inv, sL_inv, sFull_inv⟩
example : let s := run 0 cF (reset 0) [iWW, iWW, iIdle, iWW, iR, iIdle, iR, iIdle, iWW]
    s.sp = 3 ∧ s.rp = 1 ∧ s.wp = 1 ∧ abs cF s = [101, 100, 101] := by decide

/-! ### 2. flags -/

/-- the occupancy register is the number of stored elements -/
theorem abs_length (c : Cfg) (s : S α) : (abs c s).length = s.sp := abs_length' c s

/-- `empty` ↔ nothing stored -/
theorem flags_empty (c : Cfg) (s : S α) : s.empty = true ↔ abs c s = [] := by
  rw [empty_iff, ← List.length_eq_zero_iff, abs_length]

/-- `full` ↔ `D` elements stored -/
theorem flags_full (c : Cfg) (s : S α) : s.full c = true ↔ (abs c s).length = c.D := by
  rw [full_iff, abs_length]

/-- nothing is accepted when full -/
theorem no_write_when_full {c : Cfg} {s : S α} (i : In α) (h : s.full c = true) : wFire c s i = none := by
  rcases wFire_isSome_or (c := c) (s := s) (i := i) with e | e
  · exact e
  · exact absurd (full_iff.mp h) (wFire_sp_ne e)

/-- nothing is returned when empty -/
theorem no_read_when_empty {c : Cfg} {s : S α} (i : In α) (h : s.empty = true) : rFire c s i = none := by
  rcases rFire_isSome_or (c := c) (s := s) (i := i) with e | e
  · exact e
  · have := rFire_sp_pos e; have := empty_iff.mp h; omega

/-- never a read and a write in the same cycle -/
theorem not_both (c : Cfg) (s : S α) (i : In α) : ¬ ((rFire c s i).isSome ∧ (wFire c s i).isSome) := by
  rintro ⟨h1, h2⟩
  obtain ⟨j, hj⟩ := Option.isSome_iff_exists.mp h1
  obtain ⟨k, hk⟩ := Option.isSome_iff_exists.mp h2
  exact not_both_fire hj hk

-- non-vacuity: a full state refuses a requested write, a non-full one takes it; an empty state
-- refuses a requested read, a non-empty one serves it (and the simultaneous write waits)
example : sFull.full cF = true ∧ wFire cF sFull iW = none ∧ wFire cF sF iW = some 1 := by decide
example : (reset 0 : S Nat).empty = true ∧ rFire cF (reset 0) iR = none ∧ rFire cF sF iR = some 0 ∧
    wFire cF sF iR = none := by decide

/-! ### 3. refinement of the abstract sequence -/

/-- the cycle is a reset: the store becomes empty -/
def IsReset (z : α) (c : Cfg) (s : S α) (i : In α) : Prop :=
  i.reset = true ∧ abs c (step z c s i) = []

/-- no transfer: contents and receiver data registers unchanged -/
def IsIdle (z : α) (c : Cfg) (s : S α) (i : In α) : Prop :=
  i.reset = false ∧ rFire c s i = none ∧ wFire c s i = none ∧ abs c (step z c s i) = abs c s ∧
  ∀ j, (step z c s i).rData j = s.rData j

/-- the served sender `k` (requesting, not yet acknowledged, store not full) appends its datum -/
def IsWrite (z : α) (c : Cfg) (s : S α) (i : In α) : Prop :=
  i.reset = false ∧ ∃ k, wFire c s i = some k ∧ rFire c s i = none ∧ k < c.nS ∧ k = s.sendSM ∧
    i.wr k = true ∧ s.sAck k = false ∧ (abs c s).length < c.D ∧
    abs c (step z c s i) = abs c s ++ [i.wdata k] ∧ ∀ j, (step z c s i).rData j = s.rData j

/-- the served receiver `j` (requesting, not yet acknowledged) gets the element the discipline
    prescribes — FIFO: the oldest, LIFO: the newest — and that element leaves the store -/
def IsRead (z : α) (c : Cfg) (s : S α) (i : In α) : Prop :=
  i.reset = false ∧ ∃ j, rFire c s i = some j ∧ wFire c s i = none ∧ j < c.nR ∧ j = s.recvSM ∧
    i.rd j = true ∧ s.rAck j = false ∧
    (if c.fifo then abs c s = (step z c s i).rData j :: abs c (step z c s i)
     else abs c s = abs c (step z c s i) ++ [(step z c s i).rData j]) ∧
    ∀ j', j' ≠ j → (step z c s i).rData j' = s.rData j'

/-- every clock edge from a state satisfying the invariant is a reset, an idle cycle, one write by
    the served sender or one read by the served receiver (under ANY inputs; `c.WF` is not needed) -/
theorem refines (z : α) {c : Cfg} {s : S α} (i : In α) (h : Inv c s) :
    IsReset z c s i ∨ IsIdle z c s i ∨ IsWrite z c s i ∨ IsRead z c s i := by
  cases hres : i.reset
  case true => exact Or.inl ⟨hres, by rw [step_of_reset z c s i hres]; rfl⟩
  rcases rFire_isSome_or (c := c) (s := s) (i := i) with hr | hr
  · rcases wFire_isSome_or (c := c) (s := s) (i := i) with hw | hw
    · refine Or.inr (Or.inl ⟨hres, hr, hw, abs_idle z hres hr hw, ?_⟩)
      intro j; rw [(step_idle z hres hr hw).2.2.2.2]
    · obtain ⟨-, -, hlt, hwr, hack, -⟩ := wFire_eq_some.mp hw
      refine Or.inr (Or.inr (Or.inl ⟨hres, s.sendSM, hw, hr, hlt, rfl, hwr, hack, ?_, abs_write z h hres hw, ?_⟩))
      · rw [abs_length]; exact Nat.lt_of_le_of_ne h.sp_le (wFire_sp_ne hw)
      · intro j; rw [(step_write z hres hw).2.2.2.2]
  · obtain ⟨-, -, hlt, hrd, hack, -⟩ := rFire_eq_some.mp hr
    refine Or.inr (Or.inr (Or.inr ⟨hres, s.recvSM, hr, wFire_none_of_rFire hr, hlt, rfl, hrd, hack, ?_, ?_⟩))
    · cases hf : c.fifo
      · simp only [Bool.false_eq_true, if_false]; exact abs_read_lifo z h hf hres hr
      · simp only [if_true]; exact abs_read_fifo z h hf hres hr
    · intro j' hj'; rw [(step_read z hres hr).2.2.2.2]; exact upd_ne _ _ hj'

/-- in particular every clock edge of every execution from reset -/
theorem refines_reachable (z : α) {c : Cfg} (hc : c.WF) (is : List (In α)) (i : In α) :
    let s := run z c (reset z) is
    IsReset z c s i ∨ IsIdle z c s i ∨ IsWrite z c s i ∨ IsRead z c s i :=
  refines z i (inv_reachable z hc is)

/-- … and exactly one of them -/
theorem refines_exclusive (z : α) (c : Cfg) (s : S α) (i : In α) :
    ¬ (IsReset z c s i ∧ IsIdle z c s i) ∧ ¬ (IsReset z c s i ∧ IsWrite z c s i) ∧
    ¬ (IsReset z c s i ∧ IsRead z c s i) ∧ ¬ (IsIdle z c s i ∧ IsWrite z c s i) ∧
    ¬ (IsIdle z c s i ∧ IsRead z c s i) ∧ ¬ (IsWrite z c s i ∧ IsRead z c s i) := by
  refine ⟨?_, ?_, ?_, ?_, ?_, ?_⟩
  · rintro ⟨⟨a, -⟩, ⟨b, -⟩⟩; rw [a] at b; cases b
  · rintro ⟨⟨a, -⟩, ⟨b, -⟩⟩; rw [a] at b; cases b
  · rintro ⟨⟨a, -⟩, ⟨b, -⟩⟩; rw [a] at b; cases b
  · rintro ⟨⟨-, -, a, -⟩, ⟨-, k, b, -⟩⟩; rw [a] at b; cases b
  · rintro ⟨⟨-, a, -⟩, ⟨-, j, b, -⟩⟩; rw [a] at b; cases b
  · rintro ⟨⟨-, k, -, a, -⟩, ⟨-, j, b, -⟩⟩; rw [a] at b; cases b

-- non-vacuity: each of the four kinds occurs from an invariant state; the FIFO read returns the
-- oldest element (12 from `memory[2]`, leaving [10]), the LIFO read the newest (11, leaving [10]),
-- the FIFO write lands behind the wrapped pair
example : abs cF sF = [12, 10] ∧ abs cL sL = [10, 11] := by decide
example : IsReset 0 cF sF iReset := ⟨rfl, rfl⟩
example : IsIdle 0 cF sF iIdle := ⟨rfl, by decide, by decide, by decide, fun _ => rfl⟩
example : IsWrite 0 cF sF iW ∧ abs cF (step 0 cF sF iW) = [12, 10, 101] :=
  ⟨⟨rfl, 1, by decide, by decide, by decide, by decide, by decide, by decide, by decide, by decide,
    fun _ => rfl⟩, by decide⟩
example : IsRead 0 cF sF iR :=
  ⟨rfl, 0, by decide, by decide, by decide, by decide, by decide, by decide, by decide,
    fun j' h => by show (if j' = 0 then _ else _) = _; rw [if_neg h]⟩
example : rFire cF sF iR = some 0 ∧ (step 0 cF sF iR).rData 0 = 12 ∧ abs cF (step 0 cF sF iR) = [10] := by
  decide
example : rFire cL sL iR = some 0 ∧ (step 0 cL sL iR).rData 0 = 11 ∧ abs cL (step 0 cL sL iR) = [10] := by
  decide

/-! ### 4. acknowledgements and transfers -/

/-- a sender's Ack rises in exactly the cycle of its transfer (any inputs, no invariant needed) -/
theorem ack_iff_transfer_write (z : α) {c : Cfg} {s : S α} {i : In α} {k : Nat} (hk : k < c.nS)
    (hres : i.reset = false) :
    (s.sAck k = false ∧ (step z c s i).sAck k = true) ↔ wFire c s i = some k :=
  sAck_rises_iff z hres hk

/-- a receiver's Ack rises in exactly the cycle of its transfer -/
theorem ack_iff_transfer_read (z : α) {c : Cfg} {s : S α} {i : In α} {j : Nat} (hj : j < c.nR)
    (hres : i.reset = false) :
    (s.rAck j = false ∧ (step z c s i).rAck j = true) ↔ rFire c s i = some j :=
  rAck_rises_iff z hres hj

/-- the Ack is held while the request stays up -/
theorem ack_held_write (z : α) {c : Cfg} {s : S α} {i : In α} {k : Nat} (hres : i.reset = false)
    (ha : s.sAck k = true) (hw : i.wr k = true) : (step z c s i).sAck k = true := sAck_held z hres ha hw

theorem ack_held_read (z : α) {c : Cfg} {s : S α} {i : In α} {j : Nat} (hres : i.reset = false)
    (ha : s.rAck j = true) (hr : i.rd j = true) : (step z c s i).rAck j = true := rAck_held z hres ha hr

/-- dropping the request clears the Ack in the next cycle -/
theorem ack_drops_write (z : α) {c : Cfg} {s : S α} {i : In α} {k : Nat} (hres : i.reset = false)
    (hk : k < c.nS) (hw : i.wr k = false) : (step z c s i).sAck k = false := sAck_drops z hres hk hw

theorem ack_drops_read (z : α) {c : Cfg} {s : S α} {i : In α} {j : Nat} (hres : i.reset = false)
    (hj : j < c.nR) (hr : i.rd j = false) : (step z c s i).rAck j = false := rAck_drops z hres hj hr

/-- one request (the `Write` line held high over any number of cycles, from any state) stores its
    value at most once: `wCount` counts the cycles of the history in which sender `k` transfers -/
theorem at_most_one_transfer_per_request_write (z : α) (c : Cfg) (k : Nat) (s : S α) (is : List (In α))
    (hreq : ∀ i ∈ is, i.reset = false ∧ i.wr k = true) : wCount z c k s is ≤ 1 :=
  wCount_le_one z c k is s hreq

/-- one read request removes at most one element -/
theorem at_most_one_transfer_per_request_read (z : α) (c : Cfg) (j : Nat) (s : S α) (is : List (In α))
    (hreq : ∀ i ∈ is, i.reset = false ∧ i.rd j = true) : rCount z c j s is ≤ 1 :=
  rCount_le_one z c j is s hreq

-- non-vacuity: the transfer of sender 1 raises its Ack; holding the request for three more cycles
-- keeps the Ack and transfers exactly once (so the bound 1 is attained); dropping it clears the Ack
example : wFire cF sF iW = some 1 ∧ sF.sAck 1 = false ∧ (step 0 cF sF iW).sAck 1 = true := by decide
example : (run 0 cF sF [iW, iW, iW]).sAck 1 = true ∧ wCount 0 cF 1 sF [iW, iW, iW] = 1 ∧
    abs cF (run 0 cF sF [iW, iW, iW]) = [12, 10, 101] := by decide
example : (run 0 cF sF [iW, iIdle]).sAck 1 = false := by decide
example : rCount 0 cF 0 sF [iR, iR, iR] = 1 ∧ (run 0 cF sF [iR, iR, iR]).rAck 0 = true ∧
    (run 0 cF sF [iR, iR, iIdle]).rAck 0 = false := by decide

/-! ### 5. register widths and exact arithmetic -/

/-- under the invariant every register value fits the width the template declares for it
    (`bits (Depth+1)` for `sp`, `readsp`, `writesp`; `bits (len Senders)`, `bits (len Receivers)`
    for the round-robin pointers), so the model's unbounded naturals lose nothing -/
theorem fits {c : Cfg} {s : S α} (hc : c.WF) (h : Inv c s) :
    s.sp < 2 ^ neededBits (c.D + 1) ∧ s.rp < 2 ^ neededBits (c.D + 1) ∧ s.wp < 2 ^ neededBits (c.D + 1) ∧
    s.sendSM < 2 ^ neededBits c.nS ∧ s.recvSM < 2 ^ neededBits c.nR := by
  have hD : c.D + 1 ≤ 2 ^ neededBits (c.D + 1) := le_two_pow_neededBits (by omega)
  have hS := le_two_pow_neededBits hc.2.1
  have hR := le_two_pow_neededBits hc.2.2
  have h1 := h.sp_le; have h2 := h.sendSM_lt; have h3 := h.recvSM_lt
  have h4 : s.rp < c.D ∧ s.wp < c.D := by
    cases hf : c.fifo
    · obtain ⟨a, b⟩ := h.lifo hf; have := hc.1; omega
    · obtain ⟨a, b, -⟩ := h.ring hf; exact ⟨a, b⟩
  omega

/-- under the invariant no natural-number subtraction of the template's pointer arithmetic
    truncates and every memory index is in range.  (The remaining two subtractions, `writesp -
    readsp - 1` and `writesp - readsp + 1`, are guarded by their own branch conditions.)  Together
    with `fits` and `inv_step` (the results are `sp ± 1` and pointers `< D`) the width-truncated
    evaluation of the emitted Verilog agrees with the model. -/
theorem exact_arith {c : Cfg} {s : S α} (hc : c.WF) (h : Inv c s) (i : In α) :
    -- `Depth - 1` and `len - 1` in `next`
    1 ≤ c.D ∧ 1 ≤ c.nS ∧ 1 ≤ c.nR ∧
    -- FIFO: `Depth - readsp - 1 + writesp`, `Depth - readsp`, `Depth - readsp + writesp + 1`
    (c.fifo = true → s.rp + 1 ≤ c.D) ∧
    -- a read transfer: `sp - 1`, `memory[sp-1]` (LIFO), `memory[readsp]` (FIFO)
    (∀ j, rFire c s i = some j → 1 ≤ s.sp ∧ (if c.fifo then s.rp else s.sp - 1) < c.D ∧
      (readPtrs c s).1 + 1 = s.sp) ∧
    -- a write transfer: `memory[sp]` (LIFO), `memory[writesp]` (FIFO), `sp + 1 ≤ Depth`
    (∀ k, wFire c s i = some k → (if c.fifo then s.wp else s.sp) < c.D ∧ (writePtrs c s).1 = s.sp + 1) := by
  refine ⟨hc.1, hc.2.1, hc.2.2, ?_, ?_, ?_⟩
  · intro hf; have := (h.ring hf).1; omega
  · intro j hr
    have hpos := rFire_sp_pos hr
    have hle := h.sp_le
    refine ⟨hpos, ?_, (readPtrs_spec h hpos).1⟩
    cases hf : c.fifo
    · simp only [Bool.false_eq_true, if_false]; omega
    · simp only [if_true]; exact (h.ring hf).1
  · intro k hw
    have hlt : s.sp < c.D := Nat.lt_of_le_of_ne h.sp_le (wFire_sp_ne hw)
    refine ⟨?_, (writePtrs_spec h hlt).1⟩
    cases hf : c.fifo
    · simp only [Bool.false_eq_true, if_false]; exact hlt
    · simp only [if_true]; exact (h.ring hf).2.1

-- non-vacuity: widths of the depth-3 instances (2 bits hold `sp ≤ 3`, 1 bit holds the pointers 0..1);
-- the transfers the arithmetic facts speak about do occur in invariant states
example : neededBits (cF.D + 1) = 2 ∧ neededBits cF.nS = 1 ∧ sFull.sp = 3 ∧ sF.sendSM = 1 := by decide
example : neededBits 1 = 1 ∧ neededBits 5 = 3 ∧ neededBits 8 = 3 ∧ neededBits 9 = 4 := by decide
example : rFire cL sL iR = some 0 ∧ wFire cF sF iW = some 1 ∧ rFire cF sFull iR = some 0 := by decide

/-! ### 6. bounded response -/

/-- a receiver that keeps its request up while the store is non-empty is served within `nR` cycles:
    `recvSM` rotates in every such cycle, whatever the other agents do -/
theorem bounded_response_read (z : α) {c : Cfg} {s : S α} (inp : Nat → In α) {j : Nat} (hc : c.WF)
    (h : Inv c s) (hj : j < c.nR) (ha : s.rAck j = false)
    (hreq : ∀ t < c.nR, (inp t).reset = false ∧ (inp t).rd j = true ∧ (stateAt z c s inp t).empty = false) :
    ∃ t < c.nR, rFire c (stateAt z c s inp t) (inp t) = some j := by
  apply Classical.byContradiction
  intro hno
  have hnf : ∀ t < c.nR, rFire c (stateAt z c s inp t) (inp t) ≠ some j := fun t ht e => hno ⟨t, ht, e⟩
  obtain ⟨-, -, d⟩ := read_wait_trace z hc inp hj h.recvSM_lt ha c.nR hreq hnf
  have := dist_lt h.recvSM_lt hj
  omega

/-- a sender that keeps its request up for `T` cycles is served within them as soon as `nS` of those
    cycles are write-enabled (no read takes the cycle — reads have priority — and the store is not
    full): `sendSM` rotates in exactly those cycles, whatever the other agents do -/
theorem bounded_response_write (z : α) {c : Cfg} {s : S α} (inp : Nat → In α) {k : Nat} (T : Nat) (hc : c.WF)
    (h : Inv c s) (hk : k < c.nS) (ha : s.sAck k = false)
    (hreq : ∀ t < T, (inp t).reset = false ∧ (inp t).wr k = true)
    (hen : c.nS ≤ enabledCount z c s inp T) :
    ∃ t < T, wFire c (stateAt z c s inp t) (inp t) = some k := by
  apply Classical.byContradiction
  intro hno
  have hnf : ∀ t < T, wFire c (stateAt z c s inp t) (inp t) ≠ some k := fun t ht e => hno ⟨t, ht, e⟩
  obtain ⟨-, -, d⟩ := write_wait_trace z hc inp hk h.sendSM_lt ha T hreq hnf
  have := dist_lt h.sendSM_lt hk
  omega

/-- special case: `nS` consecutive write-enabled cycles suffice -/
theorem bounded_response_write_consecutive (z : α) {c : Cfg} {s : S α} (inp : Nat → In α) {k : Nat}
    (hc : c.WF) (h : Inv c s) (hk : k < c.nS) (ha : s.sAck k = false)
    (hreq : ∀ t < c.nS, (inp t).reset = false ∧ (inp t).wr k = true ∧
      (stateAt z c s inp t).full c = false ∧ rBranch c (stateAt z c s inp t) (inp t) = false) :
    ∃ t < c.nS, wFire c (stateAt z c s inp t) (inp t) = some k := by
  refine bounded_response_write z inp c.nS hc h hk ha (fun t ht => ⟨(hreq t ht).1, (hreq t ht).2.1⟩) ?_
  rw [enabledCount_all z c s inp c.nS]
  · exact Nat.le_refl _
  · intro t ht
    obtain ⟨-, -, a, b⟩ := hreq t ht
    simp [wEnabled, a, b]

/-- the wording of DESIGN.md: if every OTHER agent drops its request within `B` cycles of its Ack, a
    sender that keeps requesting sees its Ack within `nS·(B+2)` cycles provided the store is not
    permanently full and no reader monopolises (reads have priority) — made precise as: at least `nS`
    of those cycles are write-enabled; a receiver that keeps requesting while the store is not
    empty sees its Ack within `nR·(B+2)` cycles -/
def bounded_response_full : Prop :=
  ∀ (α : Type) (z : α) (c : Cfg) (s : S α) (inp : Nat → In α) (B : Nat), c.WF → Inv c s →
    (∀ k, k < c.nS → s.sAck k = false →
      -- handshake discipline of the other senders
      (∀ t k', k' < c.nS → k' ≠ k → (stateAt z c s inp t).sAck k' = true →
        ∃ t', t' ≤ t + B ∧ (inp t').wr k' = false) →
      (∀ t < c.nS * (B + 2), (inp t).reset = false ∧ (inp t).wr k = true) →
      c.nS ≤ enabledCount z c s inp (c.nS * (B + 2)) →
      ∃ t < c.nS * (B + 2), wFire c (stateAt z c s inp t) (inp t) = some k ∧
        (stateAt z c s inp (t + 1)).sAck k = true) ∧
    (∀ j, j < c.nR → s.rAck j = false →
      -- handshake discipline of the other receivers
      (∀ t j', j' < c.nR → j' ≠ j → (stateAt z c s inp t).rAck j' = true →
        ∃ t', t' ≤ t + B ∧ (inp t').rd j' = false) →
      (∀ t < c.nR * (B + 2), (inp t).reset = false ∧ (inp t).rd j = true ∧
        (stateAt z c s inp t).empty = false) →
      ∃ t < c.nR * (B + 2), rFire c (stateAt z c s inp t) (inp t) = some j ∧
        (stateAt z c s inp (t + 1)).rAck j = true)

/-- it holds, with room to spare: the template rotates its pointers unconditionally, so the bounds
    `nS` (write-enabled cycles) and `nR` of the theorems above apply and the handshake hypotheses on
    the other agents are not even needed -/
theorem bounded_response_full_holds : bounded_response_full := by
  intro α z c s inp B hc h
  have hmul : ∀ n : Nat, n ≤ n * (B + 2) := fun n => Nat.le_mul_of_pos_right n (by omega)
  constructor
  · intro k hk ha _ hreq hen
    obtain ⟨t, ht, hf⟩ := bounded_response_write z inp _ hc h hk ha hreq hen
    exact ⟨t, ht, hf, ((ack_iff_transfer_write z hk (hreq t ht).1).mpr hf).2⟩
  · intro j hj ha _ hreq
    obtain ⟨t, ht, hf⟩ := bounded_response_read z inp hc h hj ha
      (fun t ht => hreq t (Nat.lt_of_lt_of_le ht (hmul _)))
    have hres := (hreq t (Nat.lt_of_lt_of_le ht (hmul _))).1
    exact ⟨t, Nat.lt_of_lt_of_le ht (hmul _), hf, ((ack_iff_transfer_read z hj hres).mpr hf).2⟩

/-- everybody reads -/
def iRR : In Nat := { iIdle with rd := fun _ => true }
/-- both senders write all the time, receiver 0 reads in cycle 1 -/
def inpW (t : Nat) : In Nat := if t = 1 then { iWW with rd := fun j => j == 0 } else iWW

-- non-vacuity: receiver 1 (one position away from `recvSM = 0`) is served in cycle 1 of an
-- all-read stream on the two-element FIFO; its hypotheses hold
example : ∃ t < cF.nR, rFire cF (stateAt 0 cF sF (fun _ => iRR) t) iRR = some 1 :=
  bounded_response_read 0 (fun _ => iRR) cF_wf sF_inv (by decide) (by decide) (by decide)
example : rFire cF (stateAt 0 cF sF (fun _ => iRR) 1) iRR = some 1 := by decide
-- sender 1 waits from reset: cycle 0 serves sender 0, cycle 1 is taken by a read, cycle 2 serves it;
-- 2 = nS of the first 3 cycles are write-enabled
example : enabledCount 0 cF (reset 0) inpW 3 = 2 ∧ wFire cF (stateAt 0 cF (reset 0) inpW 2) (inpW 2) = some 1 := by
  decide
example : ∃ t < 3, wFire cF (stateAt 0 cF (reset 0) inpW t) (inpW t) = some 1 :=
  bounded_response_write 0 inpW 3 cF_wf (inv_reset 0 cF_wf) (by decide) (by decide) (by decide) (by decide)
-- the hypotheses of `bounded_response_full` are jointly satisfiable: from reset, sender 1 alone
-- requests for ever (sender 0 never does, so it trivially obeys the handshake with B = 0);
-- all nS·(B+2) = 4 cycles are write-enabled and sender 1 is served in cycle 1
example : (∀ t k', k' < cF.nS → k' ≠ 1 → (stateAt 0 cF (reset 0) (fun _ => iW) t).sAck k' = true →
      ∃ t', t' ≤ t + 0 ∧ ((fun _ => iW) t').wr k' = false) ∧
    (∀ t < cF.nS * (0 + 2), ((fun _ => iW) t).reset = false ∧ ((fun _ => iW) t).wr 1 = true) ∧
    cF.nS ≤ enabledCount 0 cF (reset 0) (fun _ => iW) (cF.nS * (0 + 2)) ∧
    wFire cF (stateAt 0 cF (reset 0) (fun _ => iW) 1) iW = some 1 :=
  ⟨fun _ k' _ hne _ => ⟨0, Nat.zero_le _, by show (k' == 1) = false; simpa using hne⟩,
   by decide, by decide, by decide⟩

end BMV.Props.C13
