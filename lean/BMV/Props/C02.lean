/-
  C02 — A whole BondMachine behaves the same in generated HDL as in simulation.

  Property theorems only.  Models (hand written, tied to the code on every run by
  tools/props/c02.py): BMV/Bond.lean (`wire`: what Write_verilog_main emits — compared, names
  included, with the parsed bondmachine.v), BMV/Bm.lean (`isaStep`: bondmachine.VM.Step — compared
  tick by tick with the real VM; `rtlCycle`: the processors' Rtl.cycle composed through the bonds —
  compared clock by clock with the emitted file set under BMV.Vlog), BMV/Kpn.lean (the abstract
  blocking-IO network).  Helper lemmas: BMV/Proofs/Bond.lean, BMV/Proofs/Kpn.lean.

  Proved here, for EVERY well-formed machine (`Topology.WF`, which C10 proves of every machine the
  editing API can build):
    * `netlist_exact`, `connected_iff_bond`, `received_is_conjunction` — the emitted top level
      connects exactly the endpoints named by the bonds, nothing else is assigned, and an
      internal output's `_received` is the conjunction of the `_received` lines of the inputs
      bonded to it (one consumer: that line; none: no assignment at all — the wire is undriven,
      0 in the two-state semantics, as the simulator's `false`);
    * `data_nets_declared` — every data net the top level mentions is declared register-size wide;
    * `recv_fold_eq_all`, `recv_fold_order_independent` — the running `&&` of `VM.Step` is
      `List.all` over the consumers and does not depend on the order of `Links`;
    * `rtl_reads_through_wire` — the hardware composition `Bm.rtlCycle` feeds every processor
      input from the net the emitted netlist attaches to it;
    * `kahn_determinate`, `bond_channel_determinate` — schedule (= stall pattern) independence of
      networks of deterministic agents whose steps commute, instantiated with the blocking-IO
      producer / one-place channel with fan-out / consumers network.
    * `isa_step_is_product`, `isa_bond_projects`, `isa_bond_run_projects`, `isa_bond_invariant`,
      `rtl_bond_projects`, `rtl_bond_run_projects` — one tick of `Bm.isaStep` / one clock of
      `Bm.rtlCycle`, seen through any processor-to-processor bond, IS one step of C04's handshake
      model `Hs.Isa` / `Hs.Rtl` under the schedule read off the pcs; every run projects onto a run of
      that model and inherits its invariant (control level: valid / recv / deferred / waitsm / pcs);
    * `port_reuse_safe_always` — with the repaired handshake neither world ever meets the C04
      signature, so the hypothesis `PortReuseSafe` of the stream statement is void.
    * `ref_determinate` — the reference (blocking-IO network) semantics `Bm.refNet` of EVERY machine
      is confluent, hence timing independent; `stream_eq_partial` — the delivered streams of
      `Bm.runIsa` and `Bm.runRtl` are prefix-comparable on every external output PROVIDED each
      world refines that network (named hypotheses `IsaRefines`, `RtlRefines`).
  NOT proved (kept visible as `stream_eq_full : Prop`, and `IsaRefines` / `RtlRefines`): that the two
  concrete worlds do refine the network.  Missing between the proved bond projections and the
  refinements: the ghost value log on a bond (C04's model numbers the values), the environment's own
  ports (zero-latency agents, not `Hs` agents), and the composition of the per-bond runs into one
  schedule of the network (docs/C02.md).  The statement and both refinement
  hypotheses are tested on every run: simulator vs hardware on the implementation and on the
  models, and both against a round-robin run of the reference network.
-/
import BMV.Proofs.Bond
import BMV.Proofs.BondDecl
import BMV.Proofs.Kpn
import BMV.Proofs.Bm
import BMV.Proofs.BmRtlBond
import BMV.Props.C10
namespace BMV.Props.C02
open BMV BMV.Topology BMV.Bond BMV.Bm

/-! ### the netlist -/

/-- **The model of `Write_verilog_main` connects exactly the bonds** (all six clauses of
    `Bond.Exact`: one instance per processor; every driver on its own nets; every sink reports on
    its own `_received` net; every sink reads data and valid from its driver and from nothing
    else — an unbonded processor input reads its own undriven net, an unbonded external output
    is not assigned; `_received` of an internal output is nothing / the consumer's line / the
    conjunction of the consumers' lines; there is no other continuous assignment). -/
theorem netlist_exact (t : Topo) (h : WF t) (rsize : Nat) : Exact (wire t rsize) t :=
  exact_wire h rsize

/-- the (driver, sink) pairs whose data (k = 0) and valid (k = 1) lines the netlist connects are
    exactly `Topology.bonds t` -/
theorem connected_iff_bond (t : Topo) (h : WF t) (rsize : Nat) (o s : Topology.Bond)
    (ho : o ∈ t.iout) (hs : s ∈ t.iin) (k : Nat) (hk : k < 2) :
    (wire t rsize).sinkSrc s k = some (lineNet k o) ↔ (o, s) ∈ bonds t := by
  rw [(exact_wire h rsize).sinkSrc s hs k hk, ← driverOf_iff_bond h hs]
  unfold srcSpec
  have hinj : ∀ a b : Topology.Bond, lineNet k a = lineNet k b → a = b := by
    intro a b hab
    have hk' : k = 0 ∨ k = 1 := by omega
    rcases hk' with rfl | rfl <;> simpa [lineNet] using hab
  cases hd : Bond.driverOf t s with
  | some o' =>
    simp only [Option.some.injEq]
    exact ⟨fun hh => by rw [hinj _ _ hh], fun hh => by rw [hh]⟩
  | none =>
    constructor
    · intro hh
      exfalso
      by_cases h2 : s.kind = 2
      · rw [if_pos h2] at hh
        have := hinj _ _ (Option.some.inj hh)
        rw [this] at hs
        exact iin_iout_disjoint h hs ho
      · rw [if_neg h2] at hh; cases hh
    · intro hh; cases hh

/-- `received(o) = ⋀ received(i)` over the links `i ↦ o`; with no link the line is undriven (0) -/
theorem received_is_conjunction (t : Topo) (h : WF t) (rsize : Nat) (j : Nat) (o : Topology.Bond)
    (ho : t.iout[j]? = some o) (env : Net → Bool) :
    (wire t rsize).assigned env (.recv o) =
        (!(consumers t j).isEmpty && (consumers t j).all (fun c => env (.recv c))) ∧
    ∀ s, s ∈ consumers t j ↔ (o, s) ∈ bonds t :=
  ⟨recv_value (exact_wire h rsize) env ho, fun _ => mem_consumers h ho⟩

/-- declarations: every data net that an instance port or an `assign` of the emitted top level
    mentions is declared with the machine's register size — none is an implicit 1-bit net (the
    `_valid` / `_received` lines of an unbonded processor input are, legally: they are scalar) -/
theorem data_nets_declared (t : Topo) (h : WF t) (rsize : Nat) :
    (∀ i ∈ (wire t rsize).insts, ∀ b, Net.data b ∈ i.conns → DataDeclared (wire t rsize) rsize b) ∧
    (∀ a ∈ (wire t rsize).assigns, (∀ b, a.1 = .data b → DataDeclared (wire t rsize) rsize b) ∧
      (∀ b, a.2 = .id (.data b) → DataDeclared (wire t rsize) rsize b)) :=
  data_nets_declared' h rsize

/-! ### the simulator's conjunction -/

/-- the Go loop (first hit stores, later hits `&&`, no entry gives `false`) computes the
    conjunction over all slots of `Links` that point at `j` — `false` when there is none -/
theorem recv_fold_eq_all (links : List (Option Nat)) (iiRecv : List Bool) (j : Nat) :
    recvOf links iiRecv j =
      (!(consumerSlots links j).isEmpty && (consumerSlots links j).all (fun i => iiRecv.getD i false)) := by
  unfold recvOf
  rw [recvFold_closed, recvsOf_links]
  simp [List.all_map, Function.comp_def]

/-- … whatever the order in which the links are visited -/
theorem recv_fold_order_independent (ps qs : List (Option Nat × Bool)) (h : ps.Perm qs) (j : Nat) :
    ((recvFold ps []).lookup j).getD false = ((recvFold qs []).lookup j).getD false := by
  rw [recvFold_closed, recvFold_closed, all_perm (recvsOf_perm h j), isEmpty_perm (recvsOf_perm h j)]

/-! ### the hardware composition goes through the emitted netlist -/

theorem rtl_reads_through_wire (t : Topo) (h : WF t) (rsize : Nat) (hs : HwState) (e : EnvIn)
    (p : Nat) (a : Arch) (k : Nat) (hk : k < a.n) (hmem : (⟨2, p, k⟩ : Topology.Bond) ∈ t.iin) :
    (portsIn t hs e p a).inputs[k]? = some
      (match (wire t rsize).sinkSrc ⟨2, p, k⟩ 0 with
       | some (.data o) => if o ∈ t.iout then hwData hs e o else 0
       | _ => 0) :=
  portsIn_src h rsize hs e p a k hk hmem

/-! ### timing independence of blocking-IO networks -/

/-- agents = deterministic partial step functions on a global state; if the steps of distinct
    agents commute (and do not disable each other), then for ANY two schedules — i.e. any two
    stall patterns — the history of every channel after one is a prefix of its history after the
    other, or vice versa -/
theorem kahn_determinate {ι σ κ ν : Type} [DecidableEq ι] (S : Kpn.Sys ι σ) (hd : S.Diamond)
    (hist : σ → κ → List ν) (hm : ∀ i s s', S.step i s = some s' → ∀ c, hist s c <+: hist s' c)
    (a b : List ι) (s sa sb : σ) (ha : S.run a s = some sa) (hb : S.run b s = some sb) (c : κ) :
    hist sa c <+: hist sb c ∨ hist sb c <+: hist sa c :=
  Kpn.determinate S hd hist hm a b s sa sb ha hb c

/-- the blocking-IO network of one bond — producer writing `f 0, f 1, …` into a one-place channel
    that empties when all `k` consumers have taken the value (the `received` conjunction) — is
    such a system: every consumer's received stream is the same whatever the schedule -/
theorem bond_channel_determinate (f : Nat → Nat) (k : Nat) (a b : List Kpn.Agent) (sa sb : Kpn.ChanState)
    (ha : (Kpn.chanSys f).run a (Kpn.chanInit k) = some sa) (hb : (Kpn.chanSys f).run b (Kpn.chanInit k) = some sb)
    (c : Nat) : sa.got.getD c [] <+: sb.got.getD c [] ∨ sb.got.getD c [] <+: sa.got.getD c [] :=
  Kpn.determinate (Kpn.chanSys f) (Kpn.chan_diamond f) (fun s c => s.got.getD c []) (Kpn.chan_mono f) a b _ sa sb ha hb c

/-! ### the statement about the two concrete worlds (not proved; tested on every run) -/

def prefixComparable (a b : List (List Nat)) : Prop :=
  a.length = b.length ∧ ∀ k, (a.getD k []) <+: (b.getD k []) ∨ (b.getD k []) <+: (a.getD k [])

/-- hypothesis: along both runs no processor starts a handshake instruction on a port whose
    previous 4-phase cycle is not over (the C04 signature, `Bm.isaHazard` / `Bm.rtlHazard`) -/
def PortReuseSafe (m : Machine) (spec : EnvSpec) : Prop :=
  (∀ n r, runIsa m spec n (Bm.init m, envInit spec m.topo.inputs m.topo.outputs, false) = some r → r.2.2 = false) ∧
  (∀ n, (runRtl m spec n (hwInit m, envInit spec m.topo.inputs m.topo.outputs, false)).2.2 = false)

/-- With the repaired handshake (/repo fix 18c0f8e; the models BMV.Isa / BMV.Rtl follow it) the
    hypothesis is void: an `i2rw` that finds its recv still up, an `r2owa` that finds a stale recv
    or its valid still up, waits.  Holds for EVERY machine, program, environment and horizon.
    (Against the pinned protocol this theorem is false — the check then reports it as broken.) -/
theorem port_reuse_safe_always (m : Machine) (spec : EnvSpec) : PortReuseSafe m spec :=
  ⟨fun n r h => by simpa using runIsa_flag m spec n _ r h, fun n => by simpa using runRtl_flag m spec n _⟩

/-- the machine is one the tools build: well-formed bond graph, one architecture and one program
    per processor with the port counts of the graph -/
def MachineOk (m : Machine) : Prop :=
  WF m.topo ∧ m.archs.length = m.topo.procs.length ∧ m.progs.length = m.topo.procs.length ∧
  ∀ (p : Nat) (a : Arch), m.archs[p]? = some a → m.topo.procs[p]? = some (a.n, a.m)

/-- **C02, full statement**: for every machine, every environment (value streams and stall
    patterns), every pair of horizons: per external output the stream delivered by the simulator
    world and the stream delivered by the hardware world are prefix-comparable. -/
def stream_eq_full : Prop :=
  ∀ (m : Machine) (spec : EnvSpec), MachineOk m → PortReuseSafe m spec →
    ∀ (n k : Nat) (r : BmState × EnvSt × Bool),
      runIsa m spec n (Bm.init m, envInit spec m.topo.inputs m.topo.outputs, false) = some r →
      prefixComparable (envStreams r.2.1)
        (envStreams (runRtl m spec k (hwInit m, envInit spec m.topo.inputs m.topo.outputs, false)).2.1)

/-! ### the proof structure of the full statement: both worlds refine one confluent network

  `Bm.refNet m spec` is the machine as a blocking-IO process network (processors, external inputs
  as writers of their value streams, external outputs as readers; channels = internal outputs,
  reader slots = internal inputs; `i2rw` = blocking read, `r2owa` = blocking write, everything else
  = `Isa.exec`).  It has no timing: a stall pattern is a schedule. -/

/-- the reference semantics of EVERY machine (no well-formedness needed) is timing independent:
    whatever two schedules do, what each reader slot has received after one is a prefix of what it
    has received after the other -/
theorem ref_determinate (m : Machine) (spec : EnvSpec) (a b : List RefAgent) (σa σb : Kpn.NState RefAgent RefLoc)
    (ha : (refNet m spec).sys.run a (refInit m) = some σa) (hb : (refNet m spec).sys.run b (refInit m) = some σb)
    (s : Nat) : σa.got s <+: σb.got s ∨ σb.got s <+: σa.got s :=
  Kpn.determinate (refNet m spec).sys (Kpn.chanNet_diamond _ (refNet_owned m spec)) (fun σ s => σ.got s)
    (Kpn.chanNet_mono _) a b _ σa σb ha hb s

/-- named hypothesis: every finite run of the simulator world delivers what some schedule of the
    reference network delivers -/
def IsaRefines (m : Machine) (spec : EnvSpec) : Prop :=
  ∀ n r, runIsa m spec n (Bm.init m, envInit spec m.topo.inputs m.topo.outputs, false) = some r →
    ∃ sched σ, (refNet m spec).sys.run sched (refInit m) = some σ ∧ refStreams m.topo σ = envStreams r.2.1

/-- named hypothesis: the same for the hardware world -/
def RtlRefines (m : Machine) (spec : EnvSpec) : Prop :=
  ∀ k, ∃ sched σ, (refNet m spec).sys.run sched (refInit m) = some σ ∧
    refStreams m.topo σ = envStreams (runRtl m spec k (hwInit m, envInit spec m.topo.inputs m.topo.outputs, false)).2.1

theorem refStreams_comparable (m : Machine) (spec : EnvSpec) (a b : List RefAgent) (σa σb : Kpn.NState RefAgent RefLoc)
    (ha : (refNet m spec).sys.run a (refInit m) = some σa) (hb : (refNet m spec).sys.run b (refInit m) = some σb) :
    prefixComparable (refStreams m.topo σa) (refStreams m.topo σb) := by
  refine ⟨by simp [refStreams], fun k => ?_⟩
  unfold refStreams
  by_cases hk : k < m.topo.outputs
  · simp only [List.getD_eq_getElem?_getD, List.getElem?_map, List.getElem?_range hk, Option.map_some, Option.getD_some]
    cases slotOf m.topo ⟨1, k, 0⟩ with
    | none => exact Or.inl (List.prefix_refl _)
    | some s => exact ref_determinate m spec a b σa σb ha hb s
  · have hlen : ∀ l : List (List Nat), l.length = m.topo.outputs → l.getD k [] = [] := by
      intro l hl
      rw [List.getD_eq_getElem?_getD, List.getElem?_eq_none (by omega)]; rfl
    rw [hlen _ (by simp), hlen _ (by simp)]
    exact Or.inl (List.prefix_refl _)

/-- **C02, partial**: under the two named refinement hypotheses the delivered streams of the two
    worlds are prefix-comparable on every external output, for every machine, environment (value
    streams and stall patterns) and pair of horizons. -/
theorem stream_eq_partial (m : Machine) (spec : EnvSpec) (hI : IsaRefines m spec) (hR : RtlRefines m spec)
    (n k : Nat) (r : BmState × EnvSt × Bool)
    (hr : runIsa m spec n (Bm.init m, envInit spec m.topo.inputs m.topo.outputs, false) = some r) :
    prefixComparable (envStreams r.2.1)
      (envStreams (runRtl m spec k (hwInit m, envInit spec m.topo.inputs m.topo.outputs, false)).2.1) := by
  obtain ⟨a, σa, ha, ea⟩ := hI n r hr
  obtain ⟨b, σb, hb, eb⟩ := hR k
  rw [← ea, ← eb]
  exact refStreams_comparable m spec a b σa σb ha hb

/-- the full statement follows from the two refinements -/
theorem stream_eq_full_of_refinements
    (h : ∀ m spec, MachineOk m → IsaRefines m spec ∧ RtlRefines m spec) : stream_eq_full :=
  fun m spec hm _ n k r hr => stream_eq_partial m spec (h m spec hm).1 (h m spec hm).2 n k r hr

/-! ### both worlds, bond by bond, are C04's handshake model

  `BMV.Hs` (C04) is the valid/received protocol of ONE bond under an adversarial schedule, proved
  exactly-once and deadlock-free in both worlds.  The theorems below show that a whole machine is
  nothing else, bond by bond: one tick of `Bm.isaStep` (the model of `VM.Step`, with its twelve
  movement loops) and one clock of `Bm.rtlCycle` (the processors composed through the emitted
  netlist), looked at through one processor-to-processor bond, ARE one `Hs.Isa.step` / `Hs.Rtl.step`,
  the schedule being read off the processors' pcs (an agent "wants" the bond in the tick in which the
  instruction it executes is its `r2owa` / `i2rw` on that port; busy otherwise).  This is the
  projection that C04's harness checks dynamically on the real VM and on the emitted Verilog,
  proved for every machine, program and external stimulus. -/

theorem machineOk_wf {m : Machine} (h : MachineOk m) : MachineWF m := ⟨h.1, h.2.1, h.2.2.1, h.2.2.2⟩

/-- `VM.Step` is a synchronous product: every processor takes one `Isa.step` on its own state in
    which only the three port arrays were rewritten — input `k` shows the data/valid registers its
    bond's driver had at the end of the previous tick, output `o` the conjunction of its consumers'
    recv — and the internal arrays agree with the processors again afterwards -/
theorem isa_step_is_product (m : Machine) (hwf : WF m.topo) (s : BmState) (e : EnvIn) (s' : BmState)
    (hs : isaStep m (setEnv s e) = some s') :
    Coherent m.topo s' ∧
    ∀ (p : Nat) v, s.procs[p]? = some v → ∃ a prog v1 v', m.archs[p]? = some a ∧ m.progs[p]? = some prog ∧
      Isa.step a prog v1 = some v' ∧ s'.procs[p]? = some v' ∧ SameButPorts v v1 ∧
      (∀ k i, m.topo.iin[i]? = some ⟨2, p, k⟩ → k < v.inputs.length → k < v.inValid.length →
        v1.inputs[k]? = some ((preIi m.topo (setEnv s e)).iiRegs.getD i 0) ∧
        v1.inValid[k]? = some ((preIi m.topo (setEnv s e)).iiValid.getD i false)) ∧
      (∀ o j, m.topo.iout[j]? = some ⟨3, p, o⟩ → o < v.outRecv.length →
        v1.outRecv[o]? = some (recvOf m.topo.links (preRecvArr m.topo (setEnv s e)) j)) := by
  obtain ⟨hco, _, hget⟩ := isaStep_spec hwf hs
  refine ⟨hco, fun p v hv => ?_⟩
  obtain ⟨a, prog, v1, v', ha, hp, h1, hst, hv'⟩ := hget p v hv
  obtain ⟨v1', h1', hsb, hin, hout⟩ := preMove_proc hwf (setEnv s e) (p := p) (v := v) hv
  rw [h1] at h1'; cases h1'
  exact ⟨a, prog, v1, v', ha, hp, hst, hv', hsb, hin, hout⟩

/-- **simulator world**: one machine tick, seen through a processor-to-processor bond, is one step
    of C04's `Hs.Isa` under the schedule read off the pcs -/
theorem isa_bond_projects (m : Machine) (hm : MachineOk m) (j q o : Nat) (hb : ProcBond m j q o)
    (s : BmState) (e : EnvIn) (s' : BmState) (hok : StateOk m s) (hstep : isaStep m (setEnv s e) = some s')
    (hs : Hs.Isa.St) (hrel : BondRel m j q o s hs) :
    StateOk m s' ∧ BondRel m j q o s' (Hs.Isa.step hs (bondSched m j q o s)) :=
  ⟨step_ok (machineOk_wf hm) hstep hok,
   Bm.isa_bond_projects (machineOk_wf hm) hb hok.len hok.sized hok.coh hstep hrel⟩

/-- … hence every run of the closed loop machine + environment (any value streams, any stall
    pattern) projects onto a run of `Hs.Isa` from its initial state -/
theorem isa_bond_run_projects (m : Machine) (hm : MachineOk m) (j q o : Nat) (hb : ProcBond m j q o)
    (spec : EnvSpec) (n : Nat) (r : BmState × EnvSt × Bool)
    (hr : runIsa m spec n (Bm.init m, envInit spec m.topo.inputs m.topo.outputs, false) = some r) :
    ∃ schs, schs.length = n ∧
      BondRel m j q o r.1 (Hs.Isa.run (Hs.Isa.init (consumerSlots m.topo.links j).length) schs) := by
  obtain ⟨es, hl, hrun⟩ := runIsa_is_runStim m spec n _ r hr
  obtain ⟨schs, hl', _, hrel⟩ := Bm.isa_bond_run_projects (machineOk_wf hm) hb es _ r.1 _ (init_ok m) (init_rel m j q o) hrun
  exact ⟨schs, by rw [hl', hl], hrel⟩

/-- … and inherits C04's invariant, read on the machine's own registers: on every
    processor-to-processor bond, in every reachable state, a consumer's deferred `waitRecvI2rw` is
    pending exactly while its `InputsRecv` is up, and while the producer's `OutputsValid` is low the
    consumers' `InputsRecv` are all up or all down -/
theorem isa_bond_invariant (m : Machine) (hm : MachineOk m) (j q o : Nat) (hb : ProcBond m j q o)
    (es : List EnvIn) (s' : BmState) (hrun : runStim m es (Bm.init m) = some s') :
    (∀ i ∈ consumerSlots m.topo.links j,
      (slotPort m.topo i ∈ (procOf s' (slotProc m.topo i)).deferred ↔
        (procOf s' (slotProc m.topo i)).inRecv.getD (slotPort m.topo i) false = true)) ∧
    ((procOf s' q).outValid.getD o false = false →
      (∀ i ∈ consumerSlots m.topo.links j, (procOf s' (slotProc m.topo i)).inRecv.getD (slotPort m.topo i) false = true) ∨
      (∀ i ∈ consumerSlots m.topo.links j, (procOf s' (slotProc m.topo i)).inRecv.getD (slotPort m.topo i) false = false)) :=
  Bm.isa_bond_invariant (machineOk_wf hm) hb es s' hrun

/-- **hardware world**: one clock of the composition, seen through a processor-to-processor bond, is
    one step of C04's `Hs.Rtl` (machines whose only IO opcodes are the handshake ones) -/
theorem rtl_bond_projects (m : Machine) (hm : MachineOk m) (hho : HandshakeOnly m) (j q o : Nat)
    (hb : RtlProcBond m j q o) (h : HwState) (e : EnvIn) (hok : HwOk m h) (hs : Hs.Rtl.St)
    (hrel : RtlBondRel m j q o h hs) :
    HwOk m (rtlCycle m h e) ∧ RtlBondRel m j q o (rtlCycle m h e) (Hs.Rtl.step hs (rtlBondSched m j q o h)) :=
  ⟨rtlCycle_ok e (machineOk_wf hm) hok, Bm.rtl_bond_projects (machineOk_wf hm) hho hb e hok hrel⟩

theorem rtl_bond_run_projects (m : Machine) (hm : MachineOk m) (hho : HandshakeOnly m) (j q o : Nat)
    (hb : RtlProcBond m j q o) (spec : EnvSpec) (n : Nat) :
    ∃ schs, schs.length = n ∧
      RtlBondRel m j q o (runRtl m spec n (hwInit m, envInit spec m.topo.inputs m.topo.outputs, false)).1
        (Hs.Rtl.run (Hs.Rtl.init (Bond.consumers m.topo j).length) schs) := by
  obtain ⟨es, hl, hrun⟩ := runRtl_is_runHw m spec n (hwInit m, envInit spec m.topo.inputs m.topo.outputs, false)
  obtain ⟨schs, hl', _, hrel⟩ := Bm.rtl_bond_run_projects (machineOk_wf hm) hho hb es _ _ (hwInit_ok m) (hwInit_rel m j q o)
  rw [hrun]
  exact ⟨schs, by rw [hl', hl], hrel⟩

/-! ### non-vacuity -/

/-- i0 → p0i0; p0o0 → p1i0 and → o0 (one internal and one external consumer); p1o0 → o1; p1i1 unbonded -/
def demo : Topo :=
  run Topo.empty [.addInput, .addProcessor 1 1, .addProcessor 2 1, .addOutput, .addOutput,
    .addBond ⟨2, 0, 0⟩ ⟨0, 0, 0⟩, .addBond ⟨3, 0, 0⟩ ⟨2, 1, 0⟩, .addBond ⟨1, 0, 0⟩ ⟨3, 0, 0⟩, .addBond ⟨3, 1, 0⟩ ⟨1, 1, 0⟩]

theorem demo_wf : WF demo := Props.C10.wf_run _

example : sameSet (bonds demo)
    [(⟨0, 0, 0⟩, ⟨2, 0, 0⟩), (⟨3, 0, 0⟩, ⟨2, 1, 0⟩), (⟨3, 0, 0⟩, ⟨1, 0, 0⟩), (⟨3, 1, 0⟩, ⟨1, 1, 0⟩)] = true := by decide

/-- the executable form of `Exact` holds of the model netlist of the demo machine … -/
example : exactB (wire demo 8) demo = true := by decide

/-- … and fails as soon as one connection is wrong (the conjunction reduced to its first
    consumer): `Exact` is not a vacuous predicate -/
example : exactB { wire demo 8 with assigns := (wire demo 8).assigns.map fun a =>
      match a.2 with | .and1 (n :: _) => (a.1, .id n) | _ => a } demo = false := by decide

/-- the fan-out output of the demo machine has the two-consumer conjunction -/
example : (wire demo 8).assignOf (.recv ⟨3, 0, 0⟩) = some (.and1 [.recv ⟨2, 1, 0⟩, .recv ⟨1, 0, 0⟩]) := by decide

/-- the running && on a three-consumer fan-out, one consumer still low -/
example : recvOf [some 1, none, some 1, some 0, some 1] [true, true, true, true, false] 1 = false ∧
          recvOf [some 1, none, some 1, some 0, some 1] [true, false, true, false, true] 1 = true ∧
          recvOf [some 1, none, some 1, some 0, some 1] [true, true, true, true, true] 2 = false := by decide

/-- a schedule of the two-consumer bond network: both consumers get 0 then 1, in order, once -/
example : ((Kpn.chanSys id).run [.producer, .consumer 1, .consumer 0, .producer, .consumer 0, .consumer 1] (Kpn.chanInit 2)).map (·.got)
    = some [[0, 1], [0, 1]] := by decide

/-- … and a consumer cannot take the same value twice, nor the producer overwrite it -/
example : (Kpn.chanSys id).run [.producer, .consumer 0, .consumer 0] (Kpn.chanInit 2) = none ∧
          (Kpn.chanSys id).run [.producer, .consumer 0, .producer] (Kpn.chanInit 2) = none := by decide

/-! a one-processor counter (`inc r0 ; r2owa r0 o0 ; j 0`) bonded to one external output: the
    reference network, the simulator world and the hardware world, all evaluated by the kernel -/

def cntTopo : Topo := run Topo.empty [.addProcessor 0 1, .addOutput, .addBond ⟨3, 0, 0⟩ ⟨1, 0, 0⟩]
def cntArch : Arch := { rsize := 8, r := 1, n := 0, m := 1, l := 0, o := 2, ops := ["inc", "j", "r2owa"] }
def cntMachine : Machine :=
  { topo := cntTopo, archs := [cntArch], progs := [[Bits.ofString01 "0000", Bits.ofString01 "1000", Bits.ofString01 "0100"]] }
/-- the environment acknowledges after 1, 0, 2, 1, 0, 2 … stalls -/
def cntSpec : EnvSpec := { odel := [[1, 0, 2]] }

example : MachineOk cntMachine :=
  ⟨Props.C10.wf_run _, rfl, rfl, fun p a h => by
    cases p with
    | zero => simp [cntMachine] at h; subst h; rfl
    | succ p => simp [cntMachine] at h⟩

set_option maxRecDepth 8000 in
example : refStreams cntTopo (refRun cntMachine cntSpec 7) = [[1, 2]] := by decide

set_option maxRecDepth 8000 in
/-- 24 ticks of the simulator world deliver 1,2,3,4; 24 clocks of the hardware world 1,2,3 -/
example : (runIsa cntMachine cntSpec 24 (Bm.init cntMachine, envInit cntSpec 0 1, false)).map (fun r => envStreams r.2.1)
      = some [[1, 2, 3, 4]] ∧
    envStreams (runRtl cntMachine cntSpec 24 (hwInit cntMachine, envInit cntSpec 0 1, false)).2.1 = [[1, 2, 3]] := by
  decide

/-! a two-stage pipeline (counter → `i2rw r0 i0 ; j 0`) over one processor-to-processor bond: the
    hypotheses of the projection theorems hold of it, and both worlds move the counter's values
    into the consumer's register -/

def pipeTopo : Topo := run Topo.empty [.addProcessor 0 1, .addProcessor 1 0, .addBond ⟨3, 0, 0⟩ ⟨2, 1, 0⟩]
def pipeArch1 : Arch := { rsize := 8, r := 1, n := 1, m := 0, l := 0, o := 1, ops := ["i2rw", "j"] }
def pipeMachine : Machine :=
  { topo := pipeTopo, archs := [cntArch, pipeArch1],
    progs := [[Bits.ofString01 "0000", Bits.ofString01 "1000", Bits.ofString01 "0100"],
              [Bits.ofString01 "000", Bits.ofString01 "100"]] }

example : MachineOk pipeMachine :=
  ⟨Props.C10.wf_run _, rfl, rfl, fun p a h => by
    match p with
    | 0 => simp [pipeMachine] at h; subst h; rfl
    | 1 => simp [pipeMachine] at h; subst h; rfl
    | p + 2 => simp [pipeMachine] at h⟩

example : ProcBond pipeMachine 0 0 0 :=
  ⟨by decide, fun i hi => by
    have : i = 0 := by
      have h : consumerSlots pipeMachine.topo.links 0 = [0] := by decide
      rw [h] at hi; simpa using hi
    subst this
    exact ⟨1, 0, by decide⟩⟩

example : RtlProcBond pipeMachine 0 0 0 :=
  ⟨by decide, fun b hb => by
    have h : Bond.consumers pipeMachine.topo 0 = [⟨2, 1, 0⟩] := by decide
    rw [h] at hb
    simp only [List.mem_singleton] at hb
    subst hb; rfl⟩

example : HandshakeOnly pipeMachine := fun p a h => by
  match p with
  | 0 => simp [pipeMachine] at h; subst h; decide
  | 1 => simp [pipeMachine] at h; subst h; decide
  | p + 2 => simp [pipeMachine] at h

set_option maxRecDepth 8000 in
/-- after 14 ticks / clocks the consumer's r0 holds the third / second value of the counter -/
example : (runIsa pipeMachine {} 14 (Bm.init pipeMachine, envInit {} 0 0, false)).map (fun r => r.1.procs.map (·.regs))
      = some [[3, 0], [3, 0]] ∧
    (runRtl pipeMachine {} 14 (hwInit pipeMachine, envInit {} 0 0, false)).1.procs.map (·.regs) = [[3, 0], [2, 0]] := by
  decide

end BMV.Props.C02
