/-
  C08 — a numeric literal has one meaning, and printing then parsing returns it.

  Part 1 (ambiguity, full strength, over the REGENERATED table BMV.Gen.matchers):
    the verified decision procedure `verdict` is sound in both directions it can answer, and it
    answers `.disjoint` for every pair of this run's matcher table — checked by the kernel
    (`decide +kernel`, no native_decide) each time the table is regenerated.
  Part 2 (round trip, per integer-like type, over the hand-written model BMV.Numbers): see below.
-/
import BMV.Proofs.Regex
import BMV.Proofs.Numbers
import BMV.Gen.Matchers

namespace BMV.Props.C08
open BMV.Regex BMV.Regex.Regex BMV.Gen

/-! ## Part 1 — at most one notation claims any string -/

/-- soundness of the decision procedure: `.disjoint` means no common word at all -/
theorem disjoint_sound (r₁ r₂ : Regex) (h : verdict r₁ r₂ = .disjoint) :
    ∀ s : List Nat, ¬ (matchStr r₁ s = true ∧ matchStr r₂ s = true) :=
  fun s => verdictFuel_disjoint_sound h s

/-- an overlap verdict carries a real common word -/
theorem disjoint_witness (r₁ r₂ : Regex) (w : List Nat) (h : verdict r₁ r₂ = .overlap w) :
    matchStr r₁ w = true ∧ matchStr r₂ w = true :=
  verdictFuel_overlap_witness h

/-- derivative by a code point = derivative by the representative of its character class -/
theorem class_rep (rs : List (Nat × Nat)) (r : Regex) (h : ∀ p ∈ atomRanges r, p ∈ rs) (c : Nat) :
    deriv c r = deriv (repOf (bounds rs) c) r :=
  BMV.Regex.class_rep rs r h c

/-- the regenerated obligation: every pair of this run's matcher table is decided disjoint
    (finite check over the whole table, by kernel evaluation) -/
theorem matchers_table_disjoint : allPairsDisjoint matchers = true := by decide +kernel

/-- **matchers_disjoint**: two different matchers of the table never accept the same string -/
theorem matchers_disjoint (i j : Nat) (hi : i < matchers.length) (hj : j < matchers.length)
    (hij : i ≠ j) (s : List Nat) : ¬ (matchStr matchers[i] s = true ∧ matchStr matchers[j] s = true) := by
  rcases Nat.lt_or_gt_of_ne hij with h | h
  · exact allPairsDisjoint_sound matchers_table_disjoint i j hi hj h s
  · intro ⟨a, b⟩
    exact allPairsDisjoint_sound matchers_table_disjoint j i hj hi h s ⟨b, a⟩

/-- **the property's first clause**: for every string, at most one matcher accepts it -/
theorem literal_has_one_meaning (s : List Nat) :
    (matchers.filter (fun r => matchStr r s)).length ≤ 1 :=
  accepting_le_one matchers_table_disjoint s

/-! the historic defect (before fix 2553f67 the dot of `^0u([0-9]+).0+$` was unescaped):
    the decision procedure finds the overlap and its witness "0u000"; "0u100" is a common word too -/

def digitR : Regex := .cls false [(48, 57)]
def oldPlainU : Regex := seq [chr 48, chr 117, plus digitR]
def oldDotU : Regex := seq [chr 48, chr 117, plus digitR, any, plus (chr 48)]
def newDotU : Regex := seq [chr 48, chr 117, plus digitR, chr 46, plus (chr 48)]

theorem historic_overlap_found : verdict oldPlainU oldDotU = .overlap (ofString "0u000") := by
  decide +kernel

theorem historic_overlap_0u100 :
    matchStr oldPlainU (ofString "0u100") = true ∧ matchStr oldDotU (ofString "0u100") = true := by
  decide +kernel

theorem historic_overlap_repaired : verdict oldPlainU newDotU = .disjoint := by decide +kernel

/-! non-vacuity (kept independent of the table's content, which is regenerated): the table has at
    least two entries, the languages involved are not empty, and `.disjoint` is not the procedure's
    only answer -/
example : 2 ≤ matchers.length := by decide
example : matchStr newDotU (ofString "0u1.00") = true := by decide +kernel
example : matchStr newDotU (ofString "0u100") = false := by decide +kernel
example : matchStr oldPlainU (ofString "0u100") = true := by decide +kernel
example : ∃ w, verdict oldPlainU oldDotU = .overlap w := ⟨_, historic_overlap_found⟩

/-! ## Part 2 — printing then parsing returns the value (integer-like types, model BMV.Numbers)

  `exportString` / `importString` model `BMNumber.ExportString(nil)` / `ImportString` of the unchanged
  code.  Equality is exact (`= some v`) where the implementation rebuilds the same byte slice, and
  `BMNumber.same` (value, bits, type) for `hex`, whose sized importer allocates `bits` bytes.
  Float16/32, fixed point, FXP, FloPoCo and the linear quantiser have NO theorem here (they go through
  strconv / float64 arithmetic): their round trip is searched on the Go side on every run and is an
  assumption of this property's evidence. -/
open BMV.Numbers

/-- bin: every well-formed value (any width ≥ 1) is returned exactly -/
theorem import_export_bin (v : BMNumber) (h : WFBin v) :
    (exportString v).bind importString = some v := roundtrip_bin v h

/-- hex: every well-formed value (width a positive multiple of 8) is returned with the same value,
    width and type -/
theorem import_export_hex (v : BMNumber) (h : WFHex v) :
    ∃ v', (exportString v).bind importString = some v' ∧ v'.same v := roundtrip_hex v h

/-- unsigned, 64 bits (what the un-sized notations `123`, `0u123`, `0d123`, `0u123.0` produce) -/
theorem import_export_unsigned64 (v : BMNumber) (h : WFU64 v) :
    (exportString v).bind importString = some v := roundtrip_unsigned64 v h

/-- signed — for the PROPOSED REPAIR of `Signed.ExportString` (repo_patches/C08-signed-export.diff),
    not for the unchanged code (see `signed_export_unimplemented`) -/
theorem import_export_signed_repaired (v : BMNumber) (h : WFS64 v) :
    (exportStringSpec v).bind importString = some v := roundtrip_signed_spec v h

/-- the full statement over all four integer-like types, kept visible … -/
def WFVal (v : BMNumber) : Prop :=
  match v.ty with
  | .bin => WFBin v
  | .hex => WFHex v
  | .signed => WFS64 v
  | .unsigned => bytesOK v.bytes ∧ 1 ≤ v.bits ∧ v.bits ≤ 64 ∧ v.bytes.length = (v.bits + 7) / 8 ∧
      valOf v.bytes < 2 ^ v.bits

def import_export_full : Prop :=
  ∀ v, WFVal v → ∃ v', (exportString v).bind importString = some v' ∧ v'.same v

/-- … and it is FALSE for the unchanged code (these are the two reported findings):
    a signed value cannot be exported at all … -/
theorem signed_export_unimplemented (v : BMNumber) (h : v.ty = .signed) : exportString v = none := by
  simp [exportString, h]

/-- … and the text of an unsigned value carries no width, so every re-import has 64 bits -/
theorem unsigned_reimport_is_64 (v : BMNumber) (hty : v.ty = .unsigned) (ok : bytesOK v.bytes)
    (len : v.bytes.length ≤ 8) :
    (exportString v).bind importString = some ⟨toBytesLE 8 (valOf v.bytes), 64, .unsigned⟩ :=
  BMV.Numbers.unsigned_reimport_is_64 v hty ok len

theorem import_export_full_fails : ¬ import_export_full := by
  intro h
  -- the 8-bit value 255, written `0u<8>255`
  have hwf : WFVal ⟨[255], 8, .unsigned⟩ := by
    show bytesOK [255] ∧ 1 ≤ 8 ∧ 8 ≤ 64 ∧ [255].length = (8 + 7) / 8 ∧ valOf [255] < 2 ^ 8
    refine ⟨by intro b hb; simp at hb; omega, by decide, by decide, by decide, by decide⟩
  obtain ⟨v', h1, h2⟩ := h _ hwf
  rw [unsigned_reimport_is_64 _ rfl (by intro b hb; simp at hb; omega) (by decide)] at h1
  cases h1
  exact absurd h2.2.1 (by decide)

/-! ### the other import entry points: `ImportUint` (all four Go widths), `ImportBytes`, `ExportUint64` -/

/-- `ImportUint` lays the value out faithfully: without a positive width option the bytes denote the
    value … -/
theorem importUint_value (w v : Nat) (optBits : Int) (hob : optBits ≤ 0) (hv : v < 2 ^ w) (hw : w % 8 = 0) :
    valOf (importUint w v optBits).bytes = v := valOf_importUint hob hv hw

/-- … with a positive width `n` (repaired behaviour, repo_patches/C08-importuint-width.diff) the number
    holds exactly `n` bits: the value reduced mod 2^n, in ⌈n/8⌉ bytes, width field `n` — so no exporter
    can index past the slice or print more digits than the width -/
theorem importUint_value_override (w v : Nat) (optBits : Int) (h : 0 < optBits) :
    valOf (importUint w v optBits).bytes = v % 2 ^ optBits.toNat ∧
    (importUint w v optBits).bytes.length = (optBits.toNat + 7) / 8 ∧
    (importUint w v optBits).bits = optBits.toNat := valOf_importUint_override w v h

/-- … `ExportUint64` returns it … -/
theorem exportUint64_importUint (w v : Nat) (optBits : Int) (hob : optBits ≤ 0) (hv : v < 2 ^ w)
    (hw : w % 8 = 0) (h64 : w ≤ 64) : exportUint64 (importUint w v optBits) = some v :=
  BMV.Numbers.exportUint64_importUint hob hv hw h64

/-- … a `uint64` round-trips exactly through the text form … -/
theorem import_export_importUint64 (v : Nat) (hv : v < 2 ^ 64) :
    (exportString (importUint 64 v 0)).bind importString = some (importUint 64 v 0) :=
  roundtrip_unsigned64 _ (importUint64_wf hv)

/-- … and a `uint8/16/32` comes back with the same value but 64 bits
    (the listed finding `C08-unsigned-sized-width-lost`) -/
theorem import_export_importUint_value (w v : Nat) (optBits : Int) (hob : optBits ≤ 0) (hv : v < 2 ^ w)
    (hw : w % 8 = 0) (h64 : w ≤ 64) :
    (exportString (importUint w v optBits)).bind importString = some ⟨toBytesLE 8 v, 64, .unsigned⟩ :=
  importUint_reimport hob hv hw h64

/-- the width field: `optionalBits` overrides only when positive; 0 and the negative 'any size'
    sentinel (`GetSize() = -1` of unsigned / signed / hex / bin, which the simulator's show path passes)
    keep the native width of the Go value -/
theorem importUint_bits_sentinel (w v : Nat) (optBits : Int) (h : optBits ≤ 0) :
    (importUint w v optBits).bits = w := BMV.Numbers.importUint_bits_sentinel w v optBits h

theorem importUint_bits_override (w v : Nat) (optBits : Int) (h : 0 < optBits) :
    (importUint w v optBits).bits = optBits.toNat := BMV.Numbers.importUint_bits_override w v optBits h

/-- the simulator's show path `ImportUint(v, t.GetSize())` + `CastType(t)` + `ExportString` for the
    any-size types bin and hex: the text round-trips (value, width, type) -/
theorem import_export_show_bin (w v : Nat) (hv : v < 2 ^ w) (hw : w % 8 = 0) (hpos : 8 ≤ w) (h64 : w ≤ 64) :
    (exportString (castType (importUint w v (-1)) .bin)).bind importString
      = some (castType (importUint w v (-1)) .bin) :=
  roundtrip_bin _ (show_bin_wf hv hw hpos h64)

theorem import_export_show_hex (w v : Nat) (hv : v < 2 ^ w) (hw : w % 8 = 0) (hpos : 8 ≤ w) (h64 : w ≤ 64) :
    ∃ v', (exportString (castType (importUint w v (-1)) .hex)).bind importString = some v' ∧
      v'.same (castType (importUint w v (-1)) .hex) :=
  roundtrip_hex _ (show_hex_wf hv hw hpos h64)

/-! ### the export option `OmitPrefix` (the only field of `BMNumberConfig`; `bmnumbers -omit-prefix`) -/

/-- dropping the prefix of `prefix ++ rest` returns `rest` (for a `rest` without the prefix letter) -/
theorem omitPrefix_prefix (t : NType) (rest : List Nat) (h : ∀ c ∈ rest, c ≠ prefixLetter t) :
    omitPrefix t (showPrefix t ++ rest) = rest := BMV.Numbers.omitPrefix_prefix t rest h

/-- bin / hex: putting the prefix back in front of the `OmitPrefix` text gives the full text again,
    so the round trips `import_export_bin` / `import_export_hex` carry over to the option -/
theorem omit_prefix_readd_bin (v : BMNumber) (h : v.ty = .bin) :
    (exportStringOmit v).map (showPrefix .bin ++ ·) = exportString v := omit_readd_bin v h

theorem omit_prefix_readd_hex (v : BMNumber) (h : v.ty = .hex) :
    (exportStringOmit v).map (showPrefix .hex ++ ·) = exportString v := omit_readd_hex v h

/-- unsigned: the text has no prefix, the option changes nothing, and `0u` ++ text imports the same -/
theorem omit_prefix_unsigned (v : BMNumber) (h : v.ty = .unsigned) : exportStringOmit v = exportString v :=
  omit_unsigned v h

theorem omit_prefix_readd_unsigned (n : Nat) :
    importString (showPrefix .unsigned ++ digits 10 n) = importString (digits 10 n) :=
  import_readd_unsigned n

/-! ### widths -/

/-- `ExportBinaryNBits(n)` returns exactly `n` digits whenever it succeeds … -/
theorem exportBinaryNBits_width (v : BMNumber) (n : Nat) (s : List Nat)
    (h : exportBinaryNBits v n = some s) : s.length = n := exportBinaryNBits_length h

/-- … and it fails exactly when the value needs more than `n` binary digits -/
theorem exportBinaryNBits_fails_iff (v : BMNumber) (n : Nat) :
    exportBinaryNBits v n = none ↔ n < (binRaw v).length := exportBinaryNBits_none_iff v n

/-- `ExportVerilogBinary` prints exactly `bits` digits for a value that fits its width -/
theorem exportVerilogBinary_width (v : BMNumber) (hpos : 1 ≤ v.bits) (hfit : valOf v.bytes < 2 ^ v.bits) :
    (verilogDigits v).length = v.bits := verilogDigits_length hpos hfit

/-- the digits printed by the binary exports denote the value -/
theorem exportBinary_value (v : BMNumber) : ofDigits 2 (exportBinary false v) = valOf v.bytes := by
  simpa [exportBinary] using binRaw_value v

/-- sized notations give exactly the stated width (and, for `0u<n>`/`0d<n>`, a value that fits it) -/
theorem sized_unsigned_width (sz ds : List Nat) (v : BMNumber)
    (h : importLit (.unsignedSized sz ds) = some v) :
    atoi sz = some v.bits ∧ 1 ≤ v.bits ∧ v.bits ≤ 64 ∧ valOf v.bytes < 2 ^ v.bits := unsignedSized_bits h

theorem sized_bin_width (sz ds : List Nat) (v : BMNumber) (h : importLit (.binSized sz ds) = some v) :
    atoi sz = some v.bits := binSized_bits h

theorem sized_hex_width (sz ds : List Nat) (v : BMNumber) (h : importLit (.hexSized sz ds) = some v) :
    atoi sz = some v.bits := hexSized_bits h

/-! non-vacuity: concrete well-formed values of every type, and concrete runs of the model -/
example : WFBin ⟨[5], 5, .bin⟩ :=
  ⟨rfl, by intro b hb; simp at hb; omega, by decide, by decide, by decide, by decide⟩
example : WFHex ⟨[1, 9], 16, .hex⟩ :=
  ⟨rfl, by intro b hb; simp at hb; omega, by decide, by decide, by decide, by decide⟩
example : WFU64 ⟨[56, 0, 0, 0, 0, 0, 0, 0], 64, .unsigned⟩ :=
  ⟨rfl, by intro b hb; simp at hb; omega, rfl, rfl⟩
example : WFS64 ⟨[255, 255, 255, 255, 255, 255, 255, 255], 64, .signed⟩ :=
  ⟨rfl, by intro b hb; simp at hb; omega, rfl, rfl⟩
example : importUint 64 0x0102030405060708 0 = ⟨[8, 7, 6, 5, 4, 3, 2, 1], 64, .unsigned⟩ := by decide +kernel
example : exportString (importUint 64 0x10000000000 0) = some (ofString "1099511627776") := by decide +kernel
example : exportUint64 (importUint 16 0xBEEF 0) = some 0xBEEF := by decide +kernel
example : exportString (castType (importUint 16 0x2a5 (-1)) .hex) = some (ofString "0x<16>2a5") := by decide +kernel
example : exportVerilogBinary (castType (importUint 16 0x2a5 (-1)) .bin) = ofString "16'b0000001010100101" := by
  decide +kernel
example : exportStringOmit ⟨[5], 5, .bin⟩ = some (ofString "<5>101") := by
  simp [exportStringOmit, exportString, exportBinary, binRaw, omitPrefix, prefixLetter, removeAll2, digits,
    digitsAux, digitChar, valOf, ofString]
example : importBytes [1, 2] 16 = ⟨[2, 1], 16, .unsigned⟩ := by decide +kernel
example : importString (ofString "0b<5>101") = some ⟨[5], 5, .bin⟩ := by decide +kernel
example : exportString ⟨[5], 5, .bin⟩ = some (ofString "0b<5>101") := by decide +kernel
example : importString (ofString "0x901") = some ⟨[1, 9], 16, .hex⟩ := by decide +kernel
example : exportString ⟨[1, 9], 16, .hex⟩ = some (ofString "0x<16>901") := by decide +kernel
example : importString (ofString "0u<8>255") = some ⟨[255], 8, .unsigned⟩ := by decide +kernel
example : importString (ofString "0u<8>256") = none := by decide +kernel
example : exportStringSpec ⟨[255, 255, 255, 255, 255, 255, 255, 255], 64, .signed⟩ = some (ofString "0s-1") := by
  decide +kernel
example : exportStringSpec ⟨[255], 8, .signed⟩ = some (ofString "0s-1") := by decide +kernel
example : exportStringSpec ⟨[127], 8, .signed⟩ = some (ofString "0s127") := by decide +kernel
example : importUint 8 0xAB 32 = ⟨[0xAB, 0, 0, 0], 32, .unsigned⟩ := by decide +kernel
example : importUint 64 0x0102030405060708 12 = ⟨[8, 7], 12, .unsigned⟩ := by decide +kernel
example : exportBinaryNBits ⟨[5], 5, .bin⟩ 8 = some (ofString "00000101") := by decide +kernel
example : exportBinaryNBits ⟨[5], 5, .bin⟩ 2 = none := by decide +kernel
example : exportVerilogBinary ⟨[5], 5, .bin⟩ = ofString "5'b00101" := by decide +kernel

end BMV.Props.C08
