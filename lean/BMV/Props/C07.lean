/-
  C07 — Every build step is a function of its inputs.   (claimed PARTIAL, see below)

  Statement (properties.jsonl): running basm, bondgo, neuralbond, bmqsim→basm or
  `bondmachine -create-verilog` twice on the same inputs yields byte-identical artefacts, in
  every process and on every run; no output depends on hash-map iteration order, goroutine
  timing or the clock.
      ∀ tool T, ∀ inputs x, ∀ runs r₁ r₂ (fresh processes, varied GOMAXPROCS) : T(x)@r₁ = T(x)@r₂

  What a theorem can say.  The Go runtime's per-process map randomisation cannot be quantified
  over; it is made an explicit parameter: every modelled map walk takes the iteration order `π`
  (a `List.Perm` of the map's entries) as an argument and the theorem is
  `∀ π₁ π₂, π₁ ~ entries → π₂ ~ entries → f π₁ = f π₂`.  Models: BMV/Sched.lean (each cites the
  Go file:function it stands for); lemmas: BMV/Proofs/Sched.lean.

  Tie to the current source (checked by the kernel on every run): `BMV.Gen.MapRanges` is
  regenerated from /repo by a go/ast + go/types extractor (every `range` over a map, every use of
  the clock / math/rand / temp paths, every `go` statement in the packages of the five tools) and
  `sites_classified_partial` demands that every site is classified, with the same syntactic
  class, in the hand-written table `BMV.Sched.Expect.rows`.

  PARTIAL because (1) whether a given Go loop satisfies the hypotheses of the theorem its row
  cites (frame condition, distinct keys, state-independent failure) is read from the code by a
  human, not proved about Go text; (2) rows with verdict `.unproved` / `.finding` are sites with
  no theorem: for them the property rests on repeated fresh-process runs (tools/props/c07.py).
  The full statement is `C07_full`; it is false on today's table and is kept visible.
-/
import BMV.Proofs.Sched
import BMV.SchedExpect
import BMV.Gen.MapRanges
namespace BMV.Props.C07
open BMV.Sched BMV.Sched.Expect List

/-! ## first match (ImportString, SetActive, main-function lookup) -/

/-- "first entry that satisfies p" does not depend on the iteration order when all entries that
    satisfy p agree on the result (in particular when at most one does) -/
theorem first_match_det {α β : Type} (p : α → Bool) (g : α → β) (tbl : List α)
    (uniq : ∀ a ∈ tbl, ∀ b ∈ tbl, p a = true → p b = true → g a = g b)
    {π₁ π₂ : List α} (h₁ : π₁ ~ tbl) (h₂ : π₂ ~ tbl) :
    firstMatch p g π₁ = firstMatch p g π₂ :=
  first_match_unique (h₁.trans h₂.symm) (fun a ha b hb => uniq a (h₁.subset ha) b (h₁.subset hb))

/-- pkg/bmnumbers/import.go:ImportString is independent of the order in which Go walks
    `AllMatchers` **iff** any two matchers that accept the input import it to the same value -/
theorem importString_det {K I R : Type} [DecidableEq K] (acc : K → I → Bool) (imp : K → I → R)
    (tbl : List K) (x : I) :
    (∀ π₁ π₂, π₁ ~ tbl → π₂ ~ tbl → importString acc imp π₁ x = importString acc imp π₂ x) ↔
    (∀ k₁ ∈ tbl, ∀ k₂ ∈ tbl, acc k₁ x = true → acc k₂ x = true → imp k₁ x = imp k₂ x) := by
  constructor
  · intro det k₁ h₁ k₂ h₂ a₁ a₂
    have e := det (k₁ :: tbl.erase k₁) (k₂ :: tbl.erase k₂) (perm_cons_erase h₁).symm (perm_cons_erase h₂).symm
    simpa [importString, firstMatch, a₁, a₂] using e
  · intro agree π₁ π₂ h₁ h₂
    exact first_match_det _ _ tbl agree h₁ h₂

/-- with C08's theorem as hypothesis (the matchers are pairwise disjoint: no string is accepted
    by two different regexes of the table) ImportString is a function of its input -/
theorem importString_det_of_disjoint {K I R : Type} [DecidableEq K] (acc : K → I → Bool) (imp : K → I → R)
    (tbl : List K) (x : I)
    (disjoint : ∀ k₁ ∈ tbl, ∀ k₂ ∈ tbl, k₁ ≠ k₂ → ¬(acc k₁ x = true ∧ acc k₂ x = true))
    {π₁ π₂ : List K} (h₁ : π₁ ~ tbl) (h₂ : π₂ ~ tbl) :
    importString acc imp π₁ x = importString acc imp π₂ x := by
  apply (importString_det acc imp tbl x).mpr _ π₁ π₂ h₁ h₂
  intro k₁ m₁ k₂ m₂ a₁ a₂
  by_cases e : k₁ = k₂
  · rw [e]
  · exact absurd ⟨a₁, a₂⟩ (disjoint k₁ m₁ k₂ m₂ e)

/-- converse witness: two matchers of the table that accept the same input and import it
    differently make the result depend on the iteration order (this is what `0u100` did before
    commit 2553f67: `^0u([0-9]+)$` gave 100, `^0u([0-9]+).0+$` gave 1) -/
theorem importString_order_sensitive {K I R : Type} [DecidableEq K] (acc : K → I → Bool) (imp : K → I → R)
    (tbl : List K) (x : I) (k₁ k₂ : K) (m₁ : k₁ ∈ tbl) (m₂ : k₂ ∈ tbl)
    (a₁ : acc k₁ x = true) (a₂ : acc k₂ x = true) (ne : imp k₁ x ≠ imp k₂ x) :
    ∃ π₁ π₂, π₁ ~ tbl ∧ π₂ ~ tbl ∧ importString acc imp π₁ x ≠ importString acc imp π₂ x := by
  refine ⟨k₁ :: tbl.erase k₁, k₂ :: tbl.erase k₂, (perm_cons_erase m₁).symm, (perm_cons_erase m₂).symm, ?_⟩
  simpa [importString, firstMatch, a₁, a₂] using ne

/-- non-vacuity: a two-entry table on which the hypotheses of both directions are met -/
example : ∃ π₁ π₂ : List Nat, π₁ ~ [0, 1] ∧ π₂ ~ [0, 1] ∧
    importString (fun k (x : String) => decide (k ≤ 1) && x == "0u100") (fun k _ => if k = 0 then 100 else 1) π₁ "0u100"
    ≠ importString (fun k (x : String) => decide (k ≤ 1) && x == "0u100") (fun k _ => if k = 0 then 100 else 1) π₂ "0u100" :=
  importString_order_sensitive _ _ [0, 1] "0u100" 0 1 (by simp) (by simp) (by decide) (by decide) (by decide)

example : importString (fun k (x : String) => decide (k = 0) && x == "0u100") (fun k _ => if k = 0 then 100 else 1) [1, 0] "0u100"
    = importString (fun k (x : String) => decide (k = 0) && x == "0u100") (fun k _ => if k = 0 then 100 else 1) [0, 1] "0u100" :=
  importString_det_of_disjoint _ _ [0, 1] "0u100" (by intro k₁ _ k₂ _ ne h; simp at h; omega)
    (Perm.swap 0 1 []) (Perm.refl _)

/-! ## framed walks (passes over sections / fragments / macros) -/

private theorem foldl_set_outside {K V : Type} [DecidableEq K] {P : Type} (key : P → K) (val : P → V)
    (l : List P) (t : Store K V) (c : K) (h : ∀ p ∈ l, key p ≠ c) :
    (l.foldl (fun t p => t.set (key p) (val p)) t) c = t c := by
  induction l generalizing t with
  | nil => rfl
  | cons p l ih =>
    simp only [foldl_cons]
    rw [ih _ (fun q hq => h q (mem_cons_of_mem _ hq))]
    have : c ≠ key p := fun e => h p mem_cons_self e.symm
    simp [Store.set, this]

private theorem foldl_set_inside {K V : Type} [DecidableEq K] {P : Type} (key : P → K) (val : P → V)
    (l : List P) (s t : Store K V) (c : K) (h : s c = t c) :
    (l.foldl (fun t p => t.set (key p) (val p)) s) c = (l.foldl (fun t p => t.set (key p) (val p)) t) c := by
  induction l generalizing s t with
  | nil => exact h
  | cons p l ih =>
    simp only [foldl_cons]
    apply ih
    simp [Store.set, h]

private theorem tag_frame (s : Sect) :
    FrameStep (fun c : SymKey => decide (c.1 = s.kind ∧ c.2.1 = s.name)) s.tag := by
  constructor
  · intro t c hc
    simp only [decide_eq_false_iff_not] at hc
    unfold Sect.tag
    split
    · apply foldl_set_outside (fun p : String × Nat => ((s.kind, s.name, p.1) : SymKey)) (fun p => some p.2)
      intro p _ e
      apply hc
      rw [← e]; exact ⟨rfl, rfl⟩
    · rfl
  · intro t u htu c hc
    unfold Sect.tag
    split
    · exact foldl_set_inside (fun p : String × Nat => ((s.kind, s.name, p.1) : SymKey)) (fun p => some p.2) _ t u c (htu c hc)
    · exact htu c hc

/-- pkg/basm/symboltagger.go:symbolTagger — the symbol table it builds (or the duplicate-symbol
    error) does not depend on the order in which Go walks `bi.sections` / `bi.fragments`: each
    iteration writes only keys prefixed by the ranged key, and its error test is local to the
    ranged container.  Hypothesis: the containers are the entries of Go maps (distinct names
    per kind). -/
theorem symbolTagger_det (secs : List Sect) (hn : (secs.map (fun s => (s.kind, s.name))).Nodup)
    {π₁ π₂ : List Sect} (h₁ : π₁ ~ secs) (h₂ : π₂ ~ secs) (t : SymTab) :
    symbolTagger π₁ t = symbolTagger π₂ t := by
  unfold symbolTagger
  refine framed_walkE_det (fun (s : Sect) (c : SymKey) => decide (c.1 = s.kind ∧ c.2.1 = s.name))
    (fun s t => s.tag t) Sect.hasDup tag_frame secs ?_ h₁ h₂ t
  rw [Nodup, pairwise_map] at hn
  refine hn.imp ?_
  intro a b hab c hc
  simp only [decide_eq_true_eq] at hc
  apply hab
  rw [← hc.1.1, ← hc.1.2, ← hc.2.1, ← hc.2.2]

/-- and the error is reported exactly when some container has a duplicate label, whatever the order -/
theorem symbolTagger_error_iff (π : List Sect) (t : SymTab) :
    symbolTagger π t = none ↔ ∃ s ∈ π, s.hasDup = true :=
  walkE_eq_none_iff π t

/-- passes that range over `bi.sections` / `bi.fragments` / `bi.macros`, rewrite only the ranged
    element from its own content and may fail on it: the resulting table (or the failure) does
    not depend on the iteration order -/
theorem sections_walk_det {B : Type} (fails : String → B → Bool) (rewrite : String → B → B)
    (names : List String) (hn : names.Nodup) {π₁ π₂ : List String} (h₁ : π₁ ~ names) (h₂ : π₂ ~ names)
    (secs : Store String B) :
    sectionsWalk fails rewrite π₁ secs = sectionsWalk fails rewrite π₂ secs := by
  unfold sectionsWalk
  refine framed_walkE_det (fun (n : String) (c : String) => decide (c = n))
    (fun n st => st.set n (rewrite n (st n))) _ (fun n => frame_set_own n (rewrite n)) names ?_ h₁ h₂ secs
  refine (show names.Pairwise (· ≠ ·) from hn).imp ?_
  intro a b hab c hc
  simp only [decide_eq_true_eq] at hc
  exact hab (hc.1.symm.trans hc.2)

/-- the general form (DESIGN 5.4 `par_step_frame`): any walk whose iterations are framed on
    pairwise disjoint footprints -/
theorem framed_walk_perm {E K V : Type} (fp : E → K → Bool) (stepf : E → Store K V → Store K V)
    (fails : E → Bool) (hframe : ∀ e, FrameStep (fp e) (stepf e)) (l : List E)
    (hdisj : l.Pairwise (fun a b => ∀ c, ¬(fp a c = true ∧ fp b c = true)))
    {π₁ π₂ : List E} (h₁ : π₁ ~ l) (h₂ : π₂ ~ l) (s : Store K V) :
    walkE fails (fun s e => stepf e s) s π₁ = walkE fails (fun s e => stepf e s) s π₂ :=
  framed_walkE_det fp stepf fails hframe l hdisj h₁ h₂ s

/-- copying the entries of a map (distinct keys) into another map: `for k, v := range m { d[k] = v }` -/
theorem keyed_copy_det {K V : Type} [DecidableEq K] (entries : List (K × V)) (hk : (entries.map (·.1)).Nodup)
    {π₁ π₂ : List (K × V)} (h₁ : π₁ ~ entries) (h₂ : π₂ ~ entries) (d : Store K V) :
    walk (fun d e => d.set e.1 e.2) d π₁ = walk (fun d e => d.set e.1 e.2) d π₂ := by
  refine framed_walk_det (fun (e : K × V) (c : K) => decide (c = e.1)) (fun e d => d.set e.1 e.2)
    (fun e => frame_set_own e.1 (fun _ => e.2)) entries ?_ h₁ h₂ d
  rw [Nodup, pairwise_map] at hk
  refine hk.imp ?_
  intro a b hab c hc
  simp only [decide_eq_true_eq] at hc
  exact hab (hc.1.symm.trans hc.2)

/-- inserting the walked entries into a set (`usedIDs[id] = true`, `Requirement{Op: OpAdd}`) -/
theorem set_insert_det {π₁ π₂ : List String} (h : π₁ ~ π₂) (s : Store String Bool) :
    walk reqInsert s π₁ = walk reqInsert s π₂ :=
  foldl_perm_of_comm (fun z x y => Store.set_idem_comm z x y true) h s

/-- asking whether some / every entry has a property -/
theorem membership_det {α : Type} (p : α → Bool) {π₁ π₂ : List α} (h : π₁ ~ π₂) :
    π₁.any p = π₂.any p ∧ π₁.all p = π₂.all p := by
  constructor
  · rw [Bool.eq_iff_iff]; simp only [any_eq_true]
    exact ⟨fun ⟨x, hx, hp⟩ => ⟨x, h.subset hx, hp⟩, fun ⟨x, hx, hp⟩ => ⟨x, h.symm.subset hx, hp⟩⟩
  · rw [Bool.eq_iff_iff]; simp only [all_eq_true]
    exact ⟨fun H x hx => H x (h.symm.subset hx), fun H x hx => H x (h.subset hx)⟩

/-! ## sorted-before-use -/

/-- pkg/basm/creatorbm.go:CreateConnectingProcessor — the opcode numbering (position in the
    sorted list) does not depend on the order in which the requirement set was walked -/
theorem opcodes_sorted_det {le : String → String → Bool} (ho : TotalOrder le) {π₁ π₂ : List String}
    (h : π₁ ~ π₂) : opcodeNumbering le π₁ = opcodeNumbering le π₂ :=
  sort_perm ho h

/-- the generic fact behind every `.sortedAfter` row -/
theorem sorted_after_det {α : Type} {le : α → α → Bool} (ho : TotalOrder le) {π₁ π₂ : List α}
    (h : π₁ ~ π₂) : isort le π₁ = isort le π₂ :=
  sort_perm ho h

/-- a consumer that sorts must sort by a total order -/
def Consumer.WF {ρ : Type} : Consumer ρ → Prop
  | .sorted le _ => TotalOrder le
  | _ => True

/-- pkg/bmreqs getReqs: every consumer of the unordered comma list that sorts it, tests
    membership, counts, or re-inserts it into another set sees the same thing on every run -/
theorem getReqs_consumers_det {ρ : Type} (c : Consumer ρ) (hc : Consumer.WF c) {π₁ π₂ : List String}
    (h : π₁ ~ π₂) : c.eval (getReqs π₁) = c.eval (getReqs π₂) := by
  cases c with
  | sorted le k => exact congrArg k (sort_perm hc h)
  | member x k => exact congrArg k (contains_perm h x)
  | count k => exact congrArg k h.length_eq
  | reinsert k => exact congrArg k (set_insert_det h _)

private theorem natLe_total : TotalOrder (fun a b : Nat => decide (a ≤ b)) :=
  ⟨fun a b => by simp only [decide_eq_true_eq]; omega,
   fun a b c => by simp only [decide_eq_true_eq]; omega,
   fun a b => by simp only [decide_eq_true_eq]; omega⟩

/-- non-vacuity: a total order exists and the sort really reorders -/
example : isort (fun a b : Nat => decide (a ≤ b)) [3, 1, 2] = isort (fun a b : Nat => decide (a ≤ b)) [2, 3, 1] :=
  sorted_after_det natLe_total (by decide)
example : isort (fun a b : Nat => decide (a ≤ b)) [3, 1, 2] = [1, 2, 3] := by decide

/-! ## the loops that are NOT order independent on the unchanged tree, and their repairs -/

theorem cpdefLines_eq (π : List String) :
    cpdefLines π = π.map (fun n => "%meta cpdef " ++ n ++ " fragcollapse:" ++ n) := by
  unfold cpdefLines walk
  suffices H : ∀ acc, π.foldl (fun acc n => acc ++ ["%meta cpdef " ++ n ++ " fragcollapse:" ++ n]) acc
      = acc ++ π.map (fun n => "%meta cpdef " ++ n ++ " fragcollapse:" ++ n) by simpa using H []
  induction π with
  | nil => simp
  | cons a l ih => intro acc; simp [ih]

theorem altKeys_eq (π : List String) : altKeys π = π := by
  unfold altKeys walk
  suffices H : ∀ acc, π.foldl (fun acc k => acc ++ [k]) acc = acc ++ π by simpa using H []
  induction π with
  | nil => simp
  | cons a l ih => intro acc; simp [ih]

/-- pkg/basm/matcherresolver.go: the list that numbers a section's alternatives IS the iteration
    order — any two different orders give different numberings -/
theorem altKeys_order_sensitive {π₁ π₂ : List String} (h : π₁ ≠ π₂) : altKeys π₁ ≠ altKeys π₂ := by
  rw [altKeys_eq, altKeys_eq]; exact h

/-- … and with the keys sorted first (repo_patches/C07-matcherresolver-sorted-altkeys.diff) the
    numbering is a function of the key set -/
theorem altKeys_sorted_det {le : String → String → Bool} (ho : TotalOrder le) {π₁ π₂ : List String}
    (h : π₁ ~ π₂) : altKeysSorted le π₁ = altKeysSorted le π₂ :=
  congrArg altKeys (sort_perm ho h)

/-- pkg/neuralbond/neuralbond.go:WriteBasm — the emitted cpdef lines follow the iteration order:
    a concrete pair of orders of the same two nodes gives two different files -/
theorem cpdef_order_sensitive :
    ["node_0_0", "node_0_1"] ~ ["node_0_1", "node_0_0"] ∧
    cpdefLines ["node_0_0", "node_0_1"] ≠ cpdefLines ["node_0_1", "node_0_0"] := by
  refine ⟨Perm.swap _ _ _, ?_⟩
  rw [cpdefLines_eq, cpdefLines_eq]
  decide

/-- … and with the node names sorted first (repo_patches/C07-neuralbond-sorted-cpdef.diff) the
    text is a function of the node set -/
theorem cpdef_sorted_det {le : String → String → Bool} (ho : TotalOrder le) {π₁ π₂ : List String}
    (h : π₁ ~ π₂) : cpdefLinesSorted le π₁ = cpdefLinesSorted le π₂ :=
  congrArg cpdefLines (sort_perm ho h)

/-! ## the regenerated inventory -/

/-- the theorem(s) a `Cover` stands for -/
def Cover.statement : Cover → Prop
  | .importString => ∀ (K I R : Type) [DecidableEq K] (acc : K → I → Bool) (imp : K → I → R) (tbl : List K) (x : I),
      (∀ k₁ ∈ tbl, ∀ k₂ ∈ tbl, k₁ ≠ k₂ → ¬(acc k₁ x = true ∧ acc k₂ x = true)) →
      ∀ π₁ π₂, π₁ ~ tbl → π₂ ~ tbl → importString acc imp π₁ x = importString acc imp π₂ x
  | .firstMatchUnique => ∀ (α β : Type) (p : α → Bool) (g : α → β) (tbl : List α),
      (∀ a ∈ tbl, ∀ b ∈ tbl, p a = true → p b = true → g a = g b) →
      ∀ π₁ π₂, π₁ ~ tbl → π₂ ~ tbl → firstMatch p g π₁ = firstMatch p g π₂
  | .symbolTagger => ∀ (secs : List Sect), (secs.map (fun s => (s.kind, s.name))).Nodup →
      ∀ π₁ π₂, π₁ ~ secs → π₂ ~ secs → ∀ t, symbolTagger π₁ t = symbolTagger π₂ t
  | .framedWalk => ∀ (E K V : Type) (fp : E → K → Bool) (stepf : E → Store K V → Store K V) (fails : E → Bool),
      (∀ e, FrameStep (fp e) (stepf e)) → ∀ l : List E,
      l.Pairwise (fun a b => ∀ c, ¬(fp a c = true ∧ fp b c = true)) →
      ∀ π₁ π₂, π₁ ~ l → π₂ ~ l → ∀ s, walkE fails (fun s e => stepf e s) s π₁ = walkE fails (fun s e => stepf e s) s π₂
  | .keyedCopy => ∀ (K V : Type) [DecidableEq K] (entries : List (K × V)), (entries.map (·.1)).Nodup →
      ∀ π₁ π₂, π₁ ~ entries → π₂ ~ entries → ∀ d : Store K V,
        walk (fun d e => d.set e.1 e.2) d π₁ = walk (fun d e => d.set e.1 e.2) d π₂
  | .setInsert => ∀ π₁ π₂ : List String, π₁ ~ π₂ → ∀ s, walk reqInsert s π₁ = walk reqInsert s π₂
  | .membership => ∀ (α : Type) (p : α → Bool) (π₁ π₂ : List α), π₁ ~ π₂ → π₁.any p = π₂.any p ∧ π₁.all p = π₂.all p
  | .consumers => ∀ (ρ : Type) (c : Consumer ρ), Consumer.WF c → ∀ π₁ π₂, π₁ ~ π₂ →
      c.eval (getReqs π₁) = c.eval (getReqs π₂)

/-- every `Cover` named by a row of the table is a proved statement -/
theorem cover_sound (c : Cover) : Cover.statement c := by
  cases c with
  | importString => intro K I R _ acc imp tbl x d π₁ π₂ h₁ h₂; exact importString_det_of_disjoint acc imp tbl x d h₁ h₂
  | firstMatchUnique => intro α β p g tbl u π₁ π₂ h₁ h₂; exact first_match_det p g tbl u h₁ h₂
  | symbolTagger => intro secs hn π₁ π₂ h₁ h₂ t; exact symbolTagger_det secs hn h₁ h₂ t
  | framedWalk => intro E K V fp stepf fails hf l hd π₁ π₂ h₁ h₂ s; exact framed_walk_perm fp stepf fails hf l hd h₁ h₂ s
  | keyedCopy => intro K V _ entries hk π₁ π₂ h₁ h₂ d; exact keyed_copy_det entries hk h₁ h₂ d
  | setInsert => intro π₁ π₂ h s; exact set_insert_det h s
  | membership => intro α p π₁ π₂ h; exact membership_det p h
  | consumers => intro ρ c hc π₁ π₂ h; exact getReqs_consumers_det c hc h

/-- the extractor parsed and type-checked every anchored package -/
theorem no_extractor_problems : BMV.Gen.MapRanges.problems = [] := by decide

private theorem coveredRows_sound : ∀ (ss : List Site) (rs : List Row), Expect.coveredRows ss rs = true →
    ∀ s ∈ ss, ∃ r ∈ rs, r.key = s.key
  | [], _, _ => by intro s hs; cases hs
  | _ :: _, [], h => by simp [Expect.coveredRows] at h
  | s :: ss, r :: rs, h => by
    unfold Expect.coveredRows at h
    split at h
    · rename_i hm
      simp only [beq_iff_eq] at hm
      intro s' hs'
      rcases mem_cons.mp hs' with rfl | hs'
      · exact ⟨r, mem_cons_self, hm⟩
      · obtain ⟨r', hr', e⟩ := coveredRows_sound ss rs h s' hs'
        exact ⟨r', mem_cons_of_mem _ hr', e⟩
    · intro s' hs'
      obtain ⟨r', hr', e⟩ := coveredRows_sound (s :: ss) rs h s' hs'
      exact ⟨r', mem_cons_of_mem _ hr', e⟩

/-- the merge pass over the regenerated table and the hand-written one (kernel evaluation) -/
theorem sites_covered : Expect.covered BMV.Gen.MapRanges.sites Expect.rows = true := by decide +kernel

/-- REGENERATED OBLIGATION.  Every nondeterminism site of the current source (every `range` over
    a map or an order-tainted slice, every maps.Keys-style walk, every custom-comparator sort, every
    clock / rand / temp-path use, every `go` statement in the packages of the five tools) either has
    the generic collect-then-library-sort shape (`sortedKeysKey`; order independent by
    `sorted_after_det`, wherever the code lives) or is classified in the hand-written table with the
    same syntactic class.  A new site, or a site whose body changed class, makes this fail.
    "partial": being classified is not being order independent — rows may say `.unproved` or
    `.finding`; see `C07_full`.  (`key` = FNV-1a-64 of identity and class, `Sched.siteKey`; the
    table's keys are recomputed from its strings when BMV/SchedExpect.lean is compiled.) -/
theorem sites_classified_partial :
    ∀ s ∈ BMV.Gen.MapRanges.sites, s.key = sortedKeysKey ∨ ∃ r ∈ Expect.rows, r.key = s.key := by
  intro s hs
  by_cases hk : s.key = sortedKeysKey
  · exact Or.inl hk
  · refine Or.inr (coveredRows_sound _ _ sites_covered s ?_)
    simp only [mem_filter, bne_iff_ne, ne_eq]
    exact ⟨hs, hk⟩

/-- verdicts fit their classes ("sorted after" only where the extractor saw the sort; reasons
    are not empty) -/
theorem expect_admissible : ∀ r ∈ Expect.rows, r.admissible = true := by decide +kernel

/-- the full statement at inventory level: every site of the current source is closed by a
    theorem, a sort, or an order-insensitivity argument.  NOT proved (false today: the table has
    `.unproved` and `.finding` rows); kept visible. -/
def C07_full : Prop :=
  ∀ s ∈ BMV.Gen.MapRanges.sites, s.key = sortedKeysKey ∨ ∃ r ∈ Expect.rows, r.key = s.key ∧ r.verdict.closed = true

end BMV.Props.C07
