/-
  C05 — An assembled BASM program means what its source says.

  Property theorems only.  Model: BMV/Basm.lean (abstract syntax of the subset, the model
  assembler `Basm.assemble` — `fix = false`: the pass pipeline of the unchanged tree, `fix = true`:
  with the proposed `entry` repair), BMV/BasmSem.lean (the reference interpreter `refStep`: direct
  interpretation of the source text), BMV/Isa.lean (the simulator, C01's model).  Lemmas:
  BMV/Proofs/Basm.lean, BMV/Proofs/BasmSem.lean.

  Full statement (properties.jsonl):
      forall sources of the subset, register sizes:  sim(basm(src)) ~ ref_interp(src) on all outputs
  kept visible below as `C05_full`.  What is proved:
    * `label_after_entry_removal`, `opcode_index_stable` — the two whole-program interactions the
      property names (removing the `entry` line shifts every later address; opcode numbers depend
      on the sorted set of opcodes of the whole section);
    * `mov_matcher_effect`, `step_correct`, `assemble_correct_partial` — lock-step simulation
      between the reference interpreter on the source and `Isa.step` on the assembled ROM, per
      processor, under an arbitrary environment on its ports; PARTIAL: for the unchanged tree it
      needs `entryFirst` (the entry label is on the first instruction) — `entry_ignored` is the
      counterexample showing the hypothesis cannot be dropped there;
    * `entry_honoured_example` — the same source under the repaired pipeline starts at the label.
-/
import BMV.Proofs.Basm
import BMV.Proofs.BasmSem
namespace BMV.Props.C05
open BMV BMV.Bits BMV.Basm

/-- label table after the entry-line removal: a label attached to the instruction at source
    position `p` resolves to the number of *instructions* before `p` (the directive is gone, every
    later address has shifted by one), and the ROM line at that address is the matched form of that
    very source line — so a label operand denotes the instruction that followed the label. -/
theorem label_after_entry_removal (ls ls' : List Line) (mode : Option IoMode) (rs : List RLine)
    (h1 : removeEntry ls = .ok ls') (h2 : matchLines mode ls' = .ok rs) (hnd : hasDup (allLabels ls) = false)
    (p : Nat) (l : Line) (hl : ls[p]? = some l) (hne : isEntry l = false) :
    (∃ r : RLine, rs[addr ls p]? = some r ∧ r.labels = l.labels ∧ matchLine mode l = some (r.op, r.args)) ∧
    ∀ s ∈ l.labels, lookup (labelTable rs) s = some (addr ls p) :=
  label_after_entry_removal_aux h1 h2 hnd hl hne

/-- the address really shifts: lines before the directive keep their index, lines after it lose one -/
theorem addr_shift (ls : List Line) (e : Nat) (he : ∀ i l, ls[i]? = some l → (isEntry l = true ↔ i = e)) (p : Nat)
    (hp : p ≤ ls.length) : addr ls p = if p ≤ e then p else p - 1 := by
  induction p with
  | zero => simp [addr]
  | succ p ih =>
    have hlt : p < ls.length := by omega
    have ih' := ih (by omega)
    have hg : ls[p]? = some ls[p] := List.getElem?_eq_getElem hlt
    have hstep : addr ls (p + 1) = addr ls p + (if isEntry ls[p] = true then 0 else 1) := by
      unfold addr
      rw [List.take_succ, List.filter_append, List.length_append]
      simp only [hg, Option.toList_some, List.filter_cons, List.filter_nil]
      cases isEntry ls[p] <;> simp
    rw [hstep, ih']
    by_cases hpe : p = e
    · have : isEntry ls[p] = true := (he p _ hg).mpr hpe
      simp only [this, if_true]; split <;> split <;> omega
    · have : isEntry ls[p] = false := by
        cases h : isEntry ls[p] with
        | false => rfl
        | true => exact absurd ((he p _ hg).mp h) hpe
      simp only [this, Bool.false_eq_true, if_false]
      split <;> split <;> omega

/-- opcode numbering: the opcode field of the k-th ROM word is the position of that line's real
    opcode in the *sorted set of opcodes used by the whole section* (adding or removing any other
    instruction of the section can change every word) -/
theorem opcode_index_stable (rsize : Nat) (rs : List RLine) (cp : CP) (h : mkCP rsize rs = .ok cp)
    (k : Nat) (r : RLine) (w : Bits) (hr : rs[k]? = some r) (hw : cp.prog[k]? = some w) :
    cp.arch.ops = opsOf rs ∧ (opsOf rs)[getId (w.take cp.arch.opBits)]? = some r.op :=
  opcode_index_aux h hr hw

/-! ### meaning: the reference interpreter and the simulator in lock step -/

/-- what is observable of a processor: where it is, its registers, its output ports -/
structure ObsEq (a : Arch) (ls : List Line) (r : RefState) (vm : VmState) : Prop where
  pc : vm.pc = addr ls r.pos
  regs : ∀ k, k < 2 ^ a.r → vm.regs[k]? = some (r.regs k)
  outs : ∀ k, k < a.m → vm.outputs[k]? = some (r.outputs k)

/-- THE FULL STATEMENT (C05, per processor): for every accepted source, every processor `i`, the
    section `sec` its `cpdef` names: whatever the reference interpreter does on `sec`'s text under
    an environment stream, the assembled machine's processor does — same program counter, same
    registers, same outputs, after every tick.  (Inter-processor composition through bonds is
    C02 / C04.) -/
def C05_full (fix : Bool) : Prop :=
  ∀ (src : Source) (bm : BM), assemble src fix = .ok bm →
    ∀ (i : Nat) (c : CpDef) (cp : CP), src.procs[i]? = some c → bm.cps[i]? = some cp →
      ∃ sec ∈ src.sections, sec.name = c.romcode ∧
        ∀ (env : Nat → Env) (t : Nat) (r : RefState), refRun (SecCtx.of src sec) env t = some r →
          ∃ vm, isaRun cp.arch cp.prog env (t + (if fix && !entryFirst sec.lines then 1 else 0)) = some vm ∧
            ObsEq cp.arch sec.lines r vm

/-- the real instructions of a section are non-blocking (no i2rw / r2owa, no `mov` from / to a
    port under `iomode:sync`) -/
def NonBlocking (src : Source) (sec : Section) : Prop :=
  ∀ rs, prepSection false src.iomode sec = .ok rs → ∀ r ∈ rs, r.op ≠ "i2rw" ∧ r.op ≠ "r2owa"

/-- MATCHER EFFECT: a source line, the real instruction `matchLine` chose for it (for `mov`:
    rset / cpy / i2r / r2o by operand kinds and iomode), its assembled word: one `Isa.exec` of the
    word does to the simulator state exactly what the reference interpreter does to the reference
    state for the source line — including where execution continues (`A` = position ↦ address). -/
theorem mov_matcher_effect (a : Arch) (c : SecCtx) (e : Env) (A : Nat → Nat) (plen : Nat) (l : Line) (op : String)
    (args : List Arg) (tbl : List (String × Nat)) (w : Bits) (r r' : RefState) (vm : VmState)
    (hm : matchLine c.mode l = some (op, args))
    (hasync : op ≠ "i2rw" ∧ op ≠ "r2owa")
    (hasm : Encode.asm a ⟨op, args.map (resolveArg tbl)⟩ = .ok w)
    (hmode : a.mode = .ha) (hrs : a.rsize = c.rsize)
    (hsim : Sim a e A r vm)
    (hnext : A (skip c.lines (r.pos + 1)) = vm.pc + 1)
    (hlab : ∀ t p v, labelPos c.lines t = some p → lookup tbl t = some v → v = A p ∧ v < plen)
    (hex : execLine c e l r = some r') :
    ∃ vm', Isa.exec a plen op (w.drop a.opBits) vm = some vm' ∧ Sim a e A r' vm' ∧ PosNext c r r' :=
  exec_matches hm hasync hasm hmode hrs hsim hnext hlab hex

/-- LOCK STEP, one tick, on the ROM the unchanged pipeline assembles for a section -/
theorem step_correct (c : SecCtx) (rs : List RLine) (a : Arch) (ws : List Bits) (e : Env) (r r' : RefState) (vm : VmState)
    (hA : Assembled c rs a ws) (hsim : Sim a e (addr c.lines) r vm) (hpos : PosOk c.lines r.pos)
    (hex : refStep c e r = some r') :
    ∃ vm', Isa.step a ws vm = some vm' ∧ Sim a e (addr c.lines) r' vm' ∧ PosOk c.lines r'.pos :=
  step_correct_aux hA hsim hpos hex

/-- AN ASSEMBLED PROGRAM MEANS WHAT ITS SOURCE SAYS — PARTIAL.  `C05_full false` restricted by two
    hypotheses: `entryFirst` (the entry label is on the first instruction of the section: without
    it the statement is false on the unchanged tree, see `entry_ignored`) and `NonBlocking` (the
    blocking i2rw / r2owa handshakes are not covered by the proof; they are covered by the per-tick
    tie of tools/props/c05.py).  Everything else is as in the full statement: every source of the
    subset, every register size, every environment stream, every number of ticks. -/
theorem assemble_correct_partial (src : Source) (bm : BM) (h : assemble src false = .ok bm)
    (i : Nat) (c : CpDef) (cp : CP) (hc : src.procs[i]? = some c) (hcp : bm.cps[i]? = some cp) :
    ∃ sec ∈ src.sections, sec.name = c.romcode ∧
      (entryFirst sec.lines = true → NonBlocking src sec →
        ∀ (env : Nat → Env) (t : Nat) (r : RefState), refRun (SecCtx.of src sec) env t = some r →
          ∃ vm, isaRun cp.arch cp.prog env t = some vm ∧ ObsEq cp.arch sec.lines r vm) := by
  obtain ⟨sec, hsec, hname, rs, hprep, hass⟩ := assembled_of_assemble h hc hcp
  refine ⟨sec, hsec, hname, ?_⟩
  intro hentry hnb env t r hr
  have hA := hass (hnb rs hprep)
  obtain ⟨vm, hvm, hst, _⟩ := run_correct_aux hA hentry env t r hr
  exact ⟨vm, hvm, ⟨hst.pc, fun k hk => hst.regs.get hk, fun k hk => hst.outs.get hk⟩⟩

/-! ### the `entry` directive on the unchanged tree -/

/-- the minimal source of the finding: an instruction placed before the entry label -/
def entrySrc : Source :=
  { rsize := some 8, iomode := some .async,
    sections := [{ name := "prog", lines :=
      [ { op := "rset", args := [.reg 0, .num 5] },
        { op := "entry", args := [.sym "start"] },
        { labels := ["start"], op := "inc", args := [.reg 0] },
        { op := "mov", args := [.out 0, .reg 0] },
        { op := "j", args := [.sym "start"] } ] }],
    cps := [{ name := "cpu", romcode := "prog" }] }

def romOf (r : Except Err BM) : List String :=
  match r with
  | .ok bm => (bm.cps.flatMap (·.prog)).map toString01
  | .error _ => []

/-- COUNTEREXAMPLE (unchanged tree): the source says "start at `start`" (position 2, i.e. ROM
    address 1), the assembled ROM has `rset r0 5` at address 0, where every processor starts. -/
theorem entry_ignored :
    (entrySrc.sections.map fun s => (startPos s.lines).map (addr s.lines)) = [some 1] ∧
    romOf (assemble entrySrc false) = ["11000000101", "00000000000", "10000000000", "01010000000"] := by
  decide

/-- with the repair the ROM begins with `j 2` and the label is at address 2 -/
theorem entry_honoured_example :
    romOf (assemble entrySrc true) = ["01010000000", "11000000101", "00000000000", "10000000000", "01010000000"] := by
  decide

/-! ### non-vacuity -/

/-- a source meeting every hypothesis of `assemble_correct_partial`, with labels, both jump kinds,
    `mov` in three of its meanings, an input and an output -/
def demoSrc : Source :=
  { rsize := some 8, iomode := some .async,
    sections := [{ name := "prog", lines :=
      [ { op := "entry", args := [.sym "top"] },
        { labels := ["top"], op := "mov", args := [.reg 1, .inp 0] },
        { op := "jz", args := [.reg 1, .sym "top"] },
        { labels := ["loop"], op := "add", args := [.reg 0, .reg 1] },
        { op := "mov", args := [.out 0, .reg 0] },
        { op := "dec", args := [.reg 1] },
        { op := "jz", args := [.reg 1, .sym "top"] },
        { op := "jmp", args := [.sym "loop"] } ] }],
    cps := [{ name := "cpu", romcode := "prog" }] }

def demoEnv : Nat → Env := fun t => { inputs := fun _ => if t < 3 then 0 else 3, inValid := fun _ => false, outRecv := fun _ => false }

example : (assemble demoSrc false).toOption.isSome = true := by decide
example : (demoSrc.sections.map fun s => entryFirst s.lines) = [true] := by decide
example : (demoSrc.sections.map fun s => (match prepSection false demoSrc.iomode s with
    | .ok rs => rs.all (fun r => r.op != "i2rw" && r.op != "r2owa") | .error _ => false)) = [true] := by decide
-- the reference interpreter really runs (reads 0 three times, then 3; sums 3+2+1 into r0 / o0)
example : ((refRun (SecCtx.of demoSrc (demoSrc.sections.headD default)) demoEnv 20).map fun r => (r.regs 0, r.outputs 0, r.pos)) =
    some (6, 6, 1) := by decide

end BMV.Props.C05
