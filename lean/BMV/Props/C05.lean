/-
  C05 — An assembled BASM program means what its source says.

  Property theorems only.  Model: BMV/Basm.lean (abstract syntax of the subset, the model
  assembler `Basm.assemble` — `fix = false`: the pass pipeline of the unchanged tree, `fix = true`:
  with the proposed `entry` repair), BMV/BasmSem.lean (the reference interpreter `refStep`: direct
  interpretation of the source text), BMV/Isa.lean (the simulator, C01's model).  Lemmas:
  BMV/Proofs/Basm.lean, BMV/Proofs/BasmSem.lean.

  Full statement (properties.jsonl):
      forall sources of the subset, register sizes:  sim(basm(src)) ~ ref_interp(src) on all outputs
  stated per processor as `def C05_full : Prop` and PROVED as `assemble_correct : C05_full` for the
  pipeline as it is in /repo since ad3d184 / 66563a4 (`assemble src true`): no hypothesis beyond
  `assemble src true = .ok bm`.  What is proved:
    * `label_after_entry_removal`, `addr_shift`, `opcode_index_stable` — the whole-program
      interactions the property names (removing the `entry` line shifts every later address; opcode
      numbers depend on the sorted set of opcodes of the whole section);
    * `mov_matcher_effect` — every source form (24 `matchLine` alternatives, blocking ones included):
      one `Isa.exec` of the assembled word = the reference effect of the *source* line;
    * `step_correct` — lock step for one tick over an abstract `Layout` (address shift δ);
      `layout_of_pipelines` — both pipelines produce such a layout (δ = 0 / δ = `entryDelay`);
    * `assemble_correct` — every accepted source, every processor, every environment stream, every
      number of ticks: the simulator on the assembled ROM, started at address 0, does what the
      reference interpreter, started at the `entry` label, does on the section's text (program
      counter through the address map, registers, outputs, output-valid and input-recv flags);
      one extra tick at the start and addresses one higher exactly when the entry label is not on
      the first instruction; blocking i2rw / r2owa included (the reference waits where the
      handshake makes the processor wait);
    * `assemble_correct_entry_first` + `entry_ignored` — the pipeline of the unchanged tree: the same
      statement under `entryFirst`, and the counterexample showing it cannot be dropped there;
    * `network_component`, `network_correct` — the multi-processor network reference (`netRun`) is
      the product of the per-processor references under the environments the bonds induce, and
      every assembled processor implements its component.
  Not proved: that `bondmachine.VM.Step` moves data between processors as `envFor` says (C02 / C04;
  compared per tick by the whole-machine tie), and the concrete-syntax layer (`BasmText.parseSource`).
-/
import BMV.Proofs.Basm
import BMV.Proofs.BasmSem
import BMV.BasmTempl
namespace BMV.Props.C05
open BMV BMV.Bits BMV.Basm

/-- label table after the entry-line removal: a label attached to the instruction at source
    position `p` resolves to the number of *instructions* before `p` (the directive is gone, every
    later address has shifted by one), and the ROM line at that address is the matched form of that
    very source line — so a label operand denotes the instruction that followed the label. -/
theorem label_after_entry_removal (ls ls' : List Line) (mode : Option IoMode) (rs : List RLine)
    (h1 : removeEntry ls = .ok ls') (h2 : matchLines mode ls' = .ok rs) (hnd : hasDup (allLabels ls) = false)
    (p : Nat) (l : Line) (hl : ls[p]? = some l) (hne : isEntry l = false) :
    (∃ r : RLine, rs[addr ls p]? = some r ∧ r.labels = l.labels ∧ matchLine mode l = some (r.op, r.args)) ∧
    ∀ s ∈ l.labels, lookup (labelTable rs) s = some (addr ls p) :=
  label_after_entry_removal_aux h1 h2 hnd hl hne

/-- the address really shifts: lines before the directive keep their index, lines after it lose one -/
theorem addr_shift (ls : List Line) (e : Nat) (he : ∀ i l, ls[i]? = some l → (isEntry l = true ↔ i = e)) (p : Nat)
    (hp : p ≤ ls.length) : addr ls p = if p ≤ e then p else p - 1 := by
  induction p with
  | zero => simp [addr]
  | succ p ih =>
    have hlt : p < ls.length := by omega
    have ih' := ih (by omega)
    have hg : ls[p]? = some ls[p] := List.getElem?_eq_getElem hlt
    have hstep : addr ls (p + 1) = addr ls p + (if isEntry ls[p] = true then 0 else 1) := by
      unfold addr
      rw [List.take_succ, List.filter_append, List.length_append]
      simp only [hg, Option.toList_some, List.filter_cons, List.filter_nil]
      cases isEntry ls[p] <;> simp
    rw [hstep, ih']
    by_cases hpe : p = e
    · have : isEntry ls[p] = true := (he p _ hg).mpr hpe
      simp only [this, if_true]; split <;> split <;> omega
    · have : isEntry ls[p] = false := by
        cases h : isEntry ls[p] with
        | false => rfl
        | true => exact absurd ((he p _ hg).mp h) hpe
      simp only [this, Bool.false_eq_true, if_false]
      split <;> split <;> omega

/-- opcode numbering: the opcode field of the k-th ROM word is the position of that line's real
    opcode in the *sorted set of opcodes used by the whole section* (adding or removing any other
    instruction of the section can change every word) -/
theorem opcode_index_stable (rsize : Nat) (rs : List RLine) (cp : CP) (h : mkCP rsize rs = .ok cp)
    (k : Nat) (r : RLine) (w : Bits) (hr : rs[k]? = some r) (hw : cp.prog[k]? = some w) :
    cp.arch.ops = opsOf rs ∧ (opsOf rs)[getId (w.take cp.arch.opBits)]? = some r.op :=
  opcode_index_aux h hr hw

/-! ### meaning: the reference interpreter and the simulator in lock step -/

/-- what is observable of a processor: where it is (`δ` = the address shift of the layout), its
    registers, its output ports with their valid flags, the recv flags of its input ports -/
structure ObsEq (a : Arch) (ls : List Line) (δ : Nat) (r : RefState) (vm : VmState) : Prop where
  pc : vm.pc = δ + addr ls r.pos
  regs : ∀ k, k < 2 ^ a.r → vm.regs[k]? = some (r.regs k)
  outs : ∀ k, k < a.m → vm.outputs[k]? = some (r.outputs k)
  outValid : ∀ k, k < a.m → vm.outValid[k]? = some (r.outValid k)
  inRecv : ∀ k, k < a.n → vm.inRecv[k]? = some (r.inRecv k)

/-- the environment stream the simulator sees: the reference interpreter's, preceded — when the
    first tick is spent on the jump at address 0 — by one arbitrary tick `e0` -/
def entryEnv (ls : List Line) (e0 : Env) (env : Nat → Env) : Nat → Env :=
  if entryDelay ls = 1 then delayEnv e0 env else env

/-- THE FULL STATEMENT (C05, per processor, the pipeline as it is in /repo since ad3d184 /
    66563a4): for every accepted source of the subset, every register size, every processor `i`,
    the section `sec` its `cpdef` names, every environment on its ports and every number of ticks:
    whatever the reference interpreter — started at the `entry` label — does on `sec`'s text, the
    assembled machine's processor — started at ROM address 0 — does: same program counter (through
    the address map), registers, outputs, output-valid and input-recv flags, after every tick.
    When the entry label is not on the first instruction the simulator needs one extra tick at the
    beginning (the jump the assembler placed at address 0) and every address is one higher.
    Blocking `iomode:sync` transfers are included: where the handshake makes the processor wait,
    the reference interpreter waits.  (Composition of processors through bonds is C02 / C04.) -/
def C05_full : Prop :=
  ∀ (src : Source) (bm : BM), assemble src true = .ok bm →
    ∀ (i : Nat) (c : CpDef) (cp : CP), src.procs[i]? = some c → bm.cps[i]? = some cp →
      ∃ sec ∈ src.sections, sec.name = c.romcode ∧
        ∀ (e0 : Env) (env : Nat → Env) (t : Nat) (r : RefState), refRun (SecCtx.of src sec) env t = some r →
          ∃ vm, isaRun cp.arch cp.prog (entryEnv sec.lines e0 env) (t + entryDelay sec.lines) = some vm ∧
            ObsEq cp.arch sec.lines (entryDelay sec.lines) r vm

/-- MATCHER EFFECT: a source line, the real instruction `matchLine` chose for it (for `mov`:
    rset / cpy / i2r / i2rw / r2o / r2owa by operand kinds and iomode), its assembled word: one
    `Isa.exec` of the word does to the simulator state exactly what the reference interpreter does
    to the reference state for the source line — including where execution continues (`A` =
    position ↦ address) and including the handshake state of the blocking forms. -/
theorem mov_matcher_effect (a : Arch) (c : SecCtx) (e : Env) (A : Nat → Nat) (plen : Nat) (l : Line) (op : String)
    (args : List Arg) (tbl : List (String × Nat)) (w : Bits) (r r' : RefState) (vm : VmState)
    (hm : matchLine c.mode l = some (op, args))
    (hasm : Encode.asm a ⟨op, args.map (resolveArg tbl)⟩ = .ok w)
    (hmode : a.mode = .ha) (hrs : a.rsize = c.rsize)
    (hsim : Sim a e A r vm)
    (hnext : A (skip c.lines (r.pos + 1)) = vm.pc + 1)
    (hlab : ∀ t p v, labelPos c.lines t = some p → lookup tbl t = some v → v = A p ∧ v < plen)
    (hex : execLine c e l r = some r') :
    ∃ vm', Isa.exec a plen op (w.drop a.opBits) vm = some vm' ∧ Sim a e A r' vm' ∧ PosNext c r r' :=
  exec_matches hm hasm hmode hrs hsim hnext hlab hex

/-- LOCK STEP, one tick, on the ROM assembled for a section with address shift `δ` -/
theorem step_correct (c : SecCtx) (rs : List RLine) (a : Arch) (ws : List Bits) (δ : Nat) (e : Env) (r r' : RefState)
    (vm : VmState) (hA : Assembled c rs a ws δ) (hsim : Sim a e (fun p => δ + addr c.lines p) r vm)
    (hpos : PosOk c.lines r.pos) (hex : refStep c e r = some r') :
    ∃ vm', Isa.step a ws vm = some vm' ∧ Sim a e (fun p => δ + addr c.lines p) r' vm' ∧ PosOk c.lines r'.pos :=
  step_correct_aux hA hsim hpos hex

/-- the two pipelines lay a section out as the lock-step proof needs (`Layout`): the unchanged one
    with no shift, the repaired one with `entryDelay` -/
theorem layout_of_pipelines (c : SecCtx) (ls' : List Line) (rs : List RLine) (hnd : hasDup (allLabels c.lines) = false)
    (hml : matchLines c.mode ls' = .ok rs) :
    (removeEntry c.lines = .ok ls' → Layout c rs 0) ∧ (removeEntryFix c.lines = .ok ls' → Layout c rs (entryDelay c.lines)) :=
  ⟨fun h => layout_unfixed h hml hnd, fun h => (layout_fixed h hml hnd).1⟩

theorem obs_of_stsim {a : Arch} {ls : List Line} {δ : Nat} {r : RefState} {vm : VmState}
    (h : StSim a (fun p => δ + addr ls p) r vm) : ObsEq a ls δ r vm :=
  ⟨h.pc, fun _ hk => h.regs.get hk, fun _ hk => h.outs.get hk, fun _ hk => h.ov.get hk, fun _ hk => h.ir.get hk⟩

/-- AN ASSEMBLED PROGRAM MEANS WHAT ITS SOURCE SAYS: the full statement, for the repaired
    pipeline.  No hypothesis beyond `assemble src = .ok bm`. -/
theorem assemble_correct : C05_full := by
  intro src bm h i c cp hc hcp
  obtain ⟨sec, hsec, hname, rs, hA, hside⟩ := assembled_of_assemble_fix h hc hcp
  refine ⟨sec, hsec, hname, ?_⟩
  intro e0 env t r hr
  rcases hside with ⟨hd, hz⟩ | ⟨hd, s, hj, hstart⟩
  · rw [hd] at hA
    obtain ⟨vm, hvm, hst, _⟩ := run_correct_zero hA hz env t r hr
    refine ⟨vm, ?_, ?_⟩
    · simp only [entryEnv, hd]; exact hvm
    · rw [hd]; exact obs_of_stsim hst
  · rw [hd] at hA
    obtain ⟨vm, hvm, hst, _⟩ := run_correct_one hA hj hstart e0 env t r hr
    refine ⟨vm, ?_, ?_⟩
    · simp only [entryEnv, hd]; exact hvm
    · rw [hd]; exact obs_of_stsim hst

/-- the same for the pipeline of the unchanged tree (`entry` recorded and ignored), where it
    holds: sources whose entry label is on the first instruction.  `entry_ignored` below shows the
    hypothesis cannot be dropped there. -/
theorem assemble_correct_entry_first (src : Source) (bm : BM) (h : assemble src false = .ok bm)
    (i : Nat) (c : CpDef) (cp : CP) (hc : src.procs[i]? = some c) (hcp : bm.cps[i]? = some cp) :
    ∃ sec ∈ src.sections, sec.name = c.romcode ∧
      (entryFirst sec.lines = true →
        ∀ (env : Nat → Env) (t : Nat) (r : RefState), refRun (SecCtx.of src sec) env t = some r →
          ∃ vm, isaRun cp.arch cp.prog env t = some vm ∧ ObsEq cp.arch sec.lines 0 r vm) := by
  obtain ⟨sec, hsec, hname, rs, hA⟩ := assembled_of_assemble h hc hcp
  refine ⟨sec, hsec, hname, ?_⟩
  intro hentry env t r hr
  have hz : ∀ p, startPos (SecCtx.of src sec).lines = some p → addr (SecCtx.of src sec).lines p = 0 := by
    intro p hp
    have : startPos sec.lines = some p := hp
    unfold entryFirst at hentry
    rw [this] at hentry
    show addr sec.lines p = 0
    simpa using hentry
  obtain ⟨vm, hvm, hst, _⟩ := run_correct_zero hA hz env t r hr
  exact ⟨vm, hvm, obs_of_stsim hst⟩

/-! ### several processors -/

/-- COMPOSITION of the network reference (`netRun`: every processor's `refStep` on its section,
    ports joined as the source's `ioatt` pairs say): seen from processor `p`, the run of the whole
    machine is a run of the reference interpreter on `p`'s section under the environment the bonds
    induce.  (`netRun` is a function: the network reference is deterministic by construction.) -/
theorem network_component (ctxs : List SecCtx) (net : List (Topology.Bond × Topology.Bond)) (ext : Nat → ExtEnv)
    (t : Nat) (sts : List RefState) (h : netRun ctxs net ext t = some sts) :
    sts.length = ctxs.length ∧
    ∀ (p : Nat) (c : SecCtx), ctxs[p]? = some c →
      ∃ s, sts[p]? = some s ∧ refRun c (inducedEnv ctxs net ext p) t = some s :=
  net_component ctxs net ext t sts h

/-- … hence every processor of the assembled machine, run by the simulator on its ROM under the
    environment the network induces on its ports, does what the network reference says of it.
    (That `bondmachine.VM.Step` moves data between processors as `envFor` says is not proved here:
    it is C02/C04's matter and is compared per tick by the whole-machine tie.) -/
theorem network_correct (src : Source) (bm : BM) (h : assemble src true = .ok bm)
    (p : Nat) (c : CpDef) (cp : CP) (hc : src.procs[p]? = some c) (hcp : bm.cps[p]? = some cp) :
    ∃ sec ∈ src.sections, sec.name = c.romcode ∧
      ∀ (ctxs : List SecCtx) (net : List (Topology.Bond × Topology.Bond)) (ext : Nat → ExtEnv),
        ctxs[p]? = some (SecCtx.of src sec) →
        ∀ (e0 : Env) (t : Nat) (sts : List RefState), netRun ctxs net ext t = some sts →
          ∃ s vm, sts[p]? = some s ∧
            isaRun cp.arch cp.prog (entryEnv sec.lines e0 (inducedEnv ctxs net ext p)) (t + entryDelay sec.lines) = some vm ∧
            ObsEq cp.arch sec.lines (entryDelay sec.lines) s vm := by
  obtain ⟨sec, hsec, hname, hrun⟩ := assemble_correct src bm h p c cp hc hcp
  refine ⟨sec, hsec, hname, ?_⟩
  intro ctxs net ext hctx e0 t sts hnet
  obtain ⟨_, hcomp⟩ := net_component ctxs net ext t sts hnet
  obtain ⟨s, hs, hr⟩ := hcomp p _ hctx
  obtain ⟨vm, hvm, hobs⟩ := hrun e0 _ t s hr
  exact ⟨s, vm, hs, hvm, hobs⟩

/-! ### the `entry` directive on the unchanged tree -/

/-- the minimal source of the finding: an instruction placed before the entry label -/
def entrySrc : Source :=
  { rsize := some 8, iomode := some .async,
    sections := [{ name := "prog", lines :=
      [ { op := "rset", args := [.reg 0, .num 5] },
        { op := "entry", args := [.sym "start"] },
        { labels := ["start"], op := "inc", args := [.reg 0] },
        { op := "mov", args := [.out 0, .reg 0] },
        { op := "j", args := [.sym "start"] } ] }],
    cps := [{ name := "cpu", romcode := "prog" }] }

def romOf (r : Except Err BM) : List String :=
  match r with
  | .ok bm => (bm.cps.flatMap (·.prog)).map toString01
  | .error _ => []

/-- COUNTEREXAMPLE (unchanged tree): the source says "start at `start`" (position 2, i.e. ROM
    address 1), the assembled ROM has `rset r0 5` at address 0, where every processor starts. -/
theorem entry_ignored :
    (entrySrc.sections.map fun s => (startPos s.lines).map (addr s.lines)) = [some 1] ∧
    romOf (assemble entrySrc false) = ["11000000101", "00000000000", "10000000000", "01010000000"] := by
  decide

/-- with the repair the ROM begins with `j 2` and the label is at address 2 -/
theorem entry_honoured_example :
    romOf (assemble entrySrc true) = ["01010000000", "11000000101", "00000000000", "10000000000", "01010000000"] := by
  decide

/-! ### non-vacuity -/

/-- a source with labels, both jump kinds,
    `mov` in three of its meanings, an input and an output -/
def demoSrc : Source :=
  { rsize := some 8, iomode := some .async,
    sections := [{ name := "prog", lines :=
      [ { op := "entry", args := [.sym "top"] },
        { labels := ["top"], op := "mov", args := [.reg 1, .inp 0] },
        { op := "jz", args := [.reg 1, .sym "top"] },
        { labels := ["loop"], op := "add", args := [.reg 0, .reg 1] },
        { op := "mov", args := [.out 0, .reg 0] },
        { op := "dec", args := [.reg 1] },
        { op := "jz", args := [.reg 1, .sym "top"] },
        { op := "jmp", args := [.sym "loop"] } ] }],
    cps := [{ name := "cpu", romcode := "prog" }] }

def demoEnv : Nat → Env := fun t => { inputs := fun _ => if t < 3 then 0 else 3, inValid := fun _ => false, outRecv := fun _ => false }

example : (assemble demoSrc false).toOption.isSome = true := by decide
example : (demoSrc.sections.map fun s => entryFirst s.lines) = [true] := by decide
example : (assemble demoSrc true).toOption.isSome = true := by decide
-- the reference interpreter really runs (reads 0 three times, then 3; sums 3+2+1 into r0 / o0)
example : ((refRun (SecCtx.of demoSrc (demoSrc.sections.headD default)) demoEnv 20).map fun r => (r.regs 0, r.outputs 0, r.pos)) =
    some (6, 6, 1) := by decide


/-- blocking IO and an entry label that is not first (and a label written on the directive): the
    case `assemble_correct` needs its extra tick and its address shift for -/
def demoSync : Source :=
  { rsize := some 8, iomode := some .sync,
    sections := [{ name := "prog", lines :=
      [ { labels := ["here"], op := "entry", args := [.sym "go"] },
        { op := "clr", args := [.reg 1] },
        { labels := ["go"], op := "mov", args := [.reg 0, .inp 0] },
        { op := "mov", args := [.out 0, .reg 0] },
        { op := "inc", args := [.reg 1] },
        { op := "j", args := [.sym "here"] } ] }],
    cps := [{ name := "cpu", romcode := "prog" }] }

def syncSec : Section := demoSync.sections.headD default
def syncEnv : Nat → Env := fun t =>
  { inputs := fun _ => 7 + t, inValid := fun _ => t % 4 == 1 || t % 4 == 2, outRecv := fun _ => t % 3 == 2 }
def syncCp : CP := match assemble demoSync true with | .ok bm => bm.cps.headD default | .error _ => default
def anyEnv : Env := { inputs := fun _ => 99, inValid := fun _ => true, outRecv := fun _ => true }

example : romOf (assemble demoSync true) = ["011010", "000100", "001000", "100000", "010100", "011001"] := by decide
example : entryDelay syncSec.lines = 1 := by decide
-- eight ticks of the reference interpreter: one i2rw transfer (wait, take 8, withdraw recv), one
-- r2owa transfer (raise valid, wait for recv, drop valid), `inc`
example : ((refRun (SecCtx.of demoSync syncSec) syncEnv 8).map fun r =>
    [addr syncSec.lines r.pos, r.regs 0, r.regs 1, r.outputs 0, (r.outValid 0).toNat, (r.inRecv 0).toNat] ++ r.deferred) =
    some [0, 8, 1, 8, 0, 0] := by decide
-- … and the simulator on the assembled ROM after 8 + 1 ticks: address 0 + 1, the same registers and port
example : ((isaRun syncCp.arch syncCp.prog (entryEnv syncSec.lines anyEnv syncEnv) 9).map fun vm =>
    [vm.pc] ++ vm.regs ++ vm.outputs ++ vm.outValid.map Bool.toNat ++ vm.inRecv.map Bool.toNat ++ vm.deferred) =
    some [1, 8, 1, 8, 0, 0] := by decide

/-- line-level metadata: in a section whose mode is `async` (from the global setting) a `mov o0, r0` that carries
    `iomode:sync` is the blocking `r2owa`, the `mov r0, i0` next to it stays the non-blocking `i2r`; a line's
    own mode also decides where no other mode is given.  `assemble_correct` covers such sources as they are
    (`matchLine` and the reference interpreter's `ioKind` read the same `lineMode`). -/
def demoLineMode : Source :=
  { rsize := some 8, iomode := some .async,
    sections := [{ name := "prog", lines :=
      [ { op := "entry", args := [.sym "go"] },
        { labels := ["go"], op := "mov", args := [.reg 0, .inp 0] },
        { op := "mov", args := [.out 0, .reg 0], iomode := some .sync },
        { op := "j", args := [.sym "go"] } ] }],
    cps := [{ name := "cpu", romcode := "prog" }] }

example : (match assemble demoLineMode true with | .ok bm => bm.cps.map (·.arch.ops) | .error _ => []) = [["i2r", "j", "r2owa"]] := by decide
example : matchLine none { op := "mov", args := [.reg 1, .inp 0], iomode := some .sync } = some ("i2rw", [.reg 1, .inp 0]) := by decide
example : matchLine (some .sync) { op := "mov", args := [.out 0, .reg 1], iomode := some .async } = some ("r2o", [.reg 1, .out 0]) := by decide
example : matchLine none { op := "mov", args := [.out 0, .reg 1] } = none := by decide

/-- the integer instantiation of the library's arithmetic fragments (`multop` = `mult`, `divop` = `div`):
    200·3 = 600 ≡ 88 (mod 2^8), 88 / 3 = 29; a division by zero has no meaning in the reference -/
def demoArith : Source :=
  { rsize := some 8, iomode := some .async,
    sections := [{ name := "prog", lines :=
      [ { op := "entry", args := [.sym "go"] },
        { labels := ["go"], op := "rset", args := [.reg 0, .num 200] },
        { op := "rset", args := [.reg 1, .num 3] },
        { op := "mult", args := [.reg 0, .reg 1] },
        { op := "div", args := [.reg 0, .reg 1] },
        { op := "mov", args := [.out 0, .reg 0] },
        { op := "clr", args := [.reg 1] },
        { op := "div", args := [.reg 0, .reg 1] } ] }],
    cps := [{ name := "cpu", romcode := "prog" }] }

def arithSec : Section := demoArith.sections.headD default
def arithCp : CP := match assemble demoArith true with | .ok bm => bm.cps.headD default | .error _ => default
example : arithCp.arch.ops = ["clr", "div", "mult", "r2o", "rset"] := by decide
example : ((refRun (SecCtx.of demoArith arithSec) demoEnv 6).map fun r => (r.regs 0, r.regs 1, r.outputs 0)) = some (29, 0, 29) := by decide
example : ((isaRun arithCp.arch arithCp.prog demoEnv 6).map fun vm => (vm.regs, vm.outputs)) = some ([29, 0], [29]) := by decide
example : (refRun (SecCtx.of demoArith arithSec) demoEnv 7).isNone = true := by decide
example : (isaRun arithCp.arch arithCp.prog demoEnv 7).isNone = true := by decide

/-! ### templated sources (BMV/BasmTempl.lean): templating is a pre-pass -/

/-- a source with template sections and processor parameters means what its per-processor
    instantiation means: whatever `instantiate` produces is covered by `assemble_correct` as it stands
    (every processor of the instantiated source runs the instance made from ITS OWN parameters). -/
theorem assemble_correct_templated (ts : TSource) (src : Source) (bm : BM)
    (_hi : instantiate ts = some src) (ha : assemble src true = .ok bm) :
    ∀ (i : Nat) (c : CpDef) (cp : CP), src.procs[i]? = some c → bm.cps[i]? = some cp →
      ∃ sec ∈ src.sections, sec.name = c.romcode ∧
        ∀ (e0 : Env) (env : Nat → Env) (t : Nat) (r : RefState), refRun (SecCtx.of src sec) env t = some r →
          ∃ vm, isaRun cp.arch cp.prog (entryEnv sec.lines e0 env) (t + entryDelay sec.lines) = some vm ∧
            ObsEq cp.arch sec.lines (entryDelay sec.lines) r vm :=
  assemble_correct src bm ha

/-- the lines of a processor's instance depend on that processor's parameters only -/
theorem instance_depends_on_own_parameters (ps qs : Params) (items : List TItem)
    (h : ∀ n, ps.get n = qs.get n ∧ ps.has n = qs.has n) : instItems ps items = instItems qs items :=
  instItems_own ps qs items h

/-- a conditional block is kept exactly for the processors that have the parameter -/
theorem conditional_block (ps : Params) (n : String) (body : List TLine) (rest : List TItem) :
    instItems ps (.ifp n body :: rest) =
      (if ps.has n then
        (match body.mapM (instLine ps), instItems ps rest with | some xs, some ys => some (xs ++ ys) | _, _ => none)
       else instItems ps rest) :=
  instItems_ifp ps n body rest

/-- two processors on one templated section: `cpa` sets `twice`, `cpb` (later in name order) does not -/
def demoTempl : TSource :=
  { base := { rsize := some 8, iomode := some .async,
              cps := [{ name := "cpa", romcode := "main" }, { name := "cpb", romcode := "main" }] },
    templates := [{ name := "main", items :=
      [ .line { op := "entry", args := [.arg (.sym "start")] },
        .line { labels := ["start"], op := "mov", args := [.arg (.reg 0), .param "start"] },
        .line { labels := ["loop"], op := "inc", args := [.arg (.reg 0)] },
        .ifp "twice" [{ op := "inc", args := [.arg (.reg 0)] }],
        .line { op := "mov", args := [.arg (.out 0), .arg (.reg 0)] },
        .line { op := "j", args := [.arg (.sym "loop")] } ] }],
    params := [("cpa", [("start", .num 7), ("twice", .num 1)]), ("cpb", [("start", .num 9)])] }

def templSrc : Source := (instantiate demoTempl).getD {}
example : (instantiate demoTempl).isSome = true := by decide
example : templSrc.cps = [{ name := "cpa", romcode := "main_templ_0" }, { name := "cpb", romcode := "main_templ_1" }] := by decide
example : templSrc.sections.map (fun s => (s.name, s.lines.length)) = [("main_templ_0", 6), ("main_templ_1", 5)] := by decide
example : (match assemble templSrc true with | .ok bm => bm.cps.map (·.prog.length) | .error _ => []) = [5, 4] := by decide
-- the parameter of `cpa` does not reach `cpb`: after 5 ticks cpa shows 7+2, cpb 9+1
example : (templSrc.sections.map fun s => (refRun (SecCtx.of templSrc s) demoEnv 4).map fun r => r.outputs 0) = [some 9, some 10] := by decide
-- a processor without parameters cannot run a template section …
example : (instantiate { demoTempl with params := [("cpa", [("start", .num 7)])] }).isNone = true := by decide

/-- … but a PLAIN section may be shared by a parameterised processor (which gets its copy) and a
    processor without parameters (which runs it as it is): the section stays -/
def demoShared : TSource :=
  { base := { rsize := some 8, iomode := some .sync,
              sections := [{ name := "work", lines :=
                [ { op := "entry", args := [.sym "top"] },
                  { labels := ["top"], op := "inc", args := [.reg 0] },
                  { op := "mov", args := [.out 0, .reg 0] },
                  { op := "j", args := [.sym "top"] } ] }],
              cps := [{ name := "m1", romcode := "work" }, { name := "zed", romcode := "work" }] },
    params := [("m1", [("gain", .num 3)])] }
example : ((instantiate demoShared).map fun s => (s.sections.map (·.name), s.cps.map (·.romcode))) =
    some (["work", "work_templ_0"], ["work_templ_0", "work"]) := by decide
example : (match (instantiate demoShared).map (assemble · true) with | some (.ok bm) => bm.cps.map (·.prog.length) | _ => []) = [3, 3] := by decide

end BMV.Props.C05
