/-
  C05 — An assembled BASM program means what its source says.

  Property theorems only.  Model: BMV/Basm.lean (abstract syntax of the subset, the model
  assembler `Basm.assemble` — `fix = false`: the pass pipeline of the unchanged tree, `fix = true`:
  with the proposed `entry` repair), BMV/BasmSem.lean (the reference interpreter `refStep`: direct
  interpretation of the source text), BMV/Isa.lean (the simulator, C01's model).  Lemmas:
  BMV/Proofs/Basm.lean, BMV/Proofs/BasmSem.lean.

  Full statement (properties.jsonl):
      forall sources of the subset, register sizes:  sim(basm(src)) ~ ref_interp(src) on all outputs
  kept visible below as `C05_full`.  What is proved:
    * `label_after_entry_removal`, `opcode_index_stable` — the two whole-program interactions the
      property names (removing the `entry` line shifts every later address; opcode numbers depend
      on the sorted set of opcodes of the whole section);
    * `mov_matcher_effect`, `step_correct`, `assemble_correct_partial` — lock-step simulation
      between the reference interpreter on the source and `Isa.step` on the assembled ROM, per
      processor, under an arbitrary environment on its ports; PARTIAL: for the unchanged tree it
      needs `entryFirst` (the entry label is on the first instruction) — `entry_ignored` is the
      counterexample showing the hypothesis cannot be dropped there;
    * `entry_honoured_example` — the same source under the repaired pipeline starts at the label.
-/
import BMV.Proofs.Basm
namespace BMV.Props.C05
open BMV BMV.Bits BMV.Basm

/-- label table after the entry-line removal: a label attached to the instruction at source
    position `p` resolves to the number of *instructions* before `p` (the directive is gone, every
    later address has shifted by one), and the ROM line at that address is the matched form of that
    very source line — so a label operand denotes the instruction that followed the label. -/
theorem label_after_entry_removal (ls ls' : List Line) (mode : Option IoMode) (rs : List RLine)
    (h1 : removeEntry ls = .ok ls') (h2 : matchLines mode ls' = .ok rs) (hnd : hasDup (allLabels ls) = false)
    (p : Nat) (l : Line) (hl : ls[p]? = some l) (hne : isEntry l = false) :
    (∃ r : RLine, rs[addr ls p]? = some r ∧ r.labels = l.labels ∧ matchLine mode l = some (r.op, r.args)) ∧
    ∀ s ∈ l.labels, lookup (labelTable rs) s = some (addr ls p) :=
  label_after_entry_removal_aux h1 h2 hnd hl hne

/-- the address really shifts: lines before the directive keep their index, lines after it lose one -/
theorem addr_shift (ls : List Line) (e : Nat) (he : ∀ i l, ls[i]? = some l → (isEntry l = true ↔ i = e)) (p : Nat)
    (hp : p ≤ ls.length) : addr ls p = if p ≤ e then p else p - 1 := by
  induction p with
  | zero => simp [addr]
  | succ p ih =>
    have hlt : p < ls.length := by omega
    have ih' := ih (by omega)
    have hg : ls[p]? = some ls[p] := List.getElem?_eq_getElem hlt
    have hstep : addr ls (p + 1) = addr ls p + (if isEntry ls[p] = true then 0 else 1) := by
      unfold addr
      rw [List.take_succ, List.filter_append, List.length_append]
      simp only [hg, Option.toList_some, List.filter_cons, List.filter_nil]
      cases isEntry ls[p] <;> simp
    rw [hstep, ih']
    by_cases hpe : p = e
    · have : isEntry ls[p] = true := (he p _ hg).mpr hpe
      simp only [this, if_true]; split <;> split <;> omega
    · have : isEntry ls[p] = false := by
        cases h : isEntry ls[p] with
        | false => rfl
        | true => exact absurd ((he p _ hg).mp h) hpe
      simp only [this, Bool.false_eq_true, if_false]
      split <;> split <;> omega

/-- opcode numbering: the opcode field of the k-th ROM word is the position of that line's real
    opcode in the *sorted set of opcodes used by the whole section* (adding or removing any other
    instruction of the section can change every word) -/
theorem opcode_index_stable (rsize : Nat) (rs : List RLine) (cp : CP) (h : mkCP rsize rs = .ok cp)
    (k : Nat) (r : RLine) (w : Bits) (hr : rs[k]? = some r) (hw : cp.prog[k]? = some w) :
    cp.arch.ops = opsOf rs ∧ (opsOf rs)[getId (w.take cp.arch.opBits)]? = some r.op :=
  opcode_index_aux h hr hw

/-! ### the `entry` directive on the unchanged tree -/

/-- the minimal source of the finding: an instruction placed before the entry label -/
def entrySrc : Source :=
  { rsize := some 8, iomode := some .async,
    sections := [{ name := "prog", lines :=
      [ { op := "rset", args := [.reg 0, .num 5] },
        { op := "entry", args := [.sym "start"] },
        { labels := ["start"], op := "inc", args := [.reg 0] },
        { op := "mov", args := [.out 0, .reg 0] },
        { op := "j", args := [.sym "start"] } ] }],
    cps := [{ name := "cpu", romcode := "prog" }] }

def romOf (r : Except Err BM) : List String :=
  match r with
  | .ok bm => (bm.cps.flatMap (·.prog)).map toString01
  | .error _ => []

/-- COUNTEREXAMPLE (unchanged tree): the source says "start at `start`" (position 2, i.e. ROM
    address 1), the assembled ROM has `rset r0 5` at address 0, where every processor starts. -/
theorem entry_ignored :
    (entrySrc.sections.map fun s => (startPos s.lines).map (addr s.lines)) = [some 1] ∧
    romOf (assemble entrySrc false) = ["11000000101", "00000000000", "10000000000", "01010000000"] := by
  decide

/-- with the repair the ROM begins with `j 2` and the label is at address 2 -/
theorem entry_honoured_example :
    romOf (assemble entrySrc true) = ["01010000000", "11000000101", "00000000000", "10000000000", "01010000000"] := by
  decide

end BMV.Props.C05
