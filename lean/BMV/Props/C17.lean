/-
  C17 — Finished simulations leave no workers behind.   (claimed level: PARTIAL)

  Statement (properties.jsonl): running a simulation to completion releases everything it started:
    forall n . forall sequences of n calls to SinglePipelineSimulate / Fitness_default :
      goroutines_after - goroutines_before <= c (independent of n).

  What is proved here is the *lifecycle logic* on the model BMV.Lifecycle (workers = loops blocked on
  a channel; the Go scheduler = the list of `Act`s, arbitrary): with an exit path no worker outlives
  the shutdown of its call under any schedule and the workers' own moves terminate; without an exit
  path every creation site grows by exactly the number of `go` statements executed.  Which of the two
  regimes the current tree is in is read from the regenerated table BMV/Gen/GoStmts.lean
  (`genCfg`, `genShut`), whose shape is tied to the model's table by `gostmts_match_sites`.
  That a real goroutine is live or gone is runtime truth: it is measured by the harness (goroutine
  profile per creation site) and compared with these counts on every run — that part is the
  "partial" residue.
-/
import BMV.Proofs.Lifecycle
import BMV.LifecycleGen
namespace BMV.Props.C17
open BMV.Lifecycle

/-! ### with an exit path -/

/-- `live_after_runs`, general form.  For every configuration, every start state and every schedule
    (any interleaving of spawns, steps, shutdowns and exits of any number of sequential or
    overlapping calls): once the workers have run as far as they can (`quiescent`), no worker of a
    site that has an exit path belongs to a call that was shut down. -/
theorem live_after_runs (cfg : Cfg) (s₀ : Sys) (as : List Act) (hq : quiescent cfg (run cfg s₀ as))
    (w : Worker) (hw : w ∈ (run cfg s₀ as).workers) (he : cfg.hasExit w.kind = true) :
    w.call ∉ (run cfg s₀ as).closed := by
  have := quiescent_closed cfg _ hq w hw he
  simpa using this

/-- `live_after_runs`, the property's own form: if every site has an exit path and every call that
    still has a worker has been shut down, then after any schedule the quiescent state has no live
    worker at all: live = live of the initial state = 0, independent of the number of calls. -/
theorem live_after_runs_all (cfg : Cfg) (hall : ∀ k, cfg.hasExit k = true) (as : List Act)
    (hshut : ∀ w ∈ (run cfg init as).workers, w.call ∈ (run cfg init as).closed)
    (hq : quiescent cfg (run cfg init as)) :
    live (run cfg init as) = live init := by
  have : (run cfg init as).workers = [] := by
    cases h : (run cfg init as).workers with
    | nil => rfl
    | cons w ws =>
      have hw : w ∈ (run cfg init as).workers := by rw [h]; simp
      exact absurd (hshut w hw) (live_after_runs cfg init as hq w hw (hall _))
  simp only [live, this]; rfl

/-- worker-loop termination: under any scheduling of the workers' own moves (answer / exit), at most
    `measure` ≤ 2·live moves happen — so a quiescent state is always reached; no fairness needed -/
theorem workers_terminate (cfg : Cfg) (s : Sys) (is : List Act) (h : enabledRun cfg s is) :
    is.length ≤ 2 * live s := by
  have h1 := enabledRun_length cfg is s h
  have h2 := measure_le s.workers
  simp only [live]; omega

/-- after a shutdown the only move of an idle worker with an exit path is `exit`, and it is enabled
    (tokens are no longer delivered, it holds none) -/
theorem exit_only_after_shutdown (cfg : Cfg) (s : Sys) (i : Nat) (w : Worker)
    (hg : getAt s.workers i = some w) (he : cfg.hasExit w.kind = true)
    (hc : s.closed.contains w.call = true) (hb : w.busy = false) :
    enabled cfg s (.exit i) = true ∧ enabled cfg s (.token i) = false ∧ enabled cfg s (.answer i) = false := by
  have hc' : w.call ∈ s.closed := by simpa using hc
  simp [enabled, hg, he, hc', hb]

/-- the settle period of the harness reaches a quiescent state -/
theorem settle_is_quiescent (cfg : Cfg) (s : Sys) : quiescent cfg (settle cfg s) :=
  settle_quiescent cfg s

/-- the call shape of `SinglePipelineSimulate` with the shutdown (launch, any number of ticks,
    shutdown): n sequential calls on any machine size leave exactly the initial number of workers -/
theorem live_after_seq_calls (cfg : Cfg) (hall : ∀ k, cfg.hasExit k = true) (P ticks c0 n : Nat) :
    live (seqBatch cfg P ticks true c0 n init) = live init := by
  suffices h : (seqBatch cfg P ticks true c0 n init).workers = [] by simp only [live, h]; rfl
  induction n with
  | zero => rfl
  | succ n ih =>
    simp only [seqBatch]
    exact simCall_settles_empty cfg hall _ P 0 ticks _ _ ih

/-! ### without an exit path (the pinned tree) -/

/-- a creation site without exit path holds, after any schedule whatsoever, exactly the workers it
    had plus one per `go` statement executed -/
theorem leak_without_exit_any_schedule (cfg : Cfg) (k : Kind) (hk : cfg.hasExit k = false)
    (s₀ : Sys) (as : List Act) :
    liveOf k (run cfg s₀ as) = liveOf k s₀ + spawnedOf k as :=
  run_count_noexit cfg k hk as s₀

/-- `leak_without_exit`: when `Processor_execute` and `EmuDriverDispatcher` have no exit path, n
    sequential simulations of a P-processor machine leave exactly n·P workers and n dispatchers
    behind — for every n, P, number of ticks, and whether or not a shutdown is attempted -/
theorem leak_without_exit (cfg : Cfg) (hp : cfg.proc = false) (hd : cfg.disp = false)
    (P ticks c0 n : Nat) (shut : Bool) (s : Sys) :
    liveOf .proc (seqBatch cfg P ticks shut c0 n s) = liveOf .proc s + n * P
    ∧ liveOf .disp (seqBatch cfg P ticks shut c0 n s) = liveOf .disp s + n := by
  induction n with
  | zero => simp [seqBatch]
  | succ n ih =>
    simp only [seqBatch]
    rw [settle_count_noexit cfg .proc hp, settle_count_noexit cfg .disp hd,
      run_count_noexit cfg .proc hp, run_count_noexit cfg .disp hd,
      spawnedOf_simCall, spawnedOf_simCall, spawnedOf_launch, spawnedOf_launch, ih.1, ih.2]
    simp only [reduceCtorEq, if_false, if_true, Nat.zero_add, Nat.add_zero, Nat.mul_one,
      Nat.mul_zero]
    constructor
    · rw [Nat.succ_mul]; omega
    · omega

/-- the known-finding text as a theorem: on the pinned lifecycle the number of live goroutines after
    n calls from a fresh process is exactly n·(P+1) -/
theorem leak_without_exit_total (P ticks c0 n : Nat) (shut : Bool) :
    live (seqBatch pinned P ticks shut c0 n init) = n * (P + 1) := by
  have h := leak_without_exit pinned rfl rfl P ticks c0 n shut init
  have hz : ∀ k, k ≠ Kind.proc → k ≠ Kind.disp → liveOf k (seqBatch pinned P ticks shut c0 n init) = 0 := by
    intro k h1 h2
    induction n with
    | zero => rfl
    | succ n ih =>
      simp only [seqBatch]
      have a := settle_count_le pinned k (run pinned (seqBatch pinned P ticks shut c0 n init)
        (simCall (c0 + n) P 0 ticks (procIdx (seqBatch pinned P ticks shut c0 n init).workers.length P) shut))
      have b := run_count_le pinned k (simCall (c0 + n) P 0 ticks
        (procIdx (seqBatch pinned P ticks shut c0 n init).workers.length P) shut)
        (seqBatch pinned P ticks shut c0 n init)
      rw [spawnedOf_simCall, spawnedOf_launch] at b
      have ih' := ih (leak_without_exit pinned rfl rfl P ticks c0 n shut init)
      cases k <;> simp_all
  have he := hz .emu (by decide) (by decide)
  have hr := hz .req (by decide) (by decide)
  have hl := hz .pool (by decide) (by decide)
  have e1 := h.1
  have e2 := h.2
  have z1 : liveOf .proc init = 0 := rfl
  have z2 : liveOf .disp init = 0 := rfl
  simp only [liveOf] at e1 e2 he hr hl z1 z2
  unfold live
  rw [length_eq_counts, Nat.mul_add]; omega

/-- overlapping calls leak the same: k simulations launched together, stepped, and (not) shut down -/
theorem leak_without_exit_overlapping (cfg : Cfg) (hp : cfg.proc = false) (hd : cfg.disp = false)
    (P ticks c0 k : Nat) (shut : Bool) (s : Sys) :
    liveOf .proc (parBatch cfg P ticks shut c0 k s) = liveOf .proc s + spawnedOf .proc (parActs P ticks shut c0 k s.workers.length)
    ∧ liveOf .disp (parBatch cfg P ticks shut c0 k s) = liveOf .disp s + spawnedOf .disp (parActs P ticks shut c0 k s.workers.length) := by
  simp only [parBatch]
  rw [settle_count_noexit cfg .proc hp, settle_count_noexit cfg .disp hd,
    run_count_noexit cfg .proc hp, run_count_noexit cfg .disp hd]
  exact ⟨rfl, rfl⟩

/-! ### regenerated obligations (BMV/Gen/GoStmts.lean is rewritten from the Go source on every run) -/

/-- the `go` statements of the anchored files are exactly the model's creation sites: a new `go`
    statement, a removed one or a renamed worker function breaks this obligation -/
theorem gostmts_match_sites :
    BMV.Gen.GoStmts.goStmts.map (fun g => (g.file, g.encl, g.callee))
      = sites.map (fun s => (s.file, s.encl, s.callee)) := by decide

/-- the functions that launch a VM are exactly the ones the model knows as call owners -/
theorem launchers_match :
    BMV.Gen.GoStmts.launchers.map (fun (f, n, _) => (f, n)) = launcherNames := by decide

/-- the current tree is in one of the two regimes the theorems above cover for the simulator's
    workers: both `Processor_execute` and `EmuDriverDispatcher` have an exit path and every launching
    function shuts its VM down (then `live_after_seq_calls`/`live_after_runs_all` apply), or neither
    has one (then `leak_without_exit` applies).  A half-repaired tree breaks this obligation. -/
theorem tree_regime :
    (genCfg.proc = true ∧ genCfg.disp = true ∧ genCfg.req = true ∧ genCfg.pool = true
        ∧ launcherNames.all (fun (_, n) => genShut n) = true)
    ∨ (genCfg.proc = false ∧ genCfg.disp = false ∧ genCfg.req = true ∧ genCfg.pool = true
        ∧ launcherNames.all (fun (_, n) => !genShut n) = true) := by decide

/-! ### non-vacuity -/

/-- a concrete overlapping schedule of two calls (P = 2 and P = 1) with every site exiting: the
    hypotheses of `live_after_runs_all` are met and the final state is empty -/
def demoActs : List Act :=
  launch 0 2 0 ++ launch 1 1 0 ++ [.token 1, .token 4, .answer 4, .token 2, .answer 1, .answer 2,
    .shutdown 0, .exit 0, .token 2, .answer 2, .exit 0, .exit 0, .shutdown 1, .exit 1, .exit 0]

example : (run allExit init demoActs).workers = [] := by decide
example : ∀ w ∈ (run allExit init demoActs).workers, w.call ∈ (run allExit init demoActs).closed := by
  decide
example : quiescent allExit (run allExit init demoActs) := by
  have : (run allExit init demoActs).workers = [] := by decide
  intro i; simp [enabled, this, getAt]
/-- the same schedule on the pinned lifecycle leaves 3 + 2 goroutines -/
example : live (run pinned init demoActs) = 5 := by decide
example : liveOf .proc (seqBatch pinned 2 1 false 0 2 init) = 4 := by decide
example : live (seqBatch allExit 2 1 true 0 2 init) = 0 := by decide
/-- an enabled worker-only run exists (termination theorem is not vacuous) -/
example : enabledRun allExit (run allExit init (launch 0 1 0 ++ [.token 1, .shutdown 0]))
    [.answer 1, .exit 1, .exit 0] :=
  ⟨by decide, by decide, by decide, by decide, by decide, by decide, trivial⟩

end BMV.Props.C17
