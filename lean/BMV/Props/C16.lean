/-
  C16 — Every machine a front-end emits is well formed.

  Property theorems only.  Model: BMV/WfBM.lean (the machine `BM`, the independent validator
  `WfBM`, the control-flow closure `CfClosed`), BMV/Basm.lean (the model assembler of the C05
  subset), BMV/Isa.lean (the simulator's step, C01's model).  Lemmas: BMV/Proofs/WfBM.lean,
  BMV/Proofs/Basm.lean.  Reused: BMV.Props.C03 (fixed width, round trip, range rejection),
  BMV.Props.C10 / Proofs.Topology (well-formedness of the bond graph under the API edits).

  What is proved
    * the validator is SOUND for what the simulator relies on (`wfbm_decode_safe`,
      `wfbm_sim_safe`, `wfbm_run_safe`): on a validated processor `Isa.step` never fails for a
      decoding or indexing reason — the opcode index is in range, every register / port index it
      computes is inside the vector it indexes — and, when jump targets are closed, never fails
      at all, for every environment and for ever;
    * the model assembler only emits validated machines (`assemble_wf`) and refuses operands that
      cannot fit (`assemble_rejects_overflow`, `mkcp_rejects_overflow`);
    * `Needed_bits` is exact at the power-of-two boundaries.
  That the model assembler is the real one is C05's exact structural tie; for the other front-ends
  the validator's verdict is per emitted instance (tools/props/c16.py).
-/
import BMV.Proofs.WfBM
import BMV.Proofs.Basm
namespace BMV.Props.C16
open BMV BMV.Bits BMV.WfBM BMV.Basm

/-- what the environment may do between two steps: present new values / flags on the ports
    (vectors of the architecture's size) -/
def withEnv (s : VmState) (ins : List Nat) (iv orr : List Bool) : VmState :=
  { s with inputs := ins, inValid := iv, outRecv := orr }

structure EnvOk (a : Arch) (ins : List Nat) (iv orr : List Bool) : Prop where
  ins : ins.length = a.n
  iv : iv.length = a.n
  orr : orr.length = a.m

theorem inv_withEnv {a : Arch} {B : Nat} {s : VmState} {ins : List Nat} {iv orr : List Bool}
    (h : VmInv a B s) (he : EnvOk a ins iv orr) : VmInv a B (withEnv s ins iv orr) := by
  obtain ⟨h1, h2, h3, h4, h5, h6, h7, h8⟩ := h
  exact ⟨h1, h2, he.ins, he.iv, h5, h6, h7, he.orr⟩

/-- the hypotheses under which `BMV.Isa` speaks for the processor: harvard mode, a register size
    the Go arithmetic supports, opcodes whose simulation has no data-dependent failure -/
structure Simulable (cp : CP) : Prop where
  mode : cp.arch.mode = .ha
  std : Isa.stdSize cp.arch.rsize = true
  ops : ∀ op ∈ cp.arch.ops, op ∈ safeOps

theorem cp_words_ok {bm : BM} (h : WfBM bm = true) {cp : CP} (hcp : cp ∈ bm.cps) :
    cp.prog.all (wordOk cp.arch) = true := by
  unfold WfBM at h
  rw [Bool.and_eq_true, Bool.and_eq_true, List.all_eq_true] at h
  have := h.1.1 cp hcp
  unfold wfCP at this
  simp only [Bool.and_eq_true] at this
  exact this.1.1.2

/-- SOUNDNESS OF THE VALIDATOR, decoding half: on a processor of a validated machine a step from
    any state with well-sized vectors and a program counter inside the program succeeds — the
    opcode decodes, every register and port index is in range — and leaves well-sized vectors.
    (The only thing that can still go wrong later is a program counter beyond the program, which
    needs `CfClosed`: next theorem.) -/
theorem wfbm_decode_safe (bm : BM) (h : WfBM bm = true) (cp : CP) (hcp : cp ∈ bm.cps) (hs : Simulable cp)
    (s : VmState) (hpc : s.pc ≤ cp.prog.length)
    (hinv : VmInv cp.arch (max cp.prog.length (2 ^ cp.arch.o)) s) :
    ∃ s', Isa.step cp.arch cp.prog s = some s' ∧ VmInv cp.arch (max cp.prog.length (2 ^ cp.arch.o)) s' := by
  refine step_safe_gen hs.std hs.ops (cp_words_ok h hcp) ?_ (Nat.le_max_left _ _) hpc hinv
  intro w _ _
  exact Nat.le_trans (Nat.le_of_lt (field_lt _ _ _)) (Nat.le_max_right _ _)

/-- SOUNDNESS OF THE VALIDATOR: on a processor of a validated, control-flow-closed machine a step
    from any state satisfying the shape invariant succeeds and re-establishes the invariant. -/
theorem wfbm_sim_safe (bm : BM) (h : WfBM bm = true) (hcf : CfClosed bm = true) (cp : CP) (hcp : cp ∈ bm.cps)
    (hs : Simulable cp) (s : VmState) (hinv : VmInv cp.arch cp.prog.length s) :
    ∃ s', Isa.step cp.arch cp.prog s = some s' ∧ VmInv cp.arch cp.prog.length s' := by
  refine step_safe_gen hs.std hs.ops (cp_words_ok h hcp) ?_ (Nat.le_refl _) hinv.pc hinv
  intro w hw hop
  unfold CfClosed at hcf
  rw [List.all_eq_true] at hcf
  have := List.all_eq_true.mp (hcf cp hcp) w hw
  exact jz_target_closed hs.mode this hop

/-- the simulation of one processor under an arbitrary environment stream -/
def runEnv (a : Arch) (prog : List Bits) (env : Nat → List Nat × List Bool × List Bool) : Nat → Option VmState
  | 0 => some (Isa.init a)
  | t + 1 => (runEnv a prog env t).bind fun s => Isa.step a prog (withEnv s (env t).1 (env t).2.1 (env t).2.2)

/-- … lifted to every finite run from the initial state, under every environment: the simulator
    never returns an error on a validated, control-flow-closed machine. -/
theorem wfbm_run_safe (bm : BM) (h : WfBM bm = true) (hcf : CfClosed bm = true) (cp : CP) (hcp : cp ∈ bm.cps)
    (hs : Simulable cp) (env : Nat → List Nat × List Bool × List Bool)
    (henv : ∀ t, EnvOk cp.arch (env t).1 (env t).2.1 (env t).2.2) (t : Nat) :
    ∃ s, runEnv cp.arch cp.prog env t = some s ∧ VmInv cp.arch cp.prog.length s := by
  induction t with
  | zero => exact ⟨_, rfl, inv_init _ _⟩
  | succ t ih =>
    obtain ⟨s, hs1, hs2⟩ := ih
    obtain ⟨s', h1, h2⟩ := wfbm_sim_safe bm h hcf cp hcp hs _ (inv_withEnv hs2 (henv t))
    exact ⟨s', by simp [runEnv, hs1, h1], h2⟩

/-- every machine the model assembler emits — with or without the `entry` repair — validates -/
theorem assemble_wf (src : Source) (fix : Bool) (bm : BM) (h : assemble src fix = .ok bm) (hsz : SizeOk src) :
    WfBM bm = true := Basm.assemble_wf h hsz

/-- an operand that cannot fit its field makes the processor unassemblable: a number that needs
    more bits than the field has (immediate ≥ 2^Rsize; jump target / ROM address ≥ 2^O where
    O = neededBits(#lines) is derived from the very same body).  Generic over the layout table. -/
theorem mkcp_rejects_overflow (rsize : Nat) (rs : List RLine) (r : RLine) (hr : r ∈ rs)
    (pre post : List Arg) (n : Nat) (hargs : r.args = pre ++ .num n :: post)
    (fs : List FieldKind) (f : FieldKind) (hlay : layout r.op = some fs) (hlen : lenientArity r.op = false)
    (hf : fs[pre.length]? = some f) (hbig : ¬ n < 2 ^ (mkArch rsize rs).width f) :
    ∀ cp, mkCP rsize rs ≠ .ok cp :=
  Basm.mkCP_rejects_overflow hr pre post n hargs fs f hlay hlen hf hbig

/-- … and so is the whole source: if the body of some processor of `src` has such a line,
    `assemble` answers with an error, never with a machine. -/
theorem assemble_rejects_overflow (src : Source) (fix : Bool) (rs : List RLine)
    (hbody : ∀ ss, mapE (secPrep fix src) src.sections = .ok ss → ∃ c ∈ src.procs, cpBody ss c = .ok rs)
    (r : RLine) (hr : r ∈ rs) (pre post : List Arg) (n : Nat) (hargs : r.args = pre ++ .num n :: post)
    (fs : List FieldKind) (f : FieldKind) (hlay : layout r.op = some fs) (hlen : lenientArity r.op = false)
    (hf : fs[pre.length]? = some f)
    (hbig : ∀ rsize, src.rsize = some rsize → ¬ n < 2 ^ (mkArch rsize rs).width f) :
    ∀ bm, assemble src fix ≠ .ok bm :=
  Basm.assemble_rejects_overflow hbody hr pre post n hargs fs f hlay hlen hf hbig

/-- `Needed_bits`: the least width that addresses n items (1 ≤ n ≤ 2^63) -/
theorem neededBits_spec (n : Nat) (h1 : 1 ≤ n) (h2 : n ≤ 2 ^ 63) :
    1 ≤ neededBits n ∧ neededBits n ≤ 63 ∧ n ≤ 2 ^ neededBits n ∧ ∀ j, 1 ≤ j → j < neededBits n → 2 ^ j < n :=
  Basm.neededBits_spec h1 h2

/-- boundary: regNum + 1 = 2^k registers (or #lines = 2^k) need exactly k bits … -/
theorem neededBits_pow2 (k : Nat) (h1 : 1 ≤ k) (h2 : k ≤ 63) : neededBits (2 ^ k) = k := Basm.neededBits_pow2 h1 h2

/-- … and one more needs k + 1 -/
theorem neededBits_pow2_succ (k : Nat) (h1 : 1 ≤ k) (h2 : k < 63) : neededBits (2 ^ k + 1) = k + 1 :=
  Basm.neededBits_pow2_succ h1 h2

/-! ### non-vacuity -/

def demoSrc : Source :=
  { rsize := some 8, iomode := some .async,
    sections := [{ name := "prog", lines :=
      [ { op := "entry", args := [.sym "top"] },
        { labels := ["top"], op := "mov", args := [.reg 3, .num 255] },
        { op := "inc", args := [.reg 0] },
        { op := "mov", args := [.out 0, .reg 0] },
        { op := "jz", args := [.reg 3, .sym "top"] },
        { op := "j", args := [.sym "top"] } ] }],
    cps := [{ name := "cpu", romcode := "prog" }],
    ioatts := [{ name := "o", cp := "cpu", isInput := false, index := 0 }, { name := "o", cp := "bm", isInput := false, index := 0 }] }

def demoBM : BM := match assemble demoSrc with | .ok bm => bm | .error _ => default

example : (assemble demoSrc).toOption.isSome = true := by decide
example : WfBM demoBM = true := by decide
example : CfClosed demoBM = true := by decide
example : demoBM.cps.map (fun cp => [cp.arch.r, cp.arch.n, cp.arch.m, cp.arch.o, cp.prog.length]) = [[2, 0, 1, 3, 5]] := by decide
example : demoBM.cps.map (fun cp => cp.arch.ops) = [["inc", "j", "jz", "r2o", "rset"]] := by decide
-- the same source with an immediate one too large is refused
example : (assemble { demoSrc with sections := [{ name := "prog", lines :=
      [ { op := "entry", args := [.sym "top"] }, { labels := ["top"], op := "mov", args := [.reg 3, .num 256] } ] }] }).toOption.isNone = true := by decide
-- a machine the validator refuses: a ROM word one bit too long (what the unrepaired C03 assembler emitted)
example : WfBM { demoBM with cps := demoBM.cps.map fun cp => { cp with prog := cp.prog.map fun w => w ++ [false] } } = false := by decide
-- … and one with an input index beyond N
example : wordOk { rsize := 8, r := 1, n := 1, m := 0, l := 0, o := 1, ops := ["i2r"] } (ofString01 "001") = false := by decide
example : neededBits 8 = 3 ∧ neededBits 9 = 4 ∧ neededBits 1 = 1 := by decide

end BMV.Props.C16
