/-
  C15 — Simulation rules are applied exactly as written.

  Property theorems only (helper lemmas: BMV/Proofs/Simbox.lean; model: BMV/Simbox.lean, a
  hand-written model of pkg/simbox/simbox.go and of the rule compilation / tick loop of the
  bondmachine simulator, tied to the code by the correspondence check of tools/props/c15.py).

  Statement (properties.jsonl): every simbox rule prints to a string that parses back to the same
  rule, and rule files survive save/load.  During simulation a set rule changes exactly the named
  object to exactly the stated value at exactly the stated tick (or every period), get/show rules
  report the value the object has at that tick, on-valid/on-exit rules fire exactly at those
  events, and a suspended rule has no effect at all.

  Part 1 (rule text, rule list): full strength.
  Part 2 (application): stated for every machine (`step : Vm → Vm` arbitrary) about the state the
  machine step is called on (`injected`) and about one iteration of the loop (`iteration`).
-/
import BMV.Proofs.Simbox
namespace BMV.Props.C15
open BMV.Simbox

/-! ## Part 1 — rule text -/

/-- printing then parsing a rule `Add` can produce returns the rule: on the *string*, through the
    model of `strings.Split` -/
theorem parse_print (r : Rule) (h : RuleWF r) : addStr (ruleString r) = some r :=
  addStr_ruleString r h

/-- the same on words (`parseRule` is what `Add` does after `strings.Split`) -/
theorem parse_print_words (r : Rule) (h : RuleWF r) : parseRule (ruleWords r) = some r :=
  parseRule_ruleWords r h

/-- `RuleWF` is an upper bound of the image of `Add` ... -/
theorem add_image_wf (s : String) (r : Rule) (h : addStr s = some r) : RuleWF r :=
  addStr_wf s r h

/-- ... and a lower bound: `RuleWF` is *exactly* the set of rules `Add` produces -/
theorem wf_in_image (r : Rule) (h : RuleWF r) : ∃ s, addStr s = some r :=
  ⟨ruleString r, addStr_ruleString r h⟩

/-- for every accepted string: printing the accepted rule gives a string that is accepted as the
    same rule, and printing is then a fixed point (idempotent normal form) -/
theorem print_parse (s : String) (r : Rule) (h : addStr s = some r) :
    addStr (ruleString r) = some r ∧
      ∀ r', addStr (ruleString r) = some r' → ruleString r' = ruleString r := by
  have := addStr_ruleString r (addStr_wf s r h)
  refine ⟨this, fun r' h' => ?_⟩
  rw [this] at h'; injection h' with h'; rw [h']

/-- the decimal tick survives the `uint64 → int → Itoa → Atoi → uint64` journey for *every*
    uint64 (ticks ≥ 2^63 print as negative numbers and come back) -/
theorem tick_text_roundtrip (t : Nat) (h : t < two64) :
    (atoi (itoa (intOfTick t))).map tickOfInt = some t := by
  have hr := intOfTick_range t h
  rw [atoi_itoa _ hr.1 hr.2]; simp [tick_roundtrip t h]

/-- `strings.Split` inverts `strings.Join` on non-empty lists of colon-free words (proved for the
    model's split/join; that Go's agree with them is checked by the correspondence) -/
theorem split_join (ws : List String) (hne : ws ≠ []) (h : ∀ w ∈ ws, colonFree w) :
    splitStr (joinStr ws) = ws := splitStr_joinStr ws hne h

/-! ## Part 1 — rule list -/

/-- suspending an active rule and reactivating it gives back the list -/
theorem suspend_reactivate_id (b : Box) (i : Nat) (hi : i < b.length)
    (hact : ∀ r, b[i]? = some r → r.suspended = false) :
    (suspend b i).bind (fun b' => reactivate b' i) = some b :=
  suspend_then_reactivate b i hi hact

/-- `Suspend` touches nothing but the flag of rule `i` -/
theorem suspend_frame (b b' : Box) (i : Nat) (h : suspend b i = some b') :
    b'.length = b.length ∧
      ∀ j, b'[j]? = if j = i then (b[j]?).map (setSusp true) else b[j]? :=
  ⟨suspend_length h, suspend_getElem? h⟩

/-- `Reactivate` touches nothing but the flag of rule `i` -/
theorem reactivate_frame (b b' : Box) (i : Nat) (h : reactivate b i = some b') :
    b'.length = b.length ∧
      ∀ j, b'[j]? = if j = i then (b[j]?).map (setSusp false) else b[j]? :=
  ⟨reactivate_length h, reactivate_getElem? h⟩

/-- `Del i` removes exactly rule `i`: rules below keep their index, rules above move down by one -/
theorem del_shifts (b b' : Box) (i : Nat) (h : del b i = some b') :
    b'.length + 1 = b.length ∧ ∀ j, b'[j]? = if j < i then b[j]? else b[j + 1]? :=
  del_spec h

/-- `Add` appends one active rule of the image and changes nothing else -/
theorem add_appends (b b' : Box) (s : String) (h : add b s = some b') :
    ∃ r, addStr s = some r ∧ b' = b ++ [r] ∧ RuleWF r :=
  add_spec h

/-- an out-of-range index is rejected by all three index operations -/
theorem index_rejected (b : Box) (i : Nat) (h : b.length ≤ i) :
    del b i = none ∧ suspend b i = none ∧ reactivate b i = none := by
  have : ¬ i < b.length := by omega
  simp [del, suspend, reactivate, this]

/-- list invariant: after any history of edits from the empty list every rule is a rule of the
    image of `Add` up to its suspension flag ... -/
theorem history_wf (es : List Edit) : BoxWF (runEdits [] es) :=
  boxWF_runEdits es [] (fun _ h => by cases h)

/-- ... hence the whole list survives being listed and typed in again (`rebuild` = add every
    printed rule, suspend the ones marked suspended) -/
theorem history_rebuild (es : List Edit) : rebuild (runEdits [] es) = some (runEdits [] es) :=
  rebuild_id _ (history_wf es)

/-- every rule of every reachable list prints and parses back to itself up to the flag -/
theorem history_parse_print (es : List Edit) (r : Rule) (h : r ∈ runEdits [] es) :
    addStr (ruleString r) = some (setSusp false r) := by
  have := addStr_ruleString _ (history_wf es r h)
  rwa [ruleString_setSusp] at this

/-! ### non-vacuity (part 1) -/

example : RuleWF ⟨.abs, 100, .set, "i0", "42", false⟩ := by
  refine ⟨by decide, by decide, rfl, .inl ⟨.inl rfl, .inl rfl, by decide⟩⟩
example : ruleString ⟨.abs, 100, .set, "i0", "42", false⟩ = "absolute:100:set:i0:42" := by decide
example : ruleString ⟨.rel, two64 - 1, .get, "o1", "hex", false⟩ = "relative:-1:get:o1:hex" := by decide
example : RuleWF ⟨.notime, 0, .config, "get_all", "hex", false⟩ :=
  ⟨by decide, by decide, rfl, .inr (.inr ⟨rfl, rfl, rfl, .inl (by decide)⟩)⟩
example : RuleWF ⟨.onExit, 0, .show, "o0", "", false⟩ :=
  ⟨by decide, by decide, rfl, .inr (.inl ⟨.inr (.inr rfl), .inr rfl, rfl⟩)⟩
/-- a rule outside the image that does *not* round trip: `Rule.String` drops the extra of a plain option -/
example : addStr (ruleString ⟨.notime, 0, .config, "show_pc", "x", false⟩)
    = some ⟨.notime, 0, .config, "show_pc", "", false⟩ := by decide

end BMV.Props.C15
