/-
  C15 — Simulation rules are applied exactly as written.

  Property theorems only (helper lemmas: BMV/Proofs/Simbox.lean; model: BMV/Simbox.lean, a
  hand-written model of pkg/simbox/simbox.go and of the rule compilation / tick loop of the
  bondmachine simulator, tied to the code by the correspondence check of tools/props/c15.py).

  Statement (properties.jsonl): every simbox rule prints to a string that parses back to the same
  rule, and rule files survive save/load.  During simulation a set rule changes exactly the named
  object to exactly the stated value at exactly the stated tick (or every period), get/show rules
  report the value the object has at that tick, on-valid/on-exit rules fire exactly at those
  events, and a suspended rule has no effect at all.

  Part 1 (rule text, rule list): full strength.
  Part 2 (application): stated for every machine (`step : Vm → Vm` arbitrary) about the state the
  machine step is called on (`injected`) and about one iteration of the loop (`iteration`).
-/
import BMV.Proofs.Simbox
namespace BMV.Props.C15
open BMV.Simbox

/-! ## Part 1 — rule text -/

/-- printing then parsing a rule `Add` can produce returns the rule: on the *string*, through the
    model of `strings.Split` -/
theorem parse_print (r : Rule) (h : RuleWF r) : addStr (ruleString r) = some r :=
  addStr_ruleString r h

/-- the same on words (`parseRule` is what `Add` does after `strings.Split`) -/
theorem parse_print_words (r : Rule) (h : RuleWF r) : parseRule (ruleWords r) = some r :=
  parseRule_ruleWords r h

/-- `RuleWF` is an upper bound of the image of `Add` ... -/
theorem add_image_wf (s : String) (r : Rule) (h : addStr s = some r) : RuleWF r :=
  addStr_wf s r h

/-- ... and a lower bound: `RuleWF` is *exactly* the set of rules `Add` produces -/
theorem wf_in_image (r : Rule) (h : RuleWF r) : ∃ s, addStr s = some r :=
  ⟨ruleString r, addStr_ruleString r h⟩

/-- for every accepted string: printing the accepted rule gives a string that is accepted as the
    same rule, and printing is then a fixed point (idempotent normal form) -/
theorem print_parse (s : String) (r : Rule) (h : addStr s = some r) :
    addStr (ruleString r) = some r ∧
      ∀ r', addStr (ruleString r) = some r' → ruleString r' = ruleString r := by
  have := addStr_ruleString r (addStr_wf s r h)
  refine ⟨this, fun r' h' => ?_⟩
  rw [this] at h'; injection h' with h'; rw [h']

/-- the decimal tick survives the `uint64 → int → Itoa → Atoi → uint64` journey for *every*
    uint64 (ticks ≥ 2^63 print as negative numbers and come back) -/
theorem tick_text_roundtrip (t : Nat) (h : t < two64) :
    (atoi (itoa (intOfTick t))).map tickOfInt = some t := by
  have hr := intOfTick_range t h
  rw [atoi_itoa _ hr.1 hr.2]; simp [tick_roundtrip t h]

/-- `strings.Split` inverts `strings.Join` on non-empty lists of colon-free words (proved for the
    model's split/join; that Go's agree with them is checked by the correspondence) -/
theorem split_join (ws : List String) (hne : ws ≠ []) (h : ∀ w ∈ ws, colonFree w) :
    splitStr (joinStr ws) = ws := splitStr_joinStr ws hne h

/-! ## Part 1 — rule list -/

/-- suspending an active rule and reactivating it gives back the list -/
theorem suspend_reactivate_id (b : Box) (i : Nat) (hi : i < b.length)
    (hact : ∀ r, b[i]? = some r → r.suspended = false) :
    (suspend b i).bind (fun b' => reactivate b' i) = some b :=
  suspend_then_reactivate b i hi hact

/-- `Suspend` touches nothing but the flag of rule `i` -/
theorem suspend_frame (b b' : Box) (i : Nat) (h : suspend b i = some b') :
    b'.length = b.length ∧
      ∀ j, b'[j]? = if j = i then (b[j]?).map (setSusp true) else b[j]? :=
  ⟨suspend_length h, suspend_getElem? h⟩

/-- `Reactivate` touches nothing but the flag of rule `i` -/
theorem reactivate_frame (b b' : Box) (i : Nat) (h : reactivate b i = some b') :
    b'.length = b.length ∧
      ∀ j, b'[j]? = if j = i then (b[j]?).map (setSusp false) else b[j]? :=
  ⟨reactivate_length h, reactivate_getElem? h⟩

/-- `Del i` removes exactly rule `i`: rules below keep their index, rules above move down by one -/
theorem del_shifts (b b' : Box) (i : Nat) (h : del b i = some b') :
    b'.length + 1 = b.length ∧ ∀ j, b'[j]? = if j < i then b[j]? else b[j + 1]? :=
  del_spec h

/-- `Add` appends one active rule of the image and changes nothing else -/
theorem add_appends (b b' : Box) (s : String) (h : add b s = some b') :
    ∃ r, addStr s = some r ∧ b' = b ++ [r] ∧ RuleWF r :=
  add_spec h

/-- an out-of-range index is rejected by all three index operations -/
theorem index_rejected (b : Box) (i : Nat) (h : b.length ≤ i) :
    del b i = none ∧ suspend b i = none ∧ reactivate b i = none := by
  have : ¬ i < b.length := by omega
  simp [del, suspend, reactivate, this]

/-- list invariant: after any history of edits from the empty list every rule is a rule of the
    image of `Add` up to its suspension flag ... -/
theorem history_wf (es : List Edit) : BoxWF (runEdits [] es) :=
  boxWF_runEdits es [] (fun _ h => by cases h)

/-- ... hence the whole list survives being listed and typed in again (`rebuild` = add every
    printed rule, suspend the ones marked suspended) -/
theorem history_rebuild (es : List Edit) : rebuild (runEdits [] es) = some (runEdits [] es) :=
  rebuild_id _ (history_wf es)

/-- every rule of every reachable list prints and parses back to itself up to the flag -/
theorem history_parse_print (es : List Edit) (r : Rule) (h : r ∈ runEdits [] es) :
    addStr (ruleString r) = some (setSusp false r) := by
  have := addStr_ruleString _ (history_wf es r h)
  rwa [ruleString_setSusp] at this

/-! ### non-vacuity (part 1) -/

example : RuleWF ⟨.abs, 100, .set, "i0", "42", false⟩ := by
  refine ⟨by decide, by decide, rfl, .inl ⟨.inl rfl, .inl rfl, by decide⟩⟩
example : ruleString ⟨.abs, 100, .set, "i0", "42", false⟩ = "absolute:100:set:i0:42" := by decide
example : ruleString ⟨.rel, two64 - 1, .get, "o1", "hex", false⟩ = "relative:-1:get:o1:hex" := by decide
example : RuleWF ⟨.notime, 0, .config, "get_all", "hex", false⟩ :=
  ⟨by decide, by decide, rfl, .inr (.inr ⟨rfl, rfl, rfl, .inl (by decide)⟩)⟩
example : RuleWF ⟨.onExit, 0, .show, "o0", "", false⟩ :=
  ⟨by decide, by decide, rfl, .inr (.inl ⟨.inr (.inr rfl), .inr rfl, rfl⟩)⟩
/-- a rule outside the image that does *not* round trip: `Rule.String` drops the extra of a plain option -/
example : addStr (ruleString ⟨.notime, 0, .config, "show_pc", "x", false⟩)
    = some ⟨.notime, 0, .config, "show_pc", "", false⟩ := by decide


/-! ## Part 2 — rule application

  `step : Vm → Vm` (the machine) is arbitrary in every statement.  `injected sh acts t vm` is the
  state `VM.Step` is called on in iteration `t` when the loop entered the iteration with `vm`;
  `iteration` is one pass of the loop body; `compile` is SimDrive.Init + SimReport.Init +
  SimConfig.Init.  Cells named by valid/recv mnemonics are excluded (`isFlag = false`): the code
  hands out detached pointers for them, see docs/C15.md (O2). -/
namespace Sim
open BMV.Simbox.Sim

/-- a suspended rule has no effect at all: compiling a rule list = compiling its active rules
    (drive, show and get reports, configuration), hence the whole simulation is the same -/
theorem suspended_no_effect (sh : Shape) (bondNames : List String) (b : Box) :
    compile sh bondNames b = compile sh bondNames (b.filter fun r => !r.suspended) :=
  compile_active sh bondNames b

/-- ... in particular suspending rule `i` is the same as deleting it, as far as simulation goes -/
theorem suspend_eq_delete (sh : Shape) (bondNames : List String) (b : Box) (i : Nat) (hi : i < b.length) :
    compile sh bondNames (b.modify i (setSusp true)) = compile sh bondNames (b.eraseIdx i) := by
  rw [compile_active, compile_active sh bondNames (b.eraseIdx i)]
  congr 1
  apply List.ext_getElem?
  intro j
  induction b generalizing i j with
  | nil => simp at hi
  | cons r rs ih =>
    cases i with
    | zero => simp [active, setSusp, List.filter_cons]
    | succ i =>
      simp only [List.modify_succ_cons, List.eraseIdx_cons_succ, active, List.filter_cons]
      have hi' : i < rs.length := by simpa using hi
      split
      · cases j with
        | zero => rfl
        | succ j => simpa [active] using ih i hi' j
      · simpa [active] using ih i hi' j

/-- the compiled set actions are exactly the active `absolute|relative : set` rules, each with its
    resolved element, its value reduced to the register type, its tick or period -/
theorem sets_are_the_rules (sh : Shape) (b : Box) (acts : List SetAct) (h : compileSets sh b = .ok acts)
    (a : SetAct) : a ∈ acts ↔ ∃ r ∈ b, isSetRule r ∧ setActOf sh r = some a :=
  compileSets_mem sh b acts h a

/-- tick arithmetic of set rules: an absolute rule fires at its tick only (`set_only_then`), a
    periodic rule with period p ≥ 1 at the multiples of p and a period of 0 never (`periodic_every_p`) -/
theorem set_only_then (a : SetAct) (t : Nat) (h : a.periodic = false) : a.fires t = true ↔ a.tick = t :=
  fires_abs a t h

theorem periodic_every_p (a : SetAct) (t : Nat) (h : a.periodic = true) :
    a.fires t = true ↔ a.tick ≠ 0 ∧ t % a.tick = 0 :=
  fires_periodic a t h

/-- what is applied at tick `t` is exactly the set of compiled actions that fire at `t` -/
theorem firing_exact (acts : List SetAct) (t : Nat) (a : SetAct) :
    a ∈ firing acts t ↔ a ∈ acts ∧ a.fires t = true :=
  mem_firing acts t a

/-- exactness and frame in one statement: in the state handed to the machine step every
    (non-flag) cell holds the value of the last firing action that names it, and is *unchanged*
    if no firing action names it — nothing else is injected, by any rule, at any tick -/
theorem set_exact_and_frame (sh : Shape) (acts : List SetAct) (t : Nat) (vm : Vm) (l : Loc) (hl : l.isFlag = false) :
    read (injected sh acts t vm) l =
      match (firing acts t).reverse.find? (fun a => a.loc = l) with
      | some a => (read vm l).map (fun _ => a.val)
      | none => read vm l :=
  read_injected sh acts t vm l hl

/-- `set_exact`: a firing action that is the only one naming its (existing) cell at that tick puts
    exactly its value there -/
theorem set_exact (sh : Shape) (acts : List SetAct) (t : Nat) (vm : Vm) (a : SetAct)
    (ha : a ∈ firing acts t) (hl : a.loc.isFlag = false)
    (huniq : ∀ b ∈ firing acts t, b.loc = a.loc → b.val = a.val)
    (x : Nat) (hx : read vm a.loc = some x) :
    read (injected sh acts t vm) a.loc = some a.val := by
  rw [read_injected sh acts t vm a.loc hl]
  cases hf : (firing acts t).reverse.find? (fun b => b.loc = a.loc) with
  | none =>
    have := List.find?_eq_none.mp hf a (by simpa using ha)
    simp at this
  | some b =>
    have hb := List.mem_of_find?_eq_some hf
    have hp := List.find?_some hf
    simp only [decide_eq_true_eq] at hp
    simp [hx, huniq b (by simpa using hb) hp]

/-- `set_exact`, end to end from the rule list: an active `absolute:t:set:o:v` rule whose object
    resolves to an existing non-flag element `l` and whose value reads as `n` makes the state the
    machine step is called on at tick `t` hold `n mod 2^w` in `l` (w = bits of the register type),
    provided no other set action firing at `t` writes a different value to `l`; for every loop
    state `vm`, every machine -/
theorem set_exact_rule (sh : Shape) (b : Box) (acts : List SetAct) (hc : compileSets sh b = .ok acts)
    (r : Rule) (hr : r ∈ b) (hs : r.suspended = false) (ha : r.action = .set) (htc : r.timec = .abs)
    (l : Loc) (n w : Nat) (hl : resolve sh r.object = some l) (hn : importNumber r.extra = some n)
    (hw : wbits sh.rsize = some w) (hflag : l.isFlag = false) (vm : Vm) (x : Nat) (hx : read vm l = some x)
    (huniq : ∀ a ∈ firing acts r.tick, a.loc = l → a.val = n % 2 ^ w) :
    read (injected sh acts r.tick vm) l = some (n % 2 ^ w) := by
  have hso : setActOf sh r = some ⟨false, r.tick, l, n % 2 ^ w⟩ := by
    simp [setActOf, hl, hn, hw, htc]
  have hmem : (⟨false, r.tick, l, n % 2 ^ w⟩ : SetAct) ∈ acts :=
    (compileSets_mem sh b acts hc _).mpr ⟨r, hr, ⟨hs, ha, .inl htc⟩, hso⟩
  have hfire : (⟨false, r.tick, l, n % 2 ^ w⟩ : SetAct) ∈ firing acts r.tick :=
    (mem_firing _ _ _).mpr ⟨hmem, by simp [SetAct.fires]⟩
  exact set_exact sh acts r.tick vm ⟨false, r.tick, l, n % 2 ^ w⟩ hfire hflag
    (fun a ha' hloc => huniq a ha' hloc) x hx

/-- `frame`: a cell no firing action names is not touched by the injection -/
theorem set_frame (sh : Shape) (acts : List SetAct) (t : Nat) (vm : Vm) (l : Loc) (hl : l.isFlag = false)
    (hnone : ∀ a ∈ acts, a.fires t = true → a.loc ≠ l) :
    read (injected sh acts t vm) l = read vm l := by
  rw [read_injected sh acts t vm l hl]
  cases hf : (firing acts t).reverse.find? (fun b => b.loc = l) with
  | none => rfl
  | some b =>
    have hb := List.mem_of_find?_eq_some hf
    have hp := List.find?_some hf
    simp only [decide_eq_true_eq] at hp
    have := (mem_firing acts t b).mp (by simpa using hb)
    exact absurd hp (hnone b this.1 this.2)

/-- the valid flag of input `k` after injection: raised iff a firing action writes input `k`;
    otherwise what the handshake left (cleared when the input had been received) -/
theorem set_raises_valid (sh : Shape) (acts : List SetAct) (t : Nat) (vm : Vm) (k : Nat) :
    read (injected sh acts t vm) (.inValid k) =
      if (firing acts t).any (fun a => a.loc = .inReg k)
      then (read (clearValid sh.nIn vm) (.inValid k)).map (fun _ => 1)
      else read (clearValid sh.nIn vm) (.inValid k) :=
  read_injected_valid sh acts t vm k

/-- one loop iteration (not yet finished): appends one record for tick `t`; unless the loop is
    shutting down the machine step is called on `injected …` and the outputs are acknowledged;
    in the shutdown iteration nothing is injected or stepped; the values shown are the values of
    the fired slots in the state after the iteration -/
theorem iteration_spec (step : Vm → Vm) (c : Compiled) (stopOn : Option Nat) (report : Bool) (s : LoopSt)
    (t : Nat) (h : s.done = false) :
    ∃ r, (iteration step c stopOn report s t).trace = s.trace ++ [r] ∧ r.tick = t ∧
      r.shutdown = isShutdown stopOn s.vm ∧
      (r.shutdown = false → r.pre = injected c.sh c.acts t s.vm ∧ r.stepped = step r.pre ∧
          r.post = ackOutputs c.sh.nOut r.stepped) ∧
      (r.shutdown = true → r.pre = s.vm ∧ r.post = s.vm) ∧
      (r.fatal = 0 → r.shown = (slotValues c.shows r.post (firedSlots c.shows t s.old r.post r.shutdown true)).1 ∧
          (slotValues c.shows r.post (firedSlots c.shows t s.old r.post r.shutdown true)).2 = false) :=
  iteration_record step c stopOn report s t h

/-- `get_reports_value` (soundness): every value printed for slot `i` is the value the slot's
    element has in the given state, with the slot's type, and slot `i` was asked for -/
theorem shown_is_value (rp : Report) (vm : Vm) (idxs : List Nat) (i : Nat) (ty : String) (v : Nat)
    (h : (i, ty, v) ∈ (slotValues rp vm idxs).1) :
    i ∈ idxs ∧ ∃ s, rp.slots[i]? = some s ∧ s.ty = ty ∧ v = readD vm s.loc ∧ s.loc.isFlag = false :=
  slotValues_sound rp vm idxs i ty v h

/-- `get_reports_value` (completeness): unless a flag slot aborted the printing, every slot asked
    for is printed -/
theorem asked_is_shown (rp : Report) (vm : Vm) (idxs : List Nat) (hok : (slotValues rp vm idxs).2 = false)
    (i : Nat) (hi : i ∈ idxs) (s : Slot) (hs : rp.slots[i]? = some s) :
    (i, s.ty, readD vm s.loc) ∈ (slotValues rp vm idxs).1 :=
  slotValues_complete rp vm idxs hok i hi s hs

/-- a slot is printed at tick `t` iff one of its watches fires at `t` -/
theorem fired_iff_watch (rp : Report) (t : Nat) (old new : Vm) (sd ev : Bool) (i : Nat) :
    i ∈ firedSlots rp t old new sd ev ↔
      i < rp.slots.length ∧ ∃ w ∈ rp.watches, w.slot = i ∧ w.fires t old new sd ev = true :=
  mem_firedSlots rp t old new sd ev i

/-- when the four kinds of watch fire: at the tick; every p ticks (p ≥ 1); on the rising edge of
    the element's valid flag between two consecutive iterations (`onvalid_fires_iff_rising`);
    in the shutdown iteration (`onexit_fires_iff_shutdown`) — events only where they are looked at -/
theorem watch_at (i t' t : Nat) (old new : Vm) (sd ev : Bool) :
    (Watch.mk i (.at t')).fires t old new sd ev = true ↔ t' = t := fires_at i t' t old new sd ev

theorem watch_every (i p t : Nat) (old new : Vm) (sd ev : Bool) :
    (Watch.mk i (.every p)).fires t old new sd ev = true ↔ p ≠ 0 ∧ t % p = 0 := fires_every i p t old new sd ev

theorem onvalid_fires_iff_rising (i : Nat) (f : Loc) (t : Nat) (old new : Vm) (sd ev : Bool) :
    (Watch.mk i (.onValid f)).fires t old new sd ev = true ↔ ev = true ∧ readD new f = 1 ∧ readD old f ≠ 1 :=
  fires_onValid i f t old new sd ev

theorem onexit_fires_iff_shutdown (i t : Nat) (old new : Vm) (sd ev : Bool) :
    (Watch.mk i .onExit).fires t old new sd ev = true ↔ ev = true ∧ sd = true :=
  fires_onExit i t old new sd ev

/-- from rule to watch: an active `absolute:t` / `relative:p` show (get) rule whose object resolves
    owns a slot for that element and a watch on it with the rule's tick / period -/
theorem timed_rule_is_watched (sh : Shape) (bn : List String) (act : Action) (b : Box) (rp : Report)
    (h : compileReport sh bn act b {} = .ok rp) (r : Rule) (hr : r ∈ b) (hs : r.suspended = false)
    (ha : r.action = act) (htc : r.timec = .abs ∨ r.timec = .rel) (l : Loc) (hl : resolve sh r.object = some l) :
    ∃ i s, rp.slots[i]? = some s ∧ s.loc = l ∧
      ⟨i, if r.timec = .abs then .at r.tick else .every r.tick⟩ ∈ rp.watches :=
  compileReport_timed sh bn act b {} rp h r hr hs ha htc l hl

theorem onexit_rule_is_watched (sh : Shape) (bn : List String) (act : Action) (b : Box) (rp : Report)
    (h : compileReport sh bn act b {} = .ok rp) (r : Rule) (hr : r ∈ b) (hs : r.suspended = false)
    (ha : r.action = act) (htc : r.timec = .onExit) (l : Loc) (hl : resolve sh r.object = some l) :
    ∃ i s, rp.slots[i]? = some s ∧ s.loc = l ∧ ⟨i, .onExit⟩ ∈ rp.watches :=
  compileReport_onExit sh bn act b {} rp h r hr hs ha htc l hl

theorem onvalid_rule_is_watched (sh : Shape) (bn : List String) (act : Action) (b : Box) (rp : Report)
    (h : compileReport sh bn act b {} = .ok rp) (r : Rule) (hr : r ∈ b) (hs : r.suspended = false)
    (ha : r.action = act) (htc : r.timec = .onValid) (l f : Loc) (hl : resolve sh r.object = some l)
    (hf : validFlagOf sh r.object = some f) :
    ∃ i s, rp.slots[i]? = some s ∧ s.loc = l ∧ ⟨i, .onValid f⟩ ∈ rp.watches :=
  compileReport_onValid sh bn act b {} rp h r hr hs ha htc l f hl hf

/-- `get_reports_value`, end to end for show rules: if the rule list contains an active
    `absolute:t:show:o:…` rule whose object resolves to a (non-flag) element, then the iteration
    for tick `t` of any run that is not aborted prints, for that element's slot, the value the
    element has after that iteration — for every machine step, every loop state -/
theorem get_reports_value (step : Vm → Vm) (c : Compiled) (bn : List String) (b : Box)
    (hc : compileReport c.sh bn .show b {} = .ok c.shows)
    (r : Rule) (hr : r ∈ b) (hs : r.suspended = false) (ha : r.action = .show) (htc : r.timec = .abs)
    (l : Loc) (hl : resolve c.sh r.object = some l)
    (stopOn : Option Nat) (report : Bool) (s : LoopSt) (hd : s.done = false) :
    ∃ rec, (iteration step c stopOn report s r.tick).trace = s.trace ++ [rec] ∧
      (rec.fatal = 0 → ∃ i sl, c.shows.slots[i]? = some sl ∧ sl.loc = l ∧
        (i, sl.ty, readD rec.post l) ∈ rec.shown) := by
  obtain ⟨rec, htr, _, _, _, _, hshown⟩ := iteration_record step c stopOn report s r.tick hd
  refine ⟨rec, htr, fun hf => ?_⟩
  obtain ⟨hsh, hok⟩ := hshown hf
  obtain ⟨i, sl, hsl, hloc, hw⟩ := compileReport_timed c.sh bn .show b {} c.shows hc r hr hs ha (.inl htc) l hl
  simp only [htc, if_true] at hw
  have hi : i < c.shows.slots.length := by
    rcases Nat.lt_or_ge i c.shows.slots.length with h | h
    · exact h
    · rw [List.getElem?_eq_none h] at hsl; cases hsl
  have hfired : i ∈ firedSlots c.shows r.tick s.old rec.post rec.shutdown true :=
    (mem_firedSlots _ _ _ _ _ _ _).mpr ⟨hi, _, hw, rfl, (fires_at _ _ _ _ _ _ _).mpr rfl⟩
  have := slotValues_complete c.shows rec.post _ hok i hfired sl hsl
  rw [hloc] at this
  exact ⟨i, sl, hsl, hloc, by rw [hsh]; exact this⟩

/-! ### what is *not* proved (kept visible)

  The converse direction for reports — every watch of the compiled report comes from an active
  rule of that kind, so nothing is shown that no rule asked for — is checked by the
  correspondence (every show line and report row of every generated rule list is compared with
  the model, whose `firedSlots` is exact by `fired_iff_watch`) but not proved as a theorem about
  `compileReport`. -/
def watches_come_from_rules_full : Prop :=
  ∀ (sh : Shape) (bn : List String) (act : Action) (b : Box) (rp : Report) (w : Watch),
    compileReport sh bn act b {} = .ok rp → w ∈ rp.watches →
    ∃ r ∈ b, r.suspended = false ∧ r.action = act ∧
      ((r.timec = .abs ∧ w.trigger = .at r.tick) ∨ (r.timec = .rel ∧ w.trigger = .every r.tick) ∨
       (r.timec = .onValid ∧ ∃ f, validFlagOf sh r.object = some f ∧ w.trigger = .onValid f) ∨
       (r.timec = .onExit ∧ w.trigger = .onExit))

/-! ### non-vacuity (part 2): a concrete machine and rule list -/

def exShape : Shape := ⟨8, 2, 2, [(0, 0, 4)]⟩
def exTopo : Topo := ⟨[⟨1, 0, 0⟩, ⟨1, 1, 0⟩], [⟨0, 0, 0⟩, ⟨0, 1, 0⟩], [some 0, some 1]⟩
def exRules : Box :=
  [⟨.abs, 2, .set, "i0", "5", false⟩, ⟨.rel, 3, .set, "i1", "300", false⟩,
   ⟨.abs, 2, .set, "i0", "9", true⟩, ⟨.abs, 3, .show, "o0", "hex", false⟩]

/-- the example compiles to two actions (the suspended one is gone, 300 is reduced to 44) ... -/
example : compileSets exShape exRules = .ok [⟨false, 2, .inReg 0, 5⟩, ⟨true, 3, .inReg 1, 44⟩] := by rfl
/-- ... at tick 3 only the periodic one fires, at tick 2 only the absolute one ... -/
example : firing [⟨false, 2, .inReg 0, 5⟩, ⟨true, 3, .inReg 1, 44⟩] 3 = [⟨true, 3, .inReg 1, 44⟩] := by decide
example : firing [⟨false, 2, .inReg 0, 5⟩, ⟨true, 3, .inReg 1, 44⟩] 2 = [⟨false, 2, .inReg 0, 5⟩] := by decide
/-- two periodic rules of the same period on one element keep their rule order (the later wins) -/
example : firing [⟨true, 2, .outReg 1, 0⟩, ⟨true, 3, .inReg 0, 1⟩, ⟨true, 2, .outReg 1, 9⟩] 0
    = [⟨true, 2, .outReg 1, 0⟩, ⟨true, 2, .outReg 1, 9⟩, ⟨true, 3, .inReg 0, 1⟩] := by decide
/-- ... and the injected state at tick 2 has i0 = 5 with its valid flag raised, i1 untouched -/
example :
    let vm := injected exShape [⟨false, 2, .inReg 0, 5⟩, ⟨true, 3, .inReg 1, 44⟩] 2 (initVm exShape exTopo)
    read vm (.inReg 0) = some 5 ∧ read vm (.inValid 0) = some 1 ∧ read vm (.inReg 1) = some 0 := by decide

end Sim

end BMV.Props.C15
