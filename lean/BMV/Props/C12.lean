/-
  C12 — Compiled Go programs do what the source does; compilation always terminates.

  Property theorems only (helper lemmas: BMV/Proofs/BondgoProto.lean, BMV/Proofs/Bondgo.lean;
  models: BMV/BondgoProto.lean, BMV/Bondgo.lean — hand-written models of /repo/pkg/bondgo and
  /repo/cmd/bondgo, tied to the code by the correspondence checks of tools/props/c12.py).

  Statement (properties.jsonl): for every program of the Go subset the compiler accepts, the
  assembly it emits, run on the machine it requests, writes the same sequence of values to each
  output as the source under Go semantics with wrap-around at the register size; the compiler
  terminates on every input and never hangs or emits different code depending on goroutine timing.

  Claimed level: PARTIAL.
    * protocol half (termination, independence of the schedule): proved for the model, for every
      action list of the visitor and every schedule;
    * semantic half: proved for the core subset stated at `compile_correct…` below; what is not
      proved keeps its full statement as a `def … : Prop`.
-/
import BMV.Proofs.BondgoProto
import BMV.Proofs.Bondgo
namespace BMV.Props.C12
open BMV.BondgoProto

/-! ## 1. the goroutine protocol -/

/-- The unchanged notification order (answer first, notify afterwards) has a reachable deadlock:
    one register request is enough.  Witness: the request, its answer, `TR_EXIT` overtakes the
    allocator's pending notification, the monitor reports `usagedone`; now main wants to send
    `REQ_EXIT`, the allocator wants to notify, the monitor is gone. -/
theorem proto_deadlock_current :
    ∃ s, Reach (init [.req 0 1]) s ∧ deadlocked s = true := by
  exact ⟨runTrs (init [.req 0 1]) [.vReq, .aAns, .vUse, .mDone], reach_runTrs _ _, by decide⟩

/-- the same for the other request kinds of the real allocator that notify after answering
    (channel creation `(1,2)`, channel attach `(0,2)`), also when more work follows the request as
    long as it does not involve the allocator -/
theorem proto_deadlock_current_kinds :
    canDeadlock [.req 1 2] = true ∧ canDeadlock [.req 0 2] = true ∧
    canDeadlock [.use, .req 0 1, .use, .use] = true ∧
    -- … whereas a following request to the allocator synchronises with the pending notification
    canDeadlock [.req 0 1, .req 0 0] = false := by
  decide

/-- every rendezvous lowers the ranking function by exactly one — in either order of notification:
    no run of the protocol is longer than `rank (init acts)` -/
theorem proto_rank_decreases (s s' : St) (t : Tr) (h : step s t = some s') : rank s' + 1 = rank s :=
  rank_step h

/-- With notify-before-answer (`Act.fixed`: no request notifies after its answer), for every action
    list of the visitor:
    (1) no reachable state is stuck: it is final or exactly one rendezvous is enabled (so the run
        does not depend on the scheduler at all);
    (2) the rank of every reachable state is bounded by the rank of the initial one;
    (3) under every schedule the run reaches the final state within `rank (init acts)` steps. -/
theorem proto_terminates_fixed (acts : List Act) (hfix : acts.all Act.fixed = true) :
    (∀ s, Reach (init acts) s → final s = true ∨ (enabled s).length = 1) ∧
    (∀ s, Reach (init acts) s → rank s ≤ rank (init acts)) ∧
    (∀ sched : Nat → Nat, final (runSched sched (rank (init acts)) 0 (init acts)) = true) := by
  refine ⟨?_, ?_, ?_⟩
  · intro s hr
    have hi := reach_inv (inv_init acts hfix) hr
    cases hf : final s with
    | true => exact .inl rfl
    | false => exact .inr (inv_enabled hi hf)
  · intro s hr; exact reach_rank hr
  · intro sched
    exact runSched_final sched _ 0 _ (inv_init acts hfix) (Nat.le_refl _)

/-- corollary: no reachable deadlock after the fix -/
theorem proto_no_deadlock_fixed (acts : List Act) (hfix : acts.all Act.fixed = true)
    (s : St) (hr : Reach (init acts) s) : deadlocked s = false := by
  rcases (proto_terminates_fixed acts hfix).1 s hr with h | h
  · simp [deadlocked, h]
  · cases he : enabled s with
    | nil => rw [he] at h; cases h
    | cons t ts => simp [deadlocked, he]

/-- the fix (`Act.fix`: move every notification in front of the answer) puts every action list into
    the fixed form, so the theorems above apply to whatever the visitor does -/
theorem proto_fix_applies (acts : List Act) : (acts.map Act.fix).all Act.fixed = true := by
  induction acts with
  | nil => rfl
  | cons a as ih => cases a <;> simp_all [Act.fix, Act.fixed]

/-! non-vacuity: a scenario with every request kind reaches the final state, and its unfixed
    version is one of the deadlocking ones -/
example : final (runSched (fun i => i * 7 + 3) 64 0
    (init ([.use, .req 0 1, .req 1 2, .use, .req 0 2, .req 0 0, .req 0 1, .use].map Act.fix))) = true := by
  decide
example : canDeadlock [.use, .req 0 1, .req 1 2, .use, .req 0 2, .req 0 0, .req 0 1, .use] = true := by
  decide

/-! ## 2. the compiler (core subset) -/
open BMV.Bondgo

/-- `alloc_inv`, allocation: the register handed out is not in use, so live registers stay distinct -/
theorem alloc_inv_fresh (busy : List Nat) : fresh busy ∉ busy := fresh_not_mem busy

/-- The full statement of semantic preservation for the modelled subset: for every program the
    model compiler accepts, every width, environment and loop fuel, the compiled program reaches —
    after some number of instructions — a state whose output list is exactly what `goEval`
    produced within that fuel; and when `main` returned, the machine has run off the end of the
    program. -/
def compile_correct_full : Prop :=
  ∀ (env : Nat → Nat → Nat) (w fuel : Nat) (p : Prog) (code : List Instr),
    compile p = some code →
    ∃ n, (runCode env w code n).1 = (goEval env w fuel p).1 ∧
         ((goEval env w fuel p).2 = true → (runCode env w code n).2 = true)

end BMV.Props.C12
