/-
  C12 — Compiled Go programs do what the source does; compilation always terminates.

  Property theorems only (helper lemmas: BMV/Proofs/BondgoProto.lean, BMV/Proofs/Bondgo.lean;
  models: BMV/BondgoProto.lean, BMV/Bondgo.lean — hand-written models of /repo/pkg/bondgo and
  /repo/cmd/bondgo, tied to the code by the correspondence checks of tools/props/c12.py).

  Statement (properties.jsonl): for every program of the Go subset the compiler accepts, the
  assembly it emits, run on the machine it requests, writes the same sequence of values to each
  output as the source under Go semantics with wrap-around at the register size; the compiler
  terminates on every input and never hangs or emits different code depending on goroutine timing.

  Claimed level: PARTIAL.
    * protocol half (termination, independence of the schedule): proved for the model, for every
      action list of the visitor and every schedule;
    * semantic half: proved for the core subset stated at `compile_correct…` below; what is not
      proved keeps its full statement as a `def … : Prop`.
-/
import BMV.Proofs.BondgoProto
import BMV.Proofs.Bondgo
namespace BMV.Props.C12
open BMV.BondgoProto

/-! ## 1. the goroutine protocol -/

/-- The unchanged notification order (answer first, notify afterwards) has a reachable deadlock:
    one register request is enough.  Witness: the request, its answer, `TR_EXIT` overtakes the
    allocator's pending notification, the monitor reports `usagedone`; now main wants to send
    `REQ_EXIT`, the allocator wants to notify, the monitor is gone. -/
theorem proto_deadlock_current :
    ∃ s, Reach (init [.req 0 1]) s ∧ deadlocked s = true := by
  exact ⟨runTrs (init [.req 0 1]) [.vReq, .aAns, .vUse, .mDone], reach_runTrs _ _, by decide⟩

/-- the same for the other request kinds of the real allocator that notify after answering
    (channel creation `(1,2)`, channel attach `(0,2)`), also when more work follows the request as
    long as it does not involve the allocator -/
theorem proto_deadlock_current_kinds :
    canDeadlock [.req 1 2] = true ∧ canDeadlock [.req 0 2] = true ∧
    canDeadlock [.use, .req 0 1, .use, .use] = true ∧
    -- … whereas a following request to the allocator synchronises with the pending notification
    canDeadlock [.req 0 1, .req 0 0] = false := by
  decide

/-- every rendezvous lowers the ranking function by exactly one — in either order of notification:
    no run of the protocol is longer than `rank (init acts)` -/
theorem proto_rank_decreases (s s' : St) (t : Tr) (h : step s t = some s') : rank s' + 1 = rank s :=
  rank_step h

/-- With notify-before-answer (`Act.fixed`: no request notifies after its answer), for every action
    list of the visitor:
    (1) no reachable state is stuck: it is final or exactly one rendezvous is enabled (so the run
        does not depend on the scheduler at all);
    (2) the rank of every reachable state is bounded by the rank of the initial one;
    (3) under every schedule the run reaches the final state within `rank (init acts)` steps. -/
theorem proto_terminates_fixed (acts : List Act) (hfix : acts.all Act.fixed = true) :
    (∀ s, Reach (init acts) s → final s = true ∨ (enabled s).length = 1) ∧
    (∀ s, Reach (init acts) s → rank s ≤ rank (init acts)) ∧
    (∀ sched : Nat → Nat, final (runSched sched (rank (init acts)) 0 (init acts)) = true) := by
  refine ⟨?_, ?_, ?_⟩
  · intro s hr
    have hi := reach_inv (inv_init acts hfix) hr
    cases hf : final s with
    | true => exact .inl rfl
    | false => exact .inr (inv_enabled hi hf)
  · intro s hr; exact reach_rank hr
  · intro sched
    exact runSched_final sched _ 0 _ (inv_init acts hfix) (Nat.le_refl _)

/-- corollary: no reachable deadlock after the fix -/
theorem proto_no_deadlock_fixed (acts : List Act) (hfix : acts.all Act.fixed = true)
    (s : St) (hr : Reach (init acts) s) : deadlocked s = false := by
  rcases (proto_terminates_fixed acts hfix).1 s hr with h | h
  · simp [deadlocked, h]
  · cases he : enabled s with
    | nil => rw [he] at h; cases h
    | cons t ts => simp [deadlocked, he]

/-- the fix (`Act.fix`: move every notification in front of the answer) puts every action list into
    the fixed form, so the theorems above apply to whatever the visitor does -/
theorem proto_fix_applies (acts : List Act) : (acts.map Act.fix).all Act.fixed = true := by
  induction acts with
  | nil => rfl
  | cons a as ih => cases a <;> simp_all [Act.fix, Act.fixed]

/-! non-vacuity: a scenario with every request kind reaches the final state, and its unfixed
    version is one of the deadlocking ones -/
example : final (runSched (fun i => i * 7 + 3) 64 0
    (init ([.use, .req 0 1, .req 1 2, .use, .req 0 2, .req 0 0, .req 0 1, .use].map Act.fix))) = true := by
  decide
example : canDeadlock [.use, .req 0 1, .req 1 2, .use, .req 0 2, .req 0 0, .req 0 1, .use] = true := by
  decide

/-! ## 2. the compiler (core subset) -/
open BMV.Bondgo

/-- `alloc_inv`, allocation: the register handed out is not in use, so live registers stay distinct -/
theorem alloc_inv_fresh (busy : List Nat) : fresh busy ∉ busy := fresh_not_mem busy

/-- `alloc_inv`, expressions: compiling an expression from a duplicate-free busy list returns a
    result register that was free before, is busy afterwards, and the busy list stays duplicate
    free and only grows by that register (every temporary has been released again) -/
theorem alloc_inv_expr (ls : List Loc) (e : Expr) (busy : List Nat) (c : List Instr) (r : Nat)
    (busy' : List Nat) (hnd : busy.Nodup) (h : compileE ls e busy = some (c, r, busy')) :
    r ∉ busy ∧ busy'.Nodup ∧ (∀ x, x ∈ busy' ↔ x = r ∨ x ∈ busy) :=
  compileE_alloc ls e busy c r busy' hnd h

/-- `alloc_inv`, use after release: the code of an expression writes only registers that were free
    when its compilation started — in particular never a register variable or a live temporary of
    an enclosing expression, and never a register released earlier and re-allocated to someone
    else in between (those are in `busy`) -/
theorem alloc_inv_writes (ls : List Loc) (e : Expr) (busy : List Nat) (c : List Instr) (r : Nat)
    (busy' : List Nat) (hnd : busy.Nodup) (h : compileE ls e busy = some (c, r, busy')) :
    ∀ i ∈ c, ∀ x ∈ i.writes, x ∉ busy :=
  compileE_writes ls e busy c r busy' hnd h

/-- `compile_correct`, expressions (any width, any environment): running the code of `e`, placed
    anywhere in a program, from a machine state that agrees with the source state on the variables
    (`Agree`: memory variables in their cells, register variables in their registers) computes
    `evalE e` into the result register, consumes the same input reads, leaves memory, outputs and
    every busy register untouched, and falls through to the next instruction -/
theorem compile_correct_expr (env : Nat → Nat → Nat) (w : Nat) (ls : List Loc) (e : Expr)
    (busy : List Nat) (c : List Instr) (r : Nat) (busy' : List Nat)
    (h : compileE ls e busy = some (c, r, busy'))
    (pre post : List Instr) (cfg : Cfg) (s : Src)
    (hpc : cfg.pc = pre.length) (hag : Agree ls busy cfg s) :
    let res := evalE env w e s
    let cfg' := isaRun env w (pre ++ c ++ post) c.length cfg
    cfg'.pc = pre.length + c.length ∧ cfg'.regs r = res.1 ∧ cfg'.mem = cfg.mem ∧
    cfg'.outs = cfg.outs ∧ cfg'.rc = res.2.rc ∧ res.2.vars = s.vars ∧ res.2.outs = s.outs ∧
    (∀ x ∈ busy, cfg'.regs x = cfg.regs x) := by
  intro res cfg'
  exact exprOK_all env w ls e busy c r busy' h pre post cfg s hpc hag

/-- `compile_correct`, straight-line statements (`=`, `++`, `--`, `IOWrite`, sequencing), placed
    anywhere in a program, for variables living in pairwise distinct places: the statement
    finishes, the machine falls through to the next instruction, the states agree again (with the
    new busy list) and the output lists are equal -/
theorem compile_correct_stmt_straight (env : Nat → Nat → Nat) (w fuel : Nat) (ls : List Loc)
    (hinj : LocsInj ls) (st : Stmt) (hs : straight st = true)
    (base : Nat) (busy : List Nat) (c : List Instr) (busy' : List Nat)
    (h : compileS ls st base busy = some (c, busy'))
    (pre post : List Instr) (cfg : Cfg) (s : Src)
    (hpc : cfg.pc = pre.length) (hag : Agree ls busy cfg s) (ho : cfg.outs = s.outs) :
    (exec env w fuel st s).2 = true ∧
    (isaRun env w (pre ++ c ++ post) c.length cfg).pc = pre.length + c.length ∧
    Agree ls busy' (isaRun env w (pre ++ c ++ post) c.length cfg) (exec env w fuel st s).1 ∧
    (isaRun env w (pre ++ c ++ post) c.length cfg).outs = (exec env w fuel st s).1.outs :=
  straight_correct env w fuel ls hinj st hs base busy c busy' h pre post cfg s hpc hag ho

/-- the declared variables get pairwise distinct registers / memory cells -/
theorem alloc_inv_decls (decls : List Bool) : LocsInj (locs decls) := locs_inj decls

/-- `compile_correct` for whole straight-line programs (declarations of register and memory
    variables, then assignments, `++`/`--`, `IOWrite` with `+`, `*`, `IORead` expressions): for every
    register width, every input environment and every fuel, the compiled program run from the
    reset state for exactly its own length has left the program and has written exactly the
    outputs of `goEval`, which has returned.
    PARTIAL with respect to `compile_correct_full`: `if` and `for` are not covered by a theorem
    (they are covered by the correspondence check only). -/
theorem compile_correct_partial (env : Nat → Nat → Nat) (w fuel : Nat) (p : Prog) (code : List Instr)
    (hc : compile p = some code) (hs : straight p.body = true) :
    runCode env w code code.length = ((goEval env w fuel p).1, true) ∧ (goEval env w fuel p).2 = true :=
  compile_straight env w fuel p code hc hs

/-- `compile_correct_partial` implies the full statement for straight-line programs -/
theorem compile_correct_partial_full (env : Nat → Nat → Nat) (w fuel : Nat) (p : Prog) (code : List Instr)
    (hc : compile p = some code) (hs : straight p.body = true) :
    ∃ n, (runCode env w code n).1 = (goEval env w fuel p).1 ∧
         ((goEval env w fuel p).2 = true → (runCode env w code n).2 = true) := by
  refine ⟨code.length, ?_, fun _ => ?_⟩ <;> rw [(compile_correct_partial env w fuel p code hc hs).1]

/-! non-vacuity: the program of DESIGN.md section 9 (`a = 3; b = a + 2; IOWrite(o, b)`) is accepted,
    is straight-line, compiles to the 12 lines the real compiler prints, and the theorem gives its
    output -/
def demo : Prog :=
  { decls := [false, false],
    body := .seq (.assign 0 (.lit 3)) (.seq (.assign 1 (.add (.var 0) (.lit 2))) (.seq (.iowrite 0 (.var 1)) .skip)) }

example : compile demo = some
    [.clr 0, .r2m 0 0, .clr 0, .r2m 0 1, .rset 0 3, .r2m 0 0, .m2r 0 0, .rset 1 2, .add 0 1, .r2m 0 1,
     .m2r 0 1, .r2o 0 0] ∧ straight demo.body = true := by decide

example : (runCode (fun _ _ => 0) 8 ((compile demo).getD []) 12) = ([(0, 5)], true) := by decide

/-! block-local variables (modelled, executed and compared on every run, not covered by a theorem):
    in `if a == 3 { var b; var c; … } else { var d; … }` the cells of `b`, `c` are released before the
    `else` body is compiled, so `d` re-uses cell 1 — and the RAM the program needs is the maximum
    over the whole program (3 cells), not the last cell handed out -/
def demoBlocks : Prog :=
  { decls := [false],
    body := .seq (.assign 0 (.lit 3)) (.seq
      (.ifElse (.eq (.var 0) (.lit 3))
        (.seq (.decl 1) (.seq (.decl 2) (.seq (.assign 1 (.add (.var 0) (.lit 1)))
          (.seq (.assign 2 (.mul (.var 1) (.lit 2))) (.seq (.iowrite 0 (.var 2)) .skip)))))
        (.seq (.decl 3) (.seq (.assign 3 (.add (.var 0) (.lit 5))) (.seq (.iowrite 0 (.var 3)) .skip))))
      (.seq (.iowrite 0 (.var 0)) .skip)) }

example : allLocs demoBlocks = [.mem 0, .mem 1, .mem 2, .mem 1] ∧
    ((compile demoBlocks).map List.length) = some 36 ∧
    runCode (fun _ _ => 0) 8 ((compile demoBlocks).getD []) 40 = ([(0, 8), (0, 3)], true) := by decide

/-- The full statement of semantic preservation for the modelled subset: for every program the
    model compiler accepts, every width, environment and loop fuel, the compiled program reaches —
    after some number of instructions — a state whose output list is exactly what `goEval`
    produced within that fuel; and when `main` returned, the machine has run off the end of the
    program. -/
def compile_correct_full : Prop :=
  ∀ (env : Nat → Nat → Nat) (w fuel : Nat) (p : Prog) (code : List Instr),
    compile p = some code →
    ∃ n, (runCode env w code n).1 = (goEval env w fuel p).1 ∧
         ((goEval env w fuel p).2 = true → (runCode env w code n).2 = true)

end BMV.Props.C12
