/-
  C12 — Compiled Go programs do what the source does; compilation always terminates.

  Property theorems only (helper lemmas: BMV/Proofs/BondgoProto.lean, BMV/Proofs/Bondgo.lean;
  models: BMV/BondgoProto.lean, BMV/Bondgo.lean — hand-written models of /repo/pkg/bondgo and
  /repo/cmd/bondgo, tied to the code by the correspondence checks of tools/props/c12.py).

  Statement (properties.jsonl): for every program of the Go subset the compiler accepts, the
  assembly it emits, run on the machine it requests, writes the same sequence of values to each
  output as the source under Go semantics with wrap-around at the register size; the compiler
  terminates on every input and never hangs or emits different code depending on goroutine timing.

  Claimed level: PARTIAL.
    * protocol half (termination, independence of the schedule): proved for the model, for every
      action list of the visitor and every schedule;
    * semantic half: proved for the modelled subset (expressions, `=`, `++`/`--`, `IOWrite`,
      `if`/`else`, conditional and endless `for`, block-local declarations with the compiler's cell
      release discipline): `compile_correct : compile_correct_full`, for every program that obeys
      Go's scoping rule, every register width ≥ 1, environment and fuel.  PARTIAL with respect to the
      property: functions with arguments, channels, `select`/`switch`, `:=` are outside the model;
      `je` has the meaning the compiler relies on.  `break`, `continue` and three-clause `for` are
      covered by `compile_correct_x` (same statement for `compileXP` / `goEvalX`).
-/
import BMV.Proofs.BondgoProto
import BMV.Proofs.Bondgo
namespace BMV.Props.C12
open BMV.BondgoProto

/-! ## 1. the goroutine protocol -/

/-- The unchanged notification order (answer first, notify afterwards) has a reachable deadlock:
    one register request is enough.  Witness: the request, its answer, `TR_EXIT` overtakes the
    allocator's pending notification, the monitor reports `usagedone`; now main wants to send
    `REQ_EXIT`, the allocator wants to notify, the monitor is gone. -/
theorem proto_deadlock_current :
    ∃ s, Reach (init [.req 0 1]) s ∧ deadlocked s = true := by
  exact ⟨runTrs (init [.req 0 1]) [.vReq, .aAns, .vUse, .mDone], reach_runTrs _ _, by decide⟩

/-- the same for the other request kinds of the real allocator that notify after answering
    (channel creation `(1,2)`, channel attach `(0,2)`), also when more work follows the request as
    long as it does not involve the allocator -/
theorem proto_deadlock_current_kinds :
    canDeadlock [.req 1 2] = true ∧ canDeadlock [.req 0 2] = true ∧
    canDeadlock [.use, .req 0 1, .use, .use] = true ∧
    -- … whereas a following request to the allocator synchronises with the pending notification
    canDeadlock [.req 0 1, .req 0 0] = false := by
  decide

/-- every rendezvous lowers the ranking function by exactly one — in either order of notification:
    no run of the protocol is longer than `rank (init acts)` -/
theorem proto_rank_decreases (s s' : St) (t : Tr) (h : step s t = some s') : rank s' + 1 = rank s :=
  rank_step h

/-- With notify-before-answer (`Act.fixed`: no request notifies after its answer), for every action
    list of the visitor:
    (1) no reachable state is stuck: it is final or exactly one rendezvous is enabled (so the run
        does not depend on the scheduler at all);
    (2) the rank of every reachable state is bounded by the rank of the initial one;
    (3) under every schedule the run reaches the final state within `rank (init acts)` steps. -/
theorem proto_terminates_fixed (acts : List Act) (hfix : acts.all Act.fixed = true) :
    (∀ s, Reach (init acts) s → final s = true ∨ (enabled s).length = 1) ∧
    (∀ s, Reach (init acts) s → rank s ≤ rank (init acts)) ∧
    (∀ sched : Nat → Nat, final (runSched sched (rank (init acts)) 0 (init acts)) = true) := by
  refine ⟨?_, ?_, ?_⟩
  · intro s hr
    have hi := reach_inv (inv_init acts hfix) hr
    cases hf : final s with
    | true => exact .inl rfl
    | false => exact .inr (inv_enabled hi hf)
  · intro s hr; exact reach_rank hr
  · intro sched
    exact runSched_final sched _ 0 _ (inv_init acts hfix) (Nat.le_refl _)

/-- corollary: no reachable deadlock after the fix -/
theorem proto_no_deadlock_fixed (acts : List Act) (hfix : acts.all Act.fixed = true)
    (s : St) (hr : Reach (init acts) s) : deadlocked s = false := by
  rcases (proto_terminates_fixed acts hfix).1 s hr with h | h
  · simp [deadlocked, h]
  · cases he : enabled s with
    | nil => rw [he] at h; cases h
    | cons t ts => simp [deadlocked, he]

/-- the fix (`Act.fix`: move every notification in front of the answer) puts every action list into
    the fixed form, so the theorems above apply to whatever the visitor does -/
theorem proto_fix_applies (acts : List Act) : (acts.map Act.fix).all Act.fixed = true := by
  induction acts with
  | nil => rfl
  | cons a as ih => cases a <;> simp_all [Act.fix, Act.fixed]

/-! non-vacuity: a scenario with every request kind reaches the final state, and its unfixed
    version is one of the deadlocking ones -/
example : final (runSched (fun i => i * 7 + 3) 64 0
    (init ([.use, .req 0 1, .req 1 2, .use, .req 0 2, .req 0 0, .req 0 1, .use].map Act.fix))) = true := by
  decide
example : canDeadlock [.use, .req 0 1, .req 1 2, .use, .req 0 2, .req 0 0, .req 0 1, .use] = true := by
  decide

/-! ## 2. the compiler (core subset) -/
open BMV.Bondgo

/-- `alloc_inv`, allocation: the register handed out is not in use, so live registers stay distinct -/
theorem alloc_inv_fresh (busy : List Nat) : fresh busy ∉ busy := fresh_not_mem busy

/-- `alloc_inv`, expressions: compiling an expression from a duplicate-free busy list returns a
    result register that was free before, is busy afterwards, and the busy list stays duplicate
    free and only grows by that register (every temporary has been released again) -/
theorem alloc_inv_expr (ls : List Loc) (e : Expr) (busy : List Nat) (c : List Instr) (r : Nat)
    (busy' : List Nat) (hnd : busy.Nodup) (h : compileE ls e busy = some (c, r, busy')) :
    r ∉ busy ∧ busy'.Nodup ∧ (∀ x, x ∈ busy' ↔ x = r ∨ x ∈ busy) :=
  compileE_alloc ls e busy c r busy' hnd h

/-- `alloc_inv`, use after release: the code of an expression writes only registers that were free
    when its compilation started — in particular never a register variable or a live temporary of
    an enclosing expression, and never a register released earlier and re-allocated to someone
    else in between (those are in `busy`) -/
theorem alloc_inv_writes (ls : List Loc) (e : Expr) (busy : List Nat) (c : List Instr) (r : Nat)
    (busy' : List Nat) (hnd : busy.Nodup) (h : compileE ls e busy = some (c, r, busy')) :
    ∀ i ∈ c, ∀ x ∈ i.writes, x ∉ busy :=
  compileE_writes ls e busy c r busy' hnd h

/-- `compile_correct`, expressions (any width, any environment): running the code of `e`, placed
    anywhere in a program, from a machine state that agrees with the source state on the variables
    (`Agree`: memory variables in their cells, register variables in their registers) computes
    `evalE e` into the result register, consumes the same input reads, leaves memory, outputs and
    every busy register untouched, and falls through to the next instruction -/
theorem compile_correct_expr (env : Nat → Nat → Nat) (w : Nat) (ls : List Loc) (e : Expr)
    (busy : List Nat) (c : List Instr) (r : Nat) (busy' : List Nat)
    (h : compileE ls e busy = some (c, r, busy'))
    (pre post : List Instr) (cfg : Cfg) (s : Src)
    (hpc : cfg.pc = pre.length) (hag : Agree ls busy cfg s) :
    let res := evalE env w e s
    let cfg' := isaRun env w (pre ++ c ++ post) c.length cfg
    cfg'.pc = pre.length + c.length ∧ cfg'.regs r = res.1 ∧ cfg'.mem = cfg.mem ∧
    cfg'.outs = cfg.outs ∧ cfg'.rc = res.2.rc ∧ res.2.vars = s.vars ∧ res.2.outs = s.outs ∧
    (∀ x ∈ busy, cfg'.regs x = cfg.regs x) := by
  intro res cfg'
  exact exprOK_all env w ls e busy c r busy' h pre post cfg s hpc hag

/-- `compile_correct`, straight-line statements (`=`, `++`, `--`, `IOWrite`, sequencing), placed
    anywhere in a program, for variables living in pairwise distinct places: the statement
    finishes, the machine falls through to the next instruction, the states agree again (with the
    new busy list) and the output lists are equal -/
theorem compile_correct_stmt_straight (env : Nat → Nat → Nat) (w fuel : Nat) (ls : List Loc)
    (hinj : LocsInj ls) (st : Stmt) (hs : straight st = true)
    (base : Nat) (busy : List Nat) (c : List Instr) (busy' : List Nat)
    (h : compileS ls st base busy = some (c, busy'))
    (pre post : List Instr) (cfg : Cfg) (s : Src)
    (hpc : cfg.pc = pre.length) (hag : Agree ls busy cfg s) (ho : cfg.outs = s.outs) :
    (exec env w fuel st s).2 = true ∧
    (isaRun env w (pre ++ c ++ post) c.length cfg).pc = pre.length + c.length ∧
    Agree ls busy' (isaRun env w (pre ++ c ++ post) c.length cfg) (exec env w fuel st s).1 ∧
    (isaRun env w (pre ++ c ++ post) c.length cfg).outs = (exec env w fuel st s).1.outs :=
  straight_correct env w fuel ls hinj st hs base busy c busy' h pre post cfg s hpc hag ho

/-- the declared variables get pairwise distinct registers / memory cells -/
theorem alloc_inv_decls (decls : List Bool) : LocsInj (locs decls) := locs_inj decls

/-- `compile_correct` for whole straight-line programs (declarations of register and memory
    variables, then assignments, `++`/`--`, `IOWrite` with `+`, `*`, `IORead` expressions): for every
    register width, every input environment and every fuel, the compiled program run from the
    reset state for exactly its own length has left the program and has written exactly the
    outputs of `goEval`, which has returned.
    (Straight-line special case with an exact step count; structured programs: see
    `compile_correct_structured` / `compile_correct_wf` below.) -/
theorem compile_correct_partial (env : Nat → Nat → Nat) (w fuel : Nat) (p : Prog) (code : List Instr)
    (hc : compile p = some code) (hs : straight p.body = true) :
    runCode env w code code.length = ((goEval env w fuel p).1, true) ∧ (goEval env w fuel p).2 = true :=
  compile_straight env w fuel p code hc hs

/-- `compile_correct_partial` implies the full statement for straight-line programs -/
theorem compile_correct_partial_full (env : Nat → Nat → Nat) (w fuel : Nat) (p : Prog) (code : List Instr)
    (hc : compile p = some code) (hs : straight p.body = true) :
    ∃ n, (runCode env w code n).1 = (goEval env w fuel p).1 ∧
         ((goEval env w fuel p).2 = true → (runCode env w code n).2 = true) := by
  refine ⟨code.length, ?_, fun _ => ?_⟩ <;> rw [(compile_correct_partial env w fuel p code hc hs).1]

/-! non-vacuity: the program of DESIGN.md section 9 (`a = 3; b = a + 2; IOWrite(o, b)`) is accepted,
    is straight-line, compiles to the 12 lines the real compiler prints, and the theorem gives its
    output -/
def demo : Prog :=
  { decls := [false, false],
    body := .seq (.assign 0 (.lit 3)) (.seq (.assign 1 (.add (.var 0) (.lit 2))) (.seq (.iowrite 0 (.var 1)) .skip)) }

example : compile demo = some
    [.clr 0, .r2m 0 0, .clr 0, .r2m 0 1, .rset 0 3, .r2m 0 0, .m2r 0 0, .rset 1 2, .add 0 1, .r2m 0 1,
     .m2r 0 1, .r2o 0 0] ∧ straight demo.body = true := by decide

example : (runCode (fun _ _ => 0) 8 ((compile demo).getD []) 12) = ([(0, 5)], true) := by decide

/-! block-local variables:
    in `if a == 3 { var b; var c; … } else { var d; … }` the cells of `b`, `c` are released before the
    `else` body is compiled, so `d` re-uses cell 1 — and the RAM the program needs is the maximum
    over the whole program (3 cells), not the last cell handed out -/
def demoBlocks : Prog :=
  { decls := [false],
    body := .seq (.assign 0 (.lit 3)) (.seq
      (.ifElse (.eq (.var 0) (.lit 3))
        (.seq (.decl 1) (.seq (.decl 2) (.seq (.assign 1 (.add (.var 0) (.lit 1)))
          (.seq (.assign 2 (.mul (.var 1) (.lit 2))) (.seq (.iowrite 0 (.var 2)) .skip)))))
        (.seq (.decl 3) (.seq (.assign 3 (.add (.var 0) (.lit 5))) (.seq (.iowrite 0 (.var 3)) .skip))))
      (.seq (.iowrite 0 (.var 0)) .skip)) }

example : allLocs demoBlocks = [.mem 0, .mem 1, .mem 2, .mem 1] ∧
    ((compile demoBlocks).map List.length) = some 36 ∧
    runCode (fun _ _ => 0) 8 ((compile demoBlocks).getD []) 40 = ([(0, 8), (0, 3)], true) := by decide

/-! ### structured programs: `if`/`else`, `for`, block-local variables -/

/-- The compositional simulation lemma.  For every statement form, every loop fuel and every
    placement: the code of a statement compiled at address `base` and placed at offset `base` of a
    program, started at its first instruction in a machine state that agrees with the source state
    on the variables in scope (`AgreeL`), reaches — when the source statement finishes within the
    fuel — the instruction after its last one, in a state that agrees with the source's final state
    on the variables then in scope (`live ++ topDecls st`: block-local variables leave the scope with
    their block), with equal output lists.  Hypotheses: register width ≥ 1, the statement passes the
    scoping/placement check `wfS`, the registers of register variables are busy (`VarRegsIn`), the
    variables in scope live in distinct places (`LiveInj`).  `je` has the meaning the compiler
    relies on (`execInstr`). -/
theorem stmt_simulation (env : Nat → Nat → Nat) (w : Nat) (hw : 0 < w) (ls : List Loc) (fuel : Nat) (st : Stmt)
    (live : List Nat) (base : Nat) (busy : List Nat) (c : List Instr) (busy' : List Nat)
    (hc : compileS ls st base busy = some (c, busy')) (hwf : wfS ls st live = true)
    (hvr : VarRegsIn ls busy) (hinj : LiveInj ls live)
    (pre post : List Instr) (cfg : Cfg) (s : Src) (hb : base = pre.length) (hpc : cfg.pc = pre.length)
    (hag : AgreeL ls live cfg s) (ho : cfg.outs = s.outs) (hdone : (exec env w fuel st s).2 = true) :
    ∃ cfg', Reaches env w (pre ++ c ++ post) cfg cfg' ∧ cfg'.pc = pre.length + c.length ∧
      AgreeL ls (live ++ topDecls st) cfg' (exec env w fuel st s).1 ∧
      cfg'.outs = (exec env w fuel st s).1.outs :=
  stmtOK_all env w hw ls fuel st live base busy c busy' hc hwf hvr hinj pre post cfg s hb hpc hag ho hdone

/-- the same when the fuel runs out inside the statement (a loop that has not finished): the
    machine reaches a state that has written exactly the outputs the source wrote so far -/
theorem stmt_simulation_timeout (env : Nat → Nat → Nat) (w : Nat) (hw : 0 < w) (ls : List Loc) (fuel : Nat) (st : Stmt)
    (live : List Nat) (base : Nat) (busy : List Nat) (c : List Instr) (busy' : List Nat)
    (hc : compileS ls st base busy = some (c, busy')) (hwf : wfS ls st live = true)
    (hvr : VarRegsIn ls busy) (hinj : LiveInj ls live)
    (pre post : List Instr) (cfg : Cfg) (s : Src) (hb : base = pre.length) (hpc : cfg.pc = pre.length)
    (hag : AgreeL ls live cfg s) (ho : cfg.outs = s.outs) (hto : (exec env w fuel st s).2 = false) :
    ∃ cfg', Reaches env w (pre ++ c ++ post) cfg cfg' ∧ cfg'.outs = (exec env w fuel st s).1.outs :=
  stmtTO_all env w hw ls fuel st live base busy c busy' hc hwf hvr hinj pre post cfg s hb hpc hag ho hto

/-- `compile_correct` for structured programs, termination form: if `main` returns within `fuel`
    loop iterations, the compiled program — from the reset state — reaches a state past its last
    instruction having written exactly `goEval`'s outputs. -/
theorem compile_correct_structured (env : Nat → Nat → Nat) (w : Nat) (hw : 0 < w) (fuel : Nat) (p : Prog)
    (code : List Instr) (hc : compile p = some code) (hwf : wfProg p = true)
    (hdone : (goEval env w fuel p).2 = true) :
    ∃ n, runCode env w code n = ((goEval env w fuel p).1, true) :=
  compile_structured env w hw fuel p code hc hwf hdone

/-- `compile_correct` for structured programs, every fuel (terminating or not): for every fuel there
    is a number of instructions after which the compiled program has written exactly what `goEval`
    wrote within that fuel; when `main` returned the machine has left the program.  (Output lists
    only grow on both sides, so this identifies the two output streams prefix by prefix.) -/
theorem compile_correct_wf (env : Nat → Nat → Nat) (w : Nat) (hw : 0 < w) (fuel : Nat) (p : Prog)
    (code : List Instr) (hc : compile p = some code) (hwf : wfProg p = true) :
    ∃ n, (runCode env w code n).1 = (goEval env w fuel p).1 ∧
         ((goEval env w fuel p).2 = true → (runCode env w code n).2 = true) :=
  compile_prefix env w hw fuel p code hc hwf

/-- allocation facts used by the simulation: registers busy before a statement stay busy (so the
    registers of register variables are never handed out), and a well-placed statement keeps the
    variables in scope in pairwise distinct places -/
theorem alloc_inv_stmt (ls : List Loc) (st : Stmt) (base : Nat) (busy : List Nat) (c : List Instr)
    (busy' : List Nat) (h : compileS ls st base busy = some (c, busy')) (live : List Nat)
    (hwf : wfS ls st live = true) (hinj : LiveInj ls live) :
    (∀ x ∈ busy, x ∈ busy') ∧ LiveInj ls (live ++ topDecls st) :=
  ⟨compileS_mono ls st base busy c busy' h, wfS_liveInj ls st live hwf hinj⟩

/-- What a machine whose `je` does nothing (procbuilder's `je` today, known finding C12-je-stub;
    modelled as the oracle does: `je` at address l replaced by `j (l+1)`) does with the tail of a
    compiled comparison: the result register is 0 whatever the operands hold, i.e. every compiled
    `==` is false and every `if` takes its else path, every conditional `for` is skipped. -/
theorem je_noop_comparison_false (env : Nat → Nat → Nat) (w : Nat) (pre post : List Instr) (rc l : Nat) (cfg : Cfg)
    (hpc : cfg.pc = pre.length) (hl : l = pre.length) :
    ∃ cfg', Reaches env w (pre ++ [Instr.j (l + 1), Instr.rset rc 0, Instr.j (l + 4), Instr.rset rc 1] ++ post) cfg cfg' ∧
      cfg'.pc = l + 4 ∧ cfg'.regs rc = 0 ∧ cfg'.mem = cfg.mem ∧ cfg'.outs = cfg.outs ∧
      (∀ x, x ≠ rc → cfg'.regs x = cfg.regs x) :=
  cond_tail_je_noop env w pre post rc l cfg hpc hl

/-! non-vacuity of the structured theorems: the block demo above and a program with a conditional
    loop pass `wfProg`, compile, and the theorems apply to them -/
def demoLoop : Prog :=
  { decls := [true, false],       -- reg_v0, v1
    body := .seq (.loop (some (.eq (.var 1) (.lit 0)))
        (.seq (.decl 2) (.seq (.assign 2 (.add (.mul (.var 0) (.lit 3)) (.lit 1))) (.seq (.assign 0 (.var 2))
          (.seq (.ifThen (.eq (.var 0) (.lit 40)) (.seq (.assign 1 (.lit 1)) .skip))
            (.seq (.iowrite 0 (.var 0)) .skip))))))
      .skip }

example : wfProg demoBlocks = true ∧ wfProg demoLoop = true ∧ scopedProg demoBlocks = true ∧
    scopedProg demoLoop = true ∧ (compile demoLoop).isSome = true := by decide

example (env : Nat → Nat → Nat) (fuel : Nat) :
    ∃ n, (runCode env 8 ((compile demoLoop).getD []) n).1 = (goEval env 8 fuel demoLoop).1 := by
  have hc : compile demoLoop = some ((compile demoLoop).getD []) := by decide
  obtain ⟨n, h, _⟩ := compile_correct_wf env 8 (by decide) fuel demoLoop _ hc (by decide)
  exact ⟨n, h⟩

/-- the machine really runs the loop of `demoLoop`: 1, 4, 13, 40 -/
example : runCode (fun _ _ => 0) 8 ((compile demoLoop).getD []) 200 = ([(0, 1), (0, 4), (0, 13), (0, 40)], true) := by
  decide

/-- The full statement of semantic preservation for the modelled subset: for every program that
    obeys Go's scoping rule (`scopedProg`: on unique variable indices, block-local variables numbered
    in textual order) and that the model compiler accepts, every register width ≥ 1, environment and
    loop fuel, the compiled program reaches — after some number of instructions — a state whose
    output list is exactly what `goEval` produced within that fuel; and when `main` returned, the
    machine has run off the end of the program.
    (Width 0 is excluded: there `rset r 1` stores 0 and the statement is false.) -/
def compile_correct_full : Prop :=
  ∀ (env : Nat → Nat → Nat) (w fuel : Nat) (p : Prog) (code : List Instr),
    0 < w → scopedProg p = true → compile p = some code →
    ∃ n, (runCode env w code n).1 = (goEval env w fuel p).1 ∧
         ((goEval env w fuel p).2 = true → (runCode env w code n).2 = true)

/-- `alloc_inv`, memory cells: soundness of the cell release discipline of `blockLocs` (the
    variables of a `then` body are released before the `else` body is compiled, nothing else is
    released): in every well-scoped program a new block-local variable never gets the cell of a
    variable that is still in scope, all reads and writes are in scope — i.e. the decidable check
    `wfProg` that the simulation needs holds for every program that obeys Go's scoping rule. -/
theorem alloc_inv_placement (p : Prog) (h : scopedProg p = true) : wfProg p = true :=
  placement_sound p h

/-- **`compile_correct`**: the full statement holds for the modelled subset. -/
theorem compile_correct : compile_correct_full :=
  fun env w fuel p code hw hs hc => compile_correct_wf env w hw fuel p code hc (alloc_inv_placement p hs)

/-! ### `break`, `continue`, three-clause `for` (`compileX`, `execX`) -/

/-- The simulation lemma with loop labels.  `compileX` gets the addresses of the innermost loop's
    exit (`lb`) and continue point (`lc`); `execX` says how the statement ended.  For every way of
    ending other than running out of fuel the machine reaches: the instruction after the statement
    (`ok`), the loop's exit label (`break`), its continue label (`continue`) — `exitPc` — in a state
    that agrees with the source on the variables in scope (`exitLive`: what the statement declared
    stays in scope only if it fell through), with equal outputs.  The `for` cases: a `continue` or a
    normal end of the body both arrive at the continue point (the post clause, or the back jump), a
    `break` arrives behind the back jump; the post clause is compiled with the labels of the
    enclosing loop.  Labels are computed beforehand from `codeLen`, which is the length of the code
    (`compileX_length`). -/
theorem stmt_simulation_labels (env : Nat → Nat → Nat) (w : Nat) (hw : 0 < w) (ls : List Loc) (fuel : Nat) (st : Stmt)
    (lb lc : Nat) (live : List Nat) (base : Nat) (busy : List Nat) (c : List Instr) (busy' : List Nat)
    (hc : compileX ls lb lc st base busy = some (c, busy')) (hwf : wfS ls st live = true)
    (hvr : VarRegsIn ls busy) (hinj : LiveInj ls live)
    (pre post : List Instr) (cfg : Cfg) (s : Src) (hb : base = pre.length) (hpc : cfg.pc = pre.length)
    (hag : AgreeL ls live cfg s) (ho : cfg.outs = s.outs) (hnt : (execX env w fuel st s).2 ≠ .timeout) :
    ∃ cfg', Reaches env w (pre ++ c ++ post) cfg cfg' ∧
      cfg'.pc = exitPc (execX env w fuel st s).2 (pre.length + c.length) lb lc ∧
      AgreeL ls (exitLive (execX env w fuel st s).2 live st) cfg' (execX env w fuel st s).1 ∧
      cfg'.outs = (execX env w fuel st s).1.outs :=
  stmtOKX_all env w hw ls fuel st lb lc live base busy c busy' hc hwf hvr hinj pre post cfg s hb hpc hag ho hnt

/-- … and when the fuel runs out: the outputs written so far are written by the machine -/
theorem stmt_simulation_labels_timeout (env : Nat → Nat → Nat) (w : Nat) (hw : 0 < w) (ls : List Loc) (fuel : Nat)
    (st : Stmt) (lb lc : Nat) (live : List Nat) (base : Nat) (busy : List Nat) (c : List Instr) (busy' : List Nat)
    (hc : compileX ls lb lc st base busy = some (c, busy')) (hwf : wfS ls st live = true)
    (hvr : VarRegsIn ls busy) (hinj : LiveInj ls live)
    (pre post : List Instr) (cfg : Cfg) (s : Src) (hb : base = pre.length) (hpc : cfg.pc = pre.length)
    (hag : AgreeL ls live cfg s) (ho : cfg.outs = s.outs) (hto : (execX env w fuel st s).2 = .timeout) :
    ∃ cfg', Reaches env w (pre ++ c ++ post) cfg cfg' ∧ cfg'.outs = (execX env w fuel st s).1.outs :=
  stmtTOX_all env w hw ls fuel st lb lc live base busy c busy' hc hwf hvr hinj pre post cfg s hb hpc hag ho hto

/-- the length of the code does not depend on labels or allocator state -/
theorem compileX_code_length (ls : List Loc) (st : Stmt) (lb lc base : Nat) (busy : List Nat) (c : List Instr)
    (busy' : List Nat) (h : compileX ls lb lc st base busy = some (c, busy')) : c.length = codeLen ls st :=
  compileX_length ls st lb lc base busy c busy' h

/-- the full statement for the language with `break` / `continue` / post clauses: as
    `compile_correct_full`, for `compileXP` / `goEvalX`, for programs in which `break` / `continue`
    occur inside loops only (the real compiler rejects the others) -/
def compile_correct_full_x : Prop :=
  ∀ (env : Nat → Nat → Nat) (w fuel : Nat) (p : Prog) (code : List Instr),
    0 < w → scopedProg p = true → noStray p.body = true → compileXP p = some code →
    ∃ n, (runCode env w code n).1 = (goEvalX env w fuel p).1 ∧
         ((goEvalX env w fuel p).2 = true → (runCode env w code n).2 = true)

/-- **`compile_correct_x`**: it holds. -/
theorem compile_correct_x : compile_correct_full_x :=
  fun env w fuel p code hw hs hns hc =>
    compileX_prefix env w hw fuel p code hc (alloc_inv_placement p hs) hns

/-! non-vacuity: a three-clause loop with `continue` (the post clause must still run) followed by an
    endless loop left by `break` -/
def demoBreak : Prog :=
  { decls := [false, false],
    body := .seq (.loopP (.eq (.var 1) (.lit 0))
        (.seq (.ifThen (.eq (.var 0) (.lit 2)) (.seq .cont .skip))
          (.seq (.iowrite 0 (.var 0)) (.seq (.ifThen (.eq (.var 0) (.lit 5)) (.seq (.assign 1 (.lit 1)) .skip)) .skip)))
        (.inc 0))
      (.seq (.loop none (.seq (.inc 0) (.seq (.ifThen (.eq (.var 0) (.lit 9)) (.seq .brk .skip)) .skip)))
        (.seq (.iowrite 0 (.lit 99)) .skip)) }

example : scopedProg demoBreak = true ∧ noStray demoBreak.body = true ∧ wfProg demoBreak = true ∧
    ((compileXP demoBreak).map List.length) = some 48 := by decide

example : runCode (fun _ _ => 0) 8 ((compileXP demoBreak).getD []) 400
    = ([(0, 0), (0, 1), (0, 3), (0, 4), (0, 5), (0, 99)], true) := by decide

example (env : Nat → Nat → Nat) (fuel : Nat) :
    ∃ n, (runCode env 8 ((compileXP demoBreak).getD []) n).1 = (goEvalX env 8 fuel demoBreak).1 := by
  have hc : compileXP demoBreak = some ((compileXP demoBreak).getD []) := by decide
  obtain ⟨n, h, _⟩ := compile_correct_x env 8 fuel demoBreak _ (by decide) (by decide) (by decide) hc
  exact ⟨n, h⟩

/-! tuple assignment (`Stmt.tassign`, part of `compileX` / `execX`, covered by `compile_correct_x`): all
    right-hand sides are evaluated left to right, each into its own temporary register that stays
    allocated; then the stores happen left to right, each temporary released after its store — the
    order the real compiler uses, and Go's semantics -/
def demoTuple : Prog :=
  { decls := [false, true, false],     -- v0, reg_v1, v2
    body := .seq (.tassign [(0, .lit 10)]) (.seq (.tassign [(1, .lit 13)])
      (.seq (.tassign [(0, .var 1), (1, .var 0)])                       -- v0, reg_v1 = reg_v1, v0
      (.seq (.iowrite 0 (.var 0)) (.seq (.iowrite 0 (.var 1))
      (.seq (.tassign [(0, .add (.var 0) (.var 1)), (1, .var 0), (2, .mul (.var 1) (.lit 2))])
      (.seq (.iowrite 0 (.var 0)) (.seq (.iowrite 0 (.var 1)) (.seq (.iowrite 0 (.var 2)) .skip)))))))) }

example : scopedProg demoTuple = true ∧ noStray demoTuple.body = true ∧
    runCode (fun _ _ => 0) 8 ((compileXP demoTuple).getD []) 100
      = ([(0, 13), (0, 10), (0, 23), (0, 13), (0, 20)], true) := by decide

/-- the simulation lemma's tuple-assignment case on its own: the code of `x1, …, xk = e1, …, ek` -/
theorem stmt_simulation_tuple (env : Nat → Nat → Nat) (w fuel : Nat) (ls : List Loc) (ps : List (Nat × Expr)) :
    StmtOKX env w ls fuel (.tassign ps) :=
  stmtOKX_tassign env w fuel ls ps

/-! `x1, … := e1, …` (`Stmt.define`, memory names; part of `compileX` / `execX`, covered by
    `compile_correct_x`): the right-hand sides are evaluated in the scope *before* the new variables
    (so `x := x + 1` in a nested block reads the outer `x`), then every new variable gets a fresh
    memory cell of its block (`blockLocs`, released like a `var` of that block) and is stored with
    `r2m`.  The program of the `:=` regression (commit 96ceb1e): Go writes 5, 7. -/
def demoDefine : Prog :=
  { decls := [false],
    body := .seq (.tassign [(0, .lit 7)])
      (.seq (.ifThen (.eq (.var 0) (.lit 7))
          (.seq (.define [(1, .lit 5)]) (.seq (.iowrite 0 (.var 1)) .skip)))
        (.seq (.iowrite 0 (.var 0)) .skip)) }

example : scopedProg demoDefine = true ∧ noStray demoDefine.body = true ∧
    allLocs demoDefine = [.mem 0, .mem 1] ∧
    runCode (fun _ _ => 0) 8 ((compileXP demoDefine).getD []) 100 = ([(0, 5), (0, 7)], true) := by decide

/-- the simulation lemma's `:=` case on its own -/
theorem stmt_simulation_define (env : Nat → Nat → Nat) (w fuel : Nat) (ls : List Loc) (ps : List (Nat × Expr)) :
    StmtOKX env w ls fuel (.define ps) :=
  stmtOKX_define env w fuel ls ps

/-! `:=` of a name the current block already declares is refused (visiter.go "Already defined variable",
    live since /repo a87efcf — also the partial re-declaration `x, y := …` that Go accepts): `compileXP`
    returns `none` for such a program (`redeclProg`), so `compile_correct_x` says nothing about it, and
    every program `compileXP` accepts is free of it. A `:=` of the same *name* in a nested block is a new
    variable (a different index) and stays accepted (`demoDefine`). -/
theorem compile_refuses_redeclare (p : Prog) (h : redeclProg p = true) : compileXP p = none := by
  unfold compileXP; rw [h]; rfl

theorem compile_accepts_no_redeclare (p : Prog) (code : List Instr) (h : compileXP p = some code) :
    redeclProg p = false ∧ compileXBody p = some code :=
  ⟨(compileXP_some h).2, (compileXP_some h).1⟩

/-- `var x uint8; x, y := 5, 6` (corpus 14), `x := 5` (corpus 16), and a re-declaration inside a loop body -/
def demoRedeclare : Prog :=
  { decls := [false], body := .seq (.define [(0, .lit 5), (1, .lit 6)]) (.seq (.iowrite 0 (.var 0)) .skip) }

example : compileXP demoRedeclare = none ∧ (compileXBody demoRedeclare).isSome = true ∧
    compileXP { decls := [false], body := .define [(0, .lit 5)] } = none ∧
    compileXP { decls := [], body := .loop none (.seq (.define [(0, .lit 1)]) (.seq (.define [(1, .lit 2), (0, .lit 3)]) .brk)) } = none ∧
    (compileXP { decls := [], body := .loop none (.seq (.define [(0, .lit 1)]) (.seq (.define [(1, .lit 2)]) .brk)) }).isSome = true := by
  decide

/-! `switch tag { case v: … default: … }` (`Stmt.switch` with the clause list `swCase … (swDefault … | skip)`;
    part of `compileX` / `execX`, covered by `compile_correct_x`). The code is what visiter.go emits, not an
    if/else chain: the tag into a temporary that stays allocated, a jump table (`rset r v; je rt r <clause>`
    per `case`, the constant's temporary released each time, then one jump to `default` or to the end), the
    clause bodies in textual order, each followed by a jump to the end. Semantics: the tag is evaluated
    once, the first matching clause runs; `break` ends the switch (Go), `continue` is the enclosing loop's. -/
theorem stmt_simulation_switch (env : Nat → Nat → Nat) (w : Nat) (hw : 0 < w) (fuel : Nat) (ls : List Loc)
    (tag : Expr) (cs : Stmt) : StmtOKX env w ls fuel (.switch tag cs) :=
  stmtOKX_all env w hw ls fuel (.switch tag cs)

theorem stmt_simulation_switch_timeout (env : Nat → Nat → Nat) (w : Nat) (hw : 0 < w) (fuel : Nat) (ls : List Loc)
    (tag : Expr) (cs : Stmt) : StmtTOX env w ls fuel (.switch tag cs) :=
  stmtTOX_all env w hw ls fuel (.switch tag cs)

/-- a loop around a switch: `default`, a plain clause, a clause that ends in `continue`, and a `break`
    of the loop outside the switch. Go writes 0, 11, 3, 9. -/
def demoSwitch : Prog :=
  { decls := [false],
    body := .seq (.tassign [(0, .lit 0)])
      (.seq (.loop none
          (.seq (.ifThen (.eq (.var 0) (.lit 4)) (.seq .brk .skip))
          (.seq (.switch (.var 0)
              (.swCase 1 (.seq (.iowrite 0 (.lit 11)) .skip)
              (.swCase 2 (.seq (.inc 0) (.seq .cont .skip))
              (.swDefault (.seq (.iowrite 0 (.var 0)) .skip)))))
          (.seq (.inc 0) .skip))))
      (.seq (.iowrite 0 (.lit 9)) .skip)) }

example : scopedProg demoSwitch = true ∧ noStray demoSwitch.body = true ∧ wfProg demoSwitch = true ∧
    (compileXP demoSwitch).isSome = true := by decide

example : runCode (fun _ _ => 0) 8 ((compileXP demoSwitch).getD []) 300
    = ([(0, 0), (0, 11), (0, 3), (0, 9)], true) := by decide

example (env : Nat → Nat → Nat) (fuel : Nat) :
    ∃ n, (runCode env 8 ((compileXP demoSwitch).getD []) n).1 = (goEvalX env 8 fuel demoSwitch).1 := by
  have hc : compileXP demoSwitch = some ((compileXP demoSwitch).getD []) := by decide
  obtain ⟨n, h, _⟩ := compile_correct_x env 8 fuel demoSwitch _ (by decide) (by decide) (by decide) hc
  exact ⟨n, h⟩

/-- `break` directly in a clause ends the switch, not the loop around it (Go): 0, 2, 9.
    (/repo before 5d0e719 emitted a jump to the end of the loop: 0, 9 — corpus/C12/17-break-in-switch.json.) -/
def demoSwitchBreak : Prog :=
  { decls := [false],
    body := .seq (.tassign [(0, .lit 0)])
      (.seq (.loop none
          (.seq (.ifThen (.eq (.var 0) (.lit 3)) (.seq .brk .skip))
          (.seq (.switch (.var 0)
              (.swCase 1 (.seq .brk .skip)
              (.swDefault (.seq (.iowrite 0 (.var 0)) .skip))))
          (.seq (.inc 0) .skip))))
      (.seq (.iowrite 0 (.lit 9)) .skip)) }

example : scopedProg demoSwitchBreak = true ∧ noStray demoSwitchBreak.body = true ∧
    runCode (fun _ _ => 0) 8 ((compileXP demoSwitchBreak).getD []) 300 = ([(0, 0), (0, 2), (0, 9)], true) := by decide

/-- `break` in a switch that is in no loop (accepted since /repo 5d0e719; `noStray` allows it): the rest of
    the clause is skipped. Go writes 1, 9. -/
def demoSwitchBreakNoLoop : Prog :=
  { decls := [false],
    body := .seq (.tassign [(0, .lit 2)])
      (.seq (.switch (.var 0)
          (.swCase 2 (.seq (.iowrite 0 (.lit 1)) (.seq (.ifThen (.eq (.var 0) (.lit 2)) (.seq .brk .skip))
            (.seq (.iowrite 0 (.lit 7)) .skip)))
          (.swDefault (.seq (.iowrite 0 (.lit 8)) .skip))))
      (.seq (.iowrite 0 (.lit 9)) .skip)) }

example : scopedProg demoSwitchBreakNoLoop = true ∧ noStray demoSwitchBreakNoLoop.body = true ∧
    runCode (fun _ _ => 0) 8 ((compileXP demoSwitchBreakNoLoop).getD []) 100 = ([(0, 1), (0, 9)], true) := by decide

example (env : Nat → Nat → Nat) (fuel : Nat) :
    ∃ n, runCode env 8 ((compileXP demoSwitchBreakNoLoop).getD []) n = goEvalX env 8 fuel demoSwitchBreakNoLoop := by
  have hc : compileXP demoSwitchBreakNoLoop = some ((compileXP demoSwitchBreakNoLoop).getD []) := by decide
  obtain ⟨n, h1, h2⟩ := compile_correct_x env 8 fuel demoSwitchBreakNoLoop _ (by decide) (by decide) (by decide) hc
  have hd : (goEvalX env 8 fuel demoSwitchBreakNoLoop).2 = true := by
    rcases execX_status env 8 fuel demoSwitchBreakNoLoop.body {} (by decide) with h | h
    · simp [goEvalX, h]
    · exfalso
      simp [demoSwitchBreakNoLoop, execX, swSelect, evalE, evalC, evalEs, assignAll, upd] at h
  exact ⟨n, Prod.ext h1 (by rw [h2 hd, hd])⟩

end BMV.Props.C12
