/-
  C14 — Compiled quantum circuits implement the circuit's unitary.

  Property theorems only (model: BMV/Quantum.lean, a hand-written model of pkg/bmqsim/bmqsim.go and
  of the bmmatrix operations it uses; lemmas: BMV/Proofs/Quantum.lean; tie: tools/props/c14.py).

  Statement (properties.jsonl): for every quantum circuit over the supported gate set and every
  assignment of gates to qubits (adjacent or not, in either order), the sequence of matrices the
  compiler emits multiplies to the unitary defined by applying each gate to the named qubits in
  program order, each emitted matrix is unitary, and the software simulation maps every basis
  state to that unitary's column.   forall n in 1..5 qubits . forall gate sequences ...

  What is proved, over EVERY lawful commutative semiring `R` and every choice of gate matrices
  (so in particular over ℂ; float32 is an assumed approximation, compared with tolerance in the tie):

  * the model of `BmMatrixFromOperation` WITH THE REPAIR (`layer false`, positions of a multi-qubit
    gate's arguments taken from the current local order) maps every layer of disjoint gates on
    n ≤ 5 qubits to the product of the gates' embeddings (`layer_eq_layerRef_upto5`,
    `layer_eq_embed_upto5`).  The range n ≤ 5 is the property's own quantifier; it enters through a
    kernel-checked (`decide +kernel`) certificate over ALL layer shapes (`certificate_*`), lifted to
    arbitrary gate matrices by the general lemma `layer_of_check`.
  * the model of the code AS PINNED (`layer true`, positions taken from `sim.qbitsNum`) violates the
    statement: `pinned_code_counterexample` (4 qubits, `g0 q0 q2 ; g1 q1 q3`).  This is the defect the
    correspondence reports on the unchanged tree (docs/C14.md).
  * `compile_prod_upto5`, `sim_column_upto5`: product of the emitted matrices = Uref, simulation of a
    basis state = column of Uref.
  * unitarity (M·M† = I, with any semiring homomorphism `c` as conjugation): `embed_preserves_unitary`,
    `product_preserves_unitary`, `uref_unitary` hold for EVERY n; `compile_unitary_upto5` (every emitted
    matrix and their product are unitary) inherits the bound n ≤ 5 only from the certificate.  Over ℂ
    (Mathlib's complex numbers) every gate of the supported set is exactly unitary
    (`gate_set_unitary`, parametric gates from cos² + sin² = 1), hence
    `compile_unitary_complex_upto5`.
-/
import BMV.Proofs.Quantum
import BMV.Proofs.QuantumUnitary
import BMV.Proofs.QuantumGates
namespace BMV.Props.C14
open BMV.Quantum MulOps Ops

/-! ### the certificate: every layer shape on n qubits, n = 1..5 (kernel-checked enumeration) -/

theorem certificate_1 : checkAll 1 = true := by decide +kernel
theorem certificate_2 : checkAll 2 = true := by decide +kernel
theorem certificate_3 : checkAll 3 = true := by decide +kernel
theorem certificate_4 : checkAll 4 = true := by decide +kernel
theorem certificate_5 : checkAll 5 = true := by decide +kernel

/-- the enumeration is not small: 1786 ordered layer shapes on 5 qubits -/
example : (allLayers 5).length = 1786 ∧ (allLayers 4).length = 221 := by decide +kernel

theorem certificate_upto5 (n : Nat) (h1 : 1 ≤ n) (h5 : n ≤ 5) (L : List (List Nat))
    (hL : ValidLayer n L) : checkLayer n L = true := by
  have hm := validLayer_mem_allLayers n L hL
  have hall : checkAll n = true := by
    have : n = 1 ∨ n = 2 ∨ n = 3 ∨ n = 4 ∨ n = 5 := by omega
    rcases this with h | h | h | h | h <;> subst h
    · exact certificate_1
    · exact certificate_2
    · exact certificate_3
    · exact certificate_4
    · exact certificate_5
  exact (List.all_eq_true.mp hall) L hm

/-- **layer = reference** (repaired model): for 1 ≤ n ≤ 5, every layer of gates of arity 1 or 2 on
    pairwise disjoint declared qubits — any placement, any argument order, any order of the lines —
    and EVERY choice of gate matrices over every lawful commutative semiring: the matrix built by the
    model of `BmMatrixFromOperation` exists, is 2^n × 2^n and has the entries of `layerRef`. -/
theorem layer_eq_layerRef_upto5 {R : Type} [Ops R] [Lawful R] (n : Nat) (h1 : 1 ≤ n) (h5 : n ≤ 5)
    (gs : List (Gate R)) (hv : ValidLayer n (gs.map (·.args))) :
    ∃ M, layer false n gs = some M ∧ M.dim = 2 ^ n ∧
      ∀ i j, i < 2 ^ n → j < 2 ^ n → M.e i j = layerRef n gs i j :=
  layer_of_check n gs (certificate_upto5 n h1 h5 _ hv)

/-- non-vacuity: a concrete non-trivial layer (non-adjacent reversed cx-like gate, a second 2-qubit
    gate whose qubits were moved by the first, one 1-qubit gate) satisfies the hypotheses -/
example : ValidLayer 5 [[4, 1], [0, 3], [2]] :=
  ⟨by decide, by decide, by decide⟩

/-- **the code as pinned is wrong** (model of the unrepaired `BmMatrixFromOperation`, symbolic gates
    g0 on (q0,q2), g1 on (q1,q3), 4 qubits): at entry (8,10) = (|1000⟩,|1010⟩) the emitted matrix holds
    g0[2][2]·g1[0][2] (that is g0 applied to (q0,q1) and g1 to (q2,q3)) while the circuit's matrix
    holds g0[2][3]·g1[0][0]; the two monomials differ. -/
theorem pinned_code_counterexample :
    ∃ M, layer true 4 (symGates [[0, 2], [1, 3]]) = some M ∧
      M.e 8 10 = some [(0, 2, 2), (1, 0, 2)] ∧
      layerRef 4 (symGates [[0, 2], [1, 3]]) 8 10 = some [(0, 2, 3), (1, 0, 0)] ∧
      symEq (M.e 8 10) (layerRef 4 (symGates [[0, 2], [1, 3]]) 8 10) = false := by
  refine ⟨_, rfl, ?_, ?_, ?_⟩ <;> decide +kernel

/-- `layerRef` is the ordered product of the gates' embeddings, for EVERY n (no bound): the finite sum
    of a matrix product has exactly one non-zero term because the gates act on disjoint qubits. -/
theorem layerRef_eq_embed_product {R : Type} [Ops R] [Lawful R] (n : Nat) (gs : List (Gate R))
    (hv : ValidLayer n (gs.map (·.args))) :
    EqOn (2 ^ n) (Uref n gs) (layerRef n gs) :=
  (embedChain n idMat gs hv).trans (mmul_id_right _ _)

/-- **`layer_eq_embed_upto5`**: a layer of gates on disjoint qubits compiles to the product of the
    embeddings of its gates (`Uref` of the layer = `embed g_k · … · embed g_1`). -/
theorem layer_eq_embed_upto5 {R : Type} [Ops R] [Lawful R] (n : Nat) (h1 : 1 ≤ n) (h5 : n ≤ 5)
    (gs : List (Gate R)) (hv : ValidLayer n (gs.map (·.args))) :
    ∃ M, layer false n gs = some M ∧ M.dim = 2 ^ n ∧ EqOn (2 ^ n) M.e (Uref n gs) := by
  obtain ⟨M, hM, hd, he⟩ := layer_eq_layerRef_upto5 n h1 h5 gs hv
  exact ⟨M, hM, hd, EqOn.trans he (layerRef_eq_embed_product n gs hv).symm⟩

/-- the general-n statement that is NOT proved (the certificate is an enumeration up to 5 qubits) -/
def layer_eq_embed_full : Prop :=
  ∀ (R : Type) [Ops R] [Lawful R] (n : Nat) (gs : List (Gate R)), 1 ≤ n → ValidLayer n (gs.map (·.args)) →
    ∃ M, layer false n gs = some M ∧ M.dim = 2 ^ n ∧ EqOn (2 ^ n) M.e (Uref n gs)

/-- the greedy split of `QasmToBmMatrices` only regroups: layers are valid and concatenate to the circuit -/
theorem compile_layers_partition {R : Type} [Ops R] [Lawful R] (n : Nat) (c : List (Gate R))
    (hok : ∀ g ∈ c, OkGate n g) :
    (∀ l ∈ compileLayers c, ValidLayer n (l.map (·.args))) ∧ (compileLayers c).flatten = c :=
  compileLayers_spec n c hok

/-- **`compile_prod`** (n ≤ 5): for every circuit over gates of arity 1 or 2 with distinct declared
    qubit arguments, the compiler emits matrices (one per layer, all 2^n × 2^n) whose product
    `M_last · … · M_0` is the circuit's unitary `Uref` = `embed g_last · … · embed g_1`. -/
theorem compile_prod_upto5 {R : Type} [Ops R] [Lawful R] (n : Nat) (h1 : 1 ≤ n) (h5 : n ≤ 5)
    (c : List (Gate R)) (hok : ∀ g ∈ c, OkGate n g) :
    ∃ Ms, compile false n c = some Ms ∧ (∀ M ∈ Ms, M.dim = 2 ^ n) ∧
      EqOn (2 ^ n) (prodMats (2 ^ n) (Ms.map (·.e))) (Uref n c) := by
  obtain ⟨hvalid, hflat⟩ := compileLayers_spec n c hok
  obtain ⟨Ms, hMs, _, hdims, hprod⟩ :=
    compileMats_prod n (fun gs hv => layer_eq_layerRef_upto5 n h1 h5 gs hv) (compileLayers c) hvalid
  refine ⟨Ms, hMs, hdims, ?_⟩
  have := hprod idMat idMat (EqOn.refl _ _)
  rw [hflat] at this
  exact this

/-- **`sim_column`** (n ≤ 5): the software simulation (matrices applied first to last to the state
    vector) of basis state `k` returns column `k` of the circuit's unitary. -/
theorem sim_column_upto5 {R : Type} [Ops R] [Lawful R] (n : Nat) (h1 : 1 ≤ n) (h5 : n ≤ 5)
    (c : List (Gate R)) (hok : ∀ g ∈ c, OkGate n g) :
    ∃ Ms, compile false n c = some Ms ∧
      ∀ k i, k < 2 ^ n → i < 2 ^ n → simulate (2 ^ n) (Ms.map (·.e)) (basis k) i = Uref n c i k := by
  obtain ⟨Ms, hMs, _, hprod⟩ := compile_prod_upto5 n h1 h5 c hok
  refine ⟨Ms, hMs, ?_⟩
  intro k i hk hi
  rw [simulate_eq _ _ _ i hi, mulVec_basis _ _ k hk]
  exact hprod i k hi hk

/-- simulation of any state = multiplication by the product of the matrices (no bound on n) -/
theorem sim_is_product {R : Type} [Ops R] [Lawful R] (N : Nat) (ms : List (Mat R)) (v : Nat → R) :
    ∀ i, i < N → simulate N ms v i = mulVec N (prodMats N ms) v i :=
  simulate_eq N ms v

/-- non-vacuity of the circuit hypotheses: a 3-gate circuit on 4 qubits with a reused qubit
    (so two layers), over the symbolic-free carrier of natural numbers -/
instance : Ops Nat := { zero := 0, one := 1, mul := Nat.mul, add := Nat.add }
instance : Lawful Nat where
  add_assoc := Nat.add_assoc
  add_comm := Nat.add_comm
  zero_add := Nat.zero_add
  mul_assoc := Nat.mul_assoc
  mul_comm := Nat.mul_comm
  one_mul := Nat.one_mul
  zero_mul := Nat.zero_mul
  left_distrib := Nat.left_distrib

example : ∀ g ∈ ([⟨fun r c => r + 2 * c + 1, [2, 0]⟩, ⟨fun r c => 3 * r + c, [1, 3]⟩,
    ⟨fun r c => r * c + 1, [0]⟩] : List (Gate Nat)), OkGate 4 g := by
  intro g hg
  simp only [List.mem_cons, List.not_mem_nil, or_false] at hg
  rcases hg with h | h | h <;> subst h <;> exact ⟨by decide, by decide, by decide⟩

example : (compileLayers ([⟨fun r c => r + 2 * c + 1, [2, 0]⟩, ⟨fun r c => 3 * r + c, [1, 3]⟩,
    ⟨fun r c => r * c + 1, [0]⟩] : List (Gate Nat))).map (·.map (·.args)) = [[[2, 0], [1, 3]], [[0]]] := by
  decide

/-! ### unitarity: M · M† = I on the range, `c` any semiring homomorphism (complex conjugation) -/

/-- embedding a unitary gate on distinct declared qubits gives a unitary matrix — EVERY n, every arity -/
theorem embed_preserves_unitary {R : Type} [Ops R] [Lawful R] {c : R → R} (hc : ConjHom c) (n : Nat)
    (g : Gate R) (hlt : ∀ x ∈ g.args, x < n) (hnd : g.args.Nodup)
    (hu : IsUnitary (2 ^ g.args.length) c g.m) : IsUnitary (2 ^ n) c (embed n g) :=
  embed_unitary hc n g hlt hnd hu

/-- products of unitary matrices are unitary; so is the identity; unitarity only looks at the range -/
theorem product_preserves_unitary {R : Type} [Ops R] [Lawful R] {c : R → R} (hc : ConjHom c) (N : Nat)
    {A B : Mat R} (hA : IsUnitary N c A) (hB : IsUnitary N c B) :
    IsUnitary N c (mmul N A B) ∧ IsUnitary N c (idMat : Mat R) :=
  ⟨isUnitary_mmul hc N hA hB, isUnitary_id hc N⟩

/-- the circuit's unitary `Uref` is unitary — EVERY n -/
theorem uref_unitary {R : Type} [Ops R] [Lawful R] {c : R → R} (hc : ConjHom c) (n : Nat)
    (gs : List (Gate R)) (hg : ∀ g ∈ gs, UnitaryGate n c g) : IsUnitary (2 ^ n) c (Uref n gs) :=
  Uref_unitary hc n gs (fun g h => ⟨(hg g h).1.2.1, (hg g h).1.2.2, (hg g h).2⟩)

/-- **`compile_unitary_upto5`**: for 1 ≤ n ≤ 5 and every circuit of unitary gates (arity 1 or 2, distinct
    declared qubits), every matrix the compiler emits is unitary, and so is their product.
    Only the certificate behind `layer_eq_embed_upto5` is bounded. -/
theorem compile_unitary_upto5 {R : Type} [Ops R] [Lawful R] {c : R → R} (hc : ConjHom c) (n : Nat)
    (h1 : 1 ≤ n) (h5 : n ≤ 5) (circ : List (Gate R)) (hg : ∀ g ∈ circ, UnitaryGate n c g) :
    ∃ Ms, compile false n circ = some Ms ∧ (∀ M ∈ Ms, M.dim = 2 ^ n ∧ IsUnitary (2 ^ n) c M.e) ∧
      IsUnitary (2 ^ n) c (prodMats (2 ^ n) (Ms.map (·.e))) := by
  have hok : ∀ g ∈ circ, OkGate n g := fun g h => (hg g h).1
  obtain ⟨Ms, hMs, hdims, _⟩ := compile_prod_upto5 n h1 h5 circ hok
  obtain ⟨hvalid, hflat⟩ := compileLayers_spec n circ hok
  have hall : ∀ M ∈ Ms, IsUnitary (2 ^ n) c M.e := by
    intro M hM
    obtain ⟨l, hl, hlayer⟩ := compileMats_mem n (compileLayers circ) Ms hMs M hM
    obtain ⟨M', hM', _, heq⟩ := layer_eq_embed_upto5 n h1 h5 l (hvalid l hl)
    rw [hlayer] at hM'
    cases hM'
    refine isUnitary_congr _ heq (uref_unitary hc n l ?_)
    intro g hgl
    apply hg
    rw [← hflat]
    exact List.mem_flatten.mpr ⟨l, hl, hgl⟩
  refine ⟨Ms, hMs, fun M hM => ⟨hdims M hM, hall M hM⟩, ?_⟩
  apply prodMats_unitary hc
  intro m hm
  obtain ⟨M, hM, rfl⟩ := List.mem_map.mp hm
  exact hall M hM

/-- **every gate of the supported set {h,x,y,z,s,t,sx,p,rx,ry,rz,r,cx,cz,swap,iswap,dcnot} is exactly
    unitary over ℂ**, for every angle (`Kind.mat`: the textbook closed forms; in the bmqsim dialect
    `p` = S and `r θ` = phase shift; rx/ry/rz/r/t from cos² + sin² = 1, h from (1/√2)²·2 = 1) -/
theorem gate_set_unitary (k : Kind) : IsUnitary (2 ^ k.arity) (starRingEnd ℂ) k.mat :=
  kind_unitary k

/-- **`compile_unitary_complex_upto5`**: over ℂ, for 1 ≤ n ≤ 5, every circuit over the supported gate
    set with distinct declared qubit arguments (adjacent or not, either order): every emitted matrix
    is unitary and their product — which is `Uref` by `compile_prod_upto5` — is unitary. -/
theorem compile_unitary_complex_upto5 (n : Nat) (h1 : 1 ≤ n) (h5 : n ≤ 5)
    (circ : List (Kind × List Nat))
    (hok : ∀ ka ∈ circ, ka.2.length = ka.1.arity ∧ (∀ x ∈ ka.2, x < n) ∧ ka.2.Nodup) :
    ∃ Ms, compile false n (circ.map fun ka => ka.1.gate ka.2) = some Ms ∧
      (∀ M ∈ Ms, M.dim = 2 ^ n ∧ IsUnitary (2 ^ n) (starRingEnd ℂ) M.e) ∧
      IsUnitary (2 ^ n) (starRingEnd ℂ) (prodMats (2 ^ n) (Ms.map (·.e))) := by
  apply compile_unitary_upto5 conjHomComplex n h1 h5
  intro g hg
  obtain ⟨ka, hka, rfl⟩ := List.mem_map.mp hg
  obtain ⟨hlen, hlt, hnd⟩ := hok ka hka
  refine ⟨⟨?_, hlt, hnd⟩, ?_⟩
  · show ka.2.length = 1 ∨ ka.2.length = 2
    rw [hlen]
    cases ka.1 <;> simp [Kind.arity]
  · show IsUnitary (2 ^ ka.2.length) _ ka.1.mat
    rw [hlen]
    exact kind_unitary ka.1

/-- non-vacuity: a concrete circuit over ℂ (reversed non-adjacent cx, two 2-qubit gates in one layer,
    parametric gates) meets the hypotheses of `compile_unitary_complex_upto5` -/
example : ∀ ka ∈ ([(Kind.h, [0]), (Kind.cx, [3, 0]), (Kind.iswap, [1, 2]), (Kind.rz 0.7, [2]),
      (Kind.rx 1.1, [3])] : List (Kind × List Nat)),
    ka.2.length = ka.1.arity ∧ (∀ x ∈ ka.2, x < 4) ∧ ka.2.Nodup := by
  intro ka h
  simp only [List.mem_cons, List.not_mem_nil, or_false] at h
  rcases h with h | h | h | h | h <;> subst h <;> exact ⟨rfl, by decide, by decide⟩

end BMV.Props.C14
