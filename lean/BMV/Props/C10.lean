/-
  C10 — Editing a machine's topology never corrupts the bonds it does not touch.

  Property theorems only (helper lemmas: BMV/Proofs/Topology.lean; model: BMV/Topology.lean, a
  hand-written model of pkg/bondmachine/bondmachine.go tied to the code by the correspondence
  check of tools/props/c10.py).

  Statement (properties.jsonl): after any sequence of topology edits a BondMachine is still well
  formed and every bond not addressed by an edit still joins the same two named endpoints, modulo
  the documented renumbering of external ports above a deleted one.
    forall finite sequences of API edits starting from an empty machine with arbitrary domains :
      wellformed(bm_k)  and  bonds(bm_k) == apply_spec(edit_k, bonds(bm_{k-1}))  for every prefix k
-/
import BMV.Proofs.Topology
namespace BMV.Props.C10
open BMV.Topology

/-- the empty machine is well formed -/
theorem wf_init : WF Topo.empty := wf_empty

/-- every edit of the API preserves well-formedness (no precondition: edits the code rejects
    leave the machine unchanged, see `reject_unchanged`) -/
theorem wf_step (t : Topo) (e : Edit) (h : WF t) : WF (apply t e) := by
  cases e with
  | addInput => exact wf_addInput h
  | delInput k => exact wf_delInput h k
  | addOutput => exact wf_addOutput h
  | delOutput k => exact wf_delOutput h k
  | addProcessor n m => exact wf_addProcessor h n m
  | addBond a b => exact wf_addBond h a b
  | delBond i => exact wf_delBond h i
  | attach a b => exact wf_attach h a b

/-- every edit changes the set of bonds exactly as its specification says -/
theorem bonds_step (t : Topo) (e : Edit) (h : WF t) (p : Bond × Bond) :
    p ∈ bonds (apply t e) ↔ p ∈ specBonds t e := by
  cases e with
  | addInput => exact bonds_addInput h p
  | delInput k => exact bonds_delInput h k p
  | addOutput => exact bonds_addOutput h p
  | delOutput k => exact bonds_delOutput h k p
  | addProcessor n m => exact bonds_addProcessor h n m p
  | addBond a b => exact bonds_addBond h a b p
  | delBond i => exact bonds_delBond h i p
  | attach a b => exact bonds_attach h a b p

/-- an edit the API rejects with an error leaves the machine as it was -/
theorem reject_unchanged (t : Topo) (e : Edit) (h : rejects t e = true) : apply t e = t := by
  cases e with
  | delInput k => simp only [rejects, Bool.not_eq_true', decide_eq_false_iff_not] at h; simp [apply, delInput, h]
  | delOutput k => simp only [rejects, Bool.not_eq_true', decide_eq_false_iff_not] at h; simp [apply, delOutput, h]
  | delBond i => simp only [rejects, Bool.not_eq_true', decide_eq_false_iff_not] at h; simp [apply, delBond, h]
  | attach a b =>
    simp only [rejects, Bool.not_eq_true', decide_eq_false_iff_not] at h
    simp only [apply, attach, h, if_false]
  | _ => simp [rejects] at h

/-- well-formedness of every machine reachable from the empty one: all finite edit histories,
    arbitrary processor port counts, no bound on length -/
theorem wf_run (es : List Edit) : WF (run Topo.empty es) := by
  suffices ∀ t, WF t → WF (run t es) from this _ wf_init
  induction es with
  | nil => intro t h; exact h
  | cons e es ih => intro t h; exact ih _ (wf_step t e h)

/-- the bond specification holds at every prefix of every history -/
theorem bonds_run (es : List Edit) (e : Edit) (p : Bond × Bond) :
    p ∈ bonds (run Topo.empty (es ++ [e])) ↔ p ∈ specBonds (run Topo.empty es) e := by
  have : run Topo.empty (es ++ [e]) = apply (run Topo.empty es) e := by
    simp [run, List.foldl_append]
  rw [this]
  exact bonds_step _ e (wf_run es) p

/-- frame corollary: a bond whose endpoints are not addressed by the edit survives it unchanged.
    (addressed = the sink named by add/del bond, the deleted external port; external ports above a
    deleted one are renamed, which is why `delInput`/`delOutput` are stated through `renIn`/`renOut`) -/
theorem bonds_frame (t : Topo) (e : Edit) (h : WF t) (o s : Bond) (hb : (o, s) ∈ bonds t) :
    match e with
    | .addInput | .addOutput | .addProcessor _ _ | .attach _ _ => (o, s) ∈ bonds (apply t e)
    | .delInput k => o ≠ ⟨0, k, 0⟩ → (renIn k o, s) ∈ bonds (apply t e)
    | .delOutput k => s ≠ ⟨1, k, 0⟩ → (o, renOut k s) ∈ bonds (apply t e)
    | .addBond a b => s ≠ a → s ≠ b → (o, s) ∈ bonds (apply t e)
    | .delBond i => t.iin[i]? ≠ some s → (o, s) ∈ bonds (apply t e) := by
  cases e with
  | addInput => exact (bonds_step t _ h _).mpr hb
  | addOutput => exact (bonds_step t _ h _).mpr hb
  | addProcessor n m => exact (bonds_step t _ h _).mpr hb
  | attach a b =>
    refine (bonds_step t _ h _).mpr ?_
    simp only [specBonds]; split
    · exact List.mem_append_left _ hb
    · exact hb
  | delInput k =>
    intro hne
    refine (bonds_step t _ h _).mpr ?_
    simp only [specBonds]; split
    · simp only [List.mem_map, List.mem_filter, decide_eq_true_eq]
      exact ⟨(o, s), ⟨hb, hne⟩, rfl⟩
    · rename_i hk
      have : renIn k o = o := by
        have ho : o ∈ t.iout := by
          obtain ⟨i, j, _, _, h3⟩ := mem_bonds.mp hb
          exact List.mem_of_getElem? h3
        rcases (h.iout_mem o).mp ho with ⟨_, h2, _⟩ | ⟨h1, _⟩
        · unfold renIn; have : ¬ o.res > k := by omega
          simp [this]
        · unfold renIn; have : ¬ o.kind = 0 := by omega
          simp [this]
      rw [this]; exact hb
  | delOutput k =>
    intro hne
    refine (bonds_step t _ h _).mpr ?_
    simp only [specBonds]; split
    · simp only [List.mem_map, List.mem_filter, decide_eq_true_eq]
      exact ⟨(o, s), ⟨hb, hne⟩, rfl⟩
    · rename_i hk
      have : renOut k s = s := by
        have hs := bond_sink_mem hb
        rcases (h.iin_mem s).mp hs with ⟨_, h2, _⟩ | ⟨h1, _⟩
        · unfold renOut; have : ¬ s.res > k := by omega
          simp [this]
        · unfold renOut; have : ¬ s.kind = 1 := by omega
          simp [this]
      rw [this]; exact hb
  | addBond a b =>
    intro h1 h2
    refine (bonds_step t _ h _).mpr ?_
    simp only [specBonds]
    cases ht : addBondTarget t a b with
    | none => exact hb
    | some os =>
      obtain ⟨o', s'⟩ := os
      simp only [List.mem_append, List.mem_filter, decide_eq_true_eq]
      left
      refine ⟨hb, ?_⟩
      -- the sink chosen by addBond is one of the two named endpoints
      rcases addBondTarget_sink ht with e | e <;> (rw [e]; assumption)
  | delBond i =>
    intro hne
    refine (bonds_step t _ h _).mpr ?_
    simp only [specBonds]
    cases hs : t.iin[i]? with
    | none => exact hb
    | some s' =>
      simp only [List.mem_filter, decide_eq_true_eq]
      exact ⟨hb, fun e => hne (by rw [hs, e])⟩

/-- The executable check `wfB`, which the driver evaluates on every state dumped by the real
    implementation, decides exactly the well-formedness predicate of the theorems above; and
    `sameSet (bonds g') (specBonds g e)` is the Boolean form of `bonds_step`'s conclusion. -/
theorem wfB_decides_WF (t : Topo) : wfB t = true ↔ WF t := wfB_iff t

/-- The command line layer only composes API edits (`applyCli t e = run t (expandCli t e)` by
    definition), so every machine reachable through any sequence of CLI invocations is well formed. -/
theorem wf_cli (t : Topo) (e : CliEdit) (h : WF t) : WF (applyCli t e) := by
  unfold applyCli run
  generalize expandCli t e = es
  induction es generalizing t with
  | nil => exact h
  | cons a as ih => exact ih _ (wf_step t a h)

theorem wf_cli_run (es : List CliEdit) : WF (es.foldl applyCli Topo.empty) := by
  suffices ∀ t, WF t → WF (es.foldl applyCli t) from this _ wf_init
  induction es with
  | nil => intro t h; exact h
  | cons e es ih => intro t h; exact ih _ (wf_cli t e h)

/-- `-del-outputs` / `-del-inputs` delete exactly the named ids that exist, once each, highest first
    (so that the renumbering of one deletion never redirects a later one) -/
theorem cliIds_spec (count : Nat) (ks : List Nat) :
    (∀ k, k ∈ cliIds count ks ↔ (k ∈ ks ∧ k < count)) ∧ (cliIds count ks).Nodup ∧
    (cliIds count ks).Pairwise (· ≥ ·) := by
  unfold cliIds
  have hfold : ∀ (l acc : List Nat), acc.Nodup → (∀ k ∈ acc, k < count) →
      let r := l.foldl (fun acc k => if k < count ∧ k ∉ acc then acc ++ [k] else acc) acc
      r.Nodup ∧ (∀ k, k ∈ r ↔ (k ∈ acc ∨ (k ∈ l ∧ k < count))) := by
    intro l
    induction l with
    | nil => intro acc hn _; simp [hn]
    | cons x xs ih =>
      intro acc hn hb
      simp only [List.foldl_cons]
      by_cases hc : x < count ∧ x ∉ acc
      · rw [if_pos hc]
        have hn' : (acc ++ [x]).Nodup := by
          rw [List.nodup_append]
          refine ⟨hn, by simp, ?_⟩
          intro a ha b hb' e
          simp at hb'; subst hb'; subst e; exact hc.2 ha
        have hb' : ∀ k ∈ acc ++ [x], k < count := by
          intro k hk; simp at hk; rcases hk with hk | hk
          · exact hb k hk
          · subst hk; exact hc.1
        obtain ⟨r1, r2⟩ := ih (acc ++ [x]) hn' hb'
        refine ⟨r1, fun k => ?_⟩
        rw [r2 k]
        simp only [List.mem_append, List.mem_cons, List.not_mem_nil, or_false]
        constructor
        · rintro ((h1 | h1) | h1)
          · exact Or.inl h1
          · subst h1; exact Or.inr ⟨Or.inl rfl, hc.1⟩
          · exact Or.inr ⟨Or.inr h1.1, h1.2⟩
        · rintro (h1 | ⟨h1 | h1, h2⟩)
          · exact Or.inl (Or.inl h1)
          · exact Or.inl (Or.inr h1)
          · exact Or.inr ⟨h1, h2⟩
      · rw [if_neg hc]
        obtain ⟨r1, r2⟩ := ih acc hn hb
        refine ⟨r1, fun k => ?_⟩
        rw [r2 k]
        simp only [List.mem_cons]
        constructor
        · rintro (h1 | h1)
          · exact Or.inl h1
          · exact Or.inr ⟨Or.inr h1.1, h1.2⟩
        · rintro (h1 | ⟨h1 | h1, h2⟩)
          · exact Or.inl h1
          · subst h1
            left
            exact Decidable.byContradiction fun hna => hc ⟨h2, hna⟩
          · exact Or.inr ⟨h1, h2⟩
  obtain ⟨hn, hm⟩ := hfold ks [] List.nodup_nil (by simp)
  simp only [List.not_mem_nil, false_or] at hm
  refine ⟨?_, ?_, ?_⟩
  · intro k
    rw [List.mem_reverse, List.mem_mergeSort, hm k]
  · exact ((List.reverse_perm _).trans (List.mergeSort_perm _ _)).nodup_iff.mpr hn
  · rw [List.pairwise_reverse]
    have := List.pairwise_mergeSort (le := fun a b => decide (a ≤ b)) (by intro a b c; simp; omega) (by intro a b; simp; omega)
      (ks.foldl (fun acc k => if k < count ∧ k ∉ acc then acc ++ [k] else acc) [])
    exact this.imp (by intro a b h; simpa using h)

/-! ### non-vacuity: a concrete history that exercises the dangerous case (delete a middle
    external input that has bonds above it) reaches a well-formed machine with bonds, and the
    renumbering is visible. -/

def demoHistory : List Edit :=
  [.addInput, .addInput, .addInput, .addProcessor 2 1, .addOutput,
   .addBond ⟨2, 0, 0⟩ ⟨0, 2, 0⟩, .addBond ⟨2, 0, 1⟩ ⟨0, 0, 0⟩, .addBond ⟨1, 0, 0⟩ ⟨3, 0, 0⟩,
   .delInput 1]

example : bonds (run Topo.empty demoHistory) =
    [(⟨0, 1, 0⟩, ⟨2, 0, 0⟩), (⟨0, 0, 0⟩, ⟨2, 0, 1⟩), (⟨3, 0, 0⟩, ⟨1, 0, 0⟩)] := by decide

example : wfB (run Topo.empty demoHistory) = true := by decide

end BMV.Props.C10
