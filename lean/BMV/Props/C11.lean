/-
  C11 — Saving and reloading a machine loses nothing.

  Property theorems only (model: BMV/Json.lean, lemmas: BMV/Proofs/Json.lean, regenerated struct
  field lists: BMV/Gen/Fields.lean, written from the Go source on every run by `h-c11 fields`).

  Statement (properties.jsonl): writing any BondMachine or single machine to its JSON form and
  loading it back gives a machine that is structurally equal to the original …; saving the reloaded
  machine reproduces the same JSON.  Loading never silently drops an opcode, a shared object or
  a bond.
      load(save(bm)) == bm,  save(load(save(bm))) == save(bm)

  Reading guide.
  * `reg0` is the registry (`Allopcodes` + `AllDynamicalInstructions`) of a *fresh* process of the
    loading tool; `reg` is that registry at the moment of loading (`Ext reg0 reg`: it may already
    have created any number of dynamic opcodes).  `CreateNames reg0` is `dyn_name_roundtrip` for
    the families of `reg0`; it is proved for the concrete registry in `std_createNames`.
  * `Resolvable reg0 m`: every opcode of `m` is a static opcode or the canonical product of the
    first family accepting its name.  `built_resolvable` shows that this is *every* opcode a tool
    process started from `reg0` can ever put into a machine (machines take their opcodes from
    `Allopcodes`), so the hypothesis excludes exactly: opcodes whose family cannot build them in
    the loading process (linear quantizer without `-linear-data-range`, FloPoCo without the
    external program) and names nothing knows.  `nil_opcode_iff` says that in exactly those cases
    `Dejsoner` leaves a nil entry.
  * equality is modulo the declared transient fields `CpID`, `Tag`, `SharedHDLOps`
    (`clearTransient`), see `fields_machine`.
-/
import BMV.Proofs.Json
import BMV.Gen.Fields
namespace BMV.Props.C11
open BMV.Json

/-! ## load ∘ save = id -/

/-- a single machine (`procbuilder` / `bondgo` files): reloading gives the machine back -/
theorem load_save_machine {reg0 reg : Registry} (hc : CreateNames reg0) (he : Ext reg0 reg)
    (m : Machine) (hr : Resolvable reg0 m) :
    (dejsoner reg (jsoner m)).2 = m.clearTransient.lift :=
  (dejsoner_jsoner hc he hr).1

/-- a whole BondMachine: domains (in order, the registry growing from one to the next), topology,
    shared objects and their links all come back -/
theorem load_save {reg0 reg : Registry} (hc : CreateNames reg0) (he : Ext reg0 reg) (b : BM)
    (hr : ∀ d ∈ b.domains, Resolvable reg0 d) (hv : ∀ so ∈ b.sos, so.Valid) :
    (dejsonerBM reg (jsonerBM b)).2 = b.clearTransient.lift := by
  have h := dejsonDomains_resolvable hc b.domains reg he hr
  simp only [dejsonerBM, jsonerBM, h.1, sos_roundtrip b.sos hv, BMOf.lift, BMOf.clearTransient,
    List.map_map]
  rfl

/-- loading leaves the process in a state from which everything stays resolvable (so a second
    file, or the same file again, loads equally well) -/
theorem load_keeps_registry {reg0 reg : Registry} (hc : CreateNames reg0) (he : Ext reg0 reg)
    (b : BM) (hr : ∀ d ∈ b.domains, Resolvable reg0 d) :
    Ext reg0 (dejsonerBM reg (jsonerBM b)).1 :=
  (dejsonDomains_resolvable hc b.domains reg he hr).2

/-! ## loading as the tools do it: `Dejsoner` followed by `Init` -/

/-- `Init` is idempotent (its own comment says so) -/
theorem init_idempotent {α β : Type} (b : BMOf α β) : initBM (initBM b) = initBM b := by
  unfold initBM
  cases h : b.slinks <;> simp [h]

/-- after `Init` (every tool calls it on every machine it creates or loads) `Shared_links` is never nil -/
theorem init_not_nil {α β : Type} (b : BMOf α β) : (initBM b).slinks ≠ none := by
  unfold initBM
  cases h : b.slinks <;> simp [h]

/-- `Init` never touches attachment lists that exist, whatever their number … -/
theorem init_keeps {α β : Type} (b : BMOf α β) (l : List (List Int)) (h : b.slinks = some l) :
    initBM b = b := by
  unfold initBM; simp [h]

/-- … and touches nothing but `Shared_links` -/
theorem init_frame {α β : Type} (b : BMOf α β) : { initBM b with slinks := b.slinks } = b := by
  cases b with
  | mk rsize domains processors inputs outputs iin iout links sos slinks =>
    cases slinks <;> rfl

/-- a machine whose `Shared_links` is not the nil slice (every machine with a processor:
    `Add_processor` appends a list) comes back unchanged from `Dejsoner` + `Init`: in particular
    every processor/shared-object attachment, for any relation between the number of domains and
    the number of processors -/
theorem load_init_save {reg0 reg : Registry} (hc : CreateNames reg0) (he : Ext reg0 reg) (b : BM)
    (hr : ∀ d ∈ b.domains, Resolvable reg0 d) (hv : ∀ so ∈ b.sos, so.Valid)
    (hs : b.slinks ≠ none) :
    (loadBM reg (jsonerBM b)).2 = b.clearTransient.lift := by
  simp only [loadBM, load_save hc he b hr hv]
  cases h : b.slinks with
  | none => exact absurd h hs
  | some l => exact init_keeps _ l (by simp [BMOf.lift, BMOf.clearTransient, h])

/-- in general (nil `Shared_links` only occurs without processors) the attachments, read with
    nil = no list, are preserved and `Init` changes nothing else -/
theorem load_init_attachments {reg0 reg : Registry} (hc : CreateNames reg0) (he : Ext reg0 reg)
    (b : BM) (hr : ∀ d ∈ b.domains, Resolvable reg0 d) (hv : ∀ so ∈ b.sos, so.Valid)
    (hs : b.slinks = none → b.processors = []) :
    attachments (loadBM reg (jsonerBM b)).2 = attachments b ∧
    { (loadBM reg (jsonerBM b)).2 with slinks := b.slinks } = b.clearTransient.lift := by
  simp only [loadBM, load_save hc he b hr hv]
  constructor
  · cases h : b.slinks with
    | none =>
      have hp := hs h
      simp [attachments, initBM, BMOf.lift, BMOf.clearTransient, h, hp]
    | some l =>
      rw [init_keeps _ l (by simp [BMOf.lift, BMOf.clearTransient, h])]
      simp [attachments, BMOf.lift, BMOf.clearTransient]
  · have := init_frame (b.clearTransient.lift)
    simpa [BMOf.lift, BMOf.clearTransient] using this

/-! ## save ∘ load ∘ save = save -/

theorem save_load_save_machine {reg0 reg : Registry} (hc : CreateNames reg0) (he : Ext reg0 reg)
    (m : Machine) (hr : Resolvable reg0 m) :
    jsonerL (dejsoner reg (jsoner m)).2 = some (jsoner m) := by
  rw [load_save_machine hc he m hr]
  simp only [jsonerL, check_lift, Option.map_some, jsoner_clearTransient]

theorem save_load_save {reg0 reg : Registry} (hc : CreateNames reg0) (he : Ext reg0 reg) (b : BM)
    (hr : ∀ d ∈ b.domains, Resolvable reg0 d) (hv : ∀ so ∈ b.sos, so.Valid) :
    jsonerBML (dejsonerBM reg (jsonerBM b)).2 = some (jsonerBM b) := by
  rw [load_save hc he b hr hv]
  have h1 : allSome ((b.clearTransient.lift).domains.map MachineOf.check)
      = some (b.domains.map (·.clearTransient)) := by
    simp only [BMOf.lift, BMOf.clearTransient, List.map_map]
    have := check_lift_list (b.domains.map (·.clearTransient))
    simpa only [List.map_map, Function.comp_def] using this
  have h2 : allSome (b.clearTransient.lift).sos = some b.sos := by
    simp only [BMOf.lift, BMOf.clearTransient]; exact allSome_map_some _
  simp only [jsonerBML, BMOf.check, h1, h2, Option.map_some]
  simp only [jsonerBM, BMOf.lift, BMOf.clearTransient, List.map_map]
  congr 1

/-! ## nothing is dropped silently -/

/-- unconditionally (any file, any registry): as many opcodes per domain, as many domains,
    shared objects, bond table entries and shared links come back as the file holds; the bond
    tables themselves are copied verbatim.  What can go wrong is only *nil entries*. -/
theorem counts_preserved (reg : Registry) (j : BMJson) :
    let l := (dejsonerBM reg j).2
    l.domains.length = j.domains.length ∧ l.sos.length = j.sos.length ∧
    l.links = j.links ∧ l.iin = j.iin ∧ l.iout = j.iout ∧ l.slinks = j.slinks ∧
    l.processors = j.processors ∧ bondCount l = (j.links.filter (· ≠ -1)).length := by
  simp only [dejsonerBM, dejsonDomains_length, List.length_map, bondCount, and_self]

theorem op_count_preserved (reg : Registry) (j : MachineJson) :
    (dejsoner reg j).2.ops.length = j.op.length := by
  simp only [dejsoner, dejsonOps_length]

/-- under the hypotheses of `load_save` no entry is nil: every opcode, shared object and bond of
    the saved machine is present in the loaded one -/
theorem no_silent_drop {reg0 reg : Registry} (hc : CreateNames reg0) (he : Ext reg0 reg) (b : BM)
    (hr : ∀ d ∈ b.domains, Resolvable reg0 d) (hv : ∀ so ∈ b.sos, so.Valid) :
    let l := (dejsonerBM reg (jsonerBM b)).2
    l.domains.length = b.domains.length ∧
    (l.domains.map fun d => d.ops.length) = (b.domains.map fun d => d.ops.length) ∧
    (∀ d ∈ l.domains, ∀ o ∈ d.ops, o ≠ none) ∧
    l.sos.length = b.sos.length ∧ (∀ s ∈ l.sos, s ≠ none) ∧
    bondCount l = bondCount b ∧ l.links = b.links ∧ l.iin = b.iin ∧ l.iout = b.iout := by
  intro l
  have hl : l = b.clearTransient.lift := load_save hc he b hr hv
  rw [hl]
  simp only [BMOf.lift, BMOf.clearTransient, List.length_map, List.map_map, bondCount,
    true_and, and_true]
  refine ⟨?_, ?_, ?_⟩
  · apply List.map_congr_left; intro d _
    simp [MachineOf.lift, MachineOf.mapOps, MachineOf.clearTransient]
  · intro d hd o ho
    simp only [List.mem_map] at hd
    obtain ⟨d0, _, rfl⟩ := hd
    simp only [Function.comp, MachineOf.lift, MachineOf.mapOps, MachineOf.clearTransient,
      List.mem_map] at ho
    obtain ⟨x, _, rfl⟩ := ho
    exact Option.some_ne_none x
  · intro s hs
    simp only [List.mem_map] at hs
    obtain ⟨x, _, rfl⟩ := hs
    exact Option.some_ne_none x

/-- exactly when `Dejsoner` leaves a nil opcode (the observable `nil-opcode`): no registered
    opcode has the name, and no family matches it or the first matching family fails to build it.
    The Go code returns no error in that case. -/
theorem nil_opcode_iff {reg : Registry} (hc : CreateNames reg) (n : String) :
    lookupLast (eventuallyCreate reg n).ops n = none ↔
      (∀ o ∈ reg.ops, o.name ≠ n) ∧
      ∀ f, reg.fams.find? (·.matchName n) = some f → f.create n = none := by
  constructor
  · intro h
    rcases ec_cases reg n with h1 | ⟨f, op, hf, hop, hno, h2⟩
    · rw [h1] at h
      have hno : ∀ o ∈ reg.ops, o.name ≠ n := by
        intro o ho hn
        cases hl : lookupLast reg.ops n with
        | some x => rw [hl] at h; cases h
        | none =>
          have : ∃ x ∈ reg.ops.reverse, (x.name == n) = true :=
            ⟨o, List.mem_reverse.mpr ho, by simp [hn]⟩
          unfold lookupLast at hl
          rw [List.find?_eq_none] at hl
          obtain ⟨x, hx, hxn⟩ := this
          exact hl x hx hxn
      refine ⟨hno, ?_⟩
      intro f hf
      -- the registry did not change although a family matched and the name was free
      unfold eventuallyCreate at h1
      rw [hf] at h1
      have hany : (reg.ops.any (·.name == n)) = false := by
        rw [Bool.eq_false_iff]; intro ha
        simp only [List.any_eq_true, beq_iff_eq] at ha
        obtain ⟨o, ho, hn⟩ := ha
        exact hno o ho hn
      simp only [hany] at h1
      cases hcr : f.create n with
      | none => rfl
      | some op =>
        rw [hcr] at h1
        simp only [Bool.false_eq_true, if_false] at h1
        have : (reg.ops ++ [op]).length = reg.ops.length := by
          have := congrArg (fun r => r.ops.length) h1
          simp at this
        simp at this
    · have hfm : f ∈ reg.fams := List.mem_of_find?_eq_some hf
      have hname := hc f hfm n op hop
      rw [h2] at h
      subst hname
      rw [lookupLast_append_single] at h
      cases h
  · rintro ⟨hno, hfam⟩
    rcases ec_cases reg n with h1 | ⟨f, op, hf, hop, _, _⟩
    · rw [h1]; exact lookupLast_none hno
    · rw [hfam f hf] at hop; cases hop

/-! ## dynamic opcode names and shared-object descriptions -/

/-- each of the seven families builds an opcode whose name is the name it was created from
    (so the name written by `Jsoner` is accepted by the same matcher and re-creates it) -/
theorem dyn_name_roundtrip (cfg : FamConfig) (f : Fam) (n : String) (op : Opcode)
    (h : (stdFamily cfg f).create n = some op) : op.name = n ∧ op.fam = some f := by
  simp only [stdFamily, famCreate] at h
  cases f <;> simp only at h
  · split at h
    · cases h; exact ⟨rfl, rfl⟩
    · cases h
  · split at h
    · cases h
    · split at h
      · cases h; exact ⟨rfl, rfl⟩
      · cases h
  all_goals (cases h; exact ⟨rfl, rfl⟩)

theorem std_createNames (cfg : FamConfig) (statics : List String) :
    CreateNames (stdRegistry cfg statics) := by
  intro f hf n op h
  simp only [stdRegistry, stdFamilies, List.mem_map] at hf
  obtain ⟨k, _, rfl⟩ := hf
  exact (dyn_name_roundtrip cfg k n op h).1

/-- a name accepted by a family's matcher, once created, is found again under that very name:
    `EventuallyCreateInstruction(name)` followed by the lookup loop never returns an opcode of
    another name -/
theorem lookup_name {reg : Registry} {n : String} {op : Opcode}
    (h : lookupLast (eventuallyCreate reg n).ops n = some op) : op.name = n :=
  (lookupLast_some h).1

/-- `Instantiate (String so) = so` for each of the nine shared-object kinds -/
theorem so_roundtrip (so : SO) (h : so.Valid) : instantiate so.toString = some so :=
  so_roundtrip_all so h

theorem so_roundtrip_sharedmem (d : Int) : instantiate (SO.sharedmem d).toString = some (.sharedmem d) := rt_sharedmem d
theorem so_roundtrip_channel : instantiate SO.channel.toString = some .channel := rt_channel
theorem so_roundtrip_barrier (t : Int) : instantiate (SO.barrier t).toString = some (.barrier t) := rt_barrier t
theorem so_roundtrip_lfsr8 (s : Fin 256) : instantiate (SO.lfsr8 s).toString = some (.lfsr8 s) := rt_lfsr8 s
theorem so_roundtrip_queue (d : Int) : instantiate (SO.queue d).toString = some (.queue d) := rt_queue d
theorem so_roundtrip_stack (d : Int) : instantiate (SO.stack d).toString = some (.stack d) := rt_stack d
theorem so_roundtrip_uart (b d : Int) : instantiate (SO.uart b d).toString = some (.uart b d) := rt_uart b d
theorem so_roundtrip_kbd (d : Int) : instantiate (SO.kbd d).toString = some (.kbd d) := rt_kbd d
/-- a video text memory without boxes prints as `vtextmem`, which nothing accepts — but … -/
theorem so_roundtrip_vtextmem (bs : List Box) (h : bs ≠ []) :
    instantiate (SO.vtextmem bs).toString = some (.vtextmem bs) := rt_vtextmem bs h
/-- … `Instantiate` (the only constructor the tools use) never builds one -/
theorem instantiate_valid (s : List Char) (so : SO) (h : instantiate s = some so) : so.Valid :=
  instantiate_valid_aux h

/-! ## every machine a tool process can build is resolvable -/

/-- the registry invariant: a fresh registry with distinct names satisfies it and
    `EventuallyCreateInstruction` (the only writer of `Allopcodes`) preserves it -/
theorem registry_init {reg0 : Registry} (h : reg0.names.Nodup) : Ext reg0 reg0 := ext_refl h

theorem registry_step {reg0 reg : Registry} (hc : CreateNames reg0) (he : Ext reg0 reg)
    (n : String) : Ext reg0 (eventuallyCreate reg n) := ext_step hc he n

/-- whatever opcode a process takes out of its registry — at any time, after any history of
    creations — is resolvable by a fresh process with the same families -/
theorem built_resolvable {reg0 reg : Registry} (he : Ext reg0 reg) (op : Opcode)
    (hm : op ∈ reg.ops) : ResolvableOp reg0 op := ext_mem_resolvable he hm

/-! ## regenerated obligations: the Go structs as they are in the source now -/

open BMV.Gen.Fields

/-- live fields that are deliberately not persisted.
    * `CpID`         — `Bondmachine.Write_verilog` sets `dom.Conproc.CpID = uint32(i)` for every
                       processor before emitting it (verilog.go); the simulator keeps its own
                       `VM.CpID` (vm.go).
    * `SharedHDLOps` — scratch accumulator of one `Write_verilog` call, reset at its start
                       (verilog.go: `dom.Conproc.SharedHDLOps = sharedHDLOps`).
    * `Tag`          — `Conproc.Write_verilog` sets `arch.Tag = fmt.Sprint(proc.CpID)` before any
                       opcode reads it (conproc.go).
    The correspondence run fills the three with random values before saving and requires
    byte-identical Verilog from the reloaded machine, which has them zeroed. -/
def transient : List String := ["CpID", "SharedHDLOps", "Tag"]

/-- how a live field type is stored: opcodes and shared objects by name, domains recursively -/
def persistedType : String → String
  | "[]Opcode" => "[]string"
  | "[]Shared_instance" => "[]string"
  | "[]*procbuilder.Machine" => "[]*procbuilder.Machine_json"
  | t => t

def persistedOf (live : List (String × String)) : List (String × String) :=
  (live.filter fun p => !transient.contains p.1).map fun p => (p.1, persistedType p.2)

/-- live-minus-transient = persisted, names and types, for `procbuilder.Machine` (flattened
    through Arch, Conproc, Rom, Ram, Program, Data) against `Machine_json` -/
theorem fields_machine : (persistedOf machineLive).isPerm machineJson = true := by decide

theorem fields_bm : (persistedOf bmLive).isPerm bmJson = true := by decide

/-- every transient field exists (a renamed field must not silently stay on the list) -/
theorem transient_exist : transient.all (fun t => (machineLive.map (·.1)).contains t) = true := by
  decide

/-- the model's records have exactly the fields of the Go structs (declaration order is free) -/
theorem model_fields_machine :
    (machineLive.map (·.1)).isPerm
      ["Modes", "CpID", "Rsize", "R", "N", "M", "Op", "Threaded", "SharedHDLOps", "O", "L",
       "Shared_constraints", "Tag", "WordSize", "Slocs", "Vars"] = true := by decide

theorem model_fields_bm :
    (bmLive.map (·.1)).isPerm
      ["Rsize", "Domains", "Processors", "Inputs", "Outputs", "Internal_inputs",
       "Internal_outputs", "Links", "Shared_objects", "Shared_links"] = true ∧
    bondFields.isPerm [("Map_to", "uint8"), ("Res_id", "int"), ("Ext_id", "int")] = true := by decide

/-- every persisted field is assigned from the field of the same name, and nothing else is
    assigned, in each of the four hand-written copy functions (flow extracted by go/ast) -/
def copiesExactly (persisted : List (String × String)) (assigns : List (String × List String)) : Bool :=
  assigns.all (fun a => a.2 == [a.1]) && persisted.all (fun p => assigns.contains (p.1, [p.1])) &&
  assigns.all (fun a => (persisted.map (·.1)).contains a.1)

theorem copies_machine_jsoner : copiesExactly machineJson machineJsonerAssigns = true := by decide
theorem copies_machine_dejsoner : copiesExactly machineJson machineDejsonerAssigns = true := by decide
theorem copies_bm_jsoner : copiesExactly bmJson bmJsonerAssigns = true := by decide
theorem copies_bm_dejsoner : copiesExactly bmJson bmDejsonerAssigns = true := by decide

/-- same struct names in the same (sorted) order, same fields up to declaration order -/
def sameStructs (a b : List (String × List (String × String))) : Bool :=
  a.length == b.length && (a.zip b).all fun p => p.1.1 == p.2.1 && p.1.2.isPerm p.2.2

/-- the shared-object instance structs carry exactly the parameters the model's `SO` has
    (a parameter added to a struct but not to `String()`/`Instantiate()` would be lost) -/
theorem so_instance_fields :
    sameStructs soInstances
      [("Barrier_instance", [("Shared_element", "Shared_element"), ("Timeout", "int")]),
       ("Channel_instance", [("Shared_element", "Shared_element")]),
       ("Kbd_instance", [("Shared_element", "Shared_element"), ("Depth", "int")]),
       ("Lfsr8_instance", [("Shared_element", "Shared_element"), ("Seed", "uint8")]),
       ("Queue_instance", [("Shared_element", "Shared_element"), ("Depth", "int")]),
       ("Sharedmem_instance", [("Shared_element", "Shared_element"), ("Depth", "int")]),
       ("Stack_instance", [("Shared_element", "Shared_element"), ("Depth", "int")]),
       ("Uart_instance", [("Shared_element", "Shared_element"), ("Depth", "int"), ("BaudRate", "int")]),
       ("Vtextmem_instance", [("Shared_element", "Shared_element"), ("Boxes", "[]GraphBox")])] = true ∧
    graphBoxFields.isPerm
      [("CP", "int"), ("Left", "int"), ("Top", "int"), ("Width", "int"), ("Height", "int")] = true := by
  decide

/-- order of the global registries (first match wins in both) -/
theorem registry_order :
    dynFamilies = ["DynFloPoCo", "DynLinearQuantizer", "DynRsets", "DynCall", "DynStack",
                   "DynFixedPoint", "DynFXP"] ∧
    sharedKinds = ["Sharedmem", "Channel", "Barrier", "Lfsr8", "Vtextmem", "Queue", "Stack",
                   "Uart", "Kbd"] := by decide

/-! ## non-vacuity -/

section Examples

def exCfg : FamConfig := { lqRanges := some [0, 1], flopoco := false }
def exReg : Registry := stdRegistry exCfg ["add", "nop", "rset"]
def exAdd : Opcode := ⟨"add", none, []⟩
def exRsets : Opcode := ⟨"rsets5", some .rsets, []⟩
def exLq : Opcode := ⟨"multlqs8t1", some .linq, []⟩
def exMachine : Machine :=
  { modes := ["ha"], cpID := 7, rsize := 8, r := 3, n := 1, m := 1, ops := [exAdd, exRsets, exLq],
    threaded := 0, sharedHDLOps := "x", o := 4, l := 2, sharedConstraints := "barrier:5",
    tag := "7", wordSize := 0, slocs := ["0101"], vars := [] }
def exBM : BM :=
  { rsize := 8, domains := [exMachine], processors := [0], inputs := 1, outputs := 1,
    iin := [⟨1, 0, 0⟩, ⟨2, 0, 0⟩], iout := [⟨0, 0, 0⟩, ⟨3, 0, 0⟩], links := [1, 0],
    sos := [.barrier 5, .vtextmem [⟨0, 1, 2, 3, 4⟩], .uart 115200 (-3), .lfsr8 200],
    slinks := some [[0, 1]] }

example : exReg.names.Nodup := by decide
example : CreateNames exReg := std_createNames _ _
example : ∀ so ∈ exBM.sos, so.Valid := by decide

/-- the hypotheses of `load_save` hold for a machine with a static, an `rsets` and a linear
    quantizer opcode … -/
example : Resolvable exReg exMachine := by
  intro op hop
  simp only [exMachine, List.mem_cons, List.not_mem_nil, or_false] at hop
  rcases hop with rfl | rfl | rfl
  · exact Or.inl (by decide)
  · exact Or.inr ⟨by decide, stdFamily exCfg .rsets, by rfl, rfl⟩
  · exact Or.inr ⟨by decide, stdFamily exCfg .linq, by rfl, rfl⟩

/-- … the model really reloads it (computed, not assumed) … -/
example : (dejsonerBM exReg (jsonerBM exBM)).2 = exBM.clearTransient.lift := by decide

/-- … and really drops the quantizer opcode when the loader has no ranges: the `nil-opcode` case -/
example :
    ((dejsoner (stdRegistry { lqRanges := none, flopoco := false } ["add", "nop", "rset"])
      (jsoner exMachine)).2.ops) = [some exAdd, some exRsets, none] := by decide

example : instantiate "vtextmem".toList = none := by decide
example : (SO.vtextmem []).toString = "vtextmem".toList := by decide

end Examples

end BMV.Props.C11
