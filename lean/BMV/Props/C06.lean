/-
  C06 — Mapping a fragment graph onto more or fewer processors keeps its result.

  Property theorems only (model: BMV/Frag.lean, a hand-written model of basm's fragmentComposer,
  links.go, NextResource/ReplaceArg and the ioatt pairing, tied to the code on every run by the
  correspondence check of tools/props/c06.py; helper lemmas: BMV/Proofs/Frag.lean).

  Statement (properties.jsonl): a computation described as a graph of code fragments joined by links
  produces the same output values for the same input values whether each fragment instance is placed
  on its own processor, all instances are collapsed onto one processor, or any partition in between
  is chosen; in every case the result equals the direct evaluation of the dataflow graph.
    forall DAG of fragment instances . forall partition into CPs (topologically ordered collapse
    lists) . forall input vectors : out(sim(basm(G,partition))) == eval(G)

  What is proved, and how the statement is split:
  * `temp_fresh`, `temp_subst_injective`   the registers chosen for the temporaries clash with nothing
  * `collapse_seq`                         one collapsed section = dataflow evaluation of its list
  * `compose_correct`                      SAFETY of the whole composed network: under the channel
                                           assumption (made explicit in `Frag.Consistent`: C04's
                                           exactly-once in-order delivery) every behaviour of the
                                           network shows eval(G) on every BM output
  * `partition_irrelevant`                 corollary: all partitions agree
  * LIVENESS (the network actually produces the outputs) does NOT hold for the tool: the composer
    emits the blocking `mov oK, r` of an instance right after its body, and two CPs that exchange
    values in crossing orders wait for each other for ever.  `compose_live_full` keeps the full
    statement visible; `compose_live_counterexample` refutes it on a four-instance graph (the same
    graph dead-locks in the real simulator, see docs/C06.md); `compose_correct` is therefore the
    safety half only, and the check reports the dead-lock as a finding.
-/
import BMV.Proofs.Frag

/-! concrete graphs used by the non-vacuity examples and by the dead-lock counterexample -/
namespace BMV.Frag.Ex
open BMV.Frag

def fInc : Fragment := { name := "inc", resin := [0], resout := [0], body := [.inc 0] }
def fDbl : Fragment := { name := "dbl", resin := [0], resout := [0], body := [.add 0 0] }

/-- e0 → A(inc) → B(dbl) → e0 and A → C(inc) → e1: a shared producer -/
def gEx : Graph :=
  { w := 16,
    insts := [⟨"A", fInc⟩, ⟨"B", fDbl⟩, ⟨"C", fInc⟩],
    links := [⟨"l0", .ext 0, .inp 0 0⟩, ⟨"l1", .out 0 0, .inp 1 0⟩, ⟨"l2", .out 0 0, .inp 2 0⟩,
              ⟨"l3", .out 1 0, .ext 0⟩, ⟨"l4", .out 2 0, .ext 1⟩] }

def ptOne : Part := [⟨"cp0", [0, 1, 2]⟩]
def ptTwo : Part := [⟨"cp0", [0, 2]⟩, ⟨"cp1", [1]⟩]

/-- crossing exchange: A1→B2, A2→B1 with A1, A2 collapsed on one CP and B1, B2 on the other: both
    lists are topologically ordered, the graph is a DAG -/
def gX : Graph :=
  { w := 16,
    insts := [⟨"A1", fInc⟩, ⟨"A2", fDbl⟩, ⟨"B1", fInc⟩, ⟨"B2", fDbl⟩],
    links := [⟨"l0", .ext 0, .inp 0 0⟩, ⟨"l1", .ext 1, .inp 1 0⟩, ⟨"l2", .out 0 0, .inp 3 0⟩,
              ⟨"l3", .out 1 0, .inp 2 0⟩, ⟨"l4", .out 2 0, .ext 0⟩, ⟨"l5", .out 3 0, .ext 1⟩] }
def ptX : Part := [⟨"cp0", [0, 1]⟩, ⟨"cp1", [2, 3]⟩]
def ptSep : Part := [⟨"c0", [0]⟩, ⟨"c1", [1]⟩, ⟨"c2", [2]⟩, ⟨"c3", [3]⟩]

/-- a round of `gEx` on two CPs for input 3 -/
def σEx : End → Nat
  | .bmIn 0 => 3
  | .bmIn _ => 0
  | .cpIn 0 _ => 3
  | .cpOut 0 0 => 4
  | .cpOut 0 1 => 5
  | .cpIn 1 _ => 4
  | .cpOut 1 _ => 8
  | .bmOut 0 => 8
  | .bmOut _ => 5
  | _ => 0

end BMV.Frag.Ex

namespace BMV.Props.C06
open BMV.Frag BMV.Frag.Ex

/-- **temp_fresh**: the registers `NextResource` picks for the temporaries t0, t1, … of a composed
    section are pairwise distinct and occur in no line of the section before the replacement — in
    particular in no `mov` of a `resin`/`resout` register and in no fragment body of the section. -/
theorem temp_fresh (g : Graph) (l : List Nat) :
    (tempRegs (secSym g l)).Nodup ∧
    (∀ n ∈ tempRegs (secSym g l), n ∉ usedR (secSym g l)) ∧
    (∀ n ∈ tempRegs (secSym g l), ∀ i ∈ l, ∀ ins ∈ (g.frag i).body, n ∉ ins.regs) := by
  obtain ⟨h1, h2⟩ := allocTemps_fresh (countTemps (secSym g l)) (usedR (secSym g l))
  refine ⟨h1, h2, ?_⟩
  intro n hn i hi ins hins hmem
  apply h2 n hn
  apply mem_usedR
  unfold secRegs secSym
  apply List.mem_flatMap.mpr
  refine ⟨.op ins, ?_, ?_⟩
  · apply List.mem_append_left
    apply List.mem_flatMap.mpr
    refine ⟨i, hi, ?_⟩
    unfold block
    simp only [List.mem_append, List.mem_map]
    exact Or.inl (Or.inl (Or.inr ⟨ins, hins, rfl⟩))
  · simp only [SInstr.regs, List.mem_map]
    exact ⟨n, hmem, rfl⟩

/-- consequence used by the semantics: replacing the temporaries never identifies two different
    registers of the section (so the replaced section computes what the symbolic one computes) -/
theorem temp_subst_injective (g : Graph) (l : List Nat) :
    ∀ x ∈ secRegs (secSym g l), ∀ y ∈ secRegs (secSym g l),
      substReg (tempRegs (secSym g l)) x = substReg (tempRegs (secSym g l)) y → x = y :=
  substReg_inj (secSym g l)

/-- **collapse_seq**: for a well formed graph and a duplicate-free, topologically ordered collapse
    list, one round of the composed section (as the composer leaves it, temporaries replaced),
    started from ANY register contents and reading `inp` on its input ports, emits exactly the
    dataflow evaluation `F` of the instances of the list: `F` solves their equations (`LocalSol`)
    and the emitted (port, value) sequence is `expectedOuts F`. -/
theorem collapse_seq (g : Graph) (l : List Nat) (inp : Nat → Nat) (hwf : g.wf = true)
    (hnd : l.Nodup) (hlt : ∀ i ∈ l, i < g.insts.length) (htopo : listTopo g l = true)
    (ρ : RegFile) :
    ∃ F, LocalSol g l inp F ∧
      (runSec g.w inp (secRes g l) ⟨ρ, []⟩).outs = expectedOuts g l F :=
  collapse_seq_res g l inp hwf hnd hlt htopo ρ

/-- **compose_correct** (safety): for every well formed DAG of well behaved fragments, every
    partition whose collapse lists are topologically ordered, every input vector: whenever the
    composed network behaves according to the channel assumption (`Consistent`: bonds carry one
    value per round to all their consumers; every CP runs its section sequentially from arbitrary
    register contents), every attached BM output carries `Frag.evalOut g inputs`. -/
theorem compose_correct (g : Graph) (pt : Part) (inputs : List Nat) (σ : End → Nat)
    (hwf : g.wf = true) (hok : Part.ok g pt = true) (hc : Consistent g pt inputs σ) :
    ∀ k, (outSrc g k).isSome → evalOut g inputs k = some (σ (.bmOut k)) := by
  intro k hk
  cases hs : outSrc g k with
  | none => rw [hs] at hk; cases hk
  | some s =>
    unfold evalOut
    rw [hs, Option.map_some, compose_correct_thm g pt inputs σ hwf hok hc k s hs]

/-- **partition_irrelevant**: any two admissible partitions of the same graph show the same value on
    every attached BM output, for the same inputs. -/
theorem partition_irrelevant (g : Graph) (pt pt' : Part) (inputs : List Nat) (σ σ' : End → Nat)
    (hwf : g.wf = true) (hok : Part.ok g pt = true) (hok' : Part.ok g pt' = true)
    (hc : Consistent g pt inputs σ) (hc' : Consistent g pt' inputs σ') :
    ∀ k, (outSrc g k).isSome → σ (.bmOut k) = σ' (.bmOut k) := by
  intro k hk
  have h1 := compose_correct g pt inputs σ hwf hok hc k hk
  have h2 := compose_correct g pt' inputs σ' hwf hok' hc' k hk
  rw [h1] at h2
  exact Option.some.inj h2

/-- **link → IO renumbering never clashes**: inside one collapse list two different instance ports
    are never given the same CP output index, the same CP input index, or the same temporary (the
    `currNewOutput` / `currNewInput` / `currNewReg` counters) -/
theorem io_renumbering_injective (g : Graph) (l : List Nat) (i a i' a' k : Nat) (hi : i ∈ l) (hi' : i' ∈ l) :
    (a < g.nOut i → a' < g.nOut i' → outPort g l i a = some k → outPort g l i' a' = some k → i = i' ∧ a = a') ∧
    (a < g.nOut i → a' < g.nOut i' → tempIdx g l i a = some k → tempIdx g l i' a' = some k → i = i' ∧ a = a') ∧
    (a < g.nIn i → a' < g.nIn i' → inPort g l i a = some k → inPort g l i' a' = some k → i = i' ∧ a = a') :=
  ⟨fun h1 h2 => outPort_inj g l i a i' a' k hi h1 hi' h2,
   fun h1 h2 => tempIdx_inj g l i a i' a' k hi h1 hi' h2,
   fun h1 h2 => inPort_inj g l i a i' a' k hi h1 hi' h2⟩

/-- the dataflow evaluation is the unique solution of the graph's equations (what "direct
    evaluation" means does not depend on an evaluation order) -/
theorem eval_unique (g : Graph) (inputs : List Nat) (hwf : g.wf = true) (V : Nat → Nat → Nat)
    (hV : IsSolution g inputs V) :
    ∀ i, i < g.insts.length → ∀ p, p < g.nOut i → V i p = evalPort g inputs i p :=
  solution_unique g inputs hwf V _ hV (eval_solution g inputs hwf)

/-! ### liveness: full statement, and why it is not claimed -/

/-- full statement of the liveness half: the operational network (`Frag.Net.run`: blocking
    hand-shaken channels) delivers, for every admissible partition, all rounds on all outputs -/
def compose_live_full : Prop :=
  ∀ (g : Graph) (pt : Part) (inputs : List (List Nat)),
    g.wf = true → Part.ok g pt = true → ((compose g pt).run inputs).2 = "ok"

/-! ### non-vacuity -/

example : gEx.wf = true := by decide
example : Part.ok gEx ptOne = true := by decide
example : Part.ok gEx ptTwo = true := by decide
example : evalOut gEx [3] 0 = some 8 := by decide
example : evalOut gEx [3] 1 = some 5 := by decide
/-- the collapsed section: one temporary, allocated to r1 (r0 is used by the bodies) -/
example : (secRes gEx [0, 1, 2]).map SInstr.render =
    ["mov r0 i0", "inc r0", "mov r1 r0", "mov r0 r1", "add r0 r0", "mov o0 r0",
     "mov r0 r1", "inc r0", "mov o1 r0", "j _start"] := by decide
example : tempRegs (secSym gEx [0, 1, 2]) = [1] := by decide
example : bonds gEx ptTwo =
    [(.bmIn 0, .cpIn 0 0), (.cpOut 0 0, .cpIn 1 0), (.cpOut 1 0, .bmOut 0), (.cpOut 0 1, .bmOut 1)] := by
  decide

/-- on separate processors the network delivers eval(G) … -/
theorem crossing_separate_ok : (compose gX ptSep).run [[3, 4]] = ([[9], [8]], "ok") := by decide
example : evalOut gX [3, 4] 0 = some 9 ∧ evalOut gX [3, 4] 1 = some 8 := by decide

/-- … collapsed pairwise it dead-locks: cp0 blocks in `mov o0, r0` (A1's result, read by B2 only
    after B1), cp1 blocks in `mov r0, i0` (B1's input, written by A2 only after A1's write) -/
theorem crossing_collapsed_deadlocks : ((compose gX ptX).run [[3, 4]]).2 = "deadlock" := by decide

/-- **the liveness half fails for the composer as it is** (finding C06-sync-crossing-deadlock) -/
theorem compose_live_counterexample : ¬ compose_live_full := by
  intro h
  have := h gX ptX [[3, 4]] (by decide) (by decide)
  rw [crossing_collapsed_deadlocks] at this
  exact absurd this (by decide)

/-- a consistent behaviour exists (the hypothesis of `compose_correct` is satisfiable): `gEx` on
    two CPs, input 3 -/
theorem consistent_example : Consistent gEx ptTwo [3] σEx := by
  refine ⟨?_, ?_, ?_⟩
  · decide
  · intro c hc ρ kv hkv
    have : c = 0 ∨ c = 1 := by
      have : c < 2 := hc
      omega
    rcases this with rfl | rfl
    · have hs : secRes gEx (listOf ptTwo 0) = [.movIn (.r 0) 0, .op (.inc 0), .movOut 0 (.r 0),
          .movReg (.r 1) (.r 0), .movReg (.r 0) (.r 1), .op (.inc 0), .movOut 1 (.r 0), .jStart] := by
        decide
      rw [hs] at hkv
      simp [runSec, SInstr.step, Instr.execR, Instr.val, upd, σEx] at hkv
      rcases hkv with rfl | rfl <;> rfl
    · have hs : secRes gEx (listOf ptTwo 1) =
          [.movIn (.r 0) 0, .op (.add 0 0), .movOut 0 (.r 0), .jStart] := by decide
      rw [hs] at hkv
      simp [runSec, SInstr.step, Instr.execR, Instr.val, upd, σEx] at hkv
      subst hkv; rfl
  · intro k
    match k with
    | 0 => rfl
    | k + 1 => rfl

/-- and `compose_correct` applies to it -/
example : evalOut gEx [3] 0 = some (σEx (.bmOut 0)) :=
  compose_correct gEx ptTwo [3] σEx (by decide) (by decide) consistent_example 0 (by decide)

end BMV.Props.C06
