/-
  C03 — Instruction encoding is a lossless, fixed-width, range-checked code.

  Property theorems only (model: BMV/Bits.lean, BMV/Arch.lean (layout table), BMV/Encode.lean;
  lemmas: BMV/Proofs/Bits.lean, BMV/Proofs/Encode.lean).  The model is hand written; it is tied to
  pkg/procbuilder (Arch.Assembler_process_line, every Opcode.Assembler / Disassembler /
  Op_get_instruction_len, Machine.Disassembler) by the correspondence of tools/props/c03.py.

  All theorems hold for EVERY architecture (any R, N, M, L, O, Rsize, mode, WordSize, opcode list)
  and every instruction over a modelled opcode: no well-formedness hypothesis is needed, because the
  assembler's final width check is what carries the argument.
-/
import BMV.Proofs.Encode
namespace BMV.Props.C03
open BMV BMV.Bits BMV.Encode

/-- fixed width: whatever the assembler returns has exactly the architecture's word width -/
theorem asm_width (a : Arch) (i : Instr) (w : Bits) (h : asm a i = .ok w) : w.length = a.maxWord := by
  obtain ⟨_, _, _, _, _, _, _, _, _, hl⟩ := asm_ok_inv h
  exact hl

/-- lossless: the disassembly of an assembled word is the same instruction with the same operands
    (`normalise` only drops the tokens that operand-less opcodes never look at) -/
theorem disasm_asm (a : Arch) (i : Instr) (w : Bits) (h : asm a i = .ok w) :
    disasm a w = some (normalise i) := by
  obtain ⟨idx, fs, body, hidx, hlay, hbody, hop, hbl, hw, _⟩ := asm_ok_inv h
  obtain ⟨hdec, _⟩ := encOperands_exact
    (List.replicate (a.maxWord - (a.opBits + (fs.map a.width).sum)) false) hbody hbl
  unfold disasm
  have htake : w.take a.opBits = encField a.opBits idx := by
    rw [hw, List.append_assoc, take_of_len hop]
  have hdrop : w.drop a.opBits = body ++ List.replicate (a.maxWord - (a.opBits + (fs.map a.width).sum)) false := by
    rw [hw, List.append_assoc, drop_of_len hop]
  have hid : getId (encField a.opBits idx) = idx := by
    unfold encField; rw [getId_zerosPrefix, getId_getBinary]
  simp only [htake, hid, findIdx_get hidx, hlay, hdrop, hdec]
  rfl

/-- and back: re-assembling the disassembly of any word the assembler can produce gives that word -/
theorem asm_disasm (a : Arch) (w : Bits) (h : ∃ i, asm a i = .ok w) :
    ∃ i', disasm a w = some i' ∧ asm a i' = .ok w := by
  obtain ⟨i, hi⟩ := h
  exact ⟨normalise i, disasm_asm a i w hi, by rw [asm_normalise]; exact hi⟩

/-- range check: in every accepted instruction every operand fits its field — a register index is
    below 2^R, a port index below N / M, a number below 2^(field width).  Contrapositive: an
    operand that does not fit makes `asm` fail; it is never truncated and never lengthens the word
    (`asm_width`). -/
theorem asm_operands_fit (a : Arch) (i : Instr) (w : Bits) (h : asm a i = .ok w) :
    ∃ fs, layout i.op = some fs ∧ fs.length = (normalise i).args.length ∧
      ∀ (j : Nat) f x, fs[j]? = some f → (normalise i).args[j]? = some x →
        opVal x < 2 ^ a.width f ∧ 1 ≤ a.width f ∧
        (match f, x with
          | .reg, .reg _ => True
          | .inp, .inp k => k < a.n
          | .out, .out k => k < a.m
          | .reg, _ | .inp, _ | .out, _ => False
          | .so kind short, .so s k => s = short ∧ k < a.sharedNum kind
          | .so _ _, _ => False
          | _, .num _ => True
          | _, _ => False) := by
  obtain ⟨idx, fs, body, _, hlay, hbody, _, hbl, _, _⟩ := asm_ok_inv h
  obtain ⟨_, hex⟩ := encOperands_exact [] hbody hbl
  have hlen : ∀ {fs : List FieldKind} {xs : List Operand} {b : Bits},
      encOperands a fs xs = some b → fs.length = xs.length := by
    intro fs
    induction fs with
    | nil => intro xs b h; cases xs <;> simp [encOperands] at h ⊢
    | cons f fs ih =>
      intro xs b h
      cases xs with
      | nil => simp [encOperands] at h
      | cons x xs =>
        simp only [encOperands] at h
        cases h2 : encOperands a fs xs with
        | none => cases h1 : encOperand a f x <;> simp [h1, h2] at h
        | some bs => simp [ih h2]
  have hkind : ∀ {fs : List FieldKind} {xs : List Operand} {b : Bits},
      encOperands a fs xs = some b → ∀ (j : Nat) f x, fs[j]? = some f → xs[j]? = some x →
        ∃ bb, encOperand a f x = some bb := by
    intro fs
    induction fs with
    | nil => intro xs b _ j f x hf; simp at hf
    | cons f0 fs ih =>
      intro xs b h j f x hf hx
      cases xs with
      | nil => simp at hx
      | cons x0 xs =>
        simp only [encOperands] at h
        cases h1 : encOperand a f0 x0 with
        | none => simp [h1] at h
        | some b1 =>
          cases h2 : encOperands a fs xs with
          | none => simp [h1, h2] at h
          | some bs =>
            cases j with
            | zero => simp at hf hx; subst hf; subst hx; exact ⟨b1, h1⟩
            | succ j => exact ih h2 j f x (by simpa using hf) (by simpa using hx)
  refine ⟨fs, hlay, hlen hbody, ?_⟩
  intro j f x hf hx
  have hexact := hex j f x hf hx
  obtain ⟨hw1, hfit⟩ := encField_exact_iff.mp hexact
  obtain ⟨bb, henc⟩ := hkind hbody j f x hf hx
  refine ⟨hfit, hw1, ?_⟩
  cases f <;> cases x <;> simp [encOperand] at henc ⊢ <;> first | exact henc.1 | trivial | exact henc.1.1

/-- concretely for numbers: an immediate / address that needs more bits than its field is refused -/
theorem asm_rejects_overflow (a : Arch) (op : String) (pre post : List Operand) (n : Nat)
    (fs : List FieldKind) (f : FieldKind) (hlay : layout op = some fs) (hlen : lenientArity op = false)
    (hf : fs[pre.length]? = some f) (hbig : ¬ n < 2 ^ a.width f) :
    ∀ w, asm a ⟨op, pre ++ .num n :: post⟩ ≠ .ok w := by
  intro w h
  obtain ⟨fs', hlay', _, hall⟩ := asm_operands_fit a _ w h
  simp only at hlay'
  rw [hlay] at hlay'; cases hlay'
  have hx : (normalise ⟨op, pre ++ .num n :: post⟩).args[pre.length]? = some (.num n) := by
    simp [normalise, hlen]
  exact hbig (hall pre.length f (.num n) hf hx).1

/-- a register index beyond the register file, a port index beyond N / M, or the name of a shared
    object the processor is not attached to (wrong kind prefix, index ≥ the number of such objects), is refused -/
theorem asm_rejects_bad_index (a : Arch) (i : Instr) (w : Bits) (h : asm a i = .ok w)
    (j : Nat) (fs : List FieldKind) (hlay : layout i.op = some fs) :
    (∀ k, fs[j]? = some .reg → (normalise i).args[j]? = some (.reg k) → k < 2 ^ a.r) ∧
    (∀ k, fs[j]? = some .inp → (normalise i).args[j]? = some (.inp k) → k < a.n) ∧
    (∀ k, fs[j]? = some .out → (normalise i).args[j]? = some (.out k) → k < a.m) ∧
    (∀ kind short s k, fs[j]? = some (.so kind short) → (normalise i).args[j]? = some (.so s k) →
      s = short ∧ k < a.sharedNum kind) := by
  obtain ⟨fs', hlay', _, hall⟩ := asm_operands_fit a i w h
  rw [hlay] at hlay'; cases hlay'
  refine ⟨?_, ?_, ?_, ?_⟩
  · intro k hf hx; exact (hall j _ _ hf hx).1
  · intro k hf hx; exact (hall j _ _ hf hx).2.2
  · intro k hf hx; exact (hall j _ _ hf hx).2.2
  · intro kind short s k hf hx; exact (hall j _ _ hf hx).2.2

/-- the word is wide enough for every opcode of the architecture (automatic word size) -/
theorem maxWord_ge_len (a : Arch) (h : a.wordSize = 0) (op : String) (hop : op ∈ a.ops) :
    a.instrLen op ≤ a.maxWord := by
  unfold Arch.maxWord
  simp only [h, if_true]
  exact (foldl_max_ge _ 1).2 _ (List.mem_map.mpr ⟨op, hop, rfl⟩)

/-- the opcode index written into the word is the opcode's position in the machine's opcode
    list, it is what `disasm` (= `Decode_opcode`) reads back, and it is below `2^opBits` -/
theorem opcode_numbering (a : Arch) (i : Instr) (w : Bits) (h : asm a i = .ok w) :
    ∃ idx, a.ops[idx]? = some i.op ∧ getId (w.take a.opBits) = idx ∧ idx < 2 ^ a.opBits := by
  obtain ⟨idx, fs, body, hidx, _, _, hop, _, hw, _⟩ := asm_ok_inv h
  refine ⟨idx, findIdx_get hidx, ?_, (encField_exact_iff.mp hop).2⟩
  rw [hw, List.append_assoc, take_of_len hop]
  unfold encField; rw [getId_zerosPrefix, getId_getBinary]

/-! ### non-vacuity -/

def demoArch : Arch :=
  { rsize := 8, r := 2, n := 2, m := 1, l := 0, o := 3, ops := ["add", "i2r", "j", "r2o", "rset"] }

example : (asm demoArch ⟨"rset", [.reg 3, .num 255]⟩).toOption = some (ofString01 "1001111111111") := by decide
example : disasm demoArch (ofString01 "1001111111111") = some ⟨"rset", [.reg 3, .num 255]⟩ := by decide
example : (asm demoArch ⟨"rset", [.reg 3, .num 256]⟩).toOption = none := by decide
example : (asm demoArch ⟨"j", [.num 8]⟩).toOption = none := by decide
example : (asm demoArch ⟨"i2r", [.reg 0, .inp 2]⟩).toOption = none := by decide
example : demoArch.maxWord = 13 := by decide


/-- whole programs (`Arch.Assembler`): comment and blank lines produce no word and take no address;
    the k-th instruction line gives the k-th word, every word has exactly the architecture's width
    and disassembles to its own line, and the program fits the code memory of the execution mode -/
theorem asmProgram_spec (a : Arch) (lines : List (Option Instr)) (ws : List Bits)
    (h : asmProgram a lines = .ok ws) :
    ws.length = (lines.filterMap id).length ∧ ws.length ≤ codeCapacity a ∧
    ∀ p ∈ (lines.filterMap id).zip ws,
      asm a p.1 = .ok p.2 ∧ p.2.length = a.maxWord ∧ disasm a p.2 = some (normalise p.1) := by
  unfold asmProgram at h
  cases hm : (lines.filterMap id).mapM (asm a) with
  | error e => simp [hm] at h
  | ok ws' =>
    simp only [hm] at h
    split at h
    · rename_i hcap
      cases h
      obtain ⟨hl, hall⟩ := mapM_ok (asm a) _ _ hm
      exact ⟨hl, hcap, fun p hp => ⟨hall p hp, asm_width a p.1 p.2 (hall p hp), disasm_asm a p.1 p.2 (hall p hp)⟩⟩
    · cases h

/-- `Machine.Disassembler` on a whole assembled program gives back the source's instructions (in
    normal form), in order: no word's text depends on its neighbours. -/
theorem disasmProgram_asmProgram (a : Arch) (lines : List (Option Instr)) (ws : List Bits)
    (h : asmProgram a lines = .ok ws) :
    disasmProgram a ws = some ((lines.filterMap id).map normalise) := by
  obtain ⟨hl, _, hall⟩ := asmProgram_spec a lines ws h
  exact mapM_some_of_zip (disasm a) normalise _ ws hl (fun p hp => (hall p hp).2.2)

/-- one failing line fails the whole program (no partial ROM) -/
theorem asmProgram_fails (a : Arch) (lines : List (Option Instr)) (i : Instr) (e : AsmErr)
    (hi : some i ∈ lines) (he : asm a i = .error e) : ∃ e', asmProgram a lines = .error e' := by
  unfold asmProgram
  cases hm : (lines.filterMap id).mapM (asm a) with
  | error e' => exact ⟨e', rfl⟩
  | ok ws =>
    exfalso
    obtain ⟨hl, hall⟩ := mapM_ok (asm a) _ _ hm
    have hmem : i ∈ lines.filterMap id := List.mem_filterMap.mpr ⟨some i, hi, rfl⟩
    obtain ⟨k, hk, rfl⟩ := List.getElem_of_mem hmem
    have hk' : k < ws.length := by omega
    have := hall ((lines.filterMap id)[k], ws[k]) (by
      rw [List.mem_iff_getElem]
      exact ⟨k, by simp; omega, by simp⟩)
    simp [he] at this


/-- a program with comment / blank lines: two words, at addresses 0 and 1 -/
example : (asmProgram demoArch [none, some ⟨"rset", [.reg 3, .num 255]⟩, none, none, some ⟨"j", [.num 0]⟩, none]).toOption.map
    (fun ws => (ws.length, ws.map List.length)) = some (2, [13, 13]) := by decide
/-- nine instructions do not fit a ROM of 2^3 words -/
example : (asmProgram demoArch (List.replicate 9 (some ⟨"j", [.num 0]⟩))).toOption = none := by decide
example : disasmProgram demoArch [ofString01 "1001111111111", ofString01 "0101010000000"] =
    some [⟨"rset", [.reg 3, .num 255]⟩, ⟨"j", [.num 5]⟩] := by decide


/-- shared-object operands: two queues need one index bit; `q1` is the second queue, `q2` and `st0` are refused -/
def demoArchSo : Arch :=
  { rsize := 8, r := 1, n := 0, m := 0, l := 0, o := 2, ops := ["q2r", "r2q", "rset"], shared := [("queue", 2)] }
example : (asm demoArchSo ⟨"r2q", [.reg 1, .so "q" 1]⟩).toOption = some (ofString01 "01110000000") := by decide
example : disasm demoArchSo (ofString01 "01110000000") = some ⟨"r2q", [.reg 1, .so "q" 1]⟩ := by decide
example : (asm demoArchSo ⟨"r2q", [.reg 1, .so "q" 2]⟩).toOption = none := by decide
example : (asm demoArchSo ⟨"r2q", [.reg 1, .so "st" 0]⟩).toOption = none := by decide

end BMV.Props.C03
