/-
  C18 — every generated HDL file set is self-consistent and synthesizable Verilog.

  What is proved here, and what is not (DESIGN.md 6.C18, "Level"):

  * NOT proved: "for every machine the tool accepts, lint(files(M)) = []".  That quantifier ranges over
    the ~250 string-building generator functions of /repo, which are not modelled.  It is *checked* per
    run on an enumerated family of machines (harness/cmd/c18, lean/Oracle/C18.lean).
  * proved, about the lint itself (`BMV.Vlog.Design.lint`, the definition the per-run check evaluates):
      `wf_single_driver`   a lint-clean design has at most one `always` block writing any variable
      `wf_proc_assigns_regs`, `wf_cont_assigns_nets`   the assignment-kind class, from the definition
      `wf_decidable`
  * proved, **`wf_total` in full** (DESIGN.md 5.3): a design returned by `elaborate` never raises an
    elaboration-class error (unresolved name / any `internal:` condition) in `init`, `cycle`, `poke`, a whole
    `run`; evaluation-class errors (out-of-range select, `/ %` by zero, memory as vector, non-settling
    logic) are excluded on purpose.  Pieces: `wf_expr_total` (every expression form), `wf_stmt_total`
    (assignments to any left-hand side, if / case / begin-end), `wf_total_of_resolved` (continuous
    assignments, settle, processes, commit), `elab_sigs_in_range` (`elaborate` — declarations, block locals,
    `for` unrolling, both passes, instance flattening to any depth — returns a `Resolved` design).
    Hypothesis: `Source.fromReader` (no `.sig` node in the parsed source; re-checked by the oracle).
    The earlier `resolve_closed_partial` / `wf_total_partial_expr` (no error of *any* class on the
    select-free, division-free fragment) are kept.
  * proved, about the checker `Source.check`: `lint_sound_undeclared` (no `[undeclared]` finding for a module
    ⇒ name resolution of its item-level expressions cannot fail with `[undeclared]`; bodies have no free name)
  * proved, about the shared-object header model `BMV.So` (tied to the emitted text on every run):
      `so_ports_agree`     for every kind and capability set: the top-level connection list has the
         length of the arch module's port list = the processor module's port list, position by position the
         connected wire has the width of the port, and both modules declare the port with the same direction
      `so_module_agree`    barrier / channel / sharedmem: the instance of the shared object's own module
         connects exactly the module's ports, in order, for every attachment list
      `queue_module_agree_iff`   queue / stack: that holds iff no processor with a receiver port precedes a
         processor with a sender port (the module lists all senders first) — otherwise the positional
         instance crosses the wires (found on the unchanged tree, see docs/C18.md)
      `lfsr8_module_disagree`    lfsr8 with ≥ 2 processors: the instance has more connections than the
         module has ports (defect of the unchanged tree)
-/
import BMV.Vlog.Check
import BMV.So
import BMV.Proofs.So
import BMV.Proofs.VlogTotal
import BMV.Proofs.VlogSafe3
import BMV.Proofs.VlogElab3
import BMV.Proofs.VlogUndecl
namespace BMV.Props.C18
open BMV.Vlog BMV.So

/-! ## the lint -/

private theorem mem_lint_of_mem_proc (d : Design) (x : String) (h : x ∈ d.procFindings) : x ∈ d.lint := by
  unfold Design.lint
  rw [List.mem_eraseDups]
  exact List.mem_append_right _ h

private theorem mem_lint_of_mem_cont (d : Design) (x : String)
    (h : x ∈ d.contFindings (d.assigns.toList.flatMap fun a => lhsTargets a.1) []) : x ∈ d.lint := by
  unfold Design.lint
  rw [List.mem_eraseDups]
  exact List.mem_append_left _ h

private theorem wf_lint_nil (d : Design) (h : d.WF = true) : d.lint = [] := by
  unfold Design.WF at h
  exact List.isEmpty_iff.mp h

/-- the finding that `procTarget` produces for a second writer is really in the lint -/
private theorem multi_in_lint (d : Design) (i b1 b2 : Nat)
    (hint : d.isIntSig i = false) (hlt : b1 < b2) (hb2 : b2 < d.alwaysBodies.length)
    (h1 : i ∈ d.blockTargets b1) (h2 : i ∈ d.blockTargets b2) :
    s!"[multi-driver] reg {d.sigName i} is assigned in more than one always block" ∈ d.lint := by
  apply mem_lint_of_mem_proc
  unfold Design.procFindings
  simp only [List.mem_flatMap, List.mem_range]
  have hlen : b2 < (d.alwaysBodies ++ d.inits.toList).length := by
    rw [List.length_append]; omega
  refine ⟨b2, hlen, ?_⟩
  have hget : (d.alwaysBodies ++ d.inits.toList)[b2]? = d.alwaysBodies[b2]? := List.getElem?_append_left hb2
  obtain ⟨body, hbody⟩ : ∃ body, d.alwaysBodies[b2]? = some body := ⟨d.alwaysBodies[b2], List.getElem?_eq_getElem hb2⟩
  rw [hget, hbody]
  simp only [List.mem_flatMap]
  have hi : i ∈ stmtTargets body := by
    unfold Design.blockTargets at h2
    rw [hbody] at h2
    exact h2
  refine ⟨i, List.mem_eraseDups.mpr hi, ?_⟩
  unfold Design.procTarget
  apply List.mem_append_right
  have hw : d.writtenBefore b2 i = true := by
    unfold Design.writtenBefore
    rw [List.any_eq_true]
    exact ⟨b1, List.mem_range.mpr hlt, List.contains_iff_mem.mpr h1⟩
  simp [hint, hw, hb2]

/-- **wf_single_driver**: in a lint-clean design every variable (loop `integer`s exempt, as in the lint)
    is written by at most one `always` block. -/
theorem wf_single_driver (d : Design) (h : d.WF = true) (i b1 b2 : Nat)
    (hint : d.isIntSig i = false)
    (hb1 : b1 < d.alwaysBodies.length) (hb2 : b2 < d.alwaysBodies.length)
    (h1 : i ∈ d.blockTargets b1) (h2 : i ∈ d.blockTargets b2) : b1 = b2 := by
  have hnil := wf_lint_nil d h
  rcases Nat.lt_trichotomy b1 b2 with hlt | heq | hgt
  · have := multi_in_lint d i b1 b2 hint hlt hb2 h1 h2
    rw [hnil] at this
    exact absurd this List.not_mem_nil
  · exact heq
  · have := multi_in_lint d i b2 b1 hint hgt hb1 h2 h1
    rw [hnil] at this
    exact absurd this List.not_mem_nil

/-- a procedural block of a lint-clean design assigns only variables (`reg` / `integer`), never a net
    or an input: the "wrong assignment kind" class, procedural half. -/
theorem wf_proc_assigns_regs (d : Design) (h : d.WF = true) (b i : Nat)
    (hb : b < d.alwaysBodies.length) (hi : i ∈ d.blockTargets b) : d.kindOf i = .reg := by
  have hnil := wf_lint_nil d h
  by_cases hk : d.kindOf i = .reg
  · exact hk
  · exfalso
    have : s!"[assign-kind] net {d.sigName i} is assigned in a procedural block" ∈ d.lint := by
      apply mem_lint_of_mem_proc
      unfold Design.procFindings
      simp only [List.mem_flatMap, List.mem_range]
      have hlen : b < (d.alwaysBodies ++ d.inits.toList).length := by
        rw [List.length_append]; omega
      refine ⟨b, hlen, ?_⟩
      have hget : (d.alwaysBodies ++ d.inits.toList)[b]? = d.alwaysBodies[b]? := List.getElem?_append_left hb
      obtain ⟨body, hbody⟩ : ∃ body, d.alwaysBodies[b]? = some body := ⟨d.alwaysBodies[b], List.getElem?_eq_getElem hb⟩
      rw [hget, hbody]
      simp only [List.mem_flatMap]
      have hi' : i ∈ stmtTargets body := by
        unfold Design.blockTargets at hi
        rw [hbody] at hi
        exact hi
      refine ⟨i, List.mem_eraseDups.mpr hi', ?_⟩
      unfold Design.procTarget
      apply List.mem_append_left
      simp [hk]
    rw [hnil] at this
    exact absurd this List.not_mem_nil

private theorem cont_mem (d : Design) (t : Nat × Bool) (x : String) :
    ∀ (ts : List (Nat × Bool)) (seen : List Nat), t ∈ ts → x ∈ d.contTarget [] t →
      (x = s!"[assign-kind] reg {d.sigName t.1} is assigned continuously" ∨
       x = s!"[assign-kind] input {d.sigName t.1} is driven inside the design") →
      x ∈ d.contFindings ts seen := by
  intro ts
  induction ts with
  | nil => intro _ h; exact absurd h List.not_mem_nil
  | cons u us ih =>
    intro seen hmem hx hform
    unfold Design.contFindings
    rcases List.mem_cons.mp hmem with rfl | hin
    · apply List.mem_append_left
      unfold Design.contTarget at hx ⊢
      simp only [List.mem_append] at hx ⊢
      rcases hx with (hx | hx) | hx
      · exact Or.inl (Or.inl hx)
      · exact Or.inl (Or.inr hx)
      · simp at hx
    · exact List.mem_append_right _ (ih _ hin hx hform)

/-- a continuous assignment (or instance port connection) of a lint-clean design drives a net, never a
    `reg` and never a top-level input: the "wrong assignment kind" class, continuous half. -/
theorem wf_cont_assigns_nets (d : Design) (h : d.WF = true) (t : Nat × Bool)
    (ht : t ∈ d.assigns.toList.flatMap fun a => lhsTargets a.1) : d.kindOf t.1 = .wire := by
  have hnil := wf_lint_nil d h
  cases hk : d.kindOf t.1 with
  | wire => rfl
  | reg =>
    exfalso
    have hx : s!"[assign-kind] reg {d.sigName t.1} is assigned continuously" ∈ d.contTarget [] t := by
      unfold Design.contTarget; simp [hk]
    have := mem_lint_of_mem_cont d _ (cont_mem d t _ _ [] ht hx (Or.inl rfl))
    rw [hnil] at this
    exact absurd this List.not_mem_nil
  | input =>
    exfalso
    have hx : s!"[assign-kind] input {d.sigName t.1} is driven inside the design" ∈ d.contTarget [] t := by
      unfold Design.contTarget; simp [hk]
    have := mem_lint_of_mem_cont d _ (cont_mem d t _ _ [] ht hx (Or.inr rfl))
    rw [hnil] at this
    exact absurd this List.not_mem_nil

/-- **wf_decidable**: being lint-clean is decidable (it is a Boolean computed by `Design.lint`; the
    per-run check evaluates exactly this function). -/
def wf_decidable (d : Design) : Decidable (d.WF = true) := inferInstance

theorem wf_decidable_spec (d : Design) : d.WF = true ↔ d.lint = [] := by
  unfold Design.WF
  exact List.isEmpty_iff

/-! non-vacuity of the lint theorems: a clean design with two always blocks, and the barrier's shape -/

def cleanDesign : Design :=
  { top := "t", sigs := #[{ name := "a", width := 8, kind := .reg }, { name := "b", width := 4, kind := .reg }],
    assigns := #[], combs := #[],
    procs := #[⟨[], .assign false (.sig 0) (.num (some 8) 1)⟩, ⟨[], .assign false (.sig 1) (.num (some 4) 2)⟩],
    inits := #[], roots := #[0, 1] }

/-- `done` set in one always block and cleared in another: the barrier shared object of /repo -/
def barrierShape : Design :=
  { cleanDesign with
    procs := #[⟨[], .assign false (.sig 0) (.num (some 8) 0)⟩, ⟨[], .ite (.sig 1) (.assign false (.sig 0) (.num (some 8) 1)) .null⟩] }

example : cleanDesign.WF = true := by decide
example : 0 ∈ cleanDesign.blockTargets 0 ∧ 1 ∈ cleanDesign.blockTargets 1 := by decide
example : barrierShape.WF = false := by decide
example : 0 ∈ barrierShape.blockTargets 0 ∧ 0 ∈ barrierShape.blockTargets 1 := by decide

/-! ## `wf_total`: the full statement, and the part that is proved -/

/-- **elab_sigs_in_range**: a design returned by `elaborate` on a file set as the reader delivers it
    (`Source.fromReader`: no elaborated `.sig` node in the source — the S-expression reader `OfSexp` has no
    production for one; the oracle re-checks it on every file set) is `Resolved`: no identifier and no `for`
    is left, and every signal index in every stored assignment, port connection, `always` / `initial` body
    is below `d.sigs.size`.  Proved through both elaboration passes, block-local declarations, `for`
    unrolling, instance flattening to any depth (induction on the instantiation fuel). -/
theorem elab_sigs_in_range (src : Source) (hsrc : src.fromReader = true) (top : Option String) (d : Design)
    (h : elaborate src top = .ok d) : d.Resolved = true := elaborate_resolved src hsrc top d h

/-- **wf_expr_total**: on *every* identifier-free expression with in-range signal indices — all operators
    including `/ %`, bit / part / indexed selects, memory words, concatenation, replication — width
    computation, evaluation in any context width, and the right-hand side of an assignment never raise an
    elaboration-class error (they may raise evaluation-class ones: the guards the evaluator itself checks). -/
theorem wf_expr_total (sigs : Array Sig) (st : State) (hst : sigs.size ≤ st.size) (e : Expr)
    (he : wfE sigs.size e = true) (msg : String) :
    (selfW sigs e = .error msg → ElabClassError msg = false) ∧
    (∀ W, evalC sigs st W e = .error msg → ElabClassError msg = false) ∧
    (∀ lw, evalAssign sigs st lw e = .error msg → ElabClassError msg = false) :=
  ⟨(selfW_safe sigs e he).1 msg, fun W => (evalC_safe sigs st hst e he W).1 msg,
   fun lw => (evalAssign_safe sigs st hst lw e he).1 msg⟩

/-- **wf_stmt_total**: executing a well-formed statement (blocking / non-blocking assignments to any
    left-hand side, `if`, `case`, `begin/end`; `for` is gone after unrolling) in a block state whose storage
    and pending writes are in range never raises an elaboration-class error and keeps that invariant. -/
theorem wf_stmt_total (sigs : Array Sig) (s : Stmt) (x : XSt) (hs : wfS sigs.size s = true)
    (hx : XOk sigs.size x) :
    (∀ msg, exec sigs x s = .error msg → ElabClassError msg = false) ∧
    (∀ x', exec sigs x s = .ok x' → XOk sigs.size x') := exec_safe sigs s x hs hx

/-- **wf_total_of_resolved**: `wf_total` with "`d` comes from `elaborate`" replaced by what `elaborate` has
    to establish, `d.Resolved` (decidable; the oracle evaluates it on every design it lints).  Covers `init`,
    `cycle` (inputs → settle → every triggered process → commit → settle), `poke`, and the storage invariant
    that lets the statement be iterated over a whole `run`. -/
theorem wf_total_of_resolved (d : Design) (hd : d.Resolved = true) :
    (∀ msg, d.init = .error msg → ElabClassError msg = false) ∧
    (∀ st0, d.init = .ok st0 → d.sigs.size ≤ st0.size) ∧
    (∀ (clk : Nat) (st : State) (inputs : List (Nat × Nat)), d.sigs.size ≤ st.size →
      (∀ msg, d.cycle clk st inputs = .error msg →
        ElabClassError msg = false ∨ d.setInputs st inputs = .error msg) ∧
      (∀ st', d.cycle clk st inputs = .ok st' → d.sigs.size ≤ st'.size)) ∧
    (∀ (st : State) (inputs : List (Nat × Nat)), d.sigs.size ≤ st.size →
      (∀ msg, d.poke st inputs = .error msg →
        ElabClassError msg = false ∨ d.setInputs st inputs = .error msg) ∧
      (∀ st', d.poke st inputs = .ok st' → d.sigs.size ≤ st'.size)) :=
  ⟨(init_safe d hd).1, (init_safe d hd).2,
   fun clk st inputs hst => cycle_safe d hd clk st inputs hst,
   fun st inputs hst => poke_safe d hd st inputs hst⟩

/-- **wf_total** (DESIGN.md 5.3) — the full statement, proved.  A design produced by `elaborate` from a
    file set as the reader delivers it never hits an *elaboration-class* error (`ElabClassError`: an
    unresolved name, or any `internal:` condition — signal index out of range, no storage for a signal, loop
    not unrolled) when it is initialised, clocked or poked, in any state that has storage for the design's
    signals and for any inputs; the only other way `cycle` / `poke` can fail is `setInputs` rejecting the
    caller's input list (its messages quote signal names, so they are returned verbatim in the second
    disjunct).  The lint hypothesis `d.WF` of the DESIGN.md statement is not needed for this and is kept
    only in the corollary `wf_total_wf`.
    Excluded on purpose — *evaluation-class* errors remain possible and are reported by the evaluator:
    out-of-range bit / part / memory select, division or modulo by zero, a memory used as a vector,
    non-constant where a constant is required, non-settling combinational logic. -/
theorem wf_total (src : Source) (hsrc : src.fromReader = true) (top : Option String) (d : Design)
    (hel : elaborate src top = .ok d) :
    (∀ msg, d.init = .error msg → ElabClassError msg = false) ∧
    (∀ st0, d.init = .ok st0 → d.sigs.size ≤ st0.size) ∧
    (∀ (clk : Nat) (st : State) (inputs : List (Nat × Nat)), d.sigs.size ≤ st.size →
      (∀ msg, d.cycle clk st inputs = .error msg →
        ElabClassError msg = false ∨ d.setInputs st inputs = .error msg) ∧
      (∀ st', d.cycle clk st inputs = .ok st' → d.sigs.size ≤ st'.size)) ∧
    (∀ (st : State) (inputs : List (Nat × Nat)), d.sigs.size ≤ st.size →
      (∀ msg, d.poke st inputs = .error msg →
        ElabClassError msg = false ∨ d.setInputs st inputs = .error msg) ∧
      (∀ st', d.poke st inputs = .ok st' → d.sigs.size ≤ st'.size)) :=
  wf_total_of_resolved d (elab_sigs_in_range src hsrc top d hel)

/-- the statement in the shape of DESIGN.md 5.3 (`d.WF → ∀ s i, cycle d s i ≠ elaboration error`) -/
theorem wf_total_wf (src : Source) (hsrc : src.fromReader = true) (top : Option String) (d : Design)
    (hel : elaborate src top = .ok d) (_hwf : d.WF = true) (clk : Nat) (st : State)
    (inputs : List (Nat × Nat)) (hst : d.sigs.size ≤ st.size) (msg : String)
    (herr : d.cycle clk st inputs = .error msg) :
    ElabClassError msg = false ∨ d.setInputs st inputs = .error msg :=
  ((wf_total src hsrc top d hel).2.2.1 clk st inputs hst).1 msg herr

/-- a whole run from the initial state: the storage invariant makes `wf_total` iterable -/
theorem wf_total_run (src : Source) (hsrc : src.fromReader = true) (top : Option String) (d : Design)
    (hel : elaborate src top = .ok d) (clk : Nat) :
    ∀ (ins : List (List (Nat × Nat))) (st : State), d.sigs.size ≤ st.size →
      ∀ st', d.run clk st ins = .ok st' → d.sigs.size ≤ st'.size
  | [], st, hst, st', h => by
    unfold Design.run at h
    simp only [pure, Except.pure, Except.ok.injEq] at h; subst h; exact hst
  | i :: is, st, hst, st', h => by
    unfold Design.run at h
    obtain ⟨st1, h1, h2⟩ := bind_ok h
    have := ((wf_total src hsrc top d hel).2.2.1 clk st i hst).2 st1 h1
    exact wf_total_run src hsrc top d hel clk is st1 this st' h2

/-! non-vacuity of `wf_total`: a source the reader could deliver, accepted by `elaborate`
   (`elabModule` is defined by well-founded recursion, which the kernel does not unfold: its success on this
   source is evaluated at build time by `#guard`; the oracle exercises it on every emitted file set), and a
   `Resolved` design with a state of the right shape -/

def tinySrc : Source := ⟨[⟨"t", ["clk", "q"], [
  .decl ⟨.input, .none, none, [⟨"clk", none, none⟩]⟩,
  .decl ⟨.output, .reg, some ⟨.num none 3, .num none 0⟩, [⟨"q", none, none⟩]⟩,
  .always false [(.pos, .id "clk")] (.assign false (.id "q") (.bin .add (.id "q") (.num (some 4) 1)))]⟩]⟩

example : tinySrc.fromReader = true := by decide
#guard (match elaborate tinySrc none with | .ok d => d.Resolved && d.WF && d.sigs.size == 2 | .error _ => false)
#guard (match (do let d ← elaborate tinySrc none; let s ← d.init; d.cycle 0 s []) with | .ok _ => true | .error _ => false)
example : cleanDesign.Resolved = true := by decide
example : cleanDesign.sigs.size ≤ (#[#[0], #[0]] : State).size := by decide
example : barrierShape.Resolved = true ∧ barrierShape.WF = false := by decide

/-- the message classification is not vacuous: the evaluator's two elaboration-class texts are in the
    class, typical evaluation-class texts are not -/
example (n : String) : ElabClassError s!"undeclared identifier {n}" = true := by
  simp [ElabClassError, String.toList_append, ToString.toString, List.isPrefixOf]
example (i : Nat) : ElabClassError s!"internal: signal index {i} out of range" = true := by
  simp [ElabClassError, String.toList_append, ToString.toString, List.isPrefixOf]
example : ElabClassError "division by zero" = false := by decide

/-- **resolve_closed_partial** (first half of the partial): whatever `resolveExpr` accepts contains no
    source-level identifier any more, so the evaluator's `undeclared identifier` branch is unreachable on
    elaborated expressions.  (Missing for the full theorem: the same for statements / `for` unrolling,
    and that every `.sig i` produced is `< sigs.size`.) -/
theorem resolve_closed_partial (sc : Scope) (e e' : Expr) (h : resolveExpr sc e = .ok e') :
    closed e' = true := resolveExpr_closed sc e e' h

theorem resolve_closed_list_partial (sc : Scope) (es es' : List Expr) (h : resolveExprs sc es = .ok es') :
    closedL es' = true := resolveExprs_closed sc es es' h

/-- **wf_total_partial_expr** (second half): on the `simple` fragment — identifier-free expressions over
    existing non-memory signals, without selects and without `/` `%` — width computation, evaluation in
    any context width and the right-hand side of an assignment never return an error of *any* class, in
    every state that has storage for the design's signals.  (Missing for the full theorem: selects and
    memories — whose errors are evaluation-class by design —, statements, `settle`, `cycle`.) -/
theorem wf_total_partial_expr (sigs : Array Sig) (st : State) (hst : StateOk sigs st) (e : Expr)
    (he : simple sigs e = true) :
    (∃ w, selfW sigs e = .ok w) ∧ (∀ W, ∃ v, evalC sigs st W e = .ok v) ∧
    (∀ lw, ∃ v, evalAssign sigs st lw e = .ok v) := by
  refine ⟨selfW_ok sigs e he, evalC_ok sigs st hst e he, ?_⟩
  intro lw
  obtain ⟨w, hw⟩ := selfW_ok sigs e he
  obtain ⟨v, hv⟩ := evalC_ok sigs st hst e he (max lw w)
  exact ⟨v % pow2 lw, by simp [evalAssign, hw, hv, bind, Except.bind, pure, Except.pure]⟩

/-- a `simple` expression is closed: the two halves meet -/
theorem simple_closed (sigs : Array Sig) : ∀ (e : Expr), simple sigs e = true → closed e = true
  | .num _ _, _ => rfl
  | .sig _, _ => rfl
  | .cat es, h => by simp only [simple] at h; simp [closed, simpleL_closedL sigs es h]
  | .rep (.num _ _) es, h => by simp only [simple] at h; simp [closed, simpleL_closedL sigs es h]
  | .un _ e, h => by simp only [simple] at h; simp [closed, simple_closed sigs e h]
  | .bin _ a b, h => by
    simp only [simple, Bool.and_eq_true] at h
    simp [closed, simple_closed sigs a h.1.2, simple_closed sigs b h.2]
  | .cond c a b, h => by
    simp only [simple, Bool.and_eq_true] at h
    simp [closed, simple_closed sigs c h.1.1, simple_closed sigs a h.1.2, simple_closed sigs b h.2]
where
  simpleL_closedL (sigs : Array Sig) : ∀ (es : List Expr), simpleL sigs es = true → closedL es = true
    | [], _ => rfl
    | e :: es, h => by
      simp only [simpleL, Bool.and_eq_true] at h
      simp [closedL, simple_closed sigs e h.1, simpleL_closedL sigs es h.2]

/-! non-vacuity: a concrete design fragment meeting the hypotheses -/

def demoSigs : Array Sig := #[{ name := "a", width := 8, kind := .reg }, { name := "b", width := 4, kind := .wire }]
def demoState : State := #[#[200], #[9]]
/-- `{a + 8'd100, ~b}` with a conditional: simple, and its value is what IEEE width rules give -/
def demoExpr : Expr :=
  .cond (.bin .lt (.sig 1) (.num (some 4) 10)) (.cat [.bin .add (.sig 0) (.num (some 8) 100), .un .bnot (.sig 1)]) (.num (some 12) 0)

example : simple demoSigs demoExpr = true := by decide
example : StateOk demoSigs demoState := by
  intro i s h
  match i, h with
  | 0, _ => exact ⟨#[200], 200, rfl, rfl⟩
  | 1, _ => exact ⟨#[9], 9, rfl, rfl⟩
  | n + 2, h => simp [demoSigs] at h
example : ∃ e', resolveExpr ({} : Scope) (.bin .add (.num none 1) (.cat [.num (some 4) 2])) = .ok e' := ⟨_, rfl⟩

/-! ## the checker's `[undeclared]` class -/

/-- **lint_sound_undeclared** — the property's clause "every identifier that is read, written or used as a
    clock is declared in scope", proved of the checker: if `Source.check` reports no `[undeclared]` for module
    `m` (`m.undeclared = []`), then in every scope that binds at least the names the module declares
    (`Module.scope`: nets, variables, parameters) name resolution of every expression the module holds at item
    level — both sides of continuous assignments, clock / event expressions, port connections and parameter
    overrides of instances — never fails with `elaborate`'s `[undeclared]` error; and every `always` / `initial`
    body has no free identifier w.r.t. that scope extended by the local declarations of the enclosing named
    blocks (`stmtFree … = []`). -/
theorem lint_sound_undeclared (m : Module) (h : m.undeclared = []) (sc : Scope)
    (hcover : ∀ n, n ∈ m.scope → sc.contains n = true) :
    (∀ l r, Item.assign l r ∈ m.items → NoUndecl (resolveExpr sc l) ∧ NoUndecl (resolveExpr sc r)) ∧
    (∀ star evs b, Item.always star evs b ∈ m.items →
      (∀ ev, ev ∈ evs → NoUndecl (resolveExpr sc ev.2)) ∧ stmtFree m.scope b = []) ∧
    (∀ b, Item.initial b ∈ m.items → stmtFree m.scope b = []) ∧
    (∀ mn n ps cs, Item.inst mn n ps cs ∈ m.items →
      ∀ e, e ∈ connExprs ps ++ connExprs cs → NoUndecl (resolveExpr sc e)) := by
  refine ⟨?_, ?_, ?_, ?_⟩
  · intro l r hit
    have := free_nil (undeclared_item h hit)
    exact ⟨resolveExpr_noUndecl sc l (fun n hn => hcover n (this n (by simp [hn]))),
           resolveExpr_noUndecl sc r (fun n hn => hcover n (this n (by simp [hn])))⟩
  · intro star evs b hit
    have := undeclared_item h hit
    simp only [List.append_eq_nil_iff] at this
    refine ⟨fun ev hev => ?_, this.2⟩
    have hf := free_nil this.1
    exact resolveExpr_noUndecl sc ev.2 (fun n hn => hcover n (hf n (List.mem_flatMap.mpr ⟨ev, hev, hn⟩)))
  · intro b hit
    exact undeclared_item h hit
  · intro mn n ps cs hit e he
    have hf := free_nil (undeclared_item h hit)
    refine resolveExpr_noUndecl sc e (fun x hx => hcover x (hf x ?_))
    rcases List.mem_append.mp he with he | he
    · exact List.mem_append_left _ (List.mem_flatMap.mpr ⟨e, he, hx⟩)
    · exact List.mem_append_right _ (List.mem_flatMap.mpr ⟨e, he, hx⟩)


/-- non-vacuity: `tinySrc`'s module has no undeclared identifier, and one that uses `clock` for `clk` has -/
example : (tinySrc.modules.map Module.undeclared) = [[]] := by decide
example : Module.undeclared ⟨"br", ["clk"], [.decl ⟨.input, .none, none, [⟨"clk", none, none⟩]⟩,
    .decl ⟨.none, .reg, none, [⟨"done", none, none⟩]⟩,
    .always false [(.pos, .id "clock")] (.assign false (.id "done") (.num (some 1) 0))]⟩ = ["clock"] := by decide

/-! ## the shared-object header model (BMV.So) -/

/-- **so_ports_agree**: for every modelled kind and capability set, the connection list that
    `Write_verilog_main` passes to `aN_inst` (`GetPerProcPortsHeader ++ GetCPSharedPortsHeader`, with the
    wires of `…Wires`) has the length of the port list of the arch module and of the processor module
    (`GetArchHeader`, the same function in both), position by position the wire has the width of the port,
    the port is declared in both modules (`GetArchParams`, `GetCPParams`) with the same direction and
    width, and the wires declared are exactly the wires connected. -/
theorem so_ports_agree (k : Kind) (c : Caps) :
    (topConns k c).length = (archHeader k c).length ∧
    (archHeader k c).length = ((cpParams k c).map (·.suffix)).length ∧
    slotsAgree k c (topConns k c) (archHeader k c) = true ∧
    (topConns k c).map (·.1) = perProcHeader k c ++ cpSharedHeader k := by
  cases k <;> rcases c with ⟨_ | _, _ | _⟩ <;> decide

/-- the same with the numeric name prefixes applied (`br0…`, `p1br0…`, `q0…`) -/
theorem so_ports_agree_named (k : Kind) (c : Caps) (apfx tpfx spfx : String) :
    ((perProcHeader k c).map (tpfx ++ ·) ++ (cpSharedHeader k).map (spfx ++ ·)).length
      = ((archHeader k c).map (apfx ++ ·)).length := by
  have h := (so_ports_agree k c).1
  have h2 := (so_ports_agree k c).2.2.2
  have h3 : (topConns k c).length = (perProcHeader k c ++ cpSharedHeader k).length := by
    rw [← h2, List.length_map]
  simp only [List.length_append, List.length_map] at h3 ⊢
  omega

/-- **so_module_agree** (barrier, channel, sharedmem): the instance of the shared object's own module
    connects exactly the module's ports in the module's order, for every attachment list. -/
theorem so_module_agree (k : Kind) (hk : k = .barrier ∨ k = .channel ∨ k = .sharedmem) (atts : List Att) :
    instSlots k atts = moduleSlots k atts := by
  rcases hk with rfl | rfl | rfl <;> simp [instSlots, moduleSlots, cpSharedHeader]

/-- lfsr8 attached to two or more processors: more connections than ports (defect of the unchanged tree) -/
theorem lfsr8_module_disagree (atts : List Att) (h : 2 ≤ atts.length) :
    (moduleSlots .lfsr8 atts).length < (instSlots .lfsr8 atts).length := by
  match atts, h with
  | a :: b :: rest, _ =>
    simp [instSlots, moduleSlots, cpSharedHeader, perProcHeader]

/-- queue / stack: agreement under the senders-first condition -/
theorem queue_module_agree (k : Kind) (hk : k = .queue ∨ k = .stack) (atts : List Att)
    (hne : atts ≠ []) (h : sendersFirst atts = true) : instSlots k atts = moduleSlots k atts := by
  have hpp : (atts.flatMap fun a => (perProcHeader k a.caps).map fun r => (⟨a.proc, r⟩ : Slot))
      = atts.flatMap (fun a => sendSlots a ++ recvSlots a) := by
    congr 1; funext a; exact perProc_queue k hk a
  have hemp : atts.isEmpty = false := by cases atts <;> simp_all
  rcases hk with rfl | rfl <;>
    (unfold instSlots moduleSlots
     rw [hpp, split_flatMap atts h, hemp]
     simp [cpSharedHeader]
     rfl)


/-- **queue_module_agree_iff**: the bmstack template lists all senders, then all receivers; the instance lists
    per processor.  They coincide exactly when no receiver-capable processor precedes a sender-capable one. -/
theorem queue_module_agree_iff (k : Kind) (hk : k = .queue ∨ k = .stack) (atts : List Att) (hne : atts ≠ []) :
    instSlots k atts = moduleSlots k atts ↔ sendersFirst atts = true := by
  constructor
  · intro h
    have hpp : (atts.flatMap fun a => (perProcHeader k a.caps).map fun r => (⟨a.proc, r⟩ : Slot))
        = atts.flatMap (fun a => sendSlots a ++ recvSlots a) := by
      congr 1; funext a; exact perProc_queue k hk a
    have hemp : atts.isEmpty = false := by cases atts <;> simp_all
    apply split_flatMap_conv
    rcases hk with rfl | rfl <;>
      (unfold instSlots moduleSlots at h
       rw [hpp, hemp] at h
       simp only [cpSharedHeader, Bool.false_eq_true, if_false, List.map_cons, List.map_nil] at h
       have h2 : atts.flatMap (fun a => sendSlots a ++ recvSlots a) ++ [⟨0, "empty"⟩, ⟨0, "full"⟩]
           = (atts.flatMap sendSlots ++ atts.flatMap recvSlots) ++ [⟨0, "empty"⟩, ⟨0, "full"⟩] := h
       exact List.append_cancel_right h2)
  · exact queue_module_agree k hk atts hne

/-- the order does matter: receiver-capable processor 0 before sender-capable processor 1 -/
example : instSlots .queue [⟨0, 0, ⟨true, true⟩⟩, ⟨1, 1, ⟨true, false⟩⟩]
    ≠ moduleSlots .queue [⟨0, 0, ⟨true, true⟩⟩, ⟨1, 1, ⟨true, false⟩⟩] := by decide


/-- non-vacuity: the agreeing case is inhabited too (sender-only processor first) -/
example : instSlots .stack [⟨0, 0, ⟨true, false⟩⟩, ⟨1, 1, ⟨true, true⟩⟩]
    = moduleSlots .stack [⟨0, 0, ⟨true, false⟩⟩, ⟨1, 1, ⟨true, true⟩⟩] := by decide

example : slotsAgree .channel ⟨false, false⟩ (topConns .channel ⟨false, false⟩) (archHeader .channel ⟨false, false⟩) = true := by decide

end BMV.Props.C18
