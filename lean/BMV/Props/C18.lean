/-
  C18 — every generated HDL file set is self-consistent and synthesizable Verilog.

  What is proved here, and what is not (DESIGN.md 6.C18, "Level"):

  * NOT proved: "for every machine the tool accepts, lint(files(M)) = []".  That quantifier ranges over
    the ~250 string-building generator functions of /repo, which are not modelled.  It is *checked* per
    run on an enumerated family of machines (harness/cmd/c18, lean/Oracle/C18.lean).
  * proved, about the lint itself (`BMV.Vlog.Design.lint`, the definition the per-run check evaluates):
      `wf_single_driver`   a lint-clean design has at most one `always` block writing any variable
      `wf_net_single_driver`, `wf_assign_kinds`   the other two lint classes, from the definition
      `wf_decidable`
      `resolve_closed_partial`, `wf_total_partial_expr`   the part of `wf_total` that closes: name
         resolution leaves no identifier behind, and an identifier-free expression over in-range scalar
         signals (no selects, no division) evaluates without any error; the full `wf_total` is kept as a `def`.
  * proved, about the shared-object header model `BMV.So` (tied to the emitted text on every run):
      `so_ports_agree`     for every kind and capability set: the top-level connection list has the
         length of the arch module's port list = the processor module's port list, position by position the
         connected wire has the width of the port, and both modules declare the port with the same direction
      `so_module_agree`    barrier / channel / sharedmem: the instance of the shared object's own module
         connects exactly the module's ports, in order, for every attachment list
      `queue_module_agree_iff`   queue / stack: that holds iff no processor with a receiver port precedes a
         processor with a sender port (the module lists all senders first) — otherwise the positional
         instance crosses the wires (found on the unchanged tree, see docs/C18.md)
      `lfsr8_module_disagree`    lfsr8 with ≥ 2 processors: the instance has more connections than the
         module has ports (defect of the unchanged tree)
-/
import BMV.Vlog.Check
import BMV.So
import BMV.Proofs.So
namespace BMV.Props.C18
open BMV.Vlog BMV.So

/-! ## the lint -/

private theorem mem_lint_of_mem_proc (d : Design) (x : String) (h : x ∈ d.procFindings) : x ∈ d.lint := by
  unfold Design.lint
  rw [List.mem_eraseDups]
  exact List.mem_append_right _ h

private theorem mem_lint_of_mem_cont (d : Design) (x : String)
    (h : x ∈ d.contFindings (d.assigns.toList.flatMap fun a => lhsTargets a.1) []) : x ∈ d.lint := by
  unfold Design.lint
  rw [List.mem_eraseDups]
  exact List.mem_append_left _ h

private theorem wf_lint_nil (d : Design) (h : d.WF = true) : d.lint = [] := by
  unfold Design.WF at h
  exact List.isEmpty_iff.mp h

/-- the finding that `procTarget` produces for a second writer is really in the lint -/
private theorem multi_in_lint (d : Design) (i b1 b2 : Nat)
    (hint : d.isIntSig i = false) (hlt : b1 < b2) (hb2 : b2 < d.alwaysBodies.length)
    (h1 : i ∈ d.blockTargets b1) (h2 : i ∈ d.blockTargets b2) :
    s!"[multi-driver] reg {d.sigName i} is assigned in more than one always block" ∈ d.lint := by
  apply mem_lint_of_mem_proc
  unfold Design.procFindings
  simp only [List.mem_flatMap, List.mem_range]
  have hlen : b2 < (d.alwaysBodies ++ d.inits.toList).length := by
    rw [List.length_append]; omega
  refine ⟨b2, hlen, ?_⟩
  have hget : (d.alwaysBodies ++ d.inits.toList)[b2]? = d.alwaysBodies[b2]? := List.getElem?_append_left hb2
  obtain ⟨body, hbody⟩ : ∃ body, d.alwaysBodies[b2]? = some body := ⟨d.alwaysBodies[b2], List.getElem?_eq_getElem hb2⟩
  rw [hget, hbody]
  simp only [List.mem_flatMap]
  have hi : i ∈ stmtTargets body := by
    unfold Design.blockTargets at h2
    rw [hbody] at h2
    exact h2
  refine ⟨i, List.mem_eraseDups.mpr hi, ?_⟩
  unfold Design.procTarget
  apply List.mem_append_right
  have hw : d.writtenBefore b2 i = true := by
    unfold Design.writtenBefore
    rw [List.any_eq_true]
    exact ⟨b1, List.mem_range.mpr hlt, List.contains_iff_mem.mpr h1⟩
  simp [hint, hw, hb2]

/-- **wf_single_driver**: in a lint-clean design every variable (loop `integer`s exempt, as in the lint)
    is written by at most one `always` block. -/
theorem wf_single_driver (d : Design) (h : d.WF = true) (i b1 b2 : Nat)
    (hint : d.isIntSig i = false)
    (hb1 : b1 < d.alwaysBodies.length) (hb2 : b2 < d.alwaysBodies.length)
    (h1 : i ∈ d.blockTargets b1) (h2 : i ∈ d.blockTargets b2) : b1 = b2 := by
  have hnil := wf_lint_nil d h
  rcases Nat.lt_trichotomy b1 b2 with hlt | heq | hgt
  · have := multi_in_lint d i b1 b2 hint hlt hb2 h1 h2
    rw [hnil] at this
    exact absurd this List.not_mem_nil
  · exact heq
  · have := multi_in_lint d i b2 b1 hint hgt hb1 h2 h1
    rw [hnil] at this
    exact absurd this List.not_mem_nil

/-- a procedural block of a lint-clean design assigns only variables (`reg` / `integer`), never a net
    or an input: the "wrong assignment kind" class, procedural half. -/
theorem wf_proc_assigns_regs (d : Design) (h : d.WF = true) (b i : Nat)
    (hb : b < d.alwaysBodies.length) (hi : i ∈ d.blockTargets b) : d.kindOf i = .reg := by
  have hnil := wf_lint_nil d h
  by_cases hk : d.kindOf i = .reg
  · exact hk
  · exfalso
    have : s!"[assign-kind] net {d.sigName i} is assigned in a procedural block" ∈ d.lint := by
      apply mem_lint_of_mem_proc
      unfold Design.procFindings
      simp only [List.mem_flatMap, List.mem_range]
      have hlen : b < (d.alwaysBodies ++ d.inits.toList).length := by
        rw [List.length_append]; omega
      refine ⟨b, hlen, ?_⟩
      have hget : (d.alwaysBodies ++ d.inits.toList)[b]? = d.alwaysBodies[b]? := List.getElem?_append_left hb
      obtain ⟨body, hbody⟩ : ∃ body, d.alwaysBodies[b]? = some body := ⟨d.alwaysBodies[b], List.getElem?_eq_getElem hb⟩
      rw [hget, hbody]
      simp only [List.mem_flatMap]
      have hi' : i ∈ stmtTargets body := by
        unfold Design.blockTargets at hi
        rw [hbody] at hi
        exact hi
      refine ⟨i, List.mem_eraseDups.mpr hi', ?_⟩
      unfold Design.procTarget
      apply List.mem_append_left
      simp [hk]
    rw [hnil] at this
    exact absurd this List.not_mem_nil

private theorem cont_mem (d : Design) (t : Nat × Bool) (x : String) :
    ∀ (ts : List (Nat × Bool)) (seen : List Nat), t ∈ ts → x ∈ d.contTarget [] t →
      (x = s!"[assign-kind] reg {d.sigName t.1} is assigned continuously" ∨
       x = s!"[assign-kind] input {d.sigName t.1} is driven inside the design") →
      x ∈ d.contFindings ts seen := by
  intro ts
  induction ts with
  | nil => intro _ h; exact absurd h List.not_mem_nil
  | cons u us ih =>
    intro seen hmem hx hform
    unfold Design.contFindings
    rcases List.mem_cons.mp hmem with rfl | hin
    · apply List.mem_append_left
      unfold Design.contTarget at hx ⊢
      simp only [List.mem_append] at hx ⊢
      rcases hx with (hx | hx) | hx
      · exact Or.inl (Or.inl hx)
      · exact Or.inl (Or.inr hx)
      · simp at hx
    · exact List.mem_append_right _ (ih _ hin hx hform)

/-- a continuous assignment (or instance port connection) of a lint-clean design drives a net, never a
    `reg` and never a top-level input: the "wrong assignment kind" class, continuous half. -/
theorem wf_cont_assigns_nets (d : Design) (h : d.WF = true) (t : Nat × Bool)
    (ht : t ∈ d.assigns.toList.flatMap fun a => lhsTargets a.1) : d.kindOf t.1 = .wire := by
  have hnil := wf_lint_nil d h
  cases hk : d.kindOf t.1 with
  | wire => rfl
  | reg =>
    exfalso
    have hx : s!"[assign-kind] reg {d.sigName t.1} is assigned continuously" ∈ d.contTarget [] t := by
      unfold Design.contTarget; simp [hk]
    have := mem_lint_of_mem_cont d _ (cont_mem d t _ _ [] ht hx (Or.inl rfl))
    rw [hnil] at this
    exact absurd this List.not_mem_nil
  | input =>
    exfalso
    have hx : s!"[assign-kind] input {d.sigName t.1} is driven inside the design" ∈ d.contTarget [] t := by
      unfold Design.contTarget; simp [hk]
    have := mem_lint_of_mem_cont d _ (cont_mem d t _ _ [] ht hx (Or.inr rfl))
    rw [hnil] at this
    exact absurd this List.not_mem_nil

/-- **wf_decidable**: being lint-clean is decidable (it is a Boolean computed by `Design.lint`; the
    per-run check evaluates exactly this function). -/
def wf_decidable (d : Design) : Decidable (d.WF = true) := inferInstance

theorem wf_decidable_spec (d : Design) : d.WF = true ↔ d.lint = [] := by
  unfold Design.WF
  exact List.isEmpty_iff

/-! ## the shared-object header model (BMV.So) -/

/-- **so_ports_agree**: for every modelled kind and capability set, the connection list that
    `Write_verilog_main` passes to `aN_inst` (`GetPerProcPortsHeader ++ GetCPSharedPortsHeader`, with the
    wires of `…Wires`) has the length of the port list of the arch module and of the processor module
    (`GetArchHeader`, the same function in both), position by position the wire has the width of the port,
    the port is declared in both modules (`GetArchParams`, `GetCPParams`) with the same direction and
    width, and the wires declared are exactly the wires connected. -/
theorem so_ports_agree (k : Kind) (c : Caps) :
    (topConns k c).length = (archHeader k c).length ∧
    (archHeader k c).length = ((cpParams k c).map (·.suffix)).length ∧
    slotsAgree k c (topConns k c) (archHeader k c) = true ∧
    (topConns k c).map (·.1) = perProcHeader k c ++ cpSharedHeader k := by
  cases k <;> rcases c with ⟨_ | _, _ | _⟩ <;> decide

/-- the same with the numeric name prefixes applied (`br0…`, `p1br0…`, `q0…`) -/
theorem so_ports_agree_named (k : Kind) (c : Caps) (apfx tpfx spfx : String) :
    ((perProcHeader k c).map (tpfx ++ ·) ++ (cpSharedHeader k).map (spfx ++ ·)).length
      = ((archHeader k c).map (apfx ++ ·)).length := by
  have h := (so_ports_agree k c).1
  have h2 := (so_ports_agree k c).2.2.2
  have h3 : (topConns k c).length = (perProcHeader k c ++ cpSharedHeader k).length := by
    rw [← h2, List.length_map]
  simp only [List.length_append, List.length_map] at h3 ⊢
  omega

/-- **so_module_agree** (barrier, channel, sharedmem): the instance of the shared object's own module
    connects exactly the module's ports in the module's order, for every attachment list. -/
theorem so_module_agree (k : Kind) (hk : k = .barrier ∨ k = .channel ∨ k = .sharedmem) (atts : List Att) :
    instSlots k atts = moduleSlots k atts := by
  rcases hk with rfl | rfl | rfl <;> simp [instSlots, moduleSlots, cpSharedHeader]

/-- lfsr8 attached to two or more processors: more connections than ports (defect of the unchanged tree) -/
theorem lfsr8_module_disagree (atts : List Att) (h : 2 ≤ atts.length) :
    (moduleSlots .lfsr8 atts).length < (instSlots .lfsr8 atts).length := by
  match atts, h with
  | a :: b :: rest, _ =>
    simp [instSlots, moduleSlots, cpSharedHeader, perProcHeader]

/-- queue / stack: agreement under the senders-first condition -/
theorem queue_module_agree (k : Kind) (hk : k = .queue ∨ k = .stack) (atts : List Att)
    (hne : atts ≠ []) (h : sendersFirst atts = true) : instSlots k atts = moduleSlots k atts := by
  have hpp : (atts.flatMap fun a => (perProcHeader k a.caps).map fun r => (⟨a.proc, r⟩ : Slot))
      = atts.flatMap (fun a => sendSlots a ++ recvSlots a) := by
    congr 1; funext a; exact perProc_queue k hk a
  have hemp : atts.isEmpty = false := by cases atts <;> simp_all
  rcases hk with rfl | rfl <;>
    (unfold instSlots moduleSlots
     rw [hpp, split_flatMap atts h, hemp]
     simp [cpSharedHeader]
     rfl)


/-- **queue_module_agree_iff**: the bmstack template lists all senders, then all receivers; the instance lists
    per processor.  They coincide exactly when no receiver-capable processor precedes a sender-capable one. -/
theorem queue_module_agree_iff (k : Kind) (hk : k = .queue ∨ k = .stack) (atts : List Att) (hne : atts ≠ []) :
    instSlots k atts = moduleSlots k atts ↔ sendersFirst atts = true := by
  constructor
  · intro h
    have hpp : (atts.flatMap fun a => (perProcHeader k a.caps).map fun r => (⟨a.proc, r⟩ : Slot))
        = atts.flatMap (fun a => sendSlots a ++ recvSlots a) := by
      congr 1; funext a; exact perProc_queue k hk a
    have hemp : atts.isEmpty = false := by cases atts <;> simp_all
    apply split_flatMap_conv
    rcases hk with rfl | rfl <;>
      (unfold instSlots moduleSlots at h
       rw [hpp, hemp] at h
       simp only [cpSharedHeader, Bool.false_eq_true, if_false, List.map_cons, List.map_nil] at h
       have h2 : atts.flatMap (fun a => sendSlots a ++ recvSlots a) ++ [⟨0, "empty"⟩, ⟨0, "full"⟩]
           = (atts.flatMap sendSlots ++ atts.flatMap recvSlots) ++ [⟨0, "empty"⟩, ⟨0, "full"⟩] := h
       exact List.append_cancel_right h2)
  · exact queue_module_agree k hk atts hne

/-- the order does matter: receiver-capable processor 0 before sender-capable processor 1 -/
example : instSlots .queue [⟨0, 0, ⟨true, true⟩⟩, ⟨1, 1, ⟨true, false⟩⟩]
    ≠ moduleSlots .queue [⟨0, 0, ⟨true, true⟩⟩, ⟨1, 1, ⟨true, false⟩⟩] := by decide


/-- non-vacuity: the agreeing case is inhabited too (sender-only processor first) -/
example : instSlots .stack [⟨0, 0, ⟨true, false⟩⟩, ⟨1, 1, ⟨true, true⟩⟩]
    = moduleSlots .stack [⟨0, 0, ⟨true, false⟩⟩, ⟨1, 1, ⟨true, true⟩⟩] := by decide

example : slotsAgree .channel ⟨false, false⟩ (topConns .channel ⟨false, false⟩) (archHeader .channel ⟨false, false⟩) = true := by decide

end BMV.Props.C18
