/-
  C01 — Generated processor HDL executes programs exactly as the ISA simulator does.

  Property theorems only.  Models: BMV/Isa.lean (the Go simulator: VM.Step + Simulate of each
  opcode, slicing the instruction string like the Go code) and BMV/Rtl.lean (one clock of the
  emitted Verilog: nested `case` on part-selects `current_instruction[hi:lo]`).  Both are hand
  written and tied to the code on every run (tools/props/c01.py): Isa against the real
  procbuilder.VM step by step, Rtl against the emitted Verilog text executed under the
  Verilog-subset semantics BMV.Vlog clock by clock.

  Proved here, for EVERY architecture in `ha` mode with automatic word size (any R, N, M, O, any
  opcode subset, any program, any port stimulus): for each opcode that retires in one clock
  (everything in the co-implemented set except the two handshake opcodes i2rw / r2owa, which are
  C04's subject) one clock of the hardware model and one step of the simulator model take related
  states to related states (`rtl_refines_isa`), hence equal traces at every retire point
  (`trace_eq`).  The hypotheses are exactly the property's "in-range operands": jump targets inside
  the program, no division by zero, the program never runs off the end of the ROM, register size
  at which both back-ends implement the opcode.
-/
import BMV.Proofs.Refine
import BMV.Proofs.RefinePipe
import BMV.Proofs.RefineRom
namespace BMV.Props.C01
open BMV BMV.Bits BMV.Refine

/-- decoding agrees: the opcode selector `current_instruction[W-1:W-opBits]` and every operand
    part-select of the HDL read the same numbers as the simulator's `get_id(instr[a:b])` -/
theorem decode_agree (w : Bits) (W ob off wd : Nat) (hW : w.length = W) (hfit : ob + off + wd ≤ W) :
    getId (w.take ob) = Rtl.part (getId w) W 0 ob ∧
    Isa.field (w.drop ob) off wd = Rtl.part (getId w) W (ob + off) wd :=
  ⟨opcode_eq_part w W ob hW (by omega), field_eq_part w W ob off wd hW hfit⟩

/-- one instruction: hardware clock and simulator step preserve the relation
    (pc, register file, output-port values) -/
theorem rtl_refines_isa (a : Arch) (prog : List Bits) (s s' : VmState) (h : RtlState) (p : PortsIn)
    (w : Bits) (op : String) (H : StepHyp a prog s h p w op s') :
    Rel s' (Rtl.cycle a prog h p) :=
  refine_lockstep H

/-- the environment drives the input ports and the handshake lines before each step -/
def setEnv (s : VmState) (p : PortsIn) : VmState :=
  { s with inputs := p.inputs, inValid := p.inValid, outRecv := p.outRecv }

/-- a run: the stimulus at each step, and the facts that make the step comparable -/
inductive GoodRun (a : Arch) (prog : List Bits) : VmState → RtlState → List PortsIn → Prop
  | nil (s h) : GoodRun a prog s h []
  | cons (s s' h p ps w op) :
      StepHyp a prog s h p w op s' →
      s'.regs.length = 2 ^ a.r → s'.outputs.length = a.m →
      GoodRun a prog (setEnv s' (ps.headD p)) (Rtl.cycle a prog h p) ps →
      GoodRun a prog s h (p :: ps)

/-- equal traces: along every good run the two worlds are related after every retired instruction -/
theorem trace_eq (a : Arch) (prog : List Bits) (s : VmState) (h : RtlState) (ps : List PortsIn)
    (hrel : Rel s h) (hrun : GoodRun a prog s h ps) :
    ∀ k, k ≤ ps.length →
      ∃ sk hk, Rel sk hk ∧ hk = (ps.take k).foldl (fun st p => Rtl.cycle a prog st p) h := by
  induction hrun with
  | nil s h => intro k hk; simp at hk; subst hk; exact ⟨s, h, hrel, rfl⟩
  | cons s s' h p ps w op H _ _ _ ih =>
    intro k hk
    cases k with
    | zero => exact ⟨s, h, hrel, rfl⟩
    | succ k =>
      have hr0 := refine_lockstep H
      have hr : Rel (setEnv s' (ps.headD p)) (Rtl.cycle a prog h p) := ⟨hr0.1, hr0.2.1, hr0.2.2⟩
      obtain ⟨sk, hk', r1, r2⟩ := ih hr k (by simpa using hk)
      exact ⟨sk, hk', r1, by simpa using r2⟩

/-! ### the two-tick ("pipelined") opcodes addp / multp / divp

Both back-ends spend two ticks on these instructions, so the comparison stays tick by tick; the
relation gains `PipeRel` (the simulator's phase flag = the hardware's `<op>_<tag>_state` register;
in the second tick the latched `input_a` / `input_b` are the registers the instruction names). -/

/-- one tick of a pipelined opcode preserves both relations -/
theorem rtl_refines_isa_pipelined (a : Arch) (prog : List Bits) (s s' : VmState) (h : RtlState) (p : PortsIn)
    (w : Bits) (op : String) (H : PipeHyp a prog s h p w op s') :
    Rel s' (Rtl.cycle a prog h p) ∧ PipeRel a prog s' (Rtl.cycle a prog h p) :=
  refine_pipe H

/-- the one-clock opcodes leave the pipeline relation alone -/
theorem pipeline_kept_by_one_clock_opcodes (a : Arch) (prog : List Bits) (s s' : VmState) (h : RtlState)
    (p : PortsIn) (w : Bits) (op : String) (H : StepHyp a prog s h p w op s') (hp : PipeRel a prog s h) :
    PipeRel a prog s' (Rtl.cycle a prog h p) :=
  lockstep_keeps_pipe H hp

/-- it holds initially: `VM.Init` against the reset hardware -/
theorem pipeRel_init (a : Arch) (prog : List Bits) : PipeRel a prog (Isa.init a) (Rtl.reset a) := by
  refine ⟨by simp [Isa.init], fun op hop => ?_⟩
  simp only [Isa.pipeOps, List.mem_cons, List.not_mem_nil, or_false] at hop
  rcases hop with rfl | rfl | rfl <;> simp [Isa.init, Rtl.reset, RtlState.getPipe]

/-- runs over programs that mix one-clock and pipelined opcodes -/
inductive GoodRunP (a : Arch) (prog : List Bits) : VmState → RtlState → List PortsIn → Prop
  | nil (s h) : GoodRunP a prog s h []
  | lock (s s' h p ps w op) :
      StepHyp a prog s h p w op s' →
      GoodRunP a prog (setEnv s' (ps.headD p)) (Rtl.cycle a prog h p) ps →
      GoodRunP a prog s h (p :: ps)
  | pipe (s s' h p ps w op) :
      PipeHyp a prog s h p w op s' →
      GoodRunP a prog (setEnv s' (ps.headD p)) (Rtl.cycle a prog h p) ps →
      GoodRunP a prog s h (p :: ps)

/-- equal traces, tick by tick, for programs over the one-clock AND the pipelined opcodes -/
theorem trace_eq_pipelined (a : Arch) (prog : List Bits) (s : VmState) (h : RtlState) (ps : List PortsIn)
    (hrel : Rel s h) (hprel : PipeRel a prog s h) (hrun : GoodRunP a prog s h ps) :
    ∀ k, k ≤ ps.length →
      ∃ sk hk, Rel sk hk ∧ PipeRel a prog sk hk ∧ hk = (ps.take k).foldl (fun st p => Rtl.cycle a prog st p) h := by
  induction hrun with
  | nil s h => intro k hk; simp at hk; subst hk; exact ⟨s, h, hrel, hprel, rfl⟩
  | lock s s' h p ps w op H _ ih =>
    intro k hk
    cases k with
    | zero => exact ⟨s, h, hrel, hprel, rfl⟩
    | succ k =>
      have hr0 := refine_lockstep H
      have hp0 := lockstep_keeps_pipe H hprel
      have hr : Rel (setEnv s' (ps.headD p)) (Rtl.cycle a prog h p) := ⟨hr0.1, hr0.2.1, hr0.2.2⟩
      have hp : PipeRel a prog (setEnv s' (ps.headD p)) (Rtl.cycle a prog h p) := hp0
      obtain ⟨sk, hk', r1, r2, r3⟩ := ih hr hp k (by simpa using hk)
      exact ⟨sk, hk', r1, r2, by simpa using r3⟩
  | pipe s s' h p ps w op H _ ih =>
    intro k hk
    cases k with
    | zero => exact ⟨s, h, hrel, hprel, rfl⟩
    | succ k =>
      obtain ⟨hr0, hp0⟩ := refine_pipe H
      have hr : Rel (setEnv s' (ps.headD p)) (Rtl.cycle a prog h p) := ⟨hr0.1, hr0.2.1, hr0.2.2⟩
      have hp : PipeRel a prog (setEnv s' (ps.headD p)) (Rtl.cycle a prog h p) := hp0
      obtain ⟨sk, hk', r1, r2, r3⟩ := ih hr hp k (by simpa using hk)
      exact ⟨sk, hk', r1, r2, by simpa using r3⟩

/-- Enabling the hardware optimisation derived from the program never changes behaviour: with any
    register sets that contain what the assembler records for the program (`destRegs`; the
    generator keeps every arm when nothing was recorded for an opcode), the pruned processor does
    in every clock exactly what the unpruned one does, in every state whose pc is inside the
    program and for every port stimulus. -/
theorem onlyDestRegs_sound (a : Arch) (prog : List Bits) (used : String → List Nat) (s : RtlState) (p : PortsIn)
    (hused : ∀ op k, k ∈ Rtl.destRegs a prog op → k ∈ used op)
    (husedS : ∀ op k, k ∈ Rtl.srcRegs a prog op → k ∈ used (op ++ "/src"))
    (hws : a.wordSize = 0) (hlen : ∀ w ∈ prog, w.length = a.maxWord) (hpc : s.pc < prog.length) :
    Rtl.cycleOpt a used prog s p = Rtl.cycle a prog s p :=
  onlyDestRegs_sound' a prog used s p hused husedS hws hlen hpc

/-! ### `ro2rri`: the ROM read as data (program words and the data that follows them)

The simulator retires the instruction in one step, the hardware takes two clocks (address out, word
in), so the comparison is at the retire point: after the second clock.  `Isa.stepRom` / `Rtl.cycleRom`
are the models with the ROM contents (program ++ data) as a parameter; on every other opcode they
are `Isa.step` / `Rtl.cycle`. -/

/-- one `ro2rri`: the first clock moves no architectural register, after the second the two worlds
    are related again (the destination register holds the low `min Rsize W` bits of the addressed
    ROM cell in both) and the hardware's flag is back down -/
theorem rtl_refines_isa_romread (a : Arch) (prog data : List Bits) (s : VmState) (h : RtlState) (w : Bits)
    (H : RomHyp a prog data s h w) (p1 p2 : PortsIn) :
    ∃ s', Isa.stepRom a prog data s = some s' ∧
      (Rtl.cycleRom a prog data h p1).pc = h.pc ∧
      (Rtl.cycleRom a prog data h p1).regs = h.regs ∧
      (Rtl.cycleRom a prog data h p1).auxo = h.auxo ∧
      Rel s' (Rtl.cycleRom a prog data (Rtl.cycleRom a prog data h p1) p2) ∧
      (Rtl.cycleRom a prog data (Rtl.cycleRom a prog data h p1) p2).romReady = false :=
  refine_rom H p1 p2

/-- the relation carried from retire point to retire point -/
def Sim (a : Arch) (prog : List Bits) (s : VmState) (h : RtlState) : Prop :=
  Rel s h ∧ PipeRel a prog s h ∧ h.romReady = false

theorem sim_init (a : Arch) (prog : List Bits) (hr : Rel (Isa.init a) (Rtl.reset a)) :
    Sim a prog (Isa.init a) (Rtl.reset a) := ⟨hr, pipeRel_init a prog, rfl⟩

/-- a step of a one-clock or pipelined opcode in the model with the ROM parameter is the plain step -/
theorem lockstep_is_stepRom (a : Arch) (prog data : List Bits) (s s' : VmState) (h : RtlState) (p : PortsIn)
    (w : Bits) (op : String) (H : StepHyp a prog s h p w op s') :
    Isa.stepRom a prog data s = some s' ∧ Rtl.cycleRom a prog data h p = Rtl.cycle a prog h p := by
  have hne : op ≠ "ro2rri" := by
    intro e; have := H.lock; rw [e] at this; revert this; decide
  constructor
  · rw [stepRom_eq_step a prog data s (fun w' hw' => by
      rw [H.fetch] at hw'; cases hw'; rw [H.decode]; exact fun e => hne (Option.some.inj e))]
    exact H.step
  · apply cycleRom_eq_cycle
    · rw [← H.rel.1]; exact (List.getElem?_eq_some_iff.mp H.fetch).1
    · rw [← H.rel.1, fetch_eq H.fetch, curOp_eq H]
      exact fun e => hne (Option.some.inj e)

theorem pipelined_is_stepRom (a : Arch) (prog data : List Bits) (s s' : VmState) (h : RtlState) (p : PortsIn)
    (w : Bits) (op : String) (H : PipeHyp a prog s h p w op s') :
    Isa.stepRom a prog data s = some s' ∧ Rtl.cycleRom a prog data h p = Rtl.cycle a prog h p := by
  have hne : op ≠ "ro2rri" := by
    intro e; have := H.pipe; rw [e] at this; revert this; decide
  constructor
  · rw [stepRom_eq_step a prog data s (fun w' hw' => by
      rw [H.fetch] at hw'; cases hw'; rw [H.decode]; exact fun e => hne (Option.some.inj e))]
    exact H.step
  · apply cycleRom_eq_cycle
    · rw [← H.rel.1]; exact (List.getElem?_eq_some_iff.mp H.fetch).1
    · rw [← H.rel.1, fetch_eq H.fetch, (curOp_pipe H.ws H.wlen H.decode H.pipe).1]
      exact fun e => hne (Option.some.inj e)

/-- runs over programs that mix one-clock, pipelined and ROM-reading opcodes: from retire point to
    retire point (one clock, one tick of two, two clocks) -/
inductive RunR (a : Arch) (prog data : List Bits) : VmState → RtlState → VmState → RtlState → Prop
  | nil (s h) : RunR a prog data s h s h
  | lock (s s' h p p' w op sN hN) :
      StepHyp a prog s h p w op s' →
      RunR a prog data (setEnv s' p') (Rtl.cycleRom a prog data h p) sN hN →
      RunR a prog data s h sN hN
  | pipe (s s' h p p' w op sN hN) :
      PipeHyp a prog s h p w op s' →
      RunR a prog data (setEnv s' p') (Rtl.cycleRom a prog data h p) sN hN →
      RunR a prog data s h sN hN
  | rom (s s' h p1 p2 p' w sN hN) :
      RomHyp a prog data s h w → Isa.stepRom a prog data s = some s' →
      RunR a prog data (setEnv s' p') (Rtl.cycleRom a prog data (Rtl.cycleRom a prog data h p1) p2) sN hN →
      RunR a prog data s h sN hN

/-- equal traces at every retire point, for programs over the whole co-implemented one-processor
    opcode set (one-clock, pipelined, ROM-reading) -/
theorem trace_eq_romread (a : Arch) (prog data : List Bits) (s sN : VmState) (h hN : RtlState)
    (hsim : Sim a prog s h) (hrun : RunR a prog data s h sN hN) : Sim a prog sN hN := by
  induction hrun with
  | nil s h => exact hsim
  | lock s s' h p p' w op sN hN H _ ih =>
    obtain ⟨hr, hp, hrd⟩ := hsim
    rw [(lockstep_is_stepRom a prog data s s' h p w op H).2] at ih
    have hr0 := refine_lockstep H
    have hp0 := lockstep_keeps_pipe H hp
    exact ih ⟨⟨hr0.1, hr0.2.1, hr0.2.2⟩, hp0, by rw [(cycle_rom_regs a prog h p).1]; exact hrd⟩
  | pipe s s' h p p' w op sN hN H _ ih =>
    obtain ⟨_, _, hrd⟩ := hsim
    rw [(pipelined_is_stepRom a prog data s s' h p w op H).2] at ih
    obtain ⟨hr0, hp0⟩ := refine_pipe H
    exact ih ⟨⟨hr0.1, hr0.2.1, hr0.2.2⟩, hp0, by rw [(cycle_rom_regs a prog h p).1]; exact hrd⟩
  | rom s s' h p1 p2 p' w sN hN H hs _ ih =>
    obtain ⟨_, hp, _⟩ := hsim
    obtain ⟨s2, hs2, _, _, _, hr2, hrd2⟩ := refine_rom H p1 p2
    rw [hs] at hs2; cases hs2
    have hp2 := rom_keeps_pipe H hp p1 p2 hs
    exact ih ⟨⟨hr2.1, hr2.2.1, hr2.2.2⟩, hp2, hrd2⟩

/-! ### non-vacuity: a concrete machine and program satisfy every hypothesis, step after step -/

def demoArch : Arch :=
  { rsize := 8, r := 1, n := 1, m := 1, l := 0, o := 2, ops := ["add", "inc", "j", "r2o", "rset"] }

/-- rset r0 5 ; inc r1 ; add r0 r1 ; j 1  -/
def demoProg : List Bits :=
  [ofString01 "100000000101", ofString01 "001100000000", ofString01 "000010000000", ofString01 "010010000000"]

example : demoArch.maxWord = 12 := by decide

/-- both models, run for six instructions, agree on pc and registers at every step -/
example :
    let run := fun (k : Nat) =>
      (List.range k).foldl (fun (st : Option VmState × RtlState) _ =>
        (st.1.bind (Isa.step demoArch demoProg), Rtl.cycle demoArch demoProg st.2 {})) 
        (some (Isa.init demoArch), Rtl.reset demoArch)
    (List.range 7).all (fun k =>
      match run k with
      | (some s, h) => s.pc == h.pc && s.regs == h.regs
      | _ => false) = true := by decide

/-- pruning is not a no-op: with a register set that misses the register the program increments,
    the optimised processor differs from the plain one (so `onlyDestRegs_sound` says something) -/
example : Rtl.cycleOpt demoArch (fun _ => []) demoProg { Rtl.reset demoArch with pc := 1 } {} ≠
    Rtl.cycle demoArch demoProg { Rtl.reset demoArch with pc := 1 } {} := by decide

example : Rtl.destRegs demoArch demoProg "inc" = [1] ∧ Rtl.destRegs demoArch demoProg "rset" = [0] := by decide

/-- the hypotheses of `rtl_refines_isa` are satisfiable: the first instruction of the demo program -/
example : ∃ s', StepHyp demoArch demoProg { Isa.init demoArch with inputs := [0] } (Rtl.reset demoArch)
    { inputs := [0] } (ofString01 "100000000101") "rset" s' := by
  refine ⟨{ Isa.init demoArch with pc := 1, regs := [5, 0], inputs := [0] }, ?_⟩
  exact {
    mode := rfl, ws := rfl, wlen := by decide, regsLen := by decide, inLen := by decide,
    outLen := by decide, rel := ⟨rfl, rfl, rfl⟩, env := rfl, fetch := by decide, decode := by decide,
    lock := by decide, width := by simp [coWidth, Isa.stdSize, demoArch], step := by decide, noFall := by decide,
    jumpIn := by decide }


/-- the pipelined opcodes, concretely: `rset r0 6; rset r1 7; multp r0 r1; j 3` — six ticks of both
    models agree on pc and registers (the multiplication takes ticks 3 and 4) -/
def demoArchP : Arch :=
  { rsize := 8, r := 1, n := 0, m := 0, l := 0, o := 2, ops := ["j", "multp", "rset"] }
def demoProgP : List Bits :=
  [ofString01 "10000000110", ofString01 "10100000111", ofString01 "01010000000", ofString01 "00110000000"]

example : demoArchP.maxWord = 11 := by decide
example :
    let run := fun (k : Nat) =>
      (List.range k).foldl (fun (st : Option VmState × RtlState) _ =>
        (st.1.bind (Isa.step demoArchP demoProgP), Rtl.cycle demoArchP demoProgP st.2 {}))
        (some (Isa.init demoArchP), Rtl.reset demoArchP)
    (List.range 7).map (fun k =>
      match run k with
      | (some s, h) => (s.pc == h.pc && s.regs == h.regs, s.regs, s.phase)
      | _ => (false, [], [])) =
    [(true, [0, 0], []), (true, [6, 0], []), (true, [6, 7], []), (true, [6, 7], ["multp"]),
     (true, [42, 7], []), (true, [42, 7], []), (true, [42, 7], [])] := by decide

/-- the premises of `rtl_refines_isa_pipelined` are satisfiable: first tick of the `multp` above -/
example : ∃ s', PipeHyp demoArchP demoProgP { Isa.init demoArchP with pc := 2, regs := [6, 7] }
    { Rtl.reset demoArchP with pc := 2, regs := [6, 7] } {} (ofString01 "01010000000") "multp" s' := by
  refine ⟨{ Isa.init demoArchP with pc := 2, regs := [6, 7], phase := ["multp"] }, ?_⟩
  exact {
    ws := rfl, wlen := by decide, rel := ⟨rfl, rfl, rfl⟩,
    prel := by
      refine ⟨by simp [Isa.init], fun op hop => ?_⟩
      simp only [Isa.pipeOps, List.mem_cons, List.not_mem_nil, or_false] at hop
      rcases hop with rfl | rfl | rfl <;> simp [Isa.init, Rtl.reset, RtlState.getPipe],
    fetch := by decide, decode := by decide, pipe := by decide, width := by decide,
    step := by decide, noFall := by decide }

/-- `ro2rri`, concretely: `rset r1 4; ro2rri r0 r1; j 2` with two data words after the program —
    cell 4 is the second data word; the hardware takes one clock more than the simulator -/
def demoArchR : Arch :=
  { rsize := 8, r := 1, n := 0, m := 0, l := 0, o := 3, ops := ["j", "ro2rri", "rset"] }
def demoProgR : List Bits :=
  [ofString01 "10100000100", ofString01 "01010000000", ofString01 "00010000000"]
def demoDataR : List Bits := [ofString01 "00000000111", ofString01 "01011111110"]

example : demoArchR.maxWord = 11 := by decide
example :
    (((some (Isa.init demoArchR)).bind (Isa.stepRom demoArchR demoProgR demoDataR)).bind
      (Isa.stepRom demoArchR demoProgR demoDataR)).map (fun s => (s.pc, s.regs)) = some (2, [254, 4]) := by decide
example :
    let c := fun h => Rtl.cycleRom demoArchR demoProgR demoDataR h {}
    ((c (Rtl.reset demoArchR)).regs, (c (c (Rtl.reset demoArchR))).pc, (c (c (Rtl.reset demoArchR))).romReady,
     (c (c (c (Rtl.reset demoArchR)))).pc, (c (c (c (Rtl.reset demoArchR)))).regs) =
    ([0, 4], 1, true, 2, [254, 4]) := by decide

/-- the premises of `rtl_refines_isa_romread` are satisfiable: the `ro2rri` above -/
example : RomHyp demoArchR demoProgR demoDataR { Isa.init demoArchR with pc := 1, regs := [0, 4] }
    { Rtl.reset demoArchR with pc := 1, regs := [0, 4] } (ofString01 "01010000000") :=
  { ws := rfl, wlen := by decide, regsLen := by decide, rel := ⟨rfl, rfl, rfl⟩, ready := rfl,
    fetch := by decide, decode := by decide, rsize := by decide, fits := by decide,
    inRom := by
      intro loc hl
      have : loc = 4 := by
        have h4 : ({ Isa.init demoArchR with pc := 1, regs := [0, 4] } : VmState).regs[
            Isa.field ((ofString01 "01010000000").drop demoArchR.opBits) demoArchR.r demoArchR.r]? = some 4 := by decide
        rw [h4] at hl; exact (Option.some.inj hl).symm
      subst this; decide,
    noFall := by decide }

end BMV.Props.C01
