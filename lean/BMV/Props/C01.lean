/-
  C01 — Generated processor HDL executes programs exactly as the ISA simulator does.

  Property theorems only.  Models: BMV/Isa.lean (the Go simulator: VM.Step + Simulate of each
  opcode, slicing the instruction string like the Go code) and BMV/Rtl.lean (one clock of the
  emitted Verilog: nested `case` on part-selects `current_instruction[hi:lo]`).  Both are hand
  written and tied to the code on every run (tools/props/c01.py): Isa against the real
  procbuilder.VM step by step, Rtl against the emitted Verilog text executed under the
  Verilog-subset semantics BMV.Vlog clock by clock.

  Proved here, for EVERY architecture in `ha` mode with automatic word size (any R, N, M, O, any
  opcode subset, any program, any port stimulus): for each opcode that retires in one clock
  (everything in the co-implemented set except the two handshake opcodes i2rw / r2owa, which are
  C04's subject) one clock of the hardware model and one step of the simulator model take related
  states to related states (`rtl_refines_isa`), hence equal traces at every retire point
  (`trace_eq`).  The hypotheses are exactly the property's "in-range operands": jump targets inside
  the program, no division by zero, the program never runs off the end of the ROM, register size
  at which both back-ends implement the opcode.
-/
import BMV.Proofs.Refine
import BMV.Proofs.RefinePipe
namespace BMV.Props.C01
open BMV BMV.Bits BMV.Refine

/-- decoding agrees: the opcode selector `current_instruction[W-1:W-opBits]` and every operand
    part-select of the HDL read the same numbers as the simulator's `get_id(instr[a:b])` -/
theorem decode_agree (w : Bits) (W ob off wd : Nat) (hW : w.length = W) (hfit : ob + off + wd ≤ W) :
    getId (w.take ob) = Rtl.part (getId w) W 0 ob ∧
    Isa.field (w.drop ob) off wd = Rtl.part (getId w) W (ob + off) wd :=
  ⟨opcode_eq_part w W ob hW (by omega), field_eq_part w W ob off wd hW hfit⟩

/-- one instruction: hardware clock and simulator step preserve the relation
    (pc, register file, output-port values) -/
theorem rtl_refines_isa (a : Arch) (prog : List Bits) (s s' : VmState) (h : RtlState) (p : PortsIn)
    (w : Bits) (op : String) (H : StepHyp a prog s h p w op s') :
    Rel s' (Rtl.cycle a prog h p) :=
  refine_lockstep H

/-- the environment drives the input ports and the handshake lines before each step -/
def setEnv (s : VmState) (p : PortsIn) : VmState :=
  { s with inputs := p.inputs, inValid := p.inValid, outRecv := p.outRecv }

/-- a run: the stimulus at each step, and the facts that make the step comparable -/
inductive GoodRun (a : Arch) (prog : List Bits) : VmState → RtlState → List PortsIn → Prop
  | nil (s h) : GoodRun a prog s h []
  | cons (s s' h p ps w op) :
      StepHyp a prog s h p w op s' →
      s'.regs.length = 2 ^ a.r → s'.outputs.length = a.m →
      GoodRun a prog (setEnv s' (ps.headD p)) (Rtl.cycle a prog h p) ps →
      GoodRun a prog s h (p :: ps)

/-- equal traces: along every good run the two worlds are related after every retired instruction -/
theorem trace_eq (a : Arch) (prog : List Bits) (s : VmState) (h : RtlState) (ps : List PortsIn)
    (hrel : Rel s h) (hrun : GoodRun a prog s h ps) :
    ∀ k, k ≤ ps.length →
      ∃ sk hk, Rel sk hk ∧ hk = (ps.take k).foldl (fun st p => Rtl.cycle a prog st p) h := by
  induction hrun with
  | nil s h => intro k hk; simp at hk; subst hk; exact ⟨s, h, hrel, rfl⟩
  | cons s s' h p ps w op H _ _ _ ih =>
    intro k hk
    cases k with
    | zero => exact ⟨s, h, hrel, rfl⟩
    | succ k =>
      have hr0 := refine_lockstep H
      have hr : Rel (setEnv s' (ps.headD p)) (Rtl.cycle a prog h p) := ⟨hr0.1, hr0.2.1, hr0.2.2⟩
      obtain ⟨sk, hk', r1, r2⟩ := ih hr k (by simpa using hk)
      exact ⟨sk, hk', r1, by simpa using r2⟩

/-! ### the two-tick ("pipelined") opcodes addp / multp / divp

Both back-ends spend two ticks on these instructions, so the comparison stays tick by tick; the
relation gains `PipeRel` (the simulator's phase flag = the hardware's `<op>_<tag>_state` register;
in the second tick the latched `input_a` / `input_b` are the registers the instruction names). -/

/-- one tick of a pipelined opcode preserves both relations -/
theorem rtl_refines_isa_pipelined (a : Arch) (prog : List Bits) (s s' : VmState) (h : RtlState) (p : PortsIn)
    (w : Bits) (op : String) (H : PipeHyp a prog s h p w op s') :
    Rel s' (Rtl.cycle a prog h p) ∧ PipeRel a prog s' (Rtl.cycle a prog h p) :=
  refine_pipe H

/-- the one-clock opcodes leave the pipeline relation alone -/
theorem pipeline_kept_by_one_clock_opcodes (a : Arch) (prog : List Bits) (s s' : VmState) (h : RtlState)
    (p : PortsIn) (w : Bits) (op : String) (H : StepHyp a prog s h p w op s') (hp : PipeRel a prog s h) :
    PipeRel a prog s' (Rtl.cycle a prog h p) :=
  lockstep_keeps_pipe H hp

/-- it holds initially: `VM.Init` against the reset hardware -/
theorem pipeRel_init (a : Arch) (prog : List Bits) : PipeRel a prog (Isa.init a) (Rtl.reset a) := by
  refine ⟨by simp [Isa.init], fun op hop => ?_⟩
  simp only [Isa.pipeOps, List.mem_cons, List.not_mem_nil, or_false] at hop
  rcases hop with rfl | rfl | rfl <;> simp [Isa.init, Rtl.reset, RtlState.getPipe]

/-- runs over programs that mix one-clock and pipelined opcodes -/
inductive GoodRunP (a : Arch) (prog : List Bits) : VmState → RtlState → List PortsIn → Prop
  | nil (s h) : GoodRunP a prog s h []
  | lock (s s' h p ps w op) :
      StepHyp a prog s h p w op s' →
      GoodRunP a prog (setEnv s' (ps.headD p)) (Rtl.cycle a prog h p) ps →
      GoodRunP a prog s h (p :: ps)
  | pipe (s s' h p ps w op) :
      PipeHyp a prog s h p w op s' →
      GoodRunP a prog (setEnv s' (ps.headD p)) (Rtl.cycle a prog h p) ps →
      GoodRunP a prog s h (p :: ps)

/-- equal traces, tick by tick, for programs over the one-clock AND the pipelined opcodes -/
theorem trace_eq_pipelined (a : Arch) (prog : List Bits) (s : VmState) (h : RtlState) (ps : List PortsIn)
    (hrel : Rel s h) (hprel : PipeRel a prog s h) (hrun : GoodRunP a prog s h ps) :
    ∀ k, k ≤ ps.length →
      ∃ sk hk, Rel sk hk ∧ PipeRel a prog sk hk ∧ hk = (ps.take k).foldl (fun st p => Rtl.cycle a prog st p) h := by
  induction hrun with
  | nil s h => intro k hk; simp at hk; subst hk; exact ⟨s, h, hrel, hprel, rfl⟩
  | lock s s' h p ps w op H _ ih =>
    intro k hk
    cases k with
    | zero => exact ⟨s, h, hrel, hprel, rfl⟩
    | succ k =>
      have hr0 := refine_lockstep H
      have hp0 := lockstep_keeps_pipe H hprel
      have hr : Rel (setEnv s' (ps.headD p)) (Rtl.cycle a prog h p) := ⟨hr0.1, hr0.2.1, hr0.2.2⟩
      have hp : PipeRel a prog (setEnv s' (ps.headD p)) (Rtl.cycle a prog h p) := hp0
      obtain ⟨sk, hk', r1, r2, r3⟩ := ih hr hp k (by simpa using hk)
      exact ⟨sk, hk', r1, r2, by simpa using r3⟩
  | pipe s s' h p ps w op H _ ih =>
    intro k hk
    cases k with
    | zero => exact ⟨s, h, hrel, hprel, rfl⟩
    | succ k =>
      obtain ⟨hr0, hp0⟩ := refine_pipe H
      have hr : Rel (setEnv s' (ps.headD p)) (Rtl.cycle a prog h p) := ⟨hr0.1, hr0.2.1, hr0.2.2⟩
      have hp : PipeRel a prog (setEnv s' (ps.headD p)) (Rtl.cycle a prog h p) := hp0
      obtain ⟨sk, hk', r1, r2, r3⟩ := ih hr hp k (by simpa using hk)
      exact ⟨sk, hk', r1, r2, by simpa using r3⟩

/-- Enabling the hardware optimisation derived from the program never changes behaviour: with any
    register sets that contain what the assembler records for the program (`destRegs`; the
    generator keeps every arm when nothing was recorded for an opcode), the pruned processor does
    in every clock exactly what the unpruned one does, in every state whose pc is inside the
    program and for every port stimulus. -/
theorem onlyDestRegs_sound (a : Arch) (prog : List Bits) (used : String → List Nat) (s : RtlState) (p : PortsIn)
    (hused : ∀ op k, k ∈ Rtl.destRegs a prog op → k ∈ used op)
    (husedS : ∀ op k, k ∈ Rtl.srcRegs a prog op → k ∈ used (op ++ "/src"))
    (hws : a.wordSize = 0) (hlen : ∀ w ∈ prog, w.length = a.maxWord) (hpc : s.pc < prog.length) :
    Rtl.cycleOpt a used prog s p = Rtl.cycle a prog s p :=
  onlyDestRegs_sound' a prog used s p hused husedS hws hlen hpc

/-! ### non-vacuity: a concrete machine and program satisfy every hypothesis, step after step -/

def demoArch : Arch :=
  { rsize := 8, r := 1, n := 1, m := 1, l := 0, o := 2, ops := ["add", "inc", "j", "r2o", "rset"] }

/-- rset r0 5 ; inc r1 ; add r0 r1 ; j 1  -/
def demoProg : List Bits :=
  [ofString01 "100000000101", ofString01 "001100000000", ofString01 "000010000000", ofString01 "010010000000"]

example : demoArch.maxWord = 12 := by decide

/-- both models, run for six instructions, agree on pc and registers at every step -/
example :
    let run := fun (k : Nat) =>
      (List.range k).foldl (fun (st : Option VmState × RtlState) _ =>
        (st.1.bind (Isa.step demoArch demoProg), Rtl.cycle demoArch demoProg st.2 {})) 
        (some (Isa.init demoArch), Rtl.reset demoArch)
    (List.range 7).all (fun k =>
      match run k with
      | (some s, h) => s.pc == h.pc && s.regs == h.regs
      | _ => false) = true := by decide

/-- pruning is not a no-op: with a register set that misses the register the program increments,
    the optimised processor differs from the plain one (so `onlyDestRegs_sound` says something) -/
example : Rtl.cycleOpt demoArch (fun _ => []) demoProg { Rtl.reset demoArch with pc := 1 } {} ≠
    Rtl.cycle demoArch demoProg { Rtl.reset demoArch with pc := 1 } {} := by decide

example : Rtl.destRegs demoArch demoProg "inc" = [1] ∧ Rtl.destRegs demoArch demoProg "rset" = [0] := by decide

/-- the hypotheses of `rtl_refines_isa` are satisfiable: the first instruction of the demo program -/
example : ∃ s', StepHyp demoArch demoProg { Isa.init demoArch with inputs := [0] } (Rtl.reset demoArch)
    { inputs := [0] } (ofString01 "100000000101") "rset" s' := by
  refine ⟨{ Isa.init demoArch with pc := 1, regs := [5, 0], inputs := [0] }, ?_⟩
  exact {
    mode := rfl, ws := rfl, wlen := by decide, regsLen := by decide, inLen := by decide,
    outLen := by decide, rel := ⟨rfl, rfl, rfl⟩, env := rfl, fetch := by decide, decode := by decide,
    lock := by decide, width := by simp [coWidth, Isa.stdSize, demoArch], step := by decide, noFall := by decide,
    jumpIn := by decide }


/-- the pipelined opcodes, concretely: `rset r0 6; rset r1 7; multp r0 r1; j 3` — six ticks of both
    models agree on pc and registers (the multiplication takes ticks 3 and 4) -/
def demoArchP : Arch :=
  { rsize := 8, r := 1, n := 0, m := 0, l := 0, o := 2, ops := ["j", "multp", "rset"] }
def demoProgP : List Bits :=
  [ofString01 "10000000110", ofString01 "10100000111", ofString01 "01010000000", ofString01 "00110000000"]

example : demoArchP.maxWord = 11 := by decide
example :
    let run := fun (k : Nat) =>
      (List.range k).foldl (fun (st : Option VmState × RtlState) _ =>
        (st.1.bind (Isa.step demoArchP demoProgP), Rtl.cycle demoArchP demoProgP st.2 {}))
        (some (Isa.init demoArchP), Rtl.reset demoArchP)
    (List.range 7).map (fun k =>
      match run k with
      | (some s, h) => (s.pc == h.pc && s.regs == h.regs, s.regs, s.phase)
      | _ => (false, [], [])) =
    [(true, [0, 0], []), (true, [6, 0], []), (true, [6, 7], []), (true, [6, 7], ["multp"]),
     (true, [42, 7], []), (true, [42, 7], []), (true, [42, 7], [])] := by decide

/-- the premises of `rtl_refines_isa_pipelined` are satisfiable: first tick of the `multp` above -/
example : ∃ s', PipeHyp demoArchP demoProgP { Isa.init demoArchP with pc := 2, regs := [6, 7] }
    { Rtl.reset demoArchP with pc := 2, regs := [6, 7] } {} (ofString01 "01010000000") "multp" s' := by
  refine ⟨{ Isa.init demoArchP with pc := 2, regs := [6, 7], phase := ["multp"] }, ?_⟩
  exact {
    ws := rfl, wlen := by decide, rel := ⟨rfl, rfl, rfl⟩,
    prel := by
      refine ⟨by simp [Isa.init], fun op hop => ?_⟩
      simp only [Isa.pipeOps, List.mem_cons, List.not_mem_nil, or_false] at hop
      rcases hop with rfl | rfl | rfl <;> simp [Isa.init, Rtl.reset, RtlState.getPipe],
    fetch := by decide, decode := by decide, pipe := by decide, width := by decide,
    step := by decide, noFall := by decide }

end BMV.Props.C01
