/-
  BMV.Topology — executable model of the topology-editing API of
  /repo/pkg/bondmachine/bondmachine.go (Add_input, Del_input, Add_output, Del_output,
  Add_processor, Add_bond, Del_bond, Attach_benchmark_core / AttachBenchmarkCoreV2).

  Core-only (no Mathlib) so that the oracle executable links.

  Go                         model
  ------------------------   -----------------------------------------------
  Bond{Map_to,Res_id,Ext_id} Bond (kind,res,ext)          kind 0 = external input  "iK"
                                                          kind 1 = external output "oK"
                                                          kind 2 = processor input "pPiK"
                                                          kind 3 = processor output "pPoK"
  Inputs, Outputs            inputs, outputs
  Processors + Domains[].N/M procs : List (Nat × Nat)      (N, M) of each processor
  Internal_inputs            iin
  Internal_outputs           iout
  Links ([]int, -1 = none)   links : List (Option Nat)
-/
namespace BMV.Topology

structure Bond where
  kind : Nat
  res  : Nat
  ext  : Nat
deriving DecidableEq, Repr, Inhabited

structure Topo where
  inputs  : Nat := 0
  outputs : Nat := 0
  procs   : List (Nat × Nat) := []
  iin     : List Bond := []
  iout    : List Bond := []
  links   : List (Option Nat) := []
deriving DecidableEq, Repr, Inhabited

def Topo.empty : Topo := {}

/-- The edits of the API.  Endpoints of `addBond`/`attach` are bonds (Go passes their names;
    `Bond.String` is injective on well-kinded bonds, the oracle parses names back). -/
inductive Edit where
  | addInput
  | delInput (k : Nat)
  | addOutput
  | delOutput (k : Nat)
  | addProcessor (n m : Nat)
  | addBond (e0 e1 : Bond)
  | delBond (i : Nat)
  | attach (e0 e1 : Bond)        -- Attach_benchmark_core and AttachBenchmarkCoreV2 (same topology effect)
deriving DecidableEq, Repr

/-! ### individual edits -/

def addInput (t : Topo) : Topo :=
  { t with inputs := t.inputs + 1, iout := t.iout ++ [⟨0, t.inputs, 0⟩] }

/-- `Del_input` step 1: links that point at the external input `k` are cleared. -/
def clearLinksTo (iout : List Bond) (k : Nat) (links : List (Option Nat)) : List (Option Nat) :=
  links.map fun l =>
    match l with
    | none => none
    | some j =>
      match iout[j]? with
      | some b => if b.kind = 0 ∧ b.res = k then none else some j
      | none => some j

/-- `Del_input` steps 2–3: drop the bond of external input `k`, renumber the ones above. -/
def dropInput (k : Nat) (iout : List Bond) : List Bond :=
  iout.filterMap fun b =>
    if b.kind = 0 then
      if b.res = k then none
      else if b.res > k then some ⟨0, b.res - 1, 0⟩
      else some b
    else some b

/-- position of the removed bond in `Internal_outputs` (`keeppos`; Go keeps the last match). -/
def keepPos (k : Nat) : List Bond → Option Nat
  | [] => none
  | b :: bs =>
    match keepPos k bs with
    | some p => some (p + 1)
    | none => if b.kind = 0 ∧ b.res = k then some 0 else none

/-- `Del_input` step 4. -/
def shiftLinks (keep : Option Nat) (links : List (Option Nat)) : List (Option Nat) :=
  match keep with
  | none => links
  | some p => links.map fun l =>
      match l with
      | none => none
      | some j => if j > p then some (j - 1) else some j

def delInput (t : Topo) (k : Nat) : Topo :=
  if k < t.inputs then
    let links1 := clearLinksTo t.iout k t.links
    { t with
      links := shiftLinks (keepPos k t.iout) links1
      iout := dropInput k t.iout
      inputs := t.inputs - 1 }
  else t

def addOutput (t : Topo) : Topo :=
  { t with outputs := t.outputs + 1, iin := t.iin ++ [⟨1, t.outputs, 0⟩], links := t.links ++ [none] }

/-- `Del_output`: `Internal_inputs` and `Links` are rebuilt together. -/
def dropOutput (k : Nat) (ps : List (Bond × Option Nat)) : List (Bond × Option Nat) :=
  ps.filterMap fun (b, l) =>
    if b.kind = 1 then
      if b.res = k then none
      else if b.res > k then some (⟨1, b.res - 1, 0⟩, l)
      else some (b, l)
    else some (b, l)

def delOutput (t : Topo) (k : Nat) : Topo :=
  if k < t.outputs then
    let ps := dropOutput k (t.iin.zip t.links)
    { t with iin := ps.map (·.1), links := ps.map (·.2), outputs := t.outputs - 1 }
  else t

def addProcessor (t : Topo) (n m : Nat) : Topo :=
  let p := t.procs.length
  { t with
    iin := t.iin ++ (List.range n).map (fun i => ⟨2, p, i⟩)
    links := t.links ++ List.replicate n none
    iout := t.iout ++ (List.range m).map (fun i => ⟨3, p, i⟩)
    procs := t.procs ++ [(n, m)] }

/-- `Add_bond`: the first internal input named by either endpoint decides; the other endpoint is
    then looked up among the internal outputs (first match). -/
def addBond (t : Topo) (e0 e1 : Bond) : Topo :=
  match t.iin.findIdx? (fun b => b = e0 ∨ b = e1) with
  | none => t
  | some i =>
    let other := if t.iin[i]? = some e0 then e1 else e0
    match t.iout.findIdx? (fun b => b = other) with
    | none => t
    | some j => { t with links := t.links.set i (some j) }

def delBond (t : Topo) (i : Nat) : Topo :=
  if i < t.links.length then { t with links := t.links.set i none } else t

/-- `Attach_benchmark_core[V2]`: a (2,1) processor reading `e0`, `e1`, driving a new output. -/
def attach (t : Topo) (e0 e1 : Bond) : Topo :=
  if e0 ∈ t.iout ∧ e1 ∈ t.iout then
    let p := t.procs.length
    let t1 := addProcessor t 2 1
    let t2 := addBond t1 ⟨2, p, 0⟩ e0
    let t3 := addBond t2 ⟨2, p, 1⟩ e1
    let t4 := addOutput t3
    addBond t4 ⟨3, p, 0⟩ ⟨1, t4.outputs - 1, 0⟩
  else t

def apply (t : Topo) : Edit → Topo
  | .addInput => addInput t
  | .delInput k => delInput t k
  | .addOutput => addOutput t
  | .delOutput k => delOutput t k
  | .addProcessor n m => addProcessor t n m
  | .addBond a b => addBond t a b
  | .delBond i => delBond t i
  | .attach a b => attach t a b

def run (t : Topo) (es : List Edit) : Topo := es.foldl apply t

/-! ### the command line layer (cmd/bondmachine/bondmachine.go): options that take lists -/

/-- `-del-inputs a,b,…` / `-del-outputs a,b,…`: ids not below the current count are dropped,
    duplicates removed, the rest deleted highest first -/
def cliIds (count : Nat) (ks : List Nat) : List Nat :=
  let kept := ks.foldl (fun acc k => if k < count ∧ k ∉ acc then acc ++ [k] else acc) []
  (kept.mergeSort (· ≤ ·)).reverse

inductive CliEdit where
  | addInputs (n : Nat)
  | addOutputs (n : Nat)
  | delInputs (ks : List Nat)
  | delOutputs (ks : List Nat)
  | addBond (e0 e1 : Bond)
  | delBonds (is : List Nat)
  | addProcessor (n m : Nat)     -- `-add-processor <domain>`: a processor of that domain's shape
  | attach (e0 e1 : Bond)        -- `-attach-benchmark-core[-v2] a,b`
deriving Repr

/-- what one invocation of the CLI does, as a sequence of API edits -/
def expandCli (t : Topo) : CliEdit → List Edit
  | .addInputs n => List.replicate n .addInput
  | .addOutputs n => List.replicate n .addOutput
  | .delInputs ks => (cliIds t.inputs ks).map .delInput
  | .delOutputs ks => (cliIds t.outputs ks).map .delOutput
  | .addBond a b => [.addBond a b]
  | .delBonds is => (is.filter (· < t.links.length)).map .delBond
  | .addProcessor n m => [.addProcessor n m]
  | .attach a b => [.attach a b]

def applyCli (t : Topo) (e : CliEdit) : Topo := run t (expandCli t e)

/-- does the Go API report an error for this edit (the machine is then unchanged)? -/
def rejects (t : Topo) : Edit → Bool
  | .delInput k => !(k < t.inputs)
  | .delOutput k => !(k < t.outputs)
  | .delBond i => !(i < t.links.length)
  | .attach a b => !(a ∈ t.iout ∧ b ∈ t.iout)
  | _ => false

/-! ### observables -/

/-- the bonds of a machine as (driver, sink) pairs — what `List_bonds` prints. -/
def bonds (t : Topo) : List (Bond × Bond) :=
  (t.iin.zip t.links).filterMap fun (b, l) =>
    match l with
    | none => none
    | some j => match t.iout[j]? with
      | some o => some (o, b)
      | none => none

/-! ### well-formedness -/

def isIin (t : Topo) (b : Bond) : Prop :=
  (b.kind = 1 ∧ b.res < t.outputs ∧ b.ext = 0) ∨
  (b.kind = 2 ∧ ∃ nm, t.procs[b.res]? = some nm ∧ b.ext < nm.1)

def isIout (t : Topo) (b : Bond) : Prop :=
  (b.kind = 0 ∧ b.res < t.inputs ∧ b.ext = 0) ∨
  (b.kind = 3 ∧ ∃ nm, t.procs[b.res]? = some nm ∧ b.ext < nm.2)

/-- Well-formedness (the property's statement): one link slot per internal input, every link
    points at an existing internal output, and the endpoint lists are duplicate-free enumerations
    of exactly the external ports and the processors' ports. -/
structure WF (t : Topo) : Prop where
  links_len : t.links.length = t.iin.length
  links_rng : ∀ j, some j ∈ t.links → j < t.iout.length
  iin_nodup : t.iin.Nodup
  iout_nodup : t.iout.Nodup
  iin_mem : ∀ b, b ∈ t.iin ↔ isIin t b
  iout_mem : ∀ b, b ∈ t.iout ↔ isIout t b

/-- executable version used by the oracle and by the failing-input search. -/
def expectedIin (t : Topo) : List Bond :=
  (List.range t.outputs).map (fun k => ⟨1, k, 0⟩) ++
  (t.procs.zipIdx.flatMap fun (nm, p) => (List.range nm.1).map fun i => ⟨2, p, i⟩)

def expectedIout (t : Topo) : List Bond :=
  (List.range t.inputs).map (fun k => ⟨0, k, 0⟩) ++
  (t.procs.zipIdx.flatMap fun (nm, p) => (List.range nm.2).map fun i => ⟨3, p, i⟩)

def nodupB : List Bond → Bool
  | [] => true
  | b :: bs => !(bs.contains b) && nodupB bs

def wfB (t : Topo) : Bool :=
  t.links.length == t.iin.length &&
  t.links.all (fun l => match l with | none => true | some j => j < t.iout.length) &&
  nodupB t.iin && nodupB t.iout &&
  t.iin.all (fun b => (expectedIin t).contains b) && (expectedIin t).all (fun b => t.iin.contains b) &&
  t.iout.all (fun b => (expectedIout t).contains b) && (expectedIout t).all (fun b => t.iout.contains b)

/-! ### the specification of each edit on the set of bonds -/

/-- renaming of external inputs above a deleted one -/
def renIn (k : Nat) (b : Bond) : Bond :=
  if b.kind = 0 ∧ b.res > k then ⟨0, b.res - 1, 0⟩ else b

def renOut (k : Nat) (b : Bond) : Bond :=
  if b.kind = 1 ∧ b.res > k then ⟨1, b.res - 1, 0⟩ else b

/-- which sink a successful `addBond e0 e1` connects, and to which driver -/
def addBondTarget (t : Topo) (e0 e1 : Bond) : Option (Bond × Bond) :=
  match t.iin.find? (fun b => b = e0 ∨ b = e1) with
  | none => none
  | some s =>
    let other := if s = e0 then e1 else e0
    if other ∈ t.iout then some (other, s) else none

/-- The specification of an edit on the set of bonds: what `bonds (apply t e)` must be, computed
    from `bonds t` only (plus the endpoint lists for the name lookup of `addBond`). -/
def specBonds (t : Topo) : Edit → List (Bond × Bond)
  | .addInput => bonds t
  | .addOutput => bonds t
  | .addProcessor _ _ => bonds t
  | .delInput k =>
    if k < t.inputs then
      ((bonds t).filter (fun q => q.1 ≠ ⟨0, k, 0⟩)).map (fun q => (renIn k q.1, q.2))
    else bonds t
  | .delOutput k =>
    if k < t.outputs then
      ((bonds t).filter (fun q => q.2 ≠ ⟨1, k, 0⟩)).map (fun q => (q.1, renOut k q.2))
    else bonds t
  | .addBond e0 e1 =>
    match addBondTarget t e0 e1 with
    | none => bonds t
    | some (o, s) => (bonds t).filter (fun q => q.2 ≠ s) ++ [(o, s)]
  | .delBond i =>
    match t.iin[i]? with
    | some s => (bonds t).filter (fun q => q.2 ≠ s)
    | none => bonds t
  | .attach e0 e1 =>
    if e0 ∈ t.iout ∧ e1 ∈ t.iout then
      let p := t.procs.length
      bonds t ++ [(e0, ⟨2, p, 0⟩), (e1, ⟨2, p, 1⟩), (⟨3, p, 0⟩, ⟨1, t.outputs, 0⟩)]
    else bonds t

/-- set equality of bond lists, executable (used on the implementation's dumped states). -/
def sameSet (a b : List (Bond × Bond)) : Bool :=
  a.all (fun x => b.contains x) && b.all (fun x => a.contains x)

end BMV.Topology
