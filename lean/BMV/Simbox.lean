/-
  BMV.Simbox — executable model of pkg/simbox/simbox.go (rule text, rule list) and of the way the
  bondmachine simulator compiles and applies the rules (pkg/bondmachine/vm.go SimDrive.Init /
  SimReport.Init / SimConfig.Init / GetElementLocation, the tick loop of cmd/bondmachine `-sim`).

  Core only (the oracle executable links this file).  Hand written; tied to the Go code by the
  correspondence check of tools/props/c15.py.

  Part 1: rule text.   Part 2 (below, `namespace Sim`): compilation and the tick loop.
-/
namespace BMV.Simbox

/-! ## Part 1 — rules as text -/

/-- `simbox.TIMEC_*` (numeric codes 0..5 in this order) -/
inductive Timec | abs | notime | rel | onValid | onRecv | onExit
deriving DecidableEq, Repr

/-- `simbox.ACTION_*` (numeric codes 0..3 in this order) -/
inductive Action | set | get | show | config
deriving DecidableEq, Repr

def Timec.code : Timec → Nat
  | .abs => 0 | .notime => 1 | .rel => 2 | .onValid => 3 | .onRecv => 4 | .onExit => 5

def Action.code : Action → Nat
  | .set => 0 | .get => 1 | .show => 2 | .config => 3

/-- `simbox.Rule`; `tick` is a `uint64` (well-formed rules have `tick < 2^64`) -/
structure Rule where
  timec : Timec
  tick : Nat
  action : Action
  object : String
  extra : String
  suspended : Bool
deriving DecidableEq, Repr

def two63 : Nat := 9223372036854775808
def two64 : Nat := 18446744073709551616

/-! ### decimal integers as Go's `strconv.Atoi` / `strconv.Itoa` (64-bit `int`) -/

/-- non-empty, ASCII digits only (no sign, no underscore) -/
def atoiNat (cs : List Char) : Option Nat :=
  if cs ≠ [] ∧ cs.all Char.isDigit = true then some (Nat.ofDigitChars 10 cs 0) else none

/-- `strconv.Atoi`: optional sign, decimal digits, value in [-2^63, 2^63) -/
def atoi (s : String) : Option Int :=
  match s.toList with
  | '-' :: cs =>
    match atoiNat cs with
    | some n => if n ≤ two63 then some (-(n : Int)) else none
    | none => none
  | '+' :: cs =>
    match atoiNat cs with
    | some n => if n < two63 then some (n : Int) else none
    | none => none
  | cs =>
    match atoiNat cs with
    | some n => if n < two63 then some (n : Int) else none
    | none => none

/-- `strconv.Itoa` -/
def itoa (i : Int) : String :=
  if i < 0 then "-" ++ i.natAbs.repr else i.toNat.repr

/-- Go conversion `uint64(int)` -/
def tickOfInt (i : Int) : Nat := (i % (two64 : Int)).toNat

/-- Go conversion `int(uint64)` -/
def intOfTick (t : Nat) : Int := if t < two63 then (t : Int) else (t : Int) - (two64 : Int)

/-! ### words -/

/-- `strings.Split(s, ":")` -/
def splitStr (s : String) : List String := (s.toList.splitOn ':').map String.ofList

/-- `strings.Join(ws, ":")` -/
def joinStr (ws : List String) : String := ":".intercalate ws

def timedKw (w : String) : Option Timec :=
  if w = "absolute" then some .abs else if w = "relative" then some .rel else none

def eventKw (w : String) : Option Timec :=
  if w = "onvalid" then some .onValid else if w = "onrecv" then some .onRecv
  else if w = "onexit" then some .onExit else none

/-- actions allowed after `absolute:<t>:` / `relative:<p>:` in the five word form -/
def timedAction (w : String) : Option Action :=
  if w = "set" then some .set else if w = "get" then some .get
  else if w = "show" then some .show else none

/-- actions allowed in the short forms and after an event keyword -/
def reportAction (w : String) : Option Action :=
  if w = "get" then some .get else if w = "show" then some .show else none

/-- `config:<option>:<format>` options -/
def bulkOptions : List String := ["get_all", "get_all_internal", "show_all", "show_all_internal"]

/-- `config:<option>` options -/
def plainOptions : List String :=
  ["show_pc", "show_instruction", "show_disasm", "show_ticks", "get_ticks", "show_proc_regs_pre",
   "show_proc_regs_post", "show_proc_io_pre", "show_proc_io_post", "show_io_pre", "show_io_post"]

/-- the decoder of `Simbox.Add` on the words of the rule string (`none` = "rule cannot be decoded") -/
def parseRule : List String → Option Rule
  | [w0, w1, w2, w3, w4] =>
    match timedKw w0, timedAction w2, atoi w1 with
    | some tc, some a, some t => some ⟨tc, tickOfInt t, a, w3, w4, false⟩
    | _, _, _ => none
  | [w0, w1, w2, w3] =>
    match timedKw w0 with
    | some tc =>
      match reportAction w2, atoi w1 with
      | some a, some t => some ⟨tc, tickOfInt t, a, w3, "unsigned", false⟩
      | _, _ => none
    | none =>
      match eventKw w0, reportAction w1 with
      | some tc, some a => some ⟨tc, 0, a, w2, w3, false⟩
      | _, _ => none
  | [w0, w1, w2] =>
    if w0 = "config" then
      if w1 ∈ bulkOptions then some ⟨.notime, 0, .config, w1, w2, false⟩ else none
    else
      match eventKw w0, reportAction w1 with
      | some tc, some a => some ⟨tc, 0, a, w2, "unsigned", false⟩
      | _, _ => none
  | [w0, w1] =>
    if w0 = "config" ∧ w1 ∈ plainOptions then some ⟨.notime, 0, .config, w1, "", false⟩ else none
  | _ => none

/-- `Simbox.Add` on a string: the rule appended, or `none` -/
def addStr (s : String) : Option Rule := parseRule (splitStr s)

def timecKw : Timec → String
  | .abs => "absolute" | .rel => "relative" | .notime => "config"
  | .onValid => "onvalid" | .onRecv => "onrecv" | .onExit => "onexit"

def actionKw : Action → String
  | .set => "set" | .get => "get" | .show => "show" | .config => "config"

/-- the words `Rule.String` joins with ':' (`[""]` is the empty string of the fall-through) -/
def ruleWords (r : Rule) : List String :=
  match r.timec, r.action with
  | .abs, .set | .abs, .get | .abs, .show | .rel, .set | .rel, .get | .rel, .show =>
    [timecKw r.timec, itoa (intOfTick r.tick), actionKw r.action, r.object, r.extra]
  | .notime, .config =>
    if r.object ∈ bulkOptions then ["config", r.object, r.extra] else ["config", r.object]
  | .onValid, .get | .onValid, .show | .onRecv, .get | .onRecv, .show | .onExit, .get | .onExit, .show =>
    [timecKw r.timec, actionKw r.action, r.object, r.extra]
  | _, _ => [""]

/-- `Rule.String` -/
def ruleString (r : Rule) : String := joinStr (ruleWords r)

def colonFree (s : String) : Prop := ':' ∉ s.toList

instance (s : String) : Decidable (colonFree s) := by unfold colonFree; exact inferInstance

/-- A rule as `Add` produces them (proved to be *exactly* the image of `Add`:
    `add_image_wf` and `wf_in_image`). -/
structure RuleWF (r : Rule) : Prop where
  obj : colonFree r.object
  ext : colonFree r.extra
  active : r.suspended = false
  shape :
    ((r.timec = .abs ∨ r.timec = .rel) ∧ (r.action = .set ∨ r.action = .get ∨ r.action = .show)
        ∧ r.tick < two64)
    ∨ ((r.timec = .onValid ∨ r.timec = .onRecv ∨ r.timec = .onExit)
        ∧ (r.action = .get ∨ r.action = .show) ∧ r.tick = 0)
    ∨ (r.timec = .notime ∧ r.action = .config ∧ r.tick = 0
        ∧ (r.object ∈ bulkOptions ∨ (r.object ∈ plainOptions ∧ r.extra = "")))

/-! ### the rule list -/

abbrev Box := List Rule

/-- `Simbox.Add`: `none` = error, list unchanged -/
def add (b : Box) (s : String) : Option Box := (addStr s).map fun r => b ++ [r]

/-- `Simbox.Del` (index ≥ 0) -/
def del (b : Box) (i : Nat) : Option Box := if i < b.length then some (b.eraseIdx i) else none

def setSusp (v : Bool) (r : Rule) : Rule := { r with suspended := v }

/-- `Simbox.Suspend` -/
def suspend (b : Box) (i : Nat) : Option Box :=
  if i < b.length then some (b.modify i (setSusp true)) else none

/-- `Simbox.Reactivate` -/
def reactivate (b : Box) (i : Nat) : Option Box :=
  if i < b.length then some (b.modify i (setSusp false)) else none

/-- `fmt.Sprintf("%03d", i)` -/
def pad3 (i : Nat) : String :=
  let s := i.repr
  String.ofList (List.replicate (3 - s.length) '0') ++ s

def printLine (i : Nat) (r : Rule) : String :=
  pad3 i ++ " - " ++ ruleString r ++ (if r.suspended then " [SUSPENDED]" else "") ++ "\n"

def printFrom (i : Nat) : Box → String
  | [] => ""
  | r :: rs => printLine i r ++ printFrom (i + 1) rs

/-- `Simbox.Print` -/
def printBox (b : Box) : String := printFrom 0 b

/-- an edit of the rule list, as `cmd/simbox` offers them -/
inductive Edit
  | add (s : String) | del (i : Nat) | suspend (i : Nat) | reactivate (i : Nat)
deriving Repr

/-- apply an edit; a rejected edit leaves the list as it was -/
def applyEdit (b : Box) : Edit → Box
  | .add s => (add b s).getD b
  | .del i => (del b i).getD b
  | .suspend i => (suspend b i).getD b
  | .reactivate i => (reactivate b i).getD b

def rejects (b : Box) : Edit → Bool
  | .add s => (add b s).isNone
  | .del i => (del b i).isNone
  | .suspend i => (suspend b i).isNone
  | .reactivate i => (reactivate b i).isNone

def runEdits (b : Box) (es : List Edit) : Box := es.foldl applyEdit b

/-- rebuild a list from its printed rules: add every rule's text, then re-suspend the suspended
    ones (what a user does to re-create a rule file from a listing) -/
def rebuildStep (acc : Option Box) (r : Rule) : Option Box :=
  match acc with
  | none => none
  | some a =>
    match add a (ruleString r) with
    | none => none
    | some a' => if r.suspended then suspend a' a.length else some a'

def rebuild (b : Box) : Option Box := b.foldl rebuildStep (some [])

end BMV.Simbox

/-! ## Part 2 — compiling the rules against a machine and applying them tick by tick

  Models (pkg/bondmachine/vm.go) `GetElementLocation`, `SimConfig.Init`, `SimDrive.Init`,
  `SimReport.Init`, (simreport.go) `EventListShow` and the tick loop of `cmd/bondmachine -sim`.
  The machine step itself (`VM.Step`) is a *parameter* `step : Vm → Vm` of the loop: every theorem
  about rule application holds for every machine.  `fabricStep` is the concrete step of machines
  whose processors are inert (empty program): the data/valid/recv movement of `VM.Step`.
-/
namespace BMV.Simbox.Sim
open BMV.Simbox

/-- what `GetElementLocation` needs to know about the machine -/
structure Shape where
  rsize : Nat
  nIn : Nat
  nOut : Nat
  procs : List (Nat × Nat × Nat)   -- per processor: inputs, outputs, registers
deriving Repr

/-- an element of the VM a rule can name, plus the internal cells of the bond fabric -/
inductive Loc
  | inReg (k : Nat) | inValid (k : Nat) | inRecv (k : Nat)
  | outReg (k : Nat) | outValid (k : Nat) | outRecv (k : Nat)
  | procIn (p k : Nat) | procOut (p k : Nat) | procReg (p k : Nat)
  | fab (kind idx : Nat)      -- internal (not nameable) cells, see `fabricStep`
deriving DecidableEq, Repr

/-- valid/recv flags: `GetElementLocation` hands out a pointer to a *fresh* `any` holding the
    `*bool`, so they never compare equal and a write through them does not reach the flag -/
def Loc.isFlag : Loc → Bool
  | .inValid _ | .inRecv _ | .outValid _ | .outRecv _ => true
  | _ => false

def digitsVal (ds : List Char) : Option Nat :=
  if ds = [] then none else some (Nat.ofDigitChars 10 ds 0)

/-- `GetElementLocation`: the grammar `i<k>[v|r]`, `o<k>[v|r]`, `p<p>(i|o|r)<k>` with range checks -/
def resolve (sh : Shape) (name : String) : Option Loc :=
  match name.toList with
  | 'i' :: rest =>
    let (ds, tl) := rest.span Char.isDigit
    match digitsVal ds, tl with
    | some k, [] => if k < sh.nIn then some (.inReg k) else none
    | some k, ['v'] => if k < sh.nIn then some (.inValid k) else none
    | some k, ['r'] => if k < sh.nIn then some (.inRecv k) else none
    | _, _ => none
  | 'o' :: rest =>
    let (ds, tl) := rest.span Char.isDigit
    match digitsVal ds, tl with
    | some k, [] => if k < sh.nOut then some (.outReg k) else none
    | some k, ['v'] => if k < sh.nOut then some (.outValid k) else none
    | some k, ['r'] => if k < sh.nOut then some (.outRecv k) else none
    | _, _ => none
  | 'p' :: rest =>
    let (ds, tl) := rest.span Char.isDigit
    match digitsVal ds, tl with
    | some p, c :: rest2 =>
      let (ds2, tl2) := rest2.span Char.isDigit
      match digitsVal ds2, tl2, sh.procs[p]? with
      | some k, [], some (ni, no, nr) =>
        if c = 'i' then (if k < ni then some (.procIn p k) else none)
        else if c = 'o' then (if k < no then some (.procOut p k) else none)
        else if c = 'r' then (if k < nr then some (.procReg p k) else none)
        else none
      | _, _, _ => none
    | _, _ => none
  | _ => none

/-- bits of the Go unsigned type that holds a register: `uint8/16/32/64` by `Rsize` -/
def wbits (rsize : Nat) : Option Nat :=
  if rsize ≤ 8 then some 8 else if rsize ≤ 16 then some 16
  else if rsize ≤ 32 then some 32 else if rsize ≤ 64 then some 64 else none

/-- `ImportNumber` restricted to plain decimal literals below 2^64 (other literal syntaxes belong
    to bmnumbers — property C08 — and are not generated) -/
def importNumber (s : String) : Option Nat :=
  match atoiNat s.toList with
  | some n => if n < two64 then some n else none
  | none => none

/-! ### the VM as a store of cells -/

abbrev Vm := List (Loc × Nat)

def read (vm : Vm) (l : Loc) : Option Nat :=
  match vm with
  | [] => none
  | (l', v) :: rest => if l' = l then some v else read rest l

def write (vm : Vm) (l : Loc) (v : Nat) : Vm :=
  vm.map fun c => if c.1 = l then (l, v) else c

def readD (vm : Vm) (l : Loc) : Nat := (read vm l).getD 0

/-- a write made by a set rule: data cells take the value, writing an input register also raises
    its valid flag (`NeedValid`), a write "to" a flag is lost -/
def ruleWrite (vm : Vm) (l : Loc) (v : Nat) : Vm :=
  if l.isFlag then vm
  else match l with
    | .inReg k => write (write vm l v) (.inValid k) 1
    | _ => write vm l v

/-- one compiled set rule -/
structure SetAct where
  periodic : Bool
  tick : Nat        -- tick or period
  loc : Loc
  val : Nat
deriving Repr, DecidableEq

def SetAct.fires (a : SetAct) (t : Nat) : Bool :=
  if a.periodic then a.tick != 0 && t % a.tick == 0 else a.tick == t

/-- `SimDrive.Init`: suspended rules skipped; an unresolvable object, an unreadable number or an
    unsupported register size is an error -/
def compileSets (sh : Shape) : Box → Except String (List SetAct)
  | [] => .ok []
  | r :: rs =>
    if r.suspended then compileSets sh rs
    else if r.action = .set ∧ (r.timec = .abs ∨ r.timec = .rel) then
      match resolve sh r.object, importNumber r.extra, wbits sh.rsize with
      | some l, some n, some w =>
        match compileSets sh rs with
        | .ok acts => .ok (⟨r.timec = .rel, r.tick, l, n % 2 ^ w⟩ :: acts)
        | .error e => .error e
      | none, _, _ => .error "unknown mnemonic"
      | _, none, _ => .error "number"
      | _, _, none => .error "rsize"
    else compileSets sh rs

/-- insertion sort by period, stable: rules of equal period stay in rule order, so the later one
    wins as in the per-period map (the fixed loop walks the periods in increasing order) -/
def insertByTick (a : SetAct) : List SetAct → List SetAct
  | [] => [a]
  | b :: bs => if a.tick ≤ b.tick then a :: b :: bs else b :: insertByTick a bs

def sortByTick : List SetAct → List SetAct
  | [] => []
  | a :: as => insertByTick a (sortByTick as)

/-- the set actions applied at tick `t`, in the order in which they are applied: the absolute
    ones in rule order, then the periodic ones by increasing period (rule order within a period) -/
def firing (acts : List SetAct) (t : Nat) : List SetAct :=
  acts.filter (fun a => !a.periodic && a.fires t)
    ++ sortByTick (acts.filter (fun a => a.periodic && a.fires t))

def applyActs (vm : Vm) (as : List SetAct) : Vm :=
  as.foldl (fun vm a => ruleWrite vm a.loc a.val) vm

/-- "Manage the valid/recv states of the inputs": a received input is no longer valid -/
def clearValid (nIn : Nat) (vm : Vm) : Vm :=
  (List.range nIn).foldl (fun vm k => if readD vm (.inRecv k) = 1 then write vm (.inValid k) 0 else vm) vm

/-- "Manage the valid/recv states of the outputs": recv := valid -/
def ackOutputs (nOut : Nat) (vm : Vm) : Vm :=
  (List.range nOut).foldl (fun vm k => write vm (.outRecv k) (readD vm (.outValid k))) vm

/-- the state `VM.Step` is called on at tick `t` -/
def injected (sh : Shape) (acts : List SetAct) (t : Nat) (vm : Vm) : Vm :=
  applyActs (clearValid sh.nIn vm) (firing acts t)

/-! ### reporting -/

/-- when a show/get rule fires -/
inductive When
  | at (t : Nat) | every (p : Nat) | onValid (flag : Loc) | onExit
deriving Repr, DecidableEq

/-- a compiled show (or get) rule: slot in `Showables` (`Reportables`) and trigger -/
structure Watch where
  slot : Nat
  trigger : When
deriving Repr, DecidableEq

/-- one entry of `Showables` / `Reportables` (+ `…Types`, `…Names`) -/
structure Slot where
  loc : Loc
  ty : String
  name : String
deriving Repr, DecidableEq

structure Report where
  slots : List Slot := []
  watches : List Watch := []
deriving Repr

/-- pointer comparison `iloc == loc`: flags are never found again -/
def slotOf (slots : List Slot) (l : Loc) : Option Nat :=
  if l.isFlag then none else slots.findIdx? (fun s => s.loc = l)

def typeOf (extra : String) : String := if extra = "" then "unsigned" else extra

/-- find or append the slot of `l` (the first rule that mentions an element fixes type and name) -/
def addSlot (rp : Report) (l : Loc) (extra name : String) : Report × Nat :=
  match slotOf rp.slots l with
  | some i => (rp, i)
  | none => ({ rp with slots := rp.slots ++ [⟨l, typeOf extra, name⟩] }, rp.slots.length)

def validFlagOf (sh : Shape) (obj : String) : Option Loc := resolve sh (obj ++ "v")

/-- the registers listed by `config:{get,show}_all_internal` -/
def allRegs (sh : Shape) : List String :=
  (List.range sh.procs.length).flatMap fun p =>
    match sh.procs[p]? with
    | some (_, _, nr) => (List.range nr).map fun j => "p" ++ p.repr ++ "r" ++ j.repr
    | none => []

def addObjects (sh : Shape) (rp : Report) (objs : List String) (extra : String) : Report :=
  objs.foldl (fun rp o =>
    match resolve sh o with
    | some l => (addSlot rp l extra o).1
    | none => rp) rp

def addWatch (rp : Report) (l : Loc) (extra name : String) (w : When) : Report :=
  let (rp', i) := addSlot rp l extra name
  { rp' with watches := rp'.watches ++ [⟨i, w⟩] }

/-- `SimReport.Init` for one of the two families (`act` = `.show` builds Showables/…Show,
    `.get` builds Reportables/…Get).  `bondNames` = names of Internal_inputs ++ Internal_outputs. -/
def compileReport (sh : Shape) (bondNames : List String) (act : Action) :
    Box → Report → Except String Report
  | [], rp => .ok rp
  | r :: rs, rp =>
    if r.suspended then compileReport sh bondNames act rs rp
    else if r.timec = .notime ∧ r.action = .config then
      let all := if act = .show then "show_all" else "get_all"
      let allInt := if act = .show then "show_all_internal" else "get_all_internal"
      if r.object = all then compileReport sh bondNames act rs (addObjects sh rp bondNames r.extra)
      else if r.object = allInt then
        compileReport sh bondNames act rs (addObjects sh rp (bondNames ++ allRegs sh) r.extra)
      else compileReport sh bondNames act rs rp
    else if r.action = act then
      match r.timec with
      | .abs | .rel =>
        match resolve sh r.object with
        | none => .error "unknown mnemonic"
        | some l =>
          if act = .get ∧ wbits sh.rsize = none then .error "rsize"
          else compileReport sh bondNames act rs
            (addWatch rp l r.extra r.object (if r.timec = .abs then .at r.tick else .every r.tick))
      | .onValid =>
        match resolve sh r.object with
        | none => compileReport sh bondNames act rs rp
        | some l =>
          match validFlagOf sh r.object with
          | some f => compileReport sh bondNames act rs (addWatch rp l r.extra r.object (.onValid f))
          | none => compileReport sh bondNames act rs (addSlot rp l r.extra r.object).1
      | .onExit =>
        match resolve sh r.object with
        | none => compileReport sh bondNames act rs rp
        | some l => compileReport sh bondNames act rs (addWatch rp l r.extra r.object .onExit)
      | _ => compileReport sh bondNames act rs rp
    else compileReport sh bondNames act rs rp

/-- `SimConfig.Init` -/
structure Conf where
  showTicks : Bool := false
  showIoPre : Bool := false
  showIoPost : Bool := false
  getTicks : Bool := false
  getAll : Bool := false
  getAllInternal : Bool := false
deriving Repr, DecidableEq

def compileConf : Box → Conf → Conf
  | [], c => c
  | r :: rs, c =>
    if r.suspended then compileConf rs c
    else if r.timec = .notime ∧ r.action = .config then
      compileConf rs
        (if r.object = "show_ticks" then { c with showTicks := true }
         else if r.object = "show_io_pre" then { c with showIoPre := true }
         else if r.object = "show_io_post" then { c with showIoPost := true }
         else if r.object = "get_ticks" then { c with getTicks := true }
         else if r.object = "get_all" then { c with getAll := true }
         else if r.object = "get_all_internal" then { c with getAllInternal := true }
         else c)
    else compileConf rs c

/-- does the watch fire at tick `t`?  `old`/`new` = VM copies after the previous / this iteration,
    `shutdown` = the loop is in its final (stop-on-valid) iteration; `events` = events are looked
    at (they are for show, they are not for get: "TODO get from events") -/
def Watch.fires (w : Watch) (t : Nat) (old new : Vm) (shutdown events : Bool) : Bool :=
  match w.trigger with
  | .at t' => t' == t
  | .every p => p != 0 && t % p == 0
  | .onValid f => events && readD new f == 1 && readD old f != 1
  | .onExit => events && shutdown

/-- slot indices to print at tick `t`: increasing, without duplicates -/
def firedSlots (rp : Report) (t : Nat) (old new : Vm) (shutdown events : Bool) : List Nat :=
  (List.range rp.slots.length).filter fun i =>
    rp.watches.any fun w => w.slot == i && w.fires t old new shutdown events

/-- a period-0 watch makes the loop's `i % j` panic in its first iteration -/
def hasZeroPeriod (rp : Report) : Bool := rp.watches.any fun w => w.trigger == .every 0

/-- (slot, type, value) for the given slots, up to the first flag slot (printing a flag aborts the
    run: "unknown uint type"); the Bool says whether a flag was hit -/
def slotValues (rp : Report) (vm : Vm) : List Nat → List (Nat × String × Nat) × Bool
  | [] => ([], false)
  | i :: is =>
    match rp.slots[i]? with
    | some s =>
      if s.loc.isFlag then ([], true)
      else
        let (vs, bad) := slotValues rp vm is
        ((i, s.ty, readD vm s.loc) :: vs, bad)
    | none => slotValues rp vm is

/-! ### the loop -/

structure Compiled where
  sh : Shape
  acts : List SetAct
  shows : Report
  gets : Report
  conf : Conf
deriving Repr

def compile (sh : Shape) (bondNames : List String) (b : Box) : Except String Compiled :=
  match compileSets sh b, compileReport sh bondNames .show b {}, compileReport sh bondNames .get b {} with
  | .ok a, .ok s, .ok g => .ok ⟨sh, a, s, g, compileConf b {}⟩
  | .error e, _, _ => .error e
  | _, .error e, _ => .error e
  | _, _, .error e => .error e

/-- what one iteration of the loop lets an observer see -/
structure TickRec where
  tick : Nat
  shutdown : Bool
  pre : Vm                                -- the VM `Step` was called on (after injection)
  stepped : Vm                            -- the VM `Step` returned
  post : Vm                               -- ... after the output handshake (what is shown/reported)
  shown : List (Nat × String × Nat)       -- (slot, type, value) printed by show rules
  reported : Option (List (Nat × String × Nat))   -- CSV row (if a row is written)
  fatal : Nat                             -- 0 no; 1 run aborted while showing; 2 while reporting
deriving Repr

structure LoopSt where
  vm : Vm
  old : Vm
  done : Bool := false
  trace : List TickRec := []

/-- rows of the report file: all slots under get_all[_internal]; timed gets otherwise; a row is
    written when something is reported or `get_ticks` is on -/
def reportRow (c : Compiled) (t : Nat) (vm : Vm) : Option (List (Nat × String × Nat)) × Bool :=
  if !(c.conf.getAll || c.conf.getAllInternal) && hasZeroPeriod c.gets then (none, true)
  else
    let idxs :=
      if c.conf.getAll || c.conf.getAllInternal then List.range c.gets.slots.length
      else firedSlots c.gets t [] vm false false
    let (vals, bad) := slotValues c.gets vm idxs
    if bad then (none, true)
    else if c.conf.getTicks || !vals.isEmpty then (some vals, false) else (none, false)

/-- `-sim-stop-on-valid-of k`: the loop enters its last iteration when output `k` is valid -/
def isShutdown (stopOn : Option Nat) (vm : Vm) : Bool :=
  match stopOn with
  | some k => readD vm (.outValid k) == 1
  | none => false

/-- one iteration of the loop of `cmd/bondmachine -sim` (`report` = `-sim-report` given) -/
def iteration (step : Vm → Vm) (c : Compiled) (stopOn : Option Nat) (report : Bool)
    (s : LoopSt) (t : Nat) : LoopSt :=
  if s.done then s
  else
    let shutdown := isShutdown stopOn s.vm
    let pre := if shutdown then s.vm else injected c.sh c.acts t s.vm
    let stepped := if shutdown then s.vm else step pre
    let post := if shutdown then s.vm else ackOutputs c.sh.nOut stepped
    if hasZeroPeriod c.shows then
      { s with done := true, trace := s.trace ++ [⟨t, shutdown, pre, stepped, post, [], none, 1⟩] }
    else
      let (shown, badS) := slotValues c.shows post (firedSlots c.shows t s.old post shutdown true)
      if badS then
        { s with done := true, trace := s.trace ++ [⟨t, shutdown, pre, stepped, post, shown, none, 1⟩] }
      else
        let (row, badR) := if report then reportRow c t post else (none, false)
        { vm := post, old := if shutdown then s.old else post, done := shutdown || badR,
          trace := s.trace ++ [⟨t, shutdown, pre, stepped, post, shown, row, if badR then 2 else 0⟩] }

/-- the whole simulation: `ticks` iterations from `vm0` (the "old" copy starts equal to `vm0`) -/
def simLoop (step : Vm → Vm) (c : Compiled) (stopOn : Option Nat) (report : Bool) (ticks : Nat)
    (vm0 : Vm) : List TickRec :=
  ((List.range ticks).foldl (iteration step c stopOn report) { vm := vm0, old := vm0 }).trace

/-! ### the machines of the correspondence check: bond fabric around inert processors

  `VM.Step` restricted to processors that do nothing (program = one `nop`): they never raise a
  valid or a recv, their outputs and registers change only when a rule writes them. -/

/-- an end point of the fabric: `Bond{Map_to, Res_id, Ext_id}` (0 BM input, 1 BM output,
    2 processor input, 3 processor output) -/
structure End where
  mapTo : Nat
  res : Nat
  ext : Nat
deriving Repr, DecidableEq

structure Topo where
  iin : List End            -- Internal_inputs
  iout : List End           -- Internal_outputs
  links : List (Option Nat) -- Links[i] = j : internal input i is fed by internal output j
deriving Repr

def ioReg (j : Nat) : Loc := .fab 0 j
def ioValid (j : Nat) : Loc := .fab 1 j
def ioRecv (j : Nat) : Loc := .fab 2 j
def iiReg (i : Nat) : Loc := .fab 3 i
def iiValid (i : Nat) : Loc := .fab 4 i
def iiRecv (i : Nat) : Loc := .fab 5 i

def enum {α} (l : List α) : List (Nat × α) := (List.range l.length).zip l

def copyCell (vm : Vm) (dst src : Loc) : Vm := write vm dst (readD vm src)

/-- "Set the internal output data received signals": AND over the inputs fed by output `j` -/
def recvAnd (t : Topo) (vm : Vm) : Vm :=
  (List.range t.iout.length).foldl (fun vm j =>
    let fed := (enum t.links).filter fun (_, l) => l == some j
    let v := if fed.isEmpty then 0 else if fed.all (fun (i, _) => readD vm (iiRecv i) == 1) then 1 else 0
    write vm (ioRecv j) v) vm

def moveLinks (t : Topo) (vm : Vm) : Vm :=
  (enum t.links).foldl (fun vm (i, l) =>
    match l with
    | some j => copyCell (copyCell vm (iiReg i) (ioReg j)) (iiValid i) (ioValid j)
    | none => vm) vm

def fabricStep (t : Topo) (vm : Vm) : Vm :=
  -- pre-compute data movement
  let vm := (enum t.iout).foldl (fun vm (j, b) =>
    if b.mapTo = 0 then copyCell (copyCell vm (ioReg j) (.inReg b.res)) (ioValid j) (.inValid b.res) else vm) vm
  let vm := moveLinks t vm
  let vm := (enum t.iin).foldl (fun vm (i, b) =>
    if b.mapTo = 2 then copyCell vm (.procIn b.res b.ext) (iiReg i) else vm) vm
  let vm := (enum t.iin).foldl (fun vm (i, b) =>
    if b.mapTo = 1 then copyCell vm (iiRecv i) (.outRecv b.res) else vm) vm
  let vm := recvAnd t vm
  -- (inert processors)
  -- post-compute data movement
  let vm := (enum t.iout).foldl (fun vm (j, b) =>
    if b.mapTo = 3 then write (copyCell vm (ioReg j) (.procOut b.res b.ext)) (ioValid j) 0 else vm) vm
  let vm := moveLinks t vm
  let vm := (enum t.iin).foldl (fun vm (i, b) =>
    if b.mapTo = 1 then copyCell (copyCell vm (.outReg b.res) (iiReg i)) (.outValid b.res) (iiValid i) else vm) vm
  let vm := (enum t.iin).foldl (fun vm (i, b) =>
    if b.mapTo = 2 then write vm (iiRecv i) 0 else vm) vm
  let vm := recvAnd t vm
  (enum t.iout).foldl (fun vm (j, b) =>
    if b.mapTo = 0 then copyCell vm (.inRecv b.res) (ioRecv j) else vm) vm

/-- all cells of a machine, zeroed (`VM.Init`) -/
def initVm (sh : Shape) (t : Topo) : Vm :=
  let io := (List.range sh.nIn).flatMap (fun k => [(Loc.inReg k, 0), (.inValid k, 0), (.inRecv k, 0)])
    ++ (List.range sh.nOut).flatMap (fun k => [(Loc.outReg k, 0), (.outValid k, 0), (.outRecv k, 0)])
  let ps := (enum sh.procs).flatMap fun (p, (ni, no, nr)) =>
    (List.range ni).map (fun k => (Loc.procIn p k, 0)) ++ (List.range no).map (fun k => (Loc.procOut p k, 0))
      ++ (List.range nr).map (fun k => (Loc.procReg p k, 0))
  let fo := (List.range t.iout.length).flatMap fun j => [(ioReg j, 0), (ioValid j, 0), (ioRecv j, 0)]
  let fi := (List.range t.iin.length).flatMap fun i => [(iiReg i, 0), (iiValid i, 0), (iiRecv i, 0)]
  io ++ ps ++ fo ++ fi

end BMV.Simbox.Sim
