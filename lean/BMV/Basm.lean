/-
  BMV.Basm — the BASM subset of property C05: abstract syntax, the model assembler
  `Basm.assemble : Source → Except Err BM` (a hand-written model of the pass pipeline of
  /repo/pkg/basm for this subset) and the reference interpreter `Basm.refStep / refRun` (direct
  interpretation of the source text).  Core-only.

  Subset: `%section <name> .romtext [iomode:async|sync]` … `%endsection` with labels (each on its
  own line, several allowed before one instruction), exactly one `entry <label>` directive,
  instructions  nop/noop, rset, mov, cpy, inc, dec, clr, add, j/jmp, jz, i2r, i2rw, r2o, r2owa
  with decimal literals; `%meta bmdef global registersize:N[, iomode:…]`, `%meta cpdef <cp>
  romcode:<section>`, `%meta ioatt <name> cp:<cp|bm>, type:<input|output>, index:K` pairs.

  Pass pipeline modelled (cmd/basm/main.go → RunAssembler → Assembler2BondMachine):
    symbolTagger (duplicate labels)            dupCheck
    entryPoints (entry line removed; the `entry` meta it records is read by nobody)   removeEntry
    metadataInfer + matcherResolver (operand typing, HLAssemblerMatch patterns,
      HLAssemblerNormalize rewriting, requirement sets)                             matchLine, reqs
    symbolTagger / symbolResolver (label table after the removal, operand rewriting)  labelTable, resolve
    templateResolver (processors sorted by name)                                     sortCps / Source.procs
    memComposer (cpdef romcode must name a section)                                  findSection
    CreateConnectingProcessor (opcode set sorted, R, N, M, O)                          mkArch
    Arch.Assembler per line                                                          Encode.asm
    Add_processor / Add_input / Add_output / Add_bond from the ioatt pairs           mkTopo
-/
import BMV.WfBM
namespace BMV.Basm
open BMV BMV.Bits

inductive IoMode where
  | async | sync
deriving DecidableEq, Repr, Inhabited

inductive Arg where
  | reg (k : Nat)
  | inp (k : Nat)
  | out (k : Nat)
  | num (n : Nat)
  | sym (s : String)      -- an identifier that is none of the above
  | romSym (s : String)   -- `rom:<name>`: the address of a ROM data variable   (outside the modelled subset:
  | romReg (k : Nat)      -- `rom:[rK]`: the ROM cell register K points to        no `matchLine` alternative takes them)
deriving DecidableEq, Repr, Inhabited

structure Line where
  labels : List String := []
  op : String
  args : List Arg := []
  iomode : Option IoMode := none   -- line-level metadata (`lbl: iomode:sync` / `: iomode:sync` in front of the line)
deriving DecidableEq, Repr, Inhabited

/-- the iomode that decides the `mov` forms of a line: the line's own, else the one in force around
    it (section, else global) — `metadataInfer`'s line → section → global precedence -/
def lineMode (mode : Option IoMode) (l : Line) : Option IoMode :=
  match l.iomode with
  | some m => some m
  | none => mode

structure Section where
  name : String
  iomode : Option IoMode := none
  lines : List Line            -- instructions and the `entry` directive, in source order
deriving DecidableEq, Repr, Inhabited

structure CpDef where
  name : String
  romcode : String
deriving DecidableEq, Repr, Inhabited

structure IoAtt where
  name : String
  cp : String                  -- "bm" = the machine's external port
  isInput : Bool
  index : Nat
deriving DecidableEq, Repr, Inhabited

/-- a `.romdata` section: variables with a repeat count (`N:db`, 1 for plain `db`) and byte values -/
structure DataVar where
  name : String
  rep : Nat
  vals : List Nat
deriving DecidableEq, Repr, Inhabited

structure DataSec where
  name : String
  vars : List DataVar
deriving DecidableEq, Repr, Inhabited

structure Source where
  rsize : Option Nat := none   -- `registersize`
  iomode : Option IoMode := none
  sections : List Section := []
  cps : List CpDef := []
  ioatts : List IoAtt := []
  datas : List DataSec := []              -- outside the modelled subset (the model assembler ignores them;
  cpData : List (String × String) := []   --   cp name ↦ romdata section)   the oracle only interprets them)
deriving DecidableEq, Repr, Inhabited

inductive Err where
  | dupsymbol | entry | nomatch | notfound | rsize | noregs | asm
deriving DecidableEq, Repr, Inhabited

/-! ### per-section passes -/

def isEntry (l : Line) : Bool := l.op == "entry"

def allLabels (ls : List Line) : List String := ls.flatMap (·.labels)

def hasDup : List String → Bool
  | [] => false
  | x :: xs => xs.contains x || hasDup xs

/-- `entryPoints` on the unchanged tree: exactly one `entry` directive with one operand naming a
    label of the section (a label attached to the directive line itself counts); the line is
    removed — together with the labels attached to it.  Nothing else happens: execution will start
    at ROM address 0 whatever the label says. -/
def removeEntry (ls : List Line) : Except Err (List Line) :=
  match ls.filter isEntry with
  | [e] =>
    match e.args with
    | [.sym s] => if (allLabels ls).contains s then .ok (ls.filter (fun l => !isEntry l)) else .error .entry
    | _ => .error .entry
  | _ => .error .entry

/-- drop the directive; labels attached to it move to the instruction that follows
    (`none`: there is no such instruction) -/
def dropEntry : List Line → Option (List Line)
  | [] => some []
  | l :: rest =>
    if isEntry l then
      if l.labels.isEmpty then some rest
      else match rest with
        | n :: rest' => some ({ n with labels := n.labels ++ l.labels } :: rest')
        | [] => none
    else (dropEntry rest).map (l :: ·)

/-- `entryPoints` with the proposed repair (repo_patches/C05-entry.diff): the directive's own labels
    are kept (moved to the next instruction), and when the entry label is not on the first
    instruction a `j <label>` is placed at address 0. -/
def removeEntryFix (ls : List Line) : Except Err (List Line) :=
  match ls.filter isEntry with
  | [e] =>
    match e.args with
    | [.sym s] =>
      if !(allLabels ls).contains s then .error .entry else
      match dropEntry ls with
      | none => .error .entry
      | some ls' =>
        match ls'.findIdx? (fun l => l.labels.contains s) with
        | some 0 => .ok ls'
        | some _ => .ok ({ op := "j", args := [.sym s] } :: ls')
        | none => .error .entry
    | _ => .error .entry
  | _ => .error .entry

/-- the real instruction a source line becomes: the single matching `HLAssemblerMatch` pattern
    and its `HLAssemblerNormalize` (operands of the `mov` forms re-ordered to the real opcode's
    order).  `none` = "no operator match". -/
def matchLine (mode : Option IoMode) (l : Line) : Option (String × List Arg) :=
  match l.op, l.args with
  | "nop", [] => some ("nop", [])
  | "noop", [] => some ("nop", [])
  | "rset", [.reg k, .num n] => some ("rset", [.reg k, .num n])
  | "mov", [.reg k, .num n] => some ("rset", [.reg k, .num n])
  | "cpy", [.reg d, .reg s] => some ("cpy", [.reg d, .reg s])
  | "mov", [.reg d, .reg s] => some ("cpy", [.reg d, .reg s])
  | "inc", [.reg k] => some ("inc", [.reg k])
  | "dec", [.reg k] => some ("dec", [.reg k])
  | "clr", [.reg k] => some ("clr", [.reg k])
  | "add", [.reg d, .reg s] => some ("add", [.reg d, .reg s])
  | "mult", [.reg d, .reg s] => some ("mult", [.reg d, .reg s])
  | "div", [.reg d, .reg s] => some ("div", [.reg d, .reg s])
  | "j", [.num n] => some ("j", [.num n])
  | "j", [.sym s] => some ("j", [.sym s])
  | "jmp", [.num n] => some ("j", [.num n])
  | "jmp", [.sym s] => some ("j", [.sym s])
  | "jz", [.reg k, .num n] => some ("jz", [.reg k, .num n])
  | "jz", [.reg k, .sym s] => some ("jz", [.reg k, .sym s])
  | "i2r", [.reg k, .inp i] => some ("i2r", [.reg k, .inp i])
  | "i2rw", [.reg k, .inp i] => some ("i2rw", [.reg k, .inp i])
  | "r2o", [.reg k, .out o] => some ("r2o", [.reg k, .out o])
  | "r2owa", [.reg k, .out o] => some ("r2owa", [.reg k, .out o])
  | "mov", [.reg k, .inp i] =>
    match lineMode mode l with
    | some .async => some ("i2r", [.reg k, .inp i])
    | some .sync => some ("i2rw", [.reg k, .inp i])
    | none => none
  | "mov", [.out o, .reg k] =>
    match lineMode mode l with
    | some .async => some ("r2o", [.reg k, .out o])
    | some .sync => some ("r2owa", [.reg k, .out o])
    | none => none
  | _, _ => none

/-- a section after entryPoints + matcherResolver: real opcodes, labels kept on their lines -/
structure RLine where
  labels : List String
  op : String
  args : List Arg
deriving DecidableEq, Repr, Inhabited

def matchLines (mode : Option IoMode) : List Line → Except Err (List RLine)
  | [] => .ok []
  | l :: ls =>
    match matchLine mode l, matchLines mode ls with
    | some (op, args), .ok rs => .ok (⟨l.labels, op, args⟩ :: rs)
    | none, _ => .error .nomatch
    | _, .error e => .error e

/-- `symbolTagger` on the final section: label ↦ index of the line it is attached to -/
def labelTable (rs : List RLine) : List (String × Nat) :=
  rs.zipIdx.flatMap fun (r, i) => r.labels.map fun s => (s, i)

def lookup (tbl : List (String × Nat)) (s : String) : Option Nat :=
  (tbl.find? (·.1 == s)).map (·.2)

/-- `symbolResolver`: a symbol operand becomes the decimal line index; an unknown symbol is left
    as it is (the per-line assembler then rejects it) -/
def resolveArg (tbl : List (String × Nat)) : Arg → Operand
  | .reg k => .reg k
  | .inp k => .inp k
  | .out k => .out k
  | .num n => .num n
  | .sym s => match lookup tbl s with
    | some i => .num i
    | none => .bad
  | .romSym _ => .bad
  | .romReg _ => .bad

def resolve (rs : List RLine) : List Instr :=
  let tbl := labelTable rs
  rs.map fun r => ⟨r.op, r.args.map (resolveArg tbl)⟩

/-- the section as the later passes see it -/
def prepSection (fix : Bool) (gmode : Option IoMode) (s : Section) : Except Err (List RLine) :=
  match (if fix then removeEntryFix s.lines else removeEntry s.lines) with
  | .error e => .error e
  | .ok ls => matchLines (match s.iomode with | some m => some m | none => gmode) ls

/-! ### requirement sets and sizing (`CreateConnectingProcessor`) -/

def regsOf (rs : List RLine) : List Nat :=
  rs.flatMap fun r => r.args.filterMap fun | .reg k => some k | _ => none
def insOf (rs : List RLine) : List Nat :=
  rs.flatMap fun r => r.args.filterMap fun | .inp k => some k | _ => none
def outsOf (rs : List RLine) : List Nat :=
  rs.flatMap fun r => r.args.filterMap fun | .out k => some k | _ => none

def maxOf (l : List Nat) : Nat := l.foldl max 0

/-- number of ports needed to reach the highest one mentioned (0 when none is) -/
def portCount (l : List Nat) : Nat := if l.isEmpty then 0 else maxOf l + 1

/-- the real opcodes of the subset, in name order (`sort.Sort(procbuilder.ByName(…))`) -/
def allOps : List String :=
  ["add", "clr", "cpy", "dec", "div", "i2r", "i2rw", "inc", "j", "jz", "mult", "nop", "r2o", "r2owa", "rset"]

/-- the processor's opcode list: the sorted *set* of opcodes the whole section uses -/
def opsOf (rs : List RLine) : List String := allOps.filter fun o => rs.any (·.op == o)

def mkArch (rsize : Nat) (rs : List RLine) : Arch :=
  { rsize := rsize
    r := neededBits (maxOf (regsOf rs) + 1)
    n := portCount (insOf rs) % 256      -- `uint8(inNum + 1)`
    m := portCount (outsOf rs) % 256
    l := 0
    o := neededBits rs.length
    mode := .ha
    wordSize := 0
    ops := opsOf rs }

def asmAll (a : Arch) : List Instr → Except Err (List Bits)
  | [] => .ok []
  | i :: is =>
    match Encode.asm a i, asmAll a is with
    | .ok w, .ok ws => .ok (w :: ws)
    | .error _, _ => .error .asm
    | _, .error e => .error e

def mkCP (rsize : Nat) (rs : List RLine) : Except Err CP :=
  let a := mkArch rsize rs
  match asmAll a (resolve rs) with
  | .ok ws => .ok { arch := a, prog := ws }
  | .error e => .error e

/-! ### the machine: processors, external ports, bonds (`assembler2NewBondMachine`) -/

def cpIndex (cps : List CpDef) (name : String) : Option Nat := cps.findIdx? (·.name == name)

/-- the endpoint an `ioatt` line names.  An unknown processor name gives a bond that exists
    nowhere (Go builds the name "pi0", which `Add_bond` does not find). -/
def endpoint (cps : List CpDef) (a : IoAtt) : Topology.Bond :=
  if a.cp == "bm" then (if a.isInput then ⟨0, a.index, 0⟩ else ⟨1, a.index, 0⟩)
  else match cpIndex cps a.cp with
    | some p => if a.isInput then ⟨2, p, a.index⟩ else ⟨3, p, a.index⟩
    | none => ⟨9, 0, 0⟩

/-- pairing of the `ioatt` lines: for each name, in order of first occurrence, the first and the
    last line carrying it (a name used once is paired with itself) -/
def pairs (cps : List CpDef) (atts : List IoAtt) : List (Topology.Bond × Topology.Bond) :=
  let rec go (seen : List String) : List IoAtt → List (Topology.Bond × Topology.Bond)
    | [] => []
    | a :: rest =>
      if seen.contains a.name then go seen rest
      else
        let last := ((a :: rest).filter (·.name == a.name)).getLast?.getD a
        (endpoint cps a, endpoint cps last) :: go (a.name :: seen) rest
  go [] atts

def extCount (kind : Nat) (ps : List (Topology.Bond × Topology.Bond)) : Nat :=
  portCount ((ps.flatMap fun p => [p.1, p.2]).filterMap fun b => if b.kind = kind then some b.res else none)

def mkTopo (cps : List CP) (ps : List (Topology.Bond × Topology.Bond)) : Topology.Topo :=
  let t0 := cps.foldl (fun t cp => Topology.addProcessor t cp.arch.n cp.arch.m) Topology.Topo.empty
  let t1 := (List.range (extCount 0 ps)).foldl (fun t _ => Topology.addInput t) t0
  let t2 := (List.range (extCount 1 ps)).foldl (fun t _ => Topology.addOutput t) t1
  ps.foldl (fun t p => Topology.addBond t p.1 p.2) t2

/-- sections live in a Go map keyed by name: a later section of the same name replaces the earlier -/
def findSection (ss : List (String × List RLine)) (name : String) : Option (List RLine) :=
  (ss.reverse.find? (·.1 == name)).map (·.2)

def mapE {α β : Type} (f : α → Except Err β) : List α → Except Err (List β)
  | [] => .ok []
  | x :: xs =>
    match f x, mapE f xs with
    | .ok y, .ok ys => .ok (y :: ys)
    | .error e, _ => .error e
    | _, .error e => .error e

/-- `templateResolver` sorts the processors by name (`sort.Sort(bmline.ByName(bi.cps))`): the
    machine's processor `i` is the i-th `cpdef` in *name* order, not in source order -/
def insertCp (c : CpDef) : List CpDef → List CpDef
  | [] => [c]
  | d :: ds => if c.name < d.name then c :: d :: ds else d :: insertCp c ds

def sortCps (l : List CpDef) : List CpDef := l.foldr insertCp []

/-- the processors of a source in machine order -/
def Source.procs (src : Source) : List CpDef := sortCps src.cps

/-- entryPoints + matcherResolver of one section, under its name -/
def secPrep (fix : Bool) (src : Source) (s : Section) : Except Err (String × List RLine) :=
  match prepSection fix src.iomode s with
  | .ok rs => .ok (s.name, rs)
  | .error e => .error e

/-- memComposer: the section a `cpdef` names -/
def cpBody (ss : List (String × List RLine)) (c : CpDef) : Except Err (List RLine) :=
  match findSection ss c.romcode with
  | some rs => .ok rs
  | none => .error .notfound

/-- the model assembler.  `fix = false`: the tool as it is in the unchanged tree; `fix = true`: with
    the proposed `entry` repair applied (the harness tells the oracle which one it is talking to). -/
def assemble (src : Source) (fix : Bool := false) : Except Err BM :=
  -- symbolTagger (1): duplicate labels, per section, the entry line still present
  if src.sections.any (fun s => hasDup (allLabels s.lines)) then .error .dupsymbol else
  -- entryPoints, then matcherResolver
  match mapE (secPrep fix src) src.sections with
  | .error e => .error e
  | .ok ss =>
    -- memComposer: every cpdef names an existing section
    match mapE (cpBody ss) src.procs with
    | .error e => .error e
    | .ok bodies =>
      -- Assembler2BondMachine: register size, then the processors, then their programs
      match src.rsize with
      | none => .error .rsize
      | some rsize =>
        if ¬ (0 < rsize ∧ rsize < 256) then .error .rsize else
        if bodies.any (fun rs => (regsOf rs).isEmpty) then .error .noregs else
        match mapE (mkCP rsize) bodies with
        | .error e => .error e
        | .ok cps =>
          .ok { rsize := rsize, cps := cps, procs := List.range cps.length,
                topo := mkTopo cps (pairs src.procs src.ioatts),
                solinks := List.replicate cps.length [] }

end BMV.Basm
