/-
  BMV.Json — executable model of saving and reloading machines (property C11).

  Models, field by field,
    pkg/procbuilder/machine.go      Machine / Machine_json, (*Machine).Jsoner, (*Machine_json).Dejsoner
    pkg/procbuilder/dynamical_instructions.go   EventuallyCreateInstruction (+ the seven families' MatchName)
    pkg/bondmachine/bondmachine.go  Bondmachine / Bondmachine_json, Jsoner, Dejsoner
    pkg/bondmachine/shr_*.go        the nine `String()` / `Instantiate()` pairs of the shared objects

  Core only (the oracle executable links this file).  Strings that the code *interprets*
  (shared-object descriptions, decimal numbers) are `List Char`; strings that are only copied
  are `String`.

  What is a parameter of the model (and therefore checked only by the correspondence run):
  the opcode a dynamic family builds from a name is `name ↦ {name, family, params}` with `params`
  left abstract in the theorems (a `Family` is any pair `matchName`/`create`); the concrete
  registry `stdFamilies` used by the oracle implements the seven name languages of the Go code.
-/
namespace BMV.Json

/-! ## strconv.Itoa / strconv.Atoi on `List Char` -/

/-- `strconv.Itoa` -/
def itoa (i : Int) : List Char :=
  if i < 0 then '-' :: Nat.toDigits 10 i.natAbs else Nat.toDigits 10 i.natAbs

/-- unsigned decimal: at least one character, all of them digits (no `_`, no sign) -/
def atoiNat (cs : List Char) : Option Nat :=
  if cs.isEmpty then none
  else if cs.all Char.isDigit then some (Nat.ofDigitChars 10 cs 0) else none

/-- `strconv.Atoi` (optional sign, decimal digits; the 64-bit range error is not modelled) -/
def atoi : List Char → Option Int
  | [] => none
  | c :: cs =>
    if c = '-' then
      match atoiNat cs with
      | some n => some (-(Int.ofNat n))
      | none => none
    else if c = '+' then
      match atoiNat cs with
      | some n => some (Int.ofNat n)
      | none => none
    else
      match atoiNat (c :: cs) with
      | some n => some (Int.ofNat n)
      | none => none

/-- `strings.Split(s, string(sep))` -/
def splitOn (sep : Char) : List Char → List (List Char)
  | [] => [[]]
  | c :: cs =>
    let r := splitOn sep cs
    if c = sep then [] :: r else (c :: r.headD []) :: r.tail

/-- `strings.HasPrefix(s, p)` together with the slice `s[len(p):]` -/
def dropPrefix? : List Char → List Char → Option (List Char)
  | [], s => some s
  | _ :: _, [] => none
  | p :: ps, c :: cs => if p = c then dropPrefix? ps cs else none

/-! ## shared objects (pkg/bondmachine/shr_*.go) -/

structure Box where
  cp : Int
  left : Int
  top : Int
  width : Int
  height : Int
  deriving DecidableEq, Repr

/-- the nine `*_instance` structs (their embedded `Shared_element` is the kind itself) -/
inductive SO where
  | sharedmem (depth : Int)
  | channel
  | barrier (timeout : Int)
  | lfsr8 (seed : Fin 256)
  | vtextmem (boxes : List Box)
  | queue (depth : Int)
  | stack (depth : Int)
  | uart (baud : Int) (depth : Int)
  | kbd (depth : Int)
  deriving DecidableEq, Repr

def boxStr (b : Box) : List Char :=
  ':' :: itoa b.cp ++ ':' :: itoa b.left ++ ':' :: itoa b.top ++ ':' :: itoa b.width ++ ':' :: itoa b.height

/-- the `String()` methods -/
def SO.toString : SO → List Char
  | .sharedmem d => ['s','h','a','r','e','d','m','e','m',':'] ++ itoa d
  | .channel => ['c','h','a','n','n','e','l',':']
  | .barrier t => ['b','a','r','r','i','e','r',':'] ++ itoa t
  | .lfsr8 s => ['l','f','s','r','8',':'] ++ itoa (s.val : Int)
  | .vtextmem bs => ['v','t','e','x','t','m','e','m'] ++ (bs.map boxStr).flatten
  | .queue d => ['q','u','e','u','e',':'] ++ itoa d
  | .stack d => ['s','t','a','c','k',':'] ++ itoa d
  | .uart b d => ['u','a','r','t',':'] ++ itoa b ++ ':' :: itoa d
  | .kbd d => ['k','b','d',':'] ++ itoa d

/-- `prefix:` followed by a non-empty decimal (sharedmem, barrier, queue, stack, lfsr8) -/
def instNum (pre : List Char) (mk : Int → SO) (s : List Char) : Option SO :=
  match dropPrefix? pre s with
  | none => none
  | some rest => if rest.isEmpty then none else (atoi rest).map mk

def instSharedmem := instNum ['s','h','a','r','e','d','m','e','m',':'] SO.sharedmem
def instBarrier := instNum ['b','a','r','r','i','e','r',':'] SO.barrier
def instQueue := instNum ['q','u','e','u','e',':'] SO.queue
def instStack := instNum ['s','t','a','c','k',':'] SO.stack
/-- `uint8(seed)` wraps modulo 256 -/
def instLfsr8 := instNum ['l','f','s','r','8',':'] fun i => SO.lfsr8 (Fin.ofNat 256 (i % 256).toNat)

def instChannel (s : List Char) : Option SO :=
  match dropPrefix? ['c','h','a','n','n','e','l',':'] s with
  | none => none
  | some _ => some .channel

/-- kbd: exactly two `:` separated components; a non-numeric depth is silently 0 -/
def instKbd (s : List Char) : Option SO :=
  match dropPrefix? ['k','b','d',':'] s with
  | none => none
  | some _ =>
    match splitOn ':' s with
    | [_, d] => some (.kbd ((atoi d).getD 0))
    | _ => none

/-- uart: exactly three components; non-numeric fields are silently 0 -/
def instUart (s : List Char) : Option SO :=
  match dropPrefix? ['u','a','r','t',':'] s with
  | none => none
  | some _ =>
    match splitOn ':' s with
    | [_, b, d] => some (.uart ((atoi b).getD 0) ((atoi d).getD 0))
    | _ => none

/-- groups of five decimals; anything left over or non numeric rejects the whole string
    (the Go code tests `(n-1) % 5 == 0` first and then converts group by group) -/
def parseBoxes : List (List Char) → Option (List Box)
  | [] => some []
  | a :: b :: c :: d :: e :: rest =>
    match atoi a, atoi b, atoi c, atoi d, atoi e, parseBoxes rest with
    | some a, some b, some c, some d, some e, some bs => some (⟨a, b, c, d, e⟩ :: bs)
    | _, _, _, _, _, _ => none
  | _ => none

def instVtextmem (s : List Char) : Option SO :=
  match dropPrefix? ['v','t','e','x','t','m','e','m',':'] s with
  | none => none
  | some _ =>
    match splitOn ':' s with
    | _ :: comps => if comps.isEmpty then none else (parseBoxes comps).map .vtextmem
    | [] => none

/-- `Allshared` of pkg/bondmachine in its order; the first kind that accepts wins
    (`Add_shared_objects` and `Bondmachine_json.Dejsoner` use the same loop) -/
def instantiate (s : List Char) : Option SO :=
  instSharedmem s <|> instChannel s <|> instBarrier s <|> instLfsr8 s <|> instVtextmem s <|>
  instQueue s <|> instStack s <|> instUart s <|> instKbd s

/-- the strings `String()` can produce for an object that `Instantiate` can produce:
    a vtextmem always has at least one box -/
def SO.Valid : SO → Prop
  | .vtextmem bs => bs ≠ []
  | _ => True

instance : (so : SO) → Decidable so.Valid
  | .vtextmem bs => inferInstanceAs (Decidable (bs ≠ []))
  | .sharedmem _ | .channel | .barrier _ | .lfsr8 _ | .queue _ | .stack _ | .uart _ _ | .kbd _ =>
    isTrue trivial

/-! ## opcodes and the global registries (`Allopcodes`, `AllDynamicalInstructions`) -/

/-- the seven dynamic families in the order of `AllDynamicalInstructions` -/
inductive Fam where
  | flopoco | linq | rsets | call | stack | fixedPoint | fxp
  deriving DecidableEq, Repr

/-- an opcode value: its name, the family that built it (`none` = one of the static opcodes) and
    whatever else the family derived from the name (kept abstract) -/
structure Opcode where
  name : String
  fam : Option Fam
  params : List Int
  deriving DecidableEq, Repr

/-- a `DynamicInstruction`: `MatchName` and `CreateInstruction` (`none` = it returned an error) -/
structure Family where
  fam : Fam
  matchName : String → Bool
  create : String → Option Opcode

/-- `Allopcodes` (in order) and `AllDynamicalInstructions` (in order) -/
structure Registry where
  ops : List Opcode
  fams : List Family

def Registry.names (reg : Registry) : List String := reg.ops.map (·.name)

/-- `EventuallyCreateInstruction`: the first family whose matcher accepts the name decides; nothing
    happens when an opcode of that name is already registered or when creation fails (the error
    is returned to the caller; `Dejsoner` ignores it) -/
def eventuallyCreate (reg : Registry) (n : String) : Registry :=
  match reg.fams.find? (·.matchName n) with
  | none => reg
  | some f =>
    if reg.ops.any (·.name == n) then reg
    else match f.create n with
      | none => reg
      | some op => { reg with ops := reg.ops ++ [op] }

/-- the loop `for _, op := range Allopcodes { if op.Op_get_name() == opname { result.Op[i] = op } }`
    has no `break`: the last registered opcode of that name wins; no match leaves the nil interface -/
def lookupLast (ops : List Opcode) (n : String) : Option Opcode :=
  ops.reverse.find? (·.name == n)

/-- the body of the opcode loop of `Dejsoner`, threading the (global, growing) registry -/
def dejsonOps (reg : Registry) : List String → Registry × List (Option Opcode)
  | [] => (reg, [])
  | n :: ns =>
    let reg' := eventuallyCreate reg n
    let r := dejsonOps reg' ns
    (r.1, lookupLast reg'.ops n :: r.2)

/-! ## which opcodes a loader can resolve -/

/-- every family builds an opcode that carries the name it was asked for
    (`Rsets{rsetsName: name, …}`, `Call{callName: name, …}`, …) -/
def CreateNames (reg : Registry) : Prop :=
  ∀ f ∈ reg.fams, ∀ n op, f.create n = some op → op.name = n

/-- `op` is what the first family accepting its name builds from that name -/
def Canon (reg0 : Registry) (op : Opcode) : Prop :=
  ∃ f, reg0.fams.find? (·.matchName op.name) = some f ∧ f.create op.name = some op

/-- `reg` is the registry of a process that started as `reg0` and has since created opcodes
    through `EventuallyCreateInstruction` only (the only place `Allopcodes` is appended to) -/
structure Ext (reg0 reg : Registry) : Prop where
  fams : reg.fams = reg0.fams
  ops : ∃ extra, reg.ops = reg0.ops ++ extra ∧ ∀ op ∈ extra, Canon reg0 op
  nodup : reg.names.Nodup

/-- an opcode a process started from `reg0` can get back from its name: a registered (static)
    opcode, or the canonical product of a family for a name no static opcode has -/
def ResolvableOp (reg0 : Registry) (op : Opcode) : Prop :=
  op ∈ reg0.ops ∨ (op.name ∉ reg0.names ∧ Canon reg0 op)

/-! ## procbuilder.Machine -/

/-- `procbuilder.Machine` flattened through its embedded structs
    (Arch{Modes, Conproc{CpID,Rsize,R,N,M,Op,Threaded,SharedHDLOps}, Rom{O}, Ram{L},
    Shared_constraints, Tag, WordSize}, Program{Slocs}, Data{Vars}); `α` is what an `Op` entry
    holds: `Opcode` for a machine built by the tools, `Option Opcode` for a loaded one (nil entry) -/
structure MachineOf (α : Type) where
  modes : List String
  cpID : Nat
  rsize : Nat
  r : Nat
  n : Nat
  m : Nat
  ops : List α
  threaded : Int
  sharedHDLOps : String
  o : Nat
  l : Nat
  sharedConstraints : String
  tag : String
  wordSize : Nat
  slocs : List String
  vars : List String
  deriving DecidableEq, Repr

abbrev Machine := MachineOf Opcode
abbrev LoadedMachine := MachineOf (Option Opcode)

/-- `Machine_json` -/
structure MachineJson where
  modes : List String
  rsize : Nat
  wordSize : Nat
  r : Nat
  n : Nat
  m : Nat
  l : Nat
  o : Nat
  sharedConstraints : String
  op : List String
  slocs : List String
  vars : List String
  threaded : Int
  deriving DecidableEq, Repr

/-- the three fields `Jsoner` does not write; `Write_verilog` assigns them before any use -/
def MachineOf.clearTransient {α : Type} (m : MachineOf α) : MachineOf α :=
  { m with cpID := 0, tag := "", sharedHDLOps := "" }

def MachineOf.mapOps {α β : Type} (f : α → β) (m : MachineOf α) : MachineOf β :=
  { modes := m.modes, cpID := m.cpID, rsize := m.rsize, r := m.r, n := m.n, m := m.m,
    ops := m.ops.map f, threaded := m.threaded, sharedHDLOps := m.sharedHDLOps, o := m.o, l := m.l,
    sharedConstraints := m.sharedConstraints, tag := m.tag, wordSize := m.wordSize,
    slocs := m.slocs, vars := m.vars }

/-- a tool-built machine seen as a loaded one (no nil entries) -/
def MachineOf.lift (m : MachineOf Opcode) : MachineOf (Option Opcode) := m.mapOps some

/-- `(*Machine).Jsoner` -/
def jsoner (m : Machine) : MachineJson :=
  { modes := m.modes, rsize := m.rsize, wordSize := m.wordSize, r := m.r, n := m.n, m := m.m,
    l := m.l, o := m.o, sharedConstraints := m.sharedConstraints, op := m.ops.map (·.name),
    slocs := m.slocs, vars := m.vars, threaded := m.threaded }

/-- `(*Machine_json).Dejsoner` -/
def dejsoner (reg : Registry) (j : MachineJson) : Registry × LoadedMachine :=
  let r := dejsonOps reg j.op
  (r.1, { modes := j.modes, cpID := 0, rsize := j.rsize, r := j.r, n := j.n, m := j.m, ops := r.2,
          threaded := j.threaded, sharedHDLOps := "", o := j.o, l := j.l,
          sharedConstraints := j.sharedConstraints, tag := "", wordSize := j.wordSize,
          slocs := j.slocs, vars := j.vars })

/-- every opcode of the machine is resolvable from `reg0` -/
def Resolvable (reg0 : Registry) (m : Machine) : Prop := ∀ op ∈ m.ops, ResolvableOp reg0 op

/-- all entries non-nil -/
def allSome {α : Type} : List (Option α) → Option (List α)
  | [] => some []
  | none :: _ => none
  | some a :: rest => (allSome rest).map (a :: ·)

/-- a loaded machine without nil opcode is a machine -/
def MachineOf.check (m : MachineOf (Option Opcode)) : Option (MachineOf Opcode) :=
  (allSome m.ops).map fun ops =>
    { modes := m.modes, cpID := m.cpID, rsize := m.rsize, r := m.r, n := m.n, m := m.m,
      ops := ops, threaded := m.threaded, sharedHDLOps := m.sharedHDLOps, o := m.o, l := m.l,
      sharedConstraints := m.sharedConstraints, tag := m.tag, wordSize := m.wordSize,
      slocs := m.slocs, vars := m.vars }

/-- `Jsoner` of a loaded machine: `val.Op_get_name()` on a nil entry is a nil dereference (`none`) -/
def jsonerL (m : LoadedMachine) : Option MachineJson := m.check.map jsoner

/-- executable form of `ResolvableOp` (see `resolvableOpB_iff`) -/
def resolvableOpB (reg0 : Registry) (op : Opcode) : Bool :=
  reg0.ops.contains op ||
    (!reg0.names.contains op.name &&
      match reg0.fams.find? (·.matchName op.name) with
      | some f => f.create op.name == some op
      | none => false)

/-! ## bondmachine.Bondmachine -/

structure Bond where
  mapTo : Nat
  resId : Int
  extId : Int
  deriving DecidableEq, Repr

/-- `bondmachine.Bondmachine`; `β` is what a `Shared_objects` entry holds -/
structure BMOf (α β : Type) where
  rsize : Nat
  domains : List (MachineOf α)
  processors : List Int
  inputs : Int
  outputs : Int
  iin : List Bond
  iout : List Bond
  links : List Int
  sos : List β
  /-- `Shared_links`; `none` = the nil slice (`Init` looks at exactly that) -/
  slinks : Option (List (List Int))
  deriving DecidableEq, Repr

abbrev BM := BMOf Opcode SO
abbrev LoadedBM := BMOf (Option Opcode) (Option SO)

/-- `Bondmachine_json` -/
structure BMJson where
  rsize : Nat
  domains : List MachineJson
  processors : List Int
  inputs : Int
  outputs : Int
  iin : List Bond
  iout : List Bond
  links : List Int
  sos : List (List Char)
  /-- `Shared_links`; `none` = the nil slice (`Init` looks at exactly that) -/
  slinks : Option (List (List Int))
  deriving DecidableEq, Repr

def BMOf.clearTransient {α β : Type} (b : BMOf α β) : BMOf α β :=
  { b with domains := b.domains.map (·.clearTransient) }

def BMOf.lift (b : BMOf Opcode SO) : BMOf (Option Opcode) (Option SO) :=
  { rsize := b.rsize, domains := b.domains.map MachineOf.lift, processors := b.processors,
    inputs := b.inputs, outputs := b.outputs, iin := b.iin, iout := b.iout, links := b.links,
    sos := b.sos.map some, slinks := b.slinks }

/-- `(*Bondmachine).Jsoner` -/
def jsonerBM (b : BM) : BMJson :=
  { rsize := b.rsize, domains := b.domains.map jsoner, processors := b.processors,
    inputs := b.inputs, outputs := b.outputs, iin := b.iin, iout := b.iout, links := b.links,
    sos := b.sos.map SO.toString, slinks := b.slinks }

/-- the domain loop of `(*Bondmachine_json).Dejsoner` (registry threaded from domain to domain) -/
def dejsonDomains (reg : Registry) : List MachineJson → Registry × List LoadedMachine
  | [] => (reg, [])
  | j :: js =>
    let r := dejsoner reg j
    let rs := dejsonDomains r.1 js
    (rs.1, r.2 :: rs.2)

/-- `(*Bondmachine_json).Dejsoner`: a description no kind accepts leaves a nil entry -/
def dejsonerBM (reg : Registry) (j : BMJson) : Registry × LoadedBM :=
  let r := dejsonDomains reg j.domains
  (r.1, { rsize := j.rsize, domains := r.2, processors := j.processors, inputs := j.inputs,
          outputs := j.outputs, iin := j.iin, iout := j.iout, links := j.links,
          sos := j.sos.map instantiate, slinks := j.slinks })

/-- `(*Bondmachine).Init()`: "an idempotent set of operations to ensure bondmachine consistency" —
    a nil `Shared_links` becomes one empty list per processor; anything else is left alone.
    cmd/bondmachine, cmd/basm, cmd/bm2basm, cmd/simfinetune call it right after `Dejsoner`. -/
def initBM {α β : Type} (b : BMOf α β) : BMOf α β :=
  match b.slinks with
  | none => { b with slinks := some (List.replicate b.processors.length []) }
  | some _ => b

/-- loading as the tools do it: `Dejsoner` followed by `Init` -/
def loadBM (reg : Registry) (j : BMJson) : Registry × LoadedBM :=
  let r := dejsonerBM reg j
  (r.1, initBM r.2)

/-- the per-processor attachment lists, the nil slice read as "no list at all" -/
def attachments {α β : Type} (b : BMOf α β) : List (List Int) := b.slinks.getD []

def BMOf.check (b : BMOf (Option Opcode) (Option SO)) : Option (BMOf Opcode SO) :=
  match allSome (b.domains.map MachineOf.check), allSome b.sos with
  | some ds, some sos =>
    some { rsize := b.rsize, domains := ds, processors := b.processors, inputs := b.inputs,
           outputs := b.outputs, iin := b.iin, iout := b.iout, links := b.links, sos := sos,
           slinks := b.slinks }
  | _, _ => none

/-- `Jsoner` of a loaded bondmachine (nil opcode or nil shared object: nil dereference) -/
def jsonerBML (b : LoadedBM) : Option BMJson := b.check.map jsonerBM

/-- number of bonds = connected internal inputs (`List_bonds`) -/
def bondCount {α β : Type} (b : BMOf α β) : Nat := (b.links.filter (· ≠ -1)).length

/-! ## the concrete dynamic families (name languages of dynamical_*.go) -/

def isStackNameChar (c : Char) : Bool := c.isAlpha || c = '_'

/-- after the literal prefix: `[0-9]+` -/
def tailNum (s : List Char) : Bool := (s.takeWhile Char.isDigit).length ≥ 1

/-- after the literal prefix: `[0-9]+ sep [0-9]+` -/
def tailNumSepNum (sep : Char) (s : List Char) : Bool :=
  let d1 := s.takeWhile Char.isDigit
  match s.dropWhile Char.isDigit with
  | c :: rest => d1.length ≥ 1 && c = sep && (rest.takeWhile Char.isDigit).length ≥ 1
  | [] => false

/-- after the literal prefix: `[0-9]+[a-zA-Z_]+` -/
def tailNumName (s : List Char) : Bool :=
  let d1 := s.takeWhile Char.isDigit
  match s.dropWhile Char.isDigit with
  | c :: _ => d1.length ≥ 1 && isStackNameChar c
  | [] => false

/-- unanchored `regexp.MatchString(lit ++ tail)`: some suffix of the name starts with the literal
    followed by something `tail` accepts (the tails above need no backtracking: the classes that
    follow each other are disjoint) -/
def containsPat (lit : List Char) (tail : List Char → Bool) : List Char → Bool
  | [] => (match dropPrefix? lit [] with | some r => tail r | none => false)
  | c :: cs =>
    (match dropPrefix? lit (c :: cs) with | some r => tail r | none => false) ||
      containsPat lit tail cs

def matchAny (lits : List String) (tail : List Char → Bool) (n : String) : Bool :=
  lits.any fun l => containsPat l.toList tail n.toList

def famMatch : Fam → String → Bool
  | .flopoco => matchAny ["multflpe", "addflpe", "divflpe"] (tailNumSepNum 'f')
  | .linq => matchAny ["multlqs", "addlqs", "divlqs"] (tailNumSepNum 't')
  | .rsets => matchAny ["rsets"] tailNum
  | .call => matchAny ["callo", "calla", "ret"] tailNumName
  | .stack => matchAny ["push", "pull"] tailNumName
  | .fixedPoint => matchAny ["multfps", "addfps", "divfps"] (tailNumSepNum 'f')
  | .fxp => matchAny ["multfxps", "addfxps", "divfxps"] (tailNumSepNum 'f')

/-- what the process was configured with: `-linear-data-range` (the indices loaded into
    `DynLinearQuantizer.Ranges`, `none` = not initialised) and whether the external `flopoco`
    program can be run -/
structure FamConfig where
  lqRanges : Option (List Nat)
  flopoco : Bool

/-- full match `lit [0-9]+ t [0-9]+`: the value of the second number (the range index) -/
def lqIndexAfter (s : List Char) : Option Nat :=
  let rest := s.dropWhile Char.isDigit
  match rest with
  | 't' :: ds => if (s.takeWhile Char.isDigit).isEmpty then none else atoiNat ds
  | _ => none

/-- the range index `CreateInstruction` looks up: for a name that is exactly one match it is the
    `t` number; for a name with letters around the match `Atoi` fails and the index is 0 -/
def lqIndex (n : String) : Nat :=
  let try1 (lit : String) : Option Nat :=
    match dropPrefix? lit.toList n.toList with
    | some r => lqIndexAfter r
    | none => none
  ((try1 "multlqs" <|> try1 "addlqs" <|> try1 "divlqs").getD 0)

def famCreate (cfg : FamConfig) (f : Fam) (n : String) : Option Opcode :=
  match f with
  | .flopoco => if cfg.flopoco then some ⟨n, some f, []⟩ else none
  | .linq =>
    match cfg.lqRanges with
    | none => none
    | some idx => if idx.contains (lqIndex n) then some ⟨n, some f, []⟩ else none
  | _ => some ⟨n, some f, []⟩

def stdFamily (cfg : FamConfig) (f : Fam) : Family :=
  { fam := f, matchName := famMatch f, create := famCreate cfg f }

/-- `AllDynamicalInstructions` as initialised by procbuilder's `init()` -/
def stdFamilies (cfg : FamConfig) : List Family :=
  [Fam.flopoco, .linq, .rsets, .call, .stack, .fixedPoint, .fxp].map (stdFamily cfg)

/-- the registry of a fresh process: the static opcodes and the seven families -/
def stdRegistry (cfg : FamConfig) (statics : List String) : Registry :=
  { ops := statics.map fun n => ⟨n, none, []⟩, fams := stdFamilies cfg }

end BMV.Json
