/-
  BMV.BasmText — glue shared by the C05 and C16 oracles (not part of any model):
    * `parseSource` : the text of a `.basm` file of the C05 subset → `Basm.Source`
      (mirrors `idiotParser`/`basmParser`/`metaProcessor` for the constructs of the subset;
      anything else → `none`, reported as `unsupported`, never guessed);
    * `parseBM` / `showBM` : the canonical machine text of harness/basmdump ↔ `BM`.
  Core-only.
-/
import BMV.Basm
import BMV.BasmTempl
import BMV.Lines
namespace BMV.BasmText
open BMV BMV.Bits BMV.Basm BMV.Lines

/-! ### source text -/

def isIdentStart (c : Char) : Bool := c.isAlpha || c == '_'
def isIdentChar (c : Char) : Bool := c.isAlphanum || c == '_'

def canonicalNat? (s : String) : Option Nat :=
  if s.isEmpty || !s.all Char.isDigit then none
  else match s.toNat? with
    | some k => if toString k = s then some k else none
    | none => none

/-- digits of a positional literal (`0x…` hexadecimal in either case, `0b…` binary): bmnumbers' unsized forms -/
def radixVal? (base : Nat) (s : String) : Option Nat :=
  if s.isEmpty then none else
  s.toList.foldl (fun acc ch => acc.bind fun a =>
    let d : Option Nat :=
      if ch.isDigit then some (ch.toNat - '0'.toNat)
      else if 'a' ≤ ch ∧ ch ≤ 'f' then some (10 + (ch.toNat - 'a'.toNat))
      else if 'A' ≤ ch ∧ ch ≤ 'F' then some (10 + (ch.toNat - 'A'.toNat))
      else none
    d.bind fun v => if v < base then some (a * base + v) else none) (some 0)

def parseArg (t : String) : Option Arg :=
  let rest := (t.drop 1).toString
  if t.startsWith "r" && (canonicalNat? rest).isSome then (canonicalNat? rest).map .reg
  else if t.startsWith "i" && (canonicalNat? rest).isSome then (canonicalNat? rest).map .inp
  else if t.startsWith "o" && (canonicalNat? rest).isSome then (canonicalNat? rest).map .out
  else if !t.isEmpty && t.all Char.isDigit then (canonicalNat? t).map .num
  else if t.startsWith "0x" then (radixVal? 16 (t.drop 2).toString).map .num
  else if t.startsWith "0b" then (radixVal? 2 (t.drop 2).toString).map .num
  else if t.startsWith "0u" || t.startsWith "0d" then (radixVal? 10 (t.drop 2).toString).map .num
  else if t.startsWith "rom:[r" && t.endsWith "]" then
    (canonicalNat? ((t.drop 6).dropEnd 1).toString).map .romReg
  else if t.startsWith "rom:" then
    match ((t.drop 4).toString).toList with
    | c :: cs => if isIdentStart c && cs.all isIdentChar then some (.romSym (t.drop 4).toString) else none
    | [] => none
  else match t.toList with
    | c :: cs => if isIdentStart c && cs.all isIdentChar then some (.sym t) else none
    | [] => none

def stripComment (s : String) : String :=
  ((s.replace "\t" " ").splitOn ";").headD "" |>.trimAscii.toString

def parseMode? (s : String) : Option IoMode :=
  if s = "async" then some .async else if s = "sync" then some .sync else none

/-- "k1:v1,k2:v2" (spaces already removed) -/
def parsePairs (s : String) : List (String × String) :=
  (s.splitOn ",").filterMap fun p =>
    match p.splitOn ":" with
    | k :: v :: rest => some (k, ":".intercalate (v :: rest))
    | _ => none

/-- a number of a `db` line: hexadecimal `0x..` or decimal, one byte -/
def dbNum (v : String) : Option Nat :=
  let n := if v.startsWith "0x" then
      (if v.length ≤ 2 then none else
       (v.drop 2).toString.toList.foldl (fun acc ch => acc.bind fun a =>
        if ch.isDigit then some (a * 16 + (ch.toNat - '0'.toNat))
        else if 'a' ≤ ch ∧ ch ≤ 'f' then some (a * 16 + 10 + (ch.toNat - 'a'.toNat)) else none) (some 0))
    else canonicalNat? v
  n.bind fun k => if k < 256 then some k else none

structure DbState where
  inStr : Bool := false
  cur : List Char := []        -- the element being read, latest character first
  numeric : Bool := true
  acc : List Nat := []
  bad : Bool := false

def dbElem (cur : List Char) (numeric : Bool) : Option (List Nat) :=
  let cs := cur.reverse
  if numeric then (dbNum (String.ofList cs)).map fun k => [k]
  else if cs.all (fun c => c.toNat < 128) then some (cs.map Char.toNat) else none

/-- the bytes a `db` value denotes (what `dbDataConverter` + `object2Bytes` are meant to compute):
    elements separated by commas; an element is a number (one byte) or a text between double
    quotes, one byte per character, blanks and commas included; blanks outside quotes mean
    nothing.  There is no escape character.  `none` = outside what the oracle interprets
    (numbers wider than a byte, an unterminated or empty text, non-ASCII). -/
def dbBytes (value : String) : Option (List Nat) :=
  let st := value.trimAscii.toString.toList.foldl (fun (st : DbState) ch =>
    if st.bad then st
    else if ch == '"' then { st with inStr := !st.inStr, numeric := st.numeric && st.inStr }
    else if ch == ',' && !st.inStr then
      match dbElem st.cur st.numeric with
      | some bs => if st.cur.isEmpty then { st with bad := true } else { st with cur := [], numeric := true, acc := st.acc ++ bs }
      | none => { st with bad := true }
    else if st.inStr then { st with cur := ch :: st.cur }
    else if ch == ' ' then st
    else { st with cur := ch :: st.cur }) {}
  if st.bad || st.inStr || st.cur.isEmpty then none
  else (dbElem st.cur st.numeric).map fun bs => st.acc ++ bs

structure PState where
  src : Source := {}
  cur : Option Section := none
  curData : Option DataSec := none
  pending : List String := []      -- labels waiting for their line (latest first, like `isSymbolled`)
  pendingMode : Option IoMode := none   -- line-level `iomode` waiting for its line (like `lineMeta`)
  pendingMeta : Bool := false           -- some line-level metadata is waiting
  items : List TItem := []              -- the current section as template items (same lines, operands may be parameters)
  ifOpen : Option (String × List TLine) := none   -- inside `{{if .Params.<name>}}` … `{{end}}`
  isTempl : Bool := false               -- the current section has a template construct
  templates : List TSection := []
  params : List (String × List (String × Arg)) := []
  bad : Bool := false
deriving Inhabited

def pstep (st : PState) (raw : String) : PState :=
  if st.bad then st else
  let line := stripComment raw
  let toks := (line.splitOn " ").filter (· ≠ "")
  match toks with
  | [] => st
  | "%section" :: name :: ".romtext" :: extra =>
    if st.cur.isSome then { st with bad := true } else
    let ps := parsePairs ("".intercalate extra)
    if ps.any (fun p => p.1 ≠ "iomode") then { st with bad := true } else
    let mode := (ps.find? (·.1 == "iomode")).bind fun p => parseMode? p.2
    { st with cur := some { name := name, iomode := mode, lines := [] } }
  | ["%section", name, ".romdata"] =>
    if st.cur.isSome || st.curData.isSome then { st with bad := true }
    else { st with curData := some { name := name, vars := [] } }
  | ["%endsection"] =>
    match st.curData with
    | some d => { st with curData := none, src := { st.src with datas := st.src.datas ++ [d] } }
    | none =>
    match st.cur with
    | some s =>
      if !st.pending.isEmpty || st.pendingMeta || st.ifOpen.isSome then { st with bad := true }
      else if st.isTempl then
        { st with cur := none, items := [], isTempl := false,
                  templates := st.templates ++ [{ name := s.name, iomode := s.iomode, items := st.items }] }
      else { st with cur := none, items := [], src := { st.src with sections := st.src.sections ++ [s] } }
    | none => { st with bad := true }
  | "%meta" :: cmd :: obj :: rest =>
    let ps := parsePairs ("".intercalate rest)
    let get (k : String) := (ps.find? (·.1 == k)).map (·.2)
    if cmd = "bmdef" && obj = "global" then
      if ps.any (fun p => p.1 ≠ "registersize" && p.1 ≠ "iomode") then { st with bad := true } else
      let rs := match get "registersize" with
        | some v => (match canonicalNat? v with | some n => some (some n) | none => none)
        | none => some st.src.rsize
      match rs with
      | none => { st with bad := true }
      | some rs =>
        let mode := match get "iomode" with | some v => parseMode? v | none => st.src.iomode
        { st with src := { st.src with rsize := rs, iomode := mode } }
    else if cmd = "cpdef" then
      -- `romcode:` (+ `romdata:`); every key the assembler does not know is a parameter of the processor (templates);
      -- the other keys it knows (ramcode, ramdata, romsize, ramsize, execmode, fragcollapse) are outside the subset
      let known := ["romcode", "romdata"]
      let outside := ["ramcode", "ramdata", "romsize", "ramsize", "execmode", "fragcollapse"]
      let user := ps.filter fun p => !known.contains p.1
      let uvals := user.mapM fun p => (parseArg p.2).map fun a => (p.1, a)
      match get "romcode", uvals with
      | some sec, some uv =>
        if st.src.cps.any (·.name == obj) || ps.any (fun p => outside.contains p.1) ||
           (ps.filter (·.1 == "romcode")).length ≠ 1 || (ps.filter (·.1 == "romdata")).length > 1 then { st with bad := true }
        else
          { st with src := { st.src with cps := st.src.cps ++ [{ name := obj, romcode := sec }],
                                         cpData := match get "romdata" with
                                           | some d => st.src.cpData ++ [(obj, d)]
                                           | none => st.src.cpData },
                    params := if uv.isEmpty then st.params else st.params ++ [(obj, uv)] }
      | _, _ => { st with bad := true }
    else if cmd = "ioatt" then
      match get "cp", get "type", (get "index").bind canonicalNat? with
      | some cp, some ty, some idx =>
        if ps.length ≠ 3 || (ty ≠ "input" && ty ≠ "output") then { st with bad := true }
        else { st with src := { st.src with ioatts := st.src.ioatts ++ [{ name := obj, cp := cp, isInput := ty == "input", index := idx }] } }
      | _, _, _ => { st with bad := true }
    else { st with bad := true }
  | op :: rest =>
    match st.curData with
    | some d =>
      -- `name db v1, "text", v2` / `name N:db …`: the operator is the first blank-separated word after
      -- the name, the value is everything after the ONE blank that follows it, blanks included
      let rest0 := (line.drop op.length).trimAscii.toString
      match rest0.splitOn " " with
      | dop :: v :: vs =>
        let rep : Option Nat := if dop = "db" then some 1
          else if dop.endsWith ":db" then canonicalNat? (dop.dropEnd 3).toString else none
        match rep, dbBytes (" ".intercalate (v :: vs)) with
        | some n, some xs => { st with curData := some { d with vars := d.vars ++ [{ name := op, rep := n, vals := xs }] } }
        | _, _ => { st with bad := true }
      | _ => { st with bad := true }
    | none =>
    match st.cur with
    | none => { st with bad := true }
    | some s =>
      if op.startsWith "%" then { st with bad := true }
      else if op.endsWith ":" then
        -- a label line `lbl:` / `lbl: k:v, k:v`, or line metadata alone `: k:v, k:v`.  The metadata waits for the
        -- next line (like the labels do).  Keys read: `iomode` (async / sync; any other value means nothing, the
        -- section's mode stays in force) and the inert `tag`; any other key is outside what the oracle reads.
        let lbl := (op.dropEnd 1).toString
        let ps := parsePairs ("".intercalate rest)
        let okKeys := ps.all fun p => p.1 == "iomode" || p.1 == "tag"
        let wellFormed := rest.isEmpty || (!ps.isEmpty && ps.length == (("".intercalate rest).splitOn ",").length)
        let mode := ps.foldl (fun acc p => if p.1 == "iomode" then parseMode? p.2 else acc) st.pendingMode
        let lblOk := match lbl.toList with
          | c :: cs => isIdentStart c && cs.all isIdentChar
          | [] => !rest.isEmpty
        if lblOk && okKeys && wellFormed then
          { st with pending := if lbl.isEmpty then st.pending else lbl :: st.pending,
                    pendingMode := mode, pendingMeta := st.pendingMeta || !rest.isEmpty }
        else { st with bad := true }
      else if op == "{{if" then
        -- `{{if .Params.<name>}}` on a line of its own opens a block (not nested; nothing may be pending)
        match rest with
        | [c] =>
          let nm := ((c.drop 8).dropEnd 2).toString
          if c.startsWith ".Params." && c.endsWith "}}" && !nm.isEmpty && nm.all isIdentChar &&
             st.ifOpen.isNone && st.pending.isEmpty && !st.pendingMeta then
            { st with ifOpen := some (nm, []), isTempl := true }
          else { st with bad := true }
        | _ => { st with bad := true }
      else if op == "{{end}}" then
        match st.ifOpen with
        | some (nm, body) =>
          if rest.isEmpty && st.pending.isEmpty && !st.pendingMeta then
            { st with ifOpen := none, items := st.items ++ [.ifp nm body] }
          else { st with bad := true }
        | none => { st with bad := true }
      else
        let argToks := if rest.isEmpty then [] else ((" ".intercalate rest).splitOn ",").map fun a => a.trimAscii.toString
        -- an operand is a plain one, or `{{.Params.<name>}}` standing for a whole operand
        let targ (t : String) : Option TArg :=
          if t.startsWith "{{.Params." && t.endsWith "}}" then
            let nm := ((t.drop 10).dropEnd 2).toString
            if !nm.isEmpty && nm.all isIdentChar then some (.param nm) else none
          else (parseArg t).map .arg
        match argToks.mapM targ with
        | none => { st with bad := true }
        | some targs =>
          -- metadata in front of the `entry` directive would go to the directive: not read
          if op == "entry" && st.pendingMeta then { st with bad := true } else
          let tl : TLine := { labels := st.pending, op := op, args := targs, iomode := st.pendingMode }
          let hasParam := targs.any fun a => match a with | .param _ => true | .arg _ => false
          let plain : List Arg := targs.filterMap fun a => match a with | .arg x => some x | .param _ => none
          let l : Line := { labels := st.pending, op := op, args := plain, iomode := st.pendingMode }
          let st := { st with pending := [], pendingMode := none, pendingMeta := false, isTempl := st.isTempl || hasParam }
          match st.ifOpen with
          | some (nm, body) => { st with ifOpen := some (nm, body ++ [tl]) }
          | none => { st with items := st.items ++ [.line tl], cur := some { s with lines := s.lines ++ [l] } }

/-- the text as a source with template sections and processor parameters -/
def parseTSource (lines : List String) : Option TSource :=
  let st := lines.foldl pstep {}
  if st.bad || st.cur.isSome || st.curData.isSome then none
  else some { base := st.src, templates := st.templates, params := st.params }

/-- the plain source the model works on: the text, parsed and instantiated per processor -/
def parseSource (lines : List String) : Option Source := (parseTSource lines).bind instantiate

/-- the `cpdef` names and the `ioatt` lines of ANY basm text (sections, data, shared objects are
    skipped): what the wiring of the emitted machine is compared with.  `none` when the text creates
    processors or bonds by other means (fragment instances and their links) or an `ioatt` line is
    not of the plain `cp:…, type:…, index:…` form. -/
def scanWiring (lines : List String) : Option Source :=
  lines.foldl (fun acc raw => acc.bind fun (src : Source) =>
    match ((stripComment raw).splitOn " ").filter (· ≠ "") with
    | "%meta" :: cmd :: obj :: rest =>
      let ps := parsePairs ("".intercalate rest)
      let get (k : String) := (ps.find? (·.1 == k)).map (·.2)
      if cmd = "cpdef" then some { src with cps := src.cps ++ [{ name := obj, romcode := "" }] }
      else if cmd = "ioatt" then
        match get "cp", get "type", (get "index").bind canonicalNat? with
        | some cp, some ty, some idx =>
          if ps.length ≠ 3 || (ty ≠ "input" && ty ≠ "output") then none
          else some { src with ioatts := src.ioatts ++ [{ name := obj, cp := cp, isInput := ty == "input", index := idx }] }
        | _, _, _ => none
      else if cmd = "fidef" || cmd = "filinkdef" || cmd = "filinkatt" then none
      else some src
    | _ => some src) (some {})

/-! ### machine text -/

def showBond (b : Topology.Bond) : String := s!"{b.kind}.{b.res}.{b.ext}"
def showBonds (bs : List Topology.Bond) : String := if bs.isEmpty then "-" else " ".intercalate (bs.map showBond)
def showMode : Mode → String
  | .ha => "ha" | .vn => "vn" | .hy => "hy"

def showBM (bm : BM) : List String :=
  [s!"M rsize={bm.rsize} inputs={bm.topo.inputs} outputs={bm.topo.outputs} ncp={bm.cps.length} procs={",".intercalate (bm.procs.map toString)}"] ++
  (bm.cps.zipIdx.flatMap fun (cp, i) =>
    let a := cp.arch
    [s!"C {i} rsize={a.rsize} r={a.r} n={a.n} m={a.m} l={a.l} o={a.o} mode={showMode a.mode} ws={a.wordSize} ops={",".intercalate a.ops} shared={if cp.shared then 1 else 0} mw={if cp.mwDecl != 0 then cp.mwDecl else a.maxWord} sc={if cp.sharedC.isEmpty then "-" else ";".intercalate cp.sharedC}"] ++
    cp.prog.map (fun w => s!"W {i} {toString01 w}") ++ cp.data.map (fun w => s!"D {i} {toString01 w}")) ++
  ["SO " ++ (if bm.sos.isEmpty then "-" else " ".intercalate bm.sos),
   "SL " ++ (if bm.solinks.isEmpty then "-" else " ".intercalate (bm.solinks.map fun l => "[" ++ ",".intercalate (l.map toString) ++ "]")),
   "II " ++ showBonds bm.topo.iin, "IO " ++ showBonds bm.topo.iout,
   "LK " ++ (if bm.topo.links.isEmpty then "-" else " ".intercalate (bm.topo.links.map fun l => match l with | some j => toString j | none => "-1")),
   "E"]

def parseBond (s : String) : Topology.Bond :=
  match s.splitOn "." with
  | [k, r, e] => ⟨nat! k, nat! r, nat! e⟩
  | _ => ⟨9, 0, 0⟩

def parseModeA (s : String) : Mode := if s = "vn" then .vn else if s = "hy" then .hy else .ha

/-- incremental reader of the machine text: feed the lines M, C, W, D, II, IO, LK in order -/
def bmLine (bm : BM) (line : String) : BM :=
  let fs := fields line
  let num (k : String) := nat! ((kv fs k).getD "0")
  match fs with
  | "M" :: _ =>
    { rsize := num "rsize", cps := [], procs := (commaList ((kv fs "procs").getD "")).map nat!,
      topo := { inputs := num "inputs", outputs := num "outputs" } }
  | "C" :: _ =>
    let a : Arch := { rsize := num "rsize", r := num "r", n := num "n", m := num "m", l := num "l", o := num "o",
                      mode := parseModeA ((kv fs "mode").getD "ha"), wordSize := num "ws",
                      ops := commaList ((kv fs "ops").getD "") }
    let sc := (kv fs "sc").getD "-"
    let scl := if sc = "-" then [] else sc.splitOn ";"
    -- Arch.Shared_num counts the constraint entries "<kind>:…" per kind
    let kinds := (scl.filterMap fun c => match c.splitOn ":" with | k :: _ :: _ => some k | _ => none)
    let counts := kinds.eraseDups.map fun k => (k, kinds.count k)
    { bm with cps := bm.cps ++ [{ arch := { a with shared := counts }, prog := [], shared := num "shared" == 1, mwDecl := num "mw",
                                  sharedC := scl }] }
  | ["W", i, w] =>
    { bm with cps := bm.cps.modify (nat! i) fun cp => { cp with prog := cp.prog ++ [ofString01 w] } }
  | ["D", i, w] =>
    { bm with cps := bm.cps.modify (nat! i) fun cp => { cp with data := cp.data ++ [ofString01 w] } }
  | "SO" :: xs => { bm with sos := if xs = ["-"] then [] else xs }
  | "SL" :: xs =>
    { bm with solinks := if xs = ["-"] then [] else xs.map fun x =>
        let inner := ((x.drop 1).dropEnd 1).toString
        if inner = "" then [] else (inner.splitOn ",").map nat! }
  | "II" :: bs => { bm with topo := { bm.topo with iin := if bs = ["-"] then [] else bs.map parseBond } }
  | "IO" :: bs => { bm with topo := { bm.topo with iout := if bs = ["-"] then [] else bs.map parseBond } }
  | "LK" :: ls =>
    { bm with topo := { bm.topo with links := if ls = ["-"] then [] else ls.map fun l => if l.startsWith "-" then none else some (nat! l) } }
  | _ => bm

/-- the topology's `procs` is not in the text: it is what the validator compares against, so the
    reader fills it from `Processors` and the domains exactly as `Add_processor` would have -/
def finishBM (bm : BM) : BM :=
  { bm with topo := { bm.topo with procs := bm.procs.filterMap fun d => (bm.cps[d]?).map fun cp => (cp.arch.n, cp.arch.m) } }

end BMV.BasmText
