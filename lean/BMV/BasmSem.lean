/-
  BMV.BasmSem — what a BASM source of the C05 subset *means*: the reference interpreter.
  It interprets the source text directly (no label table, no opcode numbers, no bit strings):
    * a label denotes the instruction that follows it (the `entry` directive is not an instruction
      and is skipped);
    * execution starts at the label named by `entry`;
    * each instruction — pseudo-instructions included — has its effect on unbounded register /
      port maps (`Nat → Nat`), one instruction per tick; `mov` from an input / to an output is
      non-blocking under `iomode:async` and the 4-phase handshake of i2rw / r2owa under
      `iomode:sync`; a literal loads the value it denotes.
  `none` = the source has no meaning here (unknown label, numeric jump target, a register size the
  simulator's arithmetic does not support).  Core-only.
-/
import BMV.Basm
import BMV.Isa
namespace BMV.Basm
open BMV

/-- what the environment presents on the ports during one tick -/
structure Env where
  inputs : Nat → Nat
  inValid : Nat → Bool
  outRecv : Nat → Bool

structure RefState where
  pos : Nat                       -- position in the section's line list (directive included)
  regs : Nat → Nat
  outputs : Nat → Nat
  outValid : Nat → Bool
  inRecv : Nat → Bool
  deferred : List Nat             -- inputs whose `recv` is waiting for `valid` to fall

structure SecCtx where
  rsize : Nat
  mode : Option IoMode            -- effective iomode of the section
  lines : List Line

def SecCtx.of (src : Source) (sec : Section) : SecCtx :=
  { rsize := match src.rsize with | some n => n | none => 0
    mode := match sec.iomode with | some m => some m | none => src.iomode
    lines := sec.lines }

def upd {α : Type} (f : Nat → α) (k : Nat) (v : α) : Nat → α := fun j => if j = k then v else f j

/-- the instruction at or after position `p` (the directive is not an instruction) -/
def skip (ls : List Line) (p : Nat) : Nat :=
  match ls[p]? with
  | some l => if isEntry l then p + 1 else p
  | none => p

/-- a label denotes the instruction that follows it -/
def labelPos (ls : List Line) (s : String) : Option Nat :=
  (ls.findIdx? fun l => l.labels.contains s).map (skip ls)

/-- the ROM address of the instruction at position `p` = the number of instructions before it -/
def addr (ls : List Line) (p : Nat) : Nat := ((ls.take p).filter fun l => !isEntry l).length

def SecCtx.addr (c : SecCtx) (p : Nat) : Nat := Basm.addr c.lines p

/-- where execution starts: the label named by the `entry` directive -/
def startPos (ls : List Line) : Option Nat :=
  match ls.find? isEntry with
  | some e => match e.args with
    | [.sym s] => labelPos ls s
    | _ => none
  | none => none

/-- is the entry label on the first instruction of the section? (signature of the known finding) -/
def entryFirst (ls : List Line) : Bool :=
  match startPos ls with
  | some p => addr ls p == 0
  | none => false

def refInit (c : SecCtx) : Option RefState :=
  (startPos c.lines).map fun p =>
    { pos := p, regs := fun _ => 0, outputs := fun _ => 0, outValid := fun _ => false,
      inRecv := fun _ => false, deferred := [] }

/-- pending `recv` withdrawals complete when the producer has dropped `valid` -/
def refDeferred (e : Env) (s : RefState) : RefState :=
  let done := s.deferred.filter fun i => e.inValid i == false
  { s with
    inRecv := done.foldl (fun f i => upd f i false) s.inRecv
    deferred := s.deferred.filter fun i => e.inValid i != false }

inductive IoKind where
  | inAsync | inSync | outAsync | outSync
deriving DecidableEq, Repr

/-- which IO transfer a source line is (by its own name, or by the `mov` form and the iomode) -/
def ioKind (mode : Option IoMode) (l : Line) : Option (IoKind × Nat × Nat) :=   -- kind, register, port
  match l.op, l.args with
  | "i2r", [.reg k, .inp i] => some (.inAsync, k, i)
  | "i2rw", [.reg k, .inp i] => some (.inSync, k, i)
  | "r2o", [.reg k, .out o] => some (.outAsync, k, o)
  | "r2owa", [.reg k, .out o] => some (.outSync, k, o)
  | "mov", [.reg k, .inp i] =>
    match lineMode mode l with | some .async => some (.inAsync, k, i) | some .sync => some (.inSync, k, i) | none => none
  | "mov", [.out o, .reg k] =>
    match lineMode mode l with | some .async => some (.outAsync, k, o) | some .sync => some (.outSync, k, o) | none => none
  | _, _ => none

def execIo (e : Env) (next : Nat) (s : RefState) : IoKind × Nat × Nat → RefState
  | (.inAsync, k, i) => { s with pos := next, regs := upd s.regs k (e.inputs i) }
  | (.outAsync, k, o) => { s with pos := next, outputs := upd s.outputs o (s.regs k) }
  | (.inSync, k, i) =>
    if e.inValid i then
      if s.inRecv i then s        -- the previous transfer on this port is not over: wait
      else
        { s with pos := next, regs := upd s.regs k (e.inputs i), inRecv := upd s.inRecv i true,
                 deferred := if i ∈ s.deferred then s.deferred else s.deferred ++ [i] }
    else { s with inRecv := upd s.inRecv i false }
  | (.outSync, k, o) =>
    if s.outValid o = false ∧ e.outRecv o = true then s     -- stale recv of the previous transfer: wait
    else
      let s1 := { s with outputs := upd s.outputs o (s.regs k) }
      if e.outRecv o then { s1 with outValid := upd s.outValid o false, pos := next }
      else { s1 with outValid := upd s.outValid o true }

/-- the effect of one source line -/
def execLine (c : SecCtx) (e : Env) (l : Line) (s : RefState) : Option RefState :=
  let next := skip c.lines (s.pos + 1)
  let m := 2 ^ c.rsize
  let std := Isa.stdSize c.rsize
  let setReg (k v : Nat) : RefState := { s with pos := next, regs := upd s.regs k v }
  match l.op, l.args with
  | "nop", [] => some { s with pos := next }
  | "noop", [] => some { s with pos := next }
  | "rset", [.reg k, .num n] => if c.rsize ≤ 64 then some (setReg k n) else none
  | "mov", [.reg k, .num n] => if c.rsize ≤ 64 then some (setReg k n) else none
  | "cpy", [.reg d, .reg r] => some (setReg d (s.regs r))
  | "mov", [.reg d, .reg r] => some (setReg d (s.regs r))
  | "inc", [.reg k] => if std then some (setReg k ((s.regs k + 1) % m)) else none
  | "dec", [.reg k] => if std then some (setReg k ((s.regs k + m - 1) % m)) else none
  | "clr", [.reg k] => if std then some (setReg k 0) else none
  | "add", [.reg d, .reg r] => if std then some (setReg d ((s.regs d + s.regs r) % m)) else none
  | "mult", [.reg d, .reg r] => if std then some (setReg d ((s.regs d * s.regs r) % m)) else none
  | "div", [.reg d, .reg r] => if std && s.regs r ≠ 0 then some (setReg d (s.regs d / s.regs r)) else none
  | "j", [.sym t] => (labelPos c.lines t).map fun p => { s with pos := p }
  | "jmp", [.sym t] => (labelPos c.lines t).map fun p => { s with pos := p }
  | "jz", [.reg k, .sym t] =>
    if std then (labelPos c.lines t).map fun p => if s.regs k = 0 then { s with pos := p } else { s with pos := next }
    else none
  | _, _ => (ioKind c.mode l).map (execIo e next s)

/-- one tick of the reference interpreter -/
def refStep (c : SecCtx) (e : Env) (s : RefState) : Option RefState :=
  let s1 := refDeferred e s
  match c.lines[s1.pos]? with
  | none => if s1.pos = c.lines.length then some s1 else none      -- past the last instruction: halted
  | some l => if isEntry l then none else execLine c e l s1

/-- `t` ticks under an environment stream -/
def refRun (c : SecCtx) (env : Nat → Env) : Nat → Option RefState
  | 0 => refInit c
  | t + 1 => (refRun c env t).bind (refStep c (env t))


/-! ### several processors: the network the `ioatt` lines describe

  One tick of the whole machine as `bondmachine.VM.Step` moves data: a processor input shows what
  its driver held *before* the tick (an external input: its current value), a processor output's
  `recv` is the conjunction of its sinks' `recv` before the tick (an external output: the current
  flag), an external output shows its driver *after* the tick.  The drivers and sinks come from the
  source's `ioatt` pairs (a later pair for the same sink replaces the earlier one). -/

structure ExtEnv where
  inputs : Nat → Nat
  inValid : Nat → Bool
  outRecv : Nat → Bool

/-- the ports a processor has: those its program mentions, up to the highest index -/
def srcPorts (ls : List Line) : Nat × Nat :=
  (portCount (ls.flatMap fun l => l.args.filterMap fun | .inp k => some k | _ => none) % 256,
   portCount (ls.flatMap fun l => l.args.filterMap fun | .out k => some k | _ => none) % 256)

open Topology in
/-- (driver, sink) for every `ioatt` pair that joins an existing driver (external input, processor
    output) with an existing sink (external output, processor input); `ports` = (N, M) per processor -/
def netOf (src : Source) (ports : List (Nat × Nat)) : List (Bond × Bond) :=
  (pairs src.procs src.ioatts).filterMap fun (a, b) =>
    let isSink (x : Bond) : Bool := x.kind == 1 || (x.kind == 2 && match ports[x.res]? with | some nm => x.ext < nm.1 | none => false)
    let isDrv (x : Bond) : Bool := x.kind == 0 || (x.kind == 3 && match ports[x.res]? with | some nm => x.ext < nm.2 | none => false)
    if isSink a && isDrv b then some (b, a)
    else if isSink b && isDrv a then some (a, b)
    else none

open Topology in
def driverOf (net : List (Bond × Bond)) (sink : Bond) : Option Bond :=
  (net.reverse.find? (·.2 == sink)).map (·.1)

open Topology in
def sinksOf (net : List (Bond × Bond)) (drv : Bond) : List Bond :=
  ((net.map (·.2)).eraseDups).filter fun s => driverOf net s == some drv

open Topology in
/-- the bonds a source asks for: one (driver, sink) per connected sink -/
def wiringOf (src : Source) (ports : List (Nat × Nat)) : List (Bond × Bond) :=
  let net := netOf src ports
  ((net.map (·.2)).eraseDups).filterMap fun s => (driverOf net s).map fun d => (d, s)

/-- the machine has the external ports the source's `ioatt` lines name (highest index + 1 of each
    kind) and exactly the bonds they ask for, among the ports its processors have.  Tie-only: it is
    evaluated on every machine the real assembler emits from a source whose `cpdef`/`ioatt` lines
    the oracle can read (and on the model assembler's own output); no theorem is stated about it. -/
def wiringAgrees (src : Source) (bm : BM) : Bool :=
  let ps := pairs src.procs src.ioatts
  bm.topo.inputs == extCount 0 ps && bm.topo.outputs == extCount 1 ps &&
  Topology.sameSet (Topology.bonds bm.topo) (wiringOf src (bm.cps.map fun cp => (cp.arch.n, cp.arch.m)))

open Topology in
def drvValue (ext : ExtEnv) (sts : List RefState) (d : Bond) : Nat × Bool :=
  if d.kind == 0 then (ext.inputs d.res, ext.inValid d.res)
  else match sts[d.res]? with
    | some s => (s.outputs d.ext, s.outValid d.ext)
    | none => (0, false)

open Topology in
def sinkRecv (ext : ExtEnv) (sts : List RefState) (s : Bond) : Bool :=
  if s.kind == 1 then ext.outRecv s.res
  else match sts[s.res]? with
    | some st => st.inRecv s.ext
    | none => false

/-- what processor `p` sees on its ports during the tick -/
def envFor (net : List (Topology.Bond × Topology.Bond)) (ext : ExtEnv) (sts : List RefState) (p : Nat) : Env :=
  { inputs := fun k => match driverOf net ⟨2, p, k⟩ with | some d => (drvValue ext sts d).1 | none => 0
    inValid := fun k => match driverOf net ⟨2, p, k⟩ with | some d => (drvValue ext sts d).2 | none => false
    outRecv := fun o =>
      let ss := sinksOf net ⟨3, p, o⟩
      !ss.isEmpty && ss.all (sinkRecv ext sts) }

/-- one tick of the processors `p, p+1, …` (`hold p` = processor `p` spends this tick on the jump the
    repaired assembler placed at address 0: its reference state does not move); `all` = the states
    of all processors before the tick, which is what the bonds show -/
def netStepFrom (net : List (Topology.Bond × Topology.Bond)) (ext : ExtEnv) (hold : Nat → Bool) (all : List RefState) :
    Nat → List SecCtx → List RefState → Option (List RefState)
  | p, c :: cs, s :: ss =>
    match (if hold p then some s else refStep c (envFor net ext all p) s), netStepFrom net ext hold all (p + 1) cs ss with
    | some s', some rest => some (s' :: rest)
    | _, _ => none
  | _, _, _ => some []

/-- one tick of every processor -/
def netStep (ctxs : List SecCtx) (net : List (Topology.Bond × Topology.Bond)) (ext : ExtEnv) (hold : Nat → Bool)
    (sts : List RefState) : Option (List RefState) :=
  netStepFrom net ext hold sts 0 ctxs sts

def initAll : List SecCtx → Option (List RefState)
  | [] => some []
  | c :: cs => match refInit c, initAll cs with
    | some s, some rest => some (s :: rest)
    | _, _ => none

/-- the whole machine for `t` ticks under a stream of external environments (no processor held) -/
def netRun (ctxs : List SecCtx) (net : List (Topology.Bond × Topology.Bond)) (ext : Nat → ExtEnv) : Nat → Option (List RefState)
  | 0 => initAll ctxs
  | t + 1 => (netRun ctxs net ext t).bind (netStep ctxs net (ext t) (fun _ => false))

/-- the environment processor `p` lives in when it is part of the machine: what the bonds show it,
    tick by tick -/
def inducedEnv (ctxs : List SecCtx) (net : List (Topology.Bond × Topology.Bond)) (ext : Nat → ExtEnv) (p : Nat) : Nat → Env :=
  fun t => match netRun ctxs net ext t with
    | some sts => envFor net (ext t) sts p
    | none => envFor net (ext t) [] p

/-- the external outputs after the tick: value and valid of output `r` -/
def extOut (net : List (Topology.Bond × Topology.Bond)) (ext : ExtEnv) (sts' : List RefState) (r : Nat) : Nat × Bool :=
  match driverOf net ⟨1, r, 0⟩ with
  | some d => drvValue ext sts' d
  | none => (0, false)

/-- `recv` of external input `r` after the tick -/
def extInRecv (net : List (Topology.Bond × Topology.Bond)) (ext : ExtEnv) (sts' : List RefState) (r : Nat) : Bool :=
  let ss := sinksOf net ⟨0, r, 0⟩
  !ss.isEmpty && ss.all (sinkRecv ext sts')

end BMV.Basm
