/-
  BMV.Bondgo — executable model of the core subset of the `bondgo` Go-subset compiler
  (/repo/pkg/bondgo/visiter.go `BondgoCheck.Visit`, expr.go `Expr_eval`, runinfo.go `Var_assigner`
  as a register allocator, results.go / routines.go line bookkeeping), the source semantics of that
  subset (`exec`), and an interpreter for the emitted instruction subset (`isaStep`).

  Core-only (no Mathlib): the oracle executable links against it.

  What the compiler really accepts (read off visiter.go / expr.go; narrower than the list in
  DESIGN.md C12): binary operators `+`, `*`, `==` only (`-`, `&`, `|`, `^` are rejected with
  "Unsopported binary operation"), `x++` / `x--`, `=`, `if [else]`, `for [cond] { }`,
  `bondgo.IORead(i)`, `bondgo.IOWrite(o, e)`, `bondgo.Make(bondgo.Input|Output, k)` with k ≥ 1.

  Source forms of the modelled subset (declarations at the top of `main`; memory variables may also
  be declared inside `if` / `for` bodies, where they may shadow an outer name — the model works on
  unique variable indices, i.e. on the program after Go's name resolution):
      var iK bondgo.Input / var oK bondgo.Output      (all of them first)
      var vK uintW  (memory variable)  |  var reg_vK uintW  (register variable)
      iK = bondgo.Make(bondgo.Input, g)  /  oK = bondgo.Make(bondgo.Output, g)
      statements: vK = e | vK++ | vK-- | bondgo.IOWrite(oK, e) | if a == b {..} [else {..}]
                  | for [a == b] {..}
      e ::= literal | vK | e + e | e * e | bondgo.IORead(iK)

  Go                                         model
  ----------------------------------------   --------------------------------------------------
  Var_assigner, REQ_NEW REGISTER             `fresh busy` (lowest id not in the busy list)
  Var_assigner, REQ_REMOVE                   `busy.erase r`
  WriteLine + Replacer + Shift_program_..    fragments compiled at an absolute base address
  Expr_eval                                  `compileE`, `compileC`
  Visit (AssignStmt, IncDecStmt, CallExpr    `compileS`
         IOWrite, IfStmt, ForStmt)
  GenDecl (var … uintW / reg_…)              `preamble`
-/
namespace BMV.Bondgo

/-! ## instructions (the emitted subset) -/

inductive Instr where
  | clr (r : Nat)
  | rset (r n : Nat)
  | cpy (d s : Nat)
  | m2r (r m : Nat)
  | r2m (r m : Nat)
  | add (d s : Nat)
  | mult (d s : Nat)
  | inc (r : Nat)
  | dec (r : Nat)
  | je (a b t : Nat)
  | jz (r t : Nat)
  | j (t : Nat)
  | i2r (r i : Nat)
  | r2o (r o : Nat)
deriving DecidableEq, Repr, Inhabited

/-- the text `Write_assembly` produces for the instruction -/
def Instr.text : Instr → String
  | .clr r => s!"clr r{r}"
  | .rset r n => s!"rset r{r} {n}"
  | .cpy d s => s!"cpy r{d} r{s}"
  | .m2r r m => s!"m2r r{r} {m}"
  | .r2m r m => s!"r2m r{r} {m}"
  | .add d s => s!"add r{d} r{s}"
  | .mult d s => s!"mult r{d} r{s}"
  | .inc r => s!"inc r{r}"
  | .dec r => s!"dec r{r}"
  | .je a b t => s!"je r{a} r{b} {t}"
  | .jz r t => s!"jz r{r} {t}"
  | .j t => s!"j {t}"
  | .i2r r i => s!"i2r r{r} i{i}"
  | .r2o r o => s!"r2o r{r} o{o}"

def Instr.opname : Instr → String
  | .clr _ => "clr" | .rset _ _ => "rset" | .cpy _ _ => "cpy" | .m2r _ _ => "m2r"
  | .r2m _ _ => "r2m" | .add _ _ => "add" | .mult _ _ => "mult" | .inc _ => "inc"
  | .dec _ => "dec" | .je _ _ _ => "je" | .jz _ _ => "jz" | .j _ => "j"
  | .i2r _ _ => "i2r" | .r2o _ _ => "r2o"

/-! ## source language -/

inductive Expr where
  | lit (n : Nat)
  | var (x : Nat)
  | add (a b : Expr)
  | mul (a b : Expr)
  | ioread (i : Nat)
deriving DecidableEq, Repr, Inhabited

/-- the only boolean expression the compiler can evaluate is `a == b` -/
inductive Cond where
  | eq (a b : Expr)
deriving DecidableEq, Repr, Inhabited

/-- statements; a block is a `seq … skip` chain -/
inductive Stmt where
  | skip
  | seq (s rest : Stmt)
  | assign (x : Nat) (e : Expr)
  | inc (x : Nat)
  | dec (x : Nat)
  | iowrite (o : Nat) (e : Expr)
  | ifThen (c : Cond) (t : Stmt)
  | ifElse (c : Cond) (t e : Stmt)
  | loop (c : Option Cond) (body : Stmt)
  | decl (x : Nat)      -- `var x uintW` inside an `if` / `for` body (a memory variable; x = its unique index)
  | brk                 -- `break`
  | cont                -- `continue`
  | loopP (c : Cond) (body post : Stmt)   -- `for [init]; c; post { body }` (init is written before the loop)
  | tassign (ps : List (Nat × Expr))      -- `x1, x2, … = e1, e2, …` (tuple assignment, also a single `=`)
  | define (ps : List (Nat × Expr))       -- `x1, x2, … := e1, e2, …` (new memory variables of the current block)
  | switch (tag : Expr) (cs : Stmt)       -- `switch tag { … }`; `cs` = the clauses: `swCase … (swCase … (swDefault … | skip))`
  | swCase (v : Nat) (body rest : Stmt)   -- `case v: body`, then the following clauses (only inside `switch`)
  | swDefault (body : Stmt)               -- `default: body`, the last clause (only inside `switch`)
deriving Repr, Inhabited

/-- a program: the kinds of the declared variables in declaration order (`true` = `reg_` variable
    kept in a register, `false` = memory variable), and the body of `main` -/
structure Prog where
  decls : List Bool
  body : Stmt
deriving Repr, Inhabited

/-! ## the allocator (Var_assigner for REGISTER cells of one processor) -/

def maxList : List Nat → Nat
  | [] => 0
  | x :: xs => max x (maxList xs)

/-- lowest register id that is not busy (Go: `for i := 0; i < MAX_REGS; i++ { … if !present`) -/
def fresh (busy : List Nat) : Nat :=
  match (List.range (busy.length + 1)).find? (fun i => !busy.contains i) with
  | some i => i
  | none => maxList busy + 1      -- never taken (pigeonhole); keeps `fresh_not_mem` elementary

/-- where a variable lives -/
inductive Loc where
  | reg (r : Nat)
  | mem (m : Nat)
deriving DecidableEq, Repr, Inhabited

/-- locations of the declared variables: register variables take the lowest free register at
    their declaration, memory variables the next memory cell -/
def locsFrom : List Bool → List Nat → Nat → List Loc
  | [], _, _ => []
  | true :: ds, busy, m => .reg (fresh busy) :: locsFrom ds (fresh busy :: busy) m
  | false :: ds, busy, m => .mem m :: locsFrom ds busy (m + 1)

def locs (decls : List Bool) : List Loc := locsFrom decls [] 0

/-- registers held by register variables -/
def varRegs (ls : List Loc) : List Nat :=
  ls.filterMap fun l => match l with | .reg r => some r | .mem _ => none

/-- cells of the variables a `:=` declares, in order: each takes the lowest free cell -/
def defCells : List (Nat × Expr) → List Nat → List Loc × List Nat × List Nat
  | [], mems => ([], mems, [])
  | _ :: ps, mems =>
    let (l, m2, t) := defCells ps (fresh mems :: mems)
    (.mem (fresh mems) :: l, m2, fresh mems :: t)


/-- Memory cells of the variables declared inside `if` / `for` bodies, in textual order.
    State: the busy memory cells; result: (locations in order of declaration, busy cells afterwards,
    cells of the declarations made directly in this statement sequence).
    The real compiler (`Visit`, `bg.Clean`) releases the variables of a block only when the visitor
    that owns the block is visited again: for the subset here that happens exactly once, between the
    `then` and the `else` body of an `if`/`else`; the variables of an `else` body, of an `if` without
    `else` and of a `for` body are never released. -/
def blockLocs : Stmt → List Nat → List Loc × List Nat × List Nat
  | .skip, mems => ([], mems, [])
  | .seq a b, mems =>
    let (la, m1, ta) := blockLocs a mems
    let (lb, m2, tb) := blockLocs b m1
    (la ++ lb, m2, ta ++ tb)
  | .decl _, mems => ([.mem (fresh mems)], fresh mems :: mems, [fresh mems])
  | .assign _ _, mems => ([], mems, [])
  | .inc _, mems => ([], mems, [])
  | .dec _, mems => ([], mems, [])
  | .iowrite _ _, mems => ([], mems, [])
  | .ifThen _ t, mems =>
    let (lt, m1, _) := blockLocs t mems
    (lt, m1, [])
  | .ifElse _ t e, mems =>
    let (lt, m1, tt) := blockLocs t mems
    let (le, m2, _) := blockLocs e (tt.foldl List.erase m1)
    (lt ++ le, m2, [])
  | .loop _ b, mems =>
    let (lb, m1, _) := blockLocs b mems
    (lb, m1, [])
  | .brk, mems => ([], mems, [])
  | .cont, mems => ([], mems, [])
  | .tassign _, mems => ([], mems, [])
  | .define ps, mems => defCells ps mems
  -- the visitor of a switch is never visited again after a nested block: nothing is released inside
  -- it; a `var` written directly in a clause is never released either
  | .switch _ cs, mems =>
    let (l, m1, _) := blockLocs cs mems
    (l, m1, [])
  | .swCase _ b r, mems =>
    let (lb, m1, _) := blockLocs b mems
    let (lr, m2, _) := blockLocs r m1
    (lb ++ lr, m2, [])
  | .swDefault b, mems =>
    let (lb, m1, _) := blockLocs b mems
    (lb, m1, [])
  | .loopP _ b p, mems =>
    -- a post clause makes the real compiler visit the loop's visitor again: the body's variables
    -- are released before the post clause is compiled
    let (lb, m1, tb) := blockLocs b mems
    let (lp, m2, _) := blockLocs p (tb.foldl List.erase m1)
    (lb ++ lp, m2, [])

/-- memory cells of the top-level declarations -/
def memCells (ls : List Loc) : List Nat :=
  ls.filterMap fun l => match l with | .mem m => some m | .reg _ => none

/-- locations of all variables of a program: the top-level ones (indices `0 … decls.length-1`),
    then the block-local ones in textual order -/
def allLocs (p : Prog) : List Loc :=
  locs p.decls ++ (blockLocs p.body (memCells (locs p.decls))).1

/-- code of the declarations (`clr r` / `clr t; r2m t m`) -/
def preambleFrom : List Bool → List Nat → Nat → List Instr
  | [], _, _ => []
  | true :: ds, busy, m => .clr (fresh busy) :: preambleFrom ds (fresh busy :: busy) m
  | false :: ds, busy, m => .clr (fresh busy) :: .r2m (fresh busy) m :: preambleFrom ds busy (m + 1)

def preamble (decls : List Bool) : List Instr := preambleFrom decls [] 0

/-! ## the compiler -/

/-- `Expr_eval`: code, result register, busy list afterwards.  An undeclared variable makes the
    real compiler fail ("Variable … not defined"); the model emits nothing for it (`none`). -/
def compileE (ls : List Loc) : Expr → List Nat → Option (List Instr × Nat × List Nat)
  | .lit n, busy => some ([.rset (fresh busy) n], fresh busy, fresh busy :: busy)
  | .var x, busy =>
    match ls[x]? with
    | some (.reg g) => some ([.cpy (fresh busy) g], fresh busy, fresh busy :: busy)
    | some (.mem m) => some ([.m2r (fresh busy) m], fresh busy, fresh busy :: busy)
    | none => none
  | .ioread i, busy => some ([.i2r (fresh busy) i], fresh busy, fresh busy :: busy)
  | .add a b, busy =>
    match compileE ls a busy with
    | none => none
    | some (ca, ra, busy1) =>
      match compileE ls b busy1 with
      | none => none
      | some (cb, rb, busy2) => some (ca ++ cb ++ [.add ra rb], ra, busy2.erase rb)
  | .mul a b, busy =>
    match compileE ls a busy with
    | none => none
    | some (ca, ra, busy1) =>
      match compileE ls b busy1 with
      | none => none
      | some (cb, rb, busy2) => some (ca ++ cb ++ [.mult ra rb], ra, busy2.erase rb)

/-- `Expr_eval` of `a == b` emitted at absolute address `base` -/
def compileC (ls : List Loc) (base : Nat) : Cond → List Nat → Option (List Instr × Nat × List Nat)
  | .eq a b, busy =>
    match compileE ls a busy with
    | none => none
    | some (ca, ra, busy1) =>
      match compileE ls b busy1 with
      | none => none
      | some (cb, rb, busy2) =>
        let rc := fresh busy2
        let l := base + ca.length + cb.length
        some (ca ++ cb ++ [.je ra rb (l + 3), .rset rc 0, .j (l + 4), .rset rc 1], rc,
              ((rc :: busy2).erase ra).erase rb)

/-- `Visit` on statements, emitted at absolute address `base` -/
def compileS (ls : List Loc) : Stmt → Nat → List Nat → Option (List Instr × List Nat)
  | .skip, _, busy => some ([], busy)
  | .seq s rest, base, busy =>
    match compileS ls s base busy with
    | none => none
    | some (c1, busy1) =>
      match compileS ls rest (base + c1.length) busy1 with
      | none => none
      | some (c2, busy2) => some (c1 ++ c2, busy2)
  | .assign x e, _, busy =>
    match ls[x]?, compileE ls e busy with
    | some (.reg g), some (c, r, busy1) => some (c ++ [.cpy g r], busy1.erase r)
    | some (.mem m), some (c, r, busy1) => some (c ++ [.r2m r m], busy1.erase r)
    | _, _ => none
  | .inc x, _, busy =>
    match ls[x]? with
    | some (.reg g) => some ([.inc g], busy)
    | some (.mem m) => some ([.m2r (fresh busy) m, .inc (fresh busy), .r2m (fresh busy) m], busy)
    | none => none
  | .dec x, _, busy =>
    match ls[x]? with
    | some (.reg g) => some ([.dec g], busy)
    | some (.mem m) => some ([.m2r (fresh busy) m, .dec (fresh busy), .r2m (fresh busy) m], busy)
    | none => none
  | .iowrite o e, _, busy =>
    -- the real compiler never releases the register of the written value (CallExpr IOWrite)
    match compileE ls e busy with
    | some (c, r, busy1) => some (c ++ [.r2o r o], busy1)
    | none => none
  | .decl x, _, busy =>
    match ls[x]? with
    | some (.mem m) => some ([.clr (fresh busy), .r2m (fresh busy) m], busy)
    | _ => none
  | .ifThen c t, base, busy =>
    match compileC ls base c busy with
    | none => none
    | some (cc, rc, busy1) =>
      match compileS ls t (base + cc.length + 1) (busy1.erase rc) with
      | none => none
      | some (ct, busy2) =>
        some (cc ++ [.jz rc (base + cc.length + 1 + ct.length)] ++ ct, busy2)
  | .ifElse c t e, base, busy =>
    match compileC ls base c busy with
    | none => none
    | some (cc, rc, busy1) =>
      match compileS ls t (base + cc.length + 1) (busy1.erase rc) with
      | none => none
      | some (ct, busy2) =>
        match compileS ls e (base + cc.length + 1 + ct.length + 1) busy2 with
        | none => none
        | some (ce, busy3) =>
          some (cc ++ [.jz rc (base + cc.length + 1 + ct.length + 1)] ++ ct
                  ++ [.j (base + cc.length + 1 + ct.length + 1 + ce.length)] ++ ce, busy3)
  | .loop none body, base, busy =>
    match compileS ls body base busy with
    | none => none
    | some (cb, busy1) => some (cb ++ [.j base], busy1)
  | .loop (some c) body, base, busy =>
    match compileC ls base c busy with
    | none => none
    | some (cc, rc, busy1) =>
      match compileS ls body (base + cc.length + 1) (busy1.erase rc) with
      | none => none
      | some (cb, busy2) =>
        some (cc ++ [.jz rc (base + cc.length + 1 + cb.length + 1)] ++ cb ++ [.j base], busy2)
  -- `break`, `continue` and three-clause loops need the loop labels: see `compileX`
  | .brk, _, _ => none
  | .cont, _, _ => none
  | .loopP _ _ _, _, _ => none
  | .tassign _, _, _ => none
  | .define _, _, _ => none
  | .switch _ _, _, _ => none
  | .swCase _ _ _, _, _ => none
  | .swDefault _, _, _ => none

/-- the whole program: declarations, then the body of `main` -/
def compile (p : Prog) : Option (List Instr) :=
  let ls := allLocs p
  let pre := preamble p.decls
  match compileS ls p.body pre.length (varRegs (locs p.decls)) with
  | some (c, _) => some (pre ++ c)
  | none => none

/-- registers the compiled program needs (Usage_Monitor: max over C_REGSIZE notifications) -/
def Instr.regs : Instr → List Nat
  | .clr r | .rset r _ | .m2r r _ | .r2m r _ | .inc r | .dec r | .jz r _ | .i2r r _ | .r2o r _ => [r]
  | .cpy d s | .add d s | .mult d s | .je d s _ => [d, s]
  | .j _ => []

/-- registers an instruction writes -/
def Instr.writes : Instr → List Nat
  | .clr r | .rset r _ | .m2r r _ | .inc r | .dec r | .i2r r _ => [r]
  | .cpy d _ | .add d _ | .mult d _ => [d]
  | .r2m _ _ | .je _ _ _ | .jz _ _ | .j _ | .r2o _ _ => []

def regCount (code : List Instr) : Nat :=
  maxList (code.flatMap fun i => i.regs.map (· + 1))

/-- opcodes in order of first use (Usage_Monitor: C_OPCODE notifications) -/
def opcodes (code : List Instr) : List String :=
  code.foldl (fun acc i => if acc.contains i.opname then acc else acc ++ [i.opname]) []

/-! ## the machine: interpreter for the emitted subset

  `clr rset cpy add mult inc dec jz j i2r r2o` follow the `Simulate` methods of
  /repo/pkg/procbuilder/op_*.go; `r2m` / `m2r` have stub `Simulate` methods there (they only
  advance the pc), their meaning is taken from the HDL templates op_r2m.go (`ram[addr] <= reg`)
  and op_m2r.go (`reg <= ram_dout` at `addr`); `je` is a stub in *every* back-end of procbuilder
  (assembler, HDL, simulator: a no-op): here it has the meaning the compiler relies on
  (jump when the two registers are equal).  Values wrap at `2^w`.
  Inputs: the k-th `i2r` executed (over all ports) reads `env port k` (inputs may change between
  reads; the source semantics counts reads the same way). -/

structure Cfg where
  pc : Nat := 0
  regs : Nat → Nat := fun _ => 0
  mem : Nat → Nat := fun _ => 0
  rc : Nat := 0
  outs : List (Nat × Nat) := []      -- (port, value), most recent first

def upd (f : Nat → Nat) (k v : Nat) : Nat → Nat := fun i => if i = k then v else f i

def execInstr (env : Nat → Nat → Nat) (w : Nat) (c : Cfg) : Instr → Cfg
  | .clr r => { c with pc := c.pc + 1, regs := upd c.regs r 0 }
  | .rset r n => { c with pc := c.pc + 1, regs := upd c.regs r (n % 2 ^ w) }
  | .cpy d s => { c with pc := c.pc + 1, regs := upd c.regs d (c.regs s) }
  | .m2r r m => { c with pc := c.pc + 1, regs := upd c.regs r (c.mem m) }
  | .r2m r m => { c with pc := c.pc + 1, mem := upd c.mem m (c.regs r) }
  | .add d s => { c with pc := c.pc + 1, regs := upd c.regs d ((c.regs d + c.regs s) % 2 ^ w) }
  | .mult d s => { c with pc := c.pc + 1, regs := upd c.regs d ((c.regs d * c.regs s) % 2 ^ w) }
  | .inc r => { c with pc := c.pc + 1, regs := upd c.regs r ((c.regs r + 1) % 2 ^ w) }
  | .dec r => { c with pc := c.pc + 1, regs := upd c.regs r ((c.regs r + (2 ^ w - 1)) % 2 ^ w) }
  | .je a b t => { c with pc := if c.regs a = c.regs b then t else c.pc + 1 }
  | .jz r t => { c with pc := if c.regs r = 0 then t else c.pc + 1 }
  | .j t => { c with pc := t }
  | .i2r r i => { c with pc := c.pc + 1, regs := upd c.regs r (env i c.rc % 2 ^ w), rc := c.rc + 1 }
  | .r2o r o => { c with pc := c.pc + 1, outs := (o, c.regs r) :: c.outs }

/-- one instruction; `none` when the pc is outside the program (the run is over) -/
def isaStep (env : Nat → Nat → Nat) (w : Nat) (code : List Instr) (c : Cfg) : Option Cfg :=
  match code[c.pc]? with
  | some i => some (execInstr env w c i)
  | none => none

/-- at most `n` instructions -/
def isaRun (env : Nat → Nat → Nat) (w : Nat) (code : List Instr) : Nat → Cfg → Cfg
  | 0, c => c
  | n + 1, c =>
    match isaStep env w code c with
    | some c' => isaRun env w code n c'
    | none => c

/-! ## source semantics (`goEval`): Go with wrap-around at `2^w` -/

structure Src where
  vars : Nat → Nat := fun _ => 0
  rc : Nat := 0
  outs : List (Nat × Nat) := []

/-- value of an expression; `IORead`s are counted left to right -/
def evalE (env : Nat → Nat → Nat) (w : Nat) : Expr → Src → Nat × Src
  | .lit n, s => (n % 2 ^ w, s)
  | .var x, s => (s.vars x, s)
  | .ioread i, s => (env i s.rc % 2 ^ w, { s with rc := s.rc + 1 })
  | .add a b, s =>
    let (va, s1) := evalE env w a s
    let (vb, s2) := evalE env w b s1
    ((va + vb) % 2 ^ w, s2)
  | .mul a b, s =>
    let (va, s1) := evalE env w a s
    let (vb, s2) := evalE env w b s1
    ((va * vb) % 2 ^ w, s2)

def evalC (env : Nat → Nat → Nat) (w : Nat) : Cond → Src → Bool × Src
  | .eq a b, s =>
    let (va, s1) := evalE env w a s
    let (vb, s2) := evalE env w b s1
    (va == vb, s2)

/-- run a statement with `fuel` loop iterations available; the flag is `true` when the statement
    finished, `false` when the fuel ran out (the state then holds the outputs produced so far) -/
def exec (env : Nat → Nat → Nat) (w : Nat) : Nat → Stmt → Src → Src × Bool
  | _, .skip, s => (s, true)
  | fuel, .seq a b, s =>
    match exec env w fuel a s with
    | (s1, true) => exec env w fuel b s1
    | (s1, false) => (s1, false)
  | _, .assign x e, s =>
    let (v, s1) := evalE env w e s
    ({ s1 with vars := upd s1.vars x v }, true)
  | _, .decl x, s => ({ s with vars := upd s.vars x 0 }, true)     -- Go zero-initialises at every execution
  | _, .brk, s => (s, true)          -- not meaningful without loop labels: see `execX`
  | _, .cont, s => (s, true)
  | _, .loopP _ _ _, s => (s, true)
  | _, .tassign _, s => (s, true)
  | _, .define _, s => (s, true)
  | _, .switch _ _, s => (s, true)
  | _, .swCase _ _ _, s => (s, true)
  | _, .swDefault _, s => (s, true)
  | _, .inc x, s => ({ s with vars := upd s.vars x ((s.vars x + 1) % 2 ^ w) }, true)
  | _, .dec x, s => ({ s with vars := upd s.vars x ((s.vars x + (2 ^ w - 1)) % 2 ^ w) }, true)
  | _, .iowrite o e, s =>
    let (v, s1) := evalE env w e s
    ({ s1 with outs := (o, v) :: s1.outs }, true)
  | fuel, .ifThen c t, s =>
    match evalC env w c s with
    | (true, s1) => exec env w fuel t s1
    | (false, s1) => (s1, true)
  | fuel, .ifElse c t e, s =>
    match evalC env w c s with
    | (true, s1) => exec env w fuel t s1
    | (false, s1) => exec env w fuel e s1
  | 0, .loop _ _, s => (s, false)
  | fuel + 1, .loop none body, s =>
    match exec env w fuel body s with
    | (s1, true) => exec env w fuel (.loop none body) s1
    | (s1, false) => (s1, false)
  | fuel + 1, .loop (some c) body, s =>
    match evalC env w c s with
    | (false, s1) => (s1, true)
    | (true, s1) =>
      match exec env w fuel body s1 with
      | (s2, true) => exec env w fuel (.loop (some c) body) s2
      | (s2, false) => (s2, false)
termination_by fuel st _ => (fuel, sizeOf st)

/-! ## `break`, `continue`, three-clause `for`: the extended compiler and semantics

  `compileX` is `compileS` with the addresses of the innermost loop's exit (`lb`: where `break`
  jumps — the real compiler's `<<…ENDFOR>>`) and continue point (`lc`: `<<…CONTINUEFOR>>`, the first
  instruction after the body, i.e. the post clause or the back jump).  `execX` is `exec` with a
  completion status.  On statements without `break` / `continue` / post clause the two pairs agree
  (`compileX_plain`, `execX_plain` in BMV/Proofs/Bondgo.lean). -/

/-- how a statement ended -/
inductive Status where
  | ok        -- fell through
  | brk       -- `break` reached: leave the innermost loop
  | cont      -- `continue` reached: go to the continue point of the innermost loop
  | timeout   -- loop fuel exhausted
deriving DecidableEq, Repr, Inhabited

/-! Tuple assignment `x1, …, xk = e1, …, ek` (visiter.go `AssignStmt`, `token.ASSIGN`): the real compiler
    first evaluates every right-hand side, left to right, each into its own temporary register which
    stays allocated; then it stores the temporaries into the destinations, left to right, releasing
    each temporary right after its store.  Go's semantics is the same: all operands are evaluated,
    then the assignments happen in order. -/

/-- code of the right-hand sides: (code, result registers in order, busy list afterwards) -/
def compileEs (ls : List Loc) : List Expr → List Nat → Option (List Instr × List Nat × List Nat)
  | [], busy => some ([], [], busy)
  | e :: es, busy =>
    match compileE ls e busy with
    | none => none
    | some (c, r, busy1) =>
      match compileEs ls es busy1 with
      | none => none
      | some (cs, rs, busy2) => some (c ++ cs, r :: rs, busy2)

/-- the stores: `cpy g r` / `r2m r m` per destination, the temporary released after each -/
def compileStores (ls : List Loc) : List Nat → List Nat → List Nat → Option (List Instr × List Nat)
  | [], [], busy => some ([], busy)
  | x :: xs, r :: rs, busy =>
    match ls[x]? with
    | some (.reg g) =>
      match compileStores ls xs rs (busy.erase r) with
      | some (c, busy') => some (.cpy g r :: c, busy')
      | none => none
    | some (.mem m) =>
      match compileStores ls xs rs (busy.erase r) with
      | some (c, busy') => some (.r2m r m :: c, busy')
      | none => none
    | none => none
  | _, _, _ => none

/-- values of the right-hand sides, left to right -/
def evalEs (env : Nat → Nat → Nat) (w : Nat) : List Expr → Src → List Nat × Src
  | [], s => ([], s)
  | e :: es, s =>
    let (v, s1) := evalE env w e s
    let (vs, s2) := evalEs env w es s1
    (v :: vs, s2)

/-- the assignments, left to right -/
def assignAll (vars : Nat → Nat) : List Nat → List Nat → Nat → Nat
  | x :: xs, v :: vs => assignAll (upd vars x v) xs vs
  | _, _ => vars

/-- lines of the jump table of a `switch`: two per `case`, one closing jump -/
def swHeadLen : Stmt → Nat
  | .swCase _ _ rest => 2 + swHeadLen rest
  | _ => 1

/-- a clause list: `swCase`s, then `swDefault` or nothing -/
def isChain : Stmt → Bool
  | .swCase _ _ rest => isChain rest
  | .swDefault _ => true
  | .skip => true
  | _ => false

/-- the clause a `switch` on the value `v` runs (`skip`: no `case` matches and there is no `default`) -/
def swSelect (w v : Nat) : Stmt → Stmt
  | .swCase v' b rest => if v = v' % 2 ^ w then b else swSelect w v rest
  | .swDefault b => b
  | _ => .skip

theorem swSelect_size (w v : Nat) : ∀ cs : Stmt, sizeOf (swSelect w v cs) ≤ sizeOf cs := by
  intro cs
  induction cs with
  | swCase v' b rest _ ih =>
    simp only [swSelect]
    split
    · simp; omega
    · simp; omega
  | swDefault b => simp [swSelect]
  | skip => simp [swSelect]
  | _ => simp [swSelect] <;> omega

/-- number of instructions an expression compiles to -/
def exprLen : Expr → Nat
  | .lit _ => 1
  | .var _ => 1
  | .ioread _ => 1
  | .add a b => exprLen a + exprLen b + 1
  | .mul a b => exprLen a + exprLen b + 1

def condLen : Cond → Nat
  | .eq a b => exprLen a + exprLen b + 4

/-- Number of instructions a statement compiles to.  It depends on the statement and on where its
    variables live, not on the allocator state or on any address: the real compiler learns the loop
    labels after the fact (`Replacer`), the model computes them beforehand from this count
    (`compileX_length`: it is the length of the code). -/
def codeLen (ls : List Loc) : Stmt → Nat
  | .skip => 0
  | .seq a b => codeLen ls a + codeLen ls b
  | .assign _ e => exprLen e + 1
  | .inc x => match ls[x]? with | some (.mem _) => 3 | _ => 1
  | .dec x => match ls[x]? with | some (.mem _) => 3 | _ => 1
  | .iowrite _ e => exprLen e + 1
  | .decl _ => 2
  | .brk => 1
  | .cont => 1
  | .ifThen c t => condLen c + 1 + codeLen ls t
  | .ifElse c t e => condLen c + 1 + codeLen ls t + 1 + codeLen ls e
  | .loop none b => codeLen ls b + 1
  | .loop (some c) b => condLen c + 1 + codeLen ls b + 1
  | .loopP c b p => condLen c + 1 + codeLen ls b + codeLen ls p + 1
  | .tassign ps => (ps.map fun p => exprLen p.2 + 1).sum
  | .define ps => (ps.map fun p => exprLen p.2 + 1).sum
  | .switch tag cs => exprLen tag + swHeadLen cs + codeLen ls cs
  | .swCase _ b r => codeLen ls b + 1 + codeLen ls r
  | .swDefault b => codeLen ls b + 1

/-- the jump table of a `switch` (visiter.go `*ast.SwitchStmt`, first loop): per `case v` the
    constant into the temporary `r` (released again: the same register every time) and
    `je rt r <start of that clause>`; then one jump to the default clause or, without one, to the
    end of the switch — in both cases the address right after the last `case` clause.
    `start` = address of the first clause of `cs`. -/
def swHeader (ls : List Loc) (rt r : Nat) : Nat → Stmt → List Instr
  | start, .swCase v b rest => .rset r v :: .je rt r start :: swHeader ls rt r (start + codeLen ls b + 1) rest
  | start, _ => [.j start]

def compileX (ls : List Loc) (lb lc : Nat) : Stmt → Nat → List Nat → Option (List Instr × List Nat)
  | .skip, _, busy => some ([], busy)
  | .seq s rest, base, busy =>
    match compileX ls lb lc s base busy with
    | none => none
    | some (c1, busy1) =>
      match compileX ls lb lc rest (base + c1.length) busy1 with
      | none => none
      | some (c2, busy2) => some (c1 ++ c2, busy2)
  | .assign x e, base, busy => compileS ls (.assign x e) base busy
  | .inc x, base, busy => compileS ls (.inc x) base busy
  | .dec x, base, busy => compileS ls (.dec x) base busy
  | .iowrite o e, base, busy => compileS ls (.iowrite o e) base busy
  | .decl x, base, busy => compileS ls (.decl x) base busy
  | .brk, _, busy => some ([.j lb], busy)
  | .cont, _, busy => some ([.j lc], busy)
  | .tassign ps, _, busy =>
    match compileEs ls (ps.map (·.2)) busy with
    | none => none
    | some (ce, rs, busy1) =>
      match compileStores ls (ps.map (·.1)) rs busy1 with
      | none => none
      | some (cs, busy2) => some (ce ++ cs, busy2)
  | .define ps, _, busy =>
    -- `x1, … := e1, …` (visiter.go `token.DEFINE`, names without the `reg_` prefix): all right-hand
    -- sides into temporaries, then per variable a fresh memory cell (`blockLocs`), `r2m`, release
    match compileEs ls (ps.map (·.2)) busy with
    | none => none
    | some (ce, rs, busy1) =>
      match compileStores ls (ps.map (·.1)) rs busy1 with
      | none => none
      | some (cs, busy2) =>
        if (ps.map (·.1)).all (fun x => match ls[x]? with | some (Loc.mem _) => true | _ => false)
        then some (ce ++ cs, busy2) else none
  | .switch tag cs, base, busy =>
    -- the tag into a temporary that is never released (visiter.go keeps `tagexpr` allocated), the
    -- jump table, then the clauses, each followed by a jump to the end of the switch. `break` in a
    -- clause leaves the switch (Go; /repo since 5d0e719), `continue` belongs to the enclosing loop.
    match compileE ls tag busy with
    | none => none
    | some (ce, rt, busy1) =>
      match compileX ls (base + ce.length + swHeadLen cs + codeLen ls cs) lc cs
          (base + ce.length + swHeadLen cs) busy1 with
      | none => none
      | some (cb, busy2) =>
        some (ce ++ swHeader ls rt (fresh busy1) (base + ce.length + swHeadLen cs) cs ++ cb, busy2)
  | .swCase _ b rest, base, busy =>
    -- inside a switch `lb` is the end of the switch
    match compileX ls lb lc b base busy with
    | none => none
    | some (cb, busy1) =>
      match compileX ls lb lc rest (base + cb.length + 1) busy1 with
      | none => none
      | some (cr, busy2) => some (cb ++ [.j lb] ++ cr, busy2)
  | .swDefault b, base, busy =>
    match compileX ls lb lc b base busy with
    | none => none
    | some (cb, busy1) => some (cb ++ [.j lb], busy1)
  | .ifThen c t, base, busy =>
    match compileC ls base c busy with
    | none => none
    | some (cc, rc, busy1) =>
      match compileX ls lb lc t (base + cc.length + 1) (busy1.erase rc) with
      | none => none
      | some (ct, busy2) =>
        some (cc ++ [.jz rc (base + cc.length + 1 + ct.length)] ++ ct, busy2)
  | .ifElse c t e, base, busy =>
    match compileC ls base c busy with
    | none => none
    | some (cc, rc, busy1) =>
      match compileX ls lb lc t (base + cc.length + 1) (busy1.erase rc) with
      | none => none
      | some (ct, busy2) =>
        match compileX ls lb lc e (base + cc.length + 1 + ct.length + 1) busy2 with
        | none => none
        | some (ce, busy3) =>
          some (cc ++ [.jz rc (base + cc.length + 1 + ct.length + 1)] ++ ct
                  ++ [.j (base + cc.length + 1 + ct.length + 1 + ce.length)] ++ ce, busy3)
  | .loop none body, base, busy =>
    -- `break` leaves to the instruction after the back jump, `continue` goes to the back jump
    match compileX ls (base + codeLen ls body + 1) (base + codeLen ls body) body base busy with
    | none => none
    | some (cb, busy1) => some (cb ++ [.j base], busy1)
  | .loop (some c) body, base, busy =>
    match compileC ls base c busy with
    | none => none
    | some (cc, rc, busy1) =>
      match compileX ls (base + cc.length + 1 + codeLen ls body + 1) (base + cc.length + 1 + codeLen ls body)
          body (base + cc.length + 1) (busy1.erase rc) with
      | none => none
      | some (cb, busy2) =>
        some (cc ++ [.jz rc (base + cc.length + 1 + cb.length + 1)] ++ cb ++ [.j base], busy2)
  | .loopP c body post, base, busy =>
    match compileC ls base c busy with
    | none => none
    | some (cc, rc, busy1) =>
      -- `continue` goes to the post clause, `break` behind the back jump
      match compileX ls (base + cc.length + 1 + codeLen ls body + codeLen ls post + 1)
          (base + cc.length + 1 + codeLen ls body) body (base + cc.length + 1) (busy1.erase rc) with
      | none => none
      | some (cb, busy2) =>
        -- the post clause is outside the body: it is compiled with the labels of the enclosing loop
        match compileX ls lb lc post (base + cc.length + 1 + cb.length) busy2 with
        | none => none
        | some (cp, busy3) =>
          some (cc ++ [.jz rc (base + cc.length + 1 + cb.length + cp.length + 1)] ++ cb ++ cp ++ [.j base], busy3)

/-- `:=` of a name that the *current block* already declares (visiter.go `token.DEFINE`: "Already
    defined variable", live since /repo a87efcf; also the partial re-declaration `x, y := …` that Go
    accepts). Variables are unique indices here, a name of the same scope is the same index: the walk
    carries the indices declared so far in the block (`var` or `:=`; for the body of `main` also the
    top-level declarations), every `if` / `else` / `for` body starts a new scope.
    Result: (refused, indices declared in this block so far). -/
def redeclIn : List Nat → Stmt → Bool × List Nat
  | here, .seq a b =>
    match redeclIn here a with
    | (true, h1) => (true, h1)
    | (false, h1) => redeclIn h1 b
  | here, .decl x => (false, x :: here)
  | here, .define ps => ((ps.map (·.1)).any (fun x => here.contains x), ps.map (·.1) ++ here)
  | here, .ifThen _ t => ((redeclIn [] t).1, here)
  | here, .ifElse _ t e => ((redeclIn [] t).1 || (redeclIn [] e).1, here)
  | here, .loop _ b => ((redeclIn [] b).1, here)
  | here, .loopP _ b q => ((redeclIn [] b).1 || (redeclIn [] q).1, here)
  | here, .switch _ cs => redeclIn here cs      -- the clauses share the `Vars` map of the enclosing block
  | here, .swCase _ b r =>
    match redeclIn here b with
    | (true, h1) => (true, h1)
    | (false, h1) => redeclIn h1 r
  | here, .swDefault b => redeclIn here b
  | here, _ => (false, here)

def redeclProg (p : Prog) : Bool := (redeclIn (List.range p.decls.length) p.body).1

/-- the whole program with `break` / `continue` / post clauses, without the re-declaration check -/
def compileXBody (p : Prog) : Option (List Instr) :=
  let ls := allLocs p
  let pre := preamble p.decls
  match compileX ls 0 0 p.body pre.length (varRegs (locs p.decls)) with
  | some (c, _) => some (pre ++ c)
  | none => none

/-- the whole program with `break` / `continue` / post clauses; a program that re-declares a name of
    the current scope with `:=` is refused -/
def compileXP (p : Prog) : Option (List Instr) :=
  if redeclProg p then none else compileXBody p

def execX (env : Nat → Nat → Nat) (w : Nat) : Nat → Stmt → Src → Src × Status
  | _, .skip, s => (s, .ok)
  | fuel, .seq a b, s =>
    match execX env w fuel a s with
    | (s1, .ok) => execX env w fuel b s1
    | r => r
  | _, .assign x e, s =>
    let (v, s1) := evalE env w e s
    ({ s1 with vars := upd s1.vars x v }, .ok)
  | _, .decl x, s => ({ s with vars := upd s.vars x 0 }, .ok)
  | _, .inc x, s => ({ s with vars := upd s.vars x ((s.vars x + 1) % 2 ^ w) }, .ok)
  | _, .dec x, s => ({ s with vars := upd s.vars x ((s.vars x + (2 ^ w - 1)) % 2 ^ w) }, .ok)
  | _, .iowrite o e, s =>
    let (v, s1) := evalE env w e s
    ({ s1 with outs := (o, v) :: s1.outs }, .ok)
  | _, .brk, s => (s, .brk)
  | _, .cont, s => (s, .cont)
  | _, .tassign ps, s =>
    let (vs, s1) := evalEs env w (ps.map (·.2)) s
    ({ s1 with vars := assignAll s1.vars (ps.map (·.1)) vs }, .ok)
  | _, .define ps, s =>
    let (vs, s1) := evalEs env w (ps.map (·.2)) s
    ({ s1 with vars := assignAll s1.vars (ps.map (·.1)) vs }, .ok)
  | fuel, .ifThen c t, s =>
    match evalC env w c s with
    | (true, s1) => execX env w fuel t s1
    | (false, s1) => (s1, .ok)
  | fuel, .ifElse c t e, s =>
    match evalC env w c s with
    | (true, s1) => execX env w fuel t s1
    | (false, s1) => execX env w fuel e s1
  | fuel, .switch tag cs, s =>
    -- the tag once, then the first clause whose constant equals it (else `default`, else nothing);
    -- a `break` ends the switch, a `continue` is the enclosing loop's
    match execX env w fuel (swSelect w (evalE env w tag s).1 cs) (evalE env w tag s).2 with
    | (s2, .brk) => (s2, .ok)
    | r => r
  -- clauses are run by their `switch` only
  | _, .swCase _ _ _, s => (s, .timeout)
  | _, .swDefault _, s => (s, .timeout)
  | 0, .loop _ _, s => (s, .timeout)
  | 0, .loopP _ _ _, s => (s, .timeout)
  | fuel + 1, .loop none body, s =>
    match execX env w fuel body s with
    | (s1, .ok) => execX env w fuel (.loop none body) s1
    | (s1, .cont) => execX env w fuel (.loop none body) s1
    | (s1, .brk) => (s1, .ok)
    | (s1, .timeout) => (s1, .timeout)
  | fuel + 1, .loop (some c) body, s =>
    match evalC env w c s with
    | (false, s1) => (s1, .ok)
    | (true, s1) =>
      match execX env w fuel body s1 with
      | (s2, .ok) => execX env w fuel (.loop (some c) body) s2
      | (s2, .cont) => execX env w fuel (.loop (some c) body) s2
      | (s2, .brk) => (s2, .ok)
      | (s2, .timeout) => (s2, .timeout)
  | fuel + 1, .loopP c body post, s =>
    match evalC env w c s with
    | (false, s1) => (s1, .ok)
    | (true, s1) =>
      match execX env w fuel body s1 with
      | (s2, .brk) => (s2, .ok)
      | (s2, .timeout) => (s2, .timeout)
      | (s2, _) =>          -- fell through or `continue`: the post clause runs, then the test again
        match execX env w fuel post s2 with
        | (s3, .ok) => execX env w fuel (.loopP c body post) s3
        | r => r
termination_by fuel st _ => (fuel, sizeOf st)
decreasing_by
  all_goals first
    | decreasing_tactic
    | (apply Prod.Lex.right
       have := swSelect_size w (evalE env w tag s).1 cs
       simp
       omega)

/-- `goEval` with `break` / `continue` / post clauses -/
def goEvalX (env : Nat → Nat → Nat) (w : Nat) (fuel : Nat) (p : Prog) : List (Nat × Nat) × Bool :=
  let r := execX env w fuel p.body {}
  (r.1.outs.reverse, decide (r.2 = .ok))

/-- no `break`, `continue` or post clause anywhere: the fragment `compile` / `exec` cover -/
def plain : Stmt → Bool
  | .seq a b => plain a && plain b
  | .ifThen _ t => plain t
  | .ifElse _ t e => plain t && plain e
  | .loop _ b => plain b
  | .brk | .cont | .loopP _ _ _ | .tassign _ | .define _ | .switch _ _ | .swCase _ _ _ | .swDefault _ => false
  | _ => true

/-- `goEval`: outputs (oldest first) of `main` within `fuel`, and whether `main` returned -/
def goEval (env : Nat → Nat → Nat) (w : Nat) (fuel : Nat) (p : Prog) : List (Nat × Nat) × Bool :=
  let r := exec env w fuel p.body {}
  (r.1.outs.reverse, r.2)

/-- outputs (oldest first) of the compiled program after at most `n` instructions, and whether it
    ran off the end of the program -/
def runCode (env : Nat → Nat → Nat) (w : Nat) (code : List Instr) (n : Nat) : List (Nat × Nat) × Bool :=
  let c := isaRun env w code n {}
  (c.outs.reverse, decide (code.length ≤ c.pc))

end BMV.Bondgo
