/-
  BMV.Regex — model of the regular-expression subset used by the `bmnumbers` matchers (C08).

  * characters are Unicode code points as `Nat` (Go's regexp works on runes; an invalid UTF-8 byte is
    read as U+FFFD, which is itself a code point, so a statement over all `List Nat` covers it);
  * atoms are character classes `cls neg ranges` (inclusive code point ranges, possibly negated):
      a literal `c`      = `cls false [(c,c)]`
      `[0-9a-f]`         = `cls false [(48,57),(97,102)]`
      `[^lL]`            = `cls true  [(76,76),(108,108)]`   (matches '\n' in Go: flag ClassNL)
      `.`                = `cls true  [(10,10)]`             (Go: any rune but '\n')
  * `plus`, `opt` are derived forms; capture groups are erased; every matcher is `^…$`, so anchors are
    implicit: `matchStr r s` is *whole string* acceptance (`regexp.MatchString` of the anchored
    expression).  The translator (tools/c08_regex2lean.py) wraps an un-anchored side with `anyNL*`.
  * `matchStr` is the executable Brzozowski-derivative matcher.
  * `verdict r₁ r₂` decides disjointness of the two languages: an (unverified) exploration of the
    product of derivatives over character-class representatives produces either a candidate witness
    or a candidate closed set of state pairs; both are then *checked* by small verified functions
    (`matchStr` on the witness, `closedCheck` on the set).  Theorems in BMV/Proofs/Regex.lean.

  Core only (no Mathlib): this file is linked into the oracle executable.
-/
namespace BMV.Regex

inductive Regex where
  | empty : Regex                                   -- ∅
  | eps   : Regex                                   -- ""
  | cls   : Bool → List (Nat × Nat) → Regex         -- negated?, inclusive code point ranges
  | cat   : Regex → Regex → Regex
  | alt   : Regex → Regex → Regex
  | star  : Regex → Regex
  deriving DecidableEq, Repr, Inhabited

namespace Regex

def chr (c : Nat) : Regex := .cls false [(c, c)]
/-- Go's `.` (no `s` flag): any rune except '\n' -/
def any : Regex := .cls true [(10, 10)]
/-- any rune, newline included (used for un-anchored sides and `(?s:.)`) -/
def anyNL : Regex := .cls true []
def plus (r : Regex) : Regex := .cat r (.star r)
def opt (r : Regex) : Regex := .alt .eps r
/-- concatenation of a list -/
def seq : List Regex → Regex
  | [] => .eps
  | [r] => r
  | r :: rs => .cat r (seq rs)
/-- a literal string given as code points -/
def lit (cs : List Nat) : Regex := seq (cs.map chr)

end Regex

open Regex

def inRanges (c : Nat) : List (Nat × Nat) → Bool
  | [] => false
  | (lo, hi) :: rs => (Nat.ble lo c && Nat.ble c hi) || inRanges c rs

/-- does the class `(neg, rs)` contain code point `c` -/
def classHas (neg : Bool) (rs : List (Nat × Nat)) (c : Nat) : Bool :=
  if neg then !(inRanges c rs) else inRanges c rs

def nullable : Regex → Bool
  | .empty => false
  | .eps => true
  | .cls _ _ => false
  | .cat a b => nullable a && nullable b
  | .alt a b => nullable a || nullable b
  | .star _ => true

/-- smart constructors: keep derivative terms small (∅ and ε units, idempotent `alt`) -/
def mkCat (a b : Regex) : Regex :=
  if a = .empty then .empty
  else if b = .empty then .empty
  else if a = .eps then b
  else if b = .eps then a
  else .cat a b

def mkAlt (a b : Regex) : Regex :=
  if a = .empty then b
  else if b = .empty then a
  else if a = b then a
  else .alt a b

/-- Brzozowski derivative by one code point -/
def deriv (c : Nat) : Regex → Regex
  | .empty => .empty
  | .eps => .empty
  | .cls n rs => if classHas n rs c then .eps else .empty
  | .cat a b =>
    if nullable a then mkAlt (mkCat (deriv c a) b) (deriv c b) else mkCat (deriv c a) b
  | .alt a b => mkAlt (deriv c a) (deriv c b)
  | .star a => mkCat (deriv c a) (.star a)

def derivs : List Nat → Regex → Regex
  | [], r => r
  | c :: cs, r => derivs cs (deriv c r)

/-- whole-string acceptance (= Go `regexp.MatchString("^…$", s)` on the runes of `s`) -/
def matchStr (r : Regex) (s : List Nat) : Bool := nullable (derivs s r)

/-! ### character-class representatives -/

/-- every range occurring in an atom of `r` -/
def atomRanges : Regex → List (Nat × Nat)
  | .empty => []
  | .eps => []
  | .cls _ rs => rs
  | .cat a b => atomRanges a ++ atomRanges b
  | .alt a b => atomRanges a ++ atomRanges b
  | .star a => atomRanges a

/-- boundary points of a list of ranges: a code point and the largest boundary below it lie in
    exactly the same ranges -/
def bounds : List (Nat × Nat) → List Nat
  | [] => []
  | (lo, hi) :: rs => lo :: (hi + 1) :: bounds rs

def insertNew (x : Nat) (l : List Nat) : List Nat := if l.elem x then l else x :: l

def dedup : List Nat → List Nat
  | [] => []
  | x :: xs => insertNew x (dedup xs)

/-- the representatives: 0 and every boundary, without duplicates -/
def repsOf (rs : List (Nat × Nat)) : List Nat := dedup (0 :: bounds rs)

def repGo (c : Nat) : Nat → List Nat → Nat
  | acc, [] => acc
  | acc, b :: bs => repGo c (if Nat.ble b c && Nat.ble acc b then b else acc) bs

/-- representative of `c`: the largest boundary `≤ c` (0 if none) -/
def repOf (bs : List Nat) (c : Nat) : Nat := repGo c 0 bs

/-! ### product exploration (unverified search) + verified checks -/

abbrev Pair := Regex × Regex

def isDead (p : Pair) : Bool := p.1 = .empty || p.2 = .empty

def succPair (c : Nat) (p : Pair) : Pair := (deriv c p.1, deriv c p.2)

inductive Explored where
  | witness (w : List Nat)
  | closed (seen : List Pair)
  | outOfFuel
  deriving Repr

/-- one expansion step: push the live, unseen successors of `p` -/
def pushSuccs (p : Pair) (path : List Nat) :
    List Nat → List (Pair × List Nat) → List Pair → List (Pair × List Nat) × List Pair
  | [], todo, seen => (todo, seen)
  | c :: cs, todo, seen =>
    let q := succPair c p
    if isDead q || seen.elem q then pushSuccs p path cs todo seen
    else pushSuccs p path cs (todo ++ [(q, c :: path)]) (q :: seen)

def explore (reps : List Nat) : Nat → List (Pair × List Nat) → List Pair → Explored
  | 0, _, _ => .outOfFuel
  | _ + 1, [], seen => .closed seen
  | n + 1, (p, path) :: todo, seen =>
    if nullable p.1 && nullable p.2 then .witness path.reverse
    else
      let (todo', seen') := pushSuccs p path reps todo seen
      explore reps n todo' seen'

def pairRanges : List Pair → List (Nat × Nat)
  | [] => []
  | p :: ps => atomRanges p.1 ++ atomRanges p.2 ++ pairRanges ps

/-- verified certificate check: no pair of `S` is accepting, and `S` is closed under the derivative
    by every representative (successors with a dead component need not be in `S`) -/
def closedCheck (S : List Pair) : Bool :=
  let reps := repsOf (pairRanges S)
  S.all fun p =>
    !(nullable p.1 && nullable p.2) &&
    reps.all fun c => let q := succPair c p; isDead q || S.elem q

inductive Verdict where
  | disjoint
  | overlap (w : List Nat)
  | unknown
  deriving DecidableEq, Repr

def defaultFuel : Nat := 4000

/-- decision procedure with fuel; `.unknown` = out of fuel or a certificate failed its check -/
def verdictFuel (fuel : Nat) (r₁ r₂ : Regex) : Verdict :=
  let reps := repsOf (atomRanges r₁ ++ atomRanges r₂)
  match explore reps fuel [((r₁, r₂), [])] [(r₁, r₂)] with
  | .witness w => if matchStr r₁ w && matchStr r₂ w then .overlap w else .unknown
  | .closed S => if S.elem (r₁, r₂) && closedCheck S then .disjoint else .unknown
  | .outOfFuel => .unknown

def verdict (r₁ r₂ : Regex) : Verdict := verdictFuel defaultFuel r₁ r₂

/-- `disjoint? r₁ r₂ = none` iff the two languages were shown disjoint; otherwise a witness
    (or `some []`-free: `.unknown` is mapped to `none`-less form by `isDisjoint`). -/
def isDisjoint (r₁ r₂ : Regex) : Bool := verdict r₁ r₂ = .disjoint

/-- all pairs `i < j` of a table are shown disjoint -/
def allDisjointFrom (r : Regex) : List Regex → Bool
  | [] => true
  | x :: xs => isDisjoint r x && allDisjointFrom r xs

def allPairsDisjoint : List Regex → Bool
  | [] => true
  | r :: rs => allDisjointFrom r rs && allPairsDisjoint rs

/-- first overlapping / undecided pair of a table with its verdict (for reporting) -/
def firstBadFrom (i : Nat) (r : Regex) : Nat → List Regex → Option (Nat × Nat × Verdict)
  | _, [] => none
  | j, x :: xs =>
    match verdict r x with
    | .disjoint => firstBadFrom i r (j + 1) xs
    | v => some (i, j, v)

def allBadFrom (i : Nat) (r : Regex) : Nat → List Regex → List (Nat × Nat × Verdict)
  | _, [] => []
  | j, x :: xs =>
    match verdict r x with
    | .disjoint => allBadFrom i r (j + 1) xs
    | v => (i, j, v) :: allBadFrom i r (j + 1) xs

def allBad : Nat → List Regex → List (Nat × Nat × Verdict)
  | _, [] => []
  | i, r :: rs => allBadFrom i r (i + 1) rs ++ allBad (i + 1) rs

/-! ### strings -/

def ofString (s : String) : List Nat := s.toList.map Char.toNat
def toString (w : List Nat) : String := String.ofList (w.map Char.ofNat)

end BMV.Regex
