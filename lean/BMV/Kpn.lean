/-
  BMV.Kpn — the abstract setting of the determinacy argument of C02: a system of agents, each a
  deterministic partial step function on the global state.  A *schedule* is the list of agents in
  the order they move; an agent that is not scheduled in a tick is stalled, so "for all stall
  patterns" is "for all schedules".  Used by BMV/Proofs/Kpn.lean (`kahn_determinate`) and
  instantiated there with the blocking-IO producer / one-place channel / consumer network that both
  worlds of a bond are meant to refine.  Core-only.
-/
namespace BMV.Kpn

structure Sys (ι σ : Type) where
  step : ι → σ → Option σ

variable {ι σ : Type}

/-- run a schedule; `none` = some scheduled agent was not enabled -/
def Sys.run (S : Sys ι σ) : List ι → σ → Option σ
  | [], s => some s
  | i :: is, s => (S.step i s).bind (S.run is)

/-- distinct agents commute and never disable each other -/
def Sys.Diamond (S : Sys ι σ) : Prop :=
  ∀ i j s s1 s2, i ≠ j → S.step i s = some s1 → S.step j s = some s2 →
    ∃ s3, S.step j s1 = some s3 ∧ S.step i s2 = some s3

/-! ### a bond as a blocking-IO network: producer ∥ one-place channel with fan-out ∥ consumers

  The producer writes the values `f 0, f 1, …` (a blocking write: enabled only when the place is
  empty); consumer `c < k` takes the value once (a blocking read: enabled only when the place is
  full and `c` has not taken it yet); the place empties when all `k` consumers have taken it —
  the conjunction of the `received` lines.  State: how many values were sent, the place, who took
  it, and every consumer's received stream. -/

structure ChanState where
  sent : Nat := 0
  full : Option Nat := none            -- the value in the place
  taken : List Bool := []               -- per consumer: took the current value
  got : List (List Nat) := []           -- per consumer: received values, oldest first
deriving DecidableEq, Repr, Inhabited

inductive Agent where
  | producer
  | consumer (c : Nat)
deriving DecidableEq, Repr

def chanInit (k : Nat) : ChanState :=
  { taken := List.replicate k false, got := List.replicate k [] }

def chanStep (f : Nat → Nat) : Agent → ChanState → Option ChanState
  | .producer, s =>
    match s.full with
    | none => some { s with sent := s.sent + 1, full := some (f s.sent) }
    | some _ => none
  | .consumer c, s =>
    match s.full, s.taken[c]?, s.got[c]? with
    | some v, some false, some g =>
      let taken := s.taken.set c true
      let got := s.got.set c (g ++ [v])
      if taken.all id then some { s with full := none, taken := taken.map (fun _ => false), got := got }
      else some { s with taken := taken, got := got }
    | _, _, _ => none

def chanSys (f : Nat → Nat) : Sys Agent ChanState := ⟨chanStep f⟩

end BMV.Kpn
