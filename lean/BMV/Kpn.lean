/-
  BMV.Kpn — the abstract setting of the determinacy argument of C02: a system of agents, each a
  deterministic partial step function on the global state.  A *schedule* is the list of agents in
  the order they move; an agent that is not scheduled in a tick is stalled, so "for all stall
  patterns" is "for all schedules".  Used by BMV/Proofs/Kpn.lean (`kahn_determinate`) and
  instantiated there with the blocking-IO producer / one-place channel / consumer network that both
  worlds of a bond are meant to refine.  Core-only.
-/
namespace BMV.Kpn

structure Sys (ι σ : Type) where
  step : ι → σ → Option σ

variable {ι σ : Type}

/-- run a schedule; `none` = some scheduled agent was not enabled -/
def Sys.run (S : Sys ι σ) : List ι → σ → Option σ
  | [], s => some s
  | i :: is, s => (S.step i s).bind (S.run is)

/-- distinct agents commute and never disable each other -/
def Sys.Diamond (S : Sys ι σ) : Prop :=
  ∀ i j s s1 s2, i ≠ j → S.step i s = some s1 → S.step j s = some s2 →
    ∃ s3, S.step j s1 = some s3 ∧ S.step i s2 = some s3

/-! ### a bond as a blocking-IO network: producer ∥ one-place channel with fan-out ∥ consumers

  The producer writes the values `f 0, f 1, …` (a blocking write: enabled only when the place is
  empty); consumer `c < k` takes the value once (a blocking read: enabled only when the place is
  full and `c` has not taken it yet); the place empties when all `k` consumers have taken it —
  the conjunction of the `received` lines.  State: how many values were sent, the place, who took
  it, and every consumer's received stream. -/

structure ChanState where
  sent : Nat := 0
  full : Option Nat := none            -- the value in the place
  taken : List Bool := []               -- per consumer: took the current value
  got : List (List Nat) := []           -- per consumer: received values, oldest first
deriving DecidableEq, Repr, Inhabited

inductive Agent where
  | producer
  | consumer (c : Nat)
deriving DecidableEq, Repr

def chanInit (k : Nat) : ChanState :=
  { taken := List.replicate k false, got := List.replicate k [] }

/-- what a consumer's take does: append the value to its stream, mark it taken; the last taker
    empties the place -/
def afterTake (s : ChanState) (c : Nat) (v : Nat) (g : List Nat) : ChanState :=
  if (s.taken.set c true).all id then
    { s with full := none, taken := (s.taken.set c true).map (fun _ => false), got := s.got.set c (g ++ [v]) }
  else { s with taken := s.taken.set c true, got := s.got.set c (g ++ [v]) }

def prodStep (f : Nat → Nat) (s : ChanState) : Option ChanState :=
  match s.full with
  | none => some { s with sent := s.sent + 1, full := some (f s.sent) }
  | some _ => none

def consStep (c : Nat) (s : ChanState) : Option ChanState :=
  match s.full, s.taken[c]?, s.got[c]? with
  | some v, some false, some g => some (afterTake s c v g)
  | _, _, _ => none

def chanStep (f : Nat → Nat) : Agent → ChanState → Option ChanState
  | .producer, s => prodStep f s
  | .consumer c, s => consStep c s

def chanSys (f : Nat → Nat) : Sys Agent ChanState := ⟨chanStep f⟩

/-! ### networks of agents over one-place channels with fan-out

  The reference ("blocking-IO") semantics of a machine.  A channel has a writer and reader *slots*;
  `sent ch` counts the values written, `cnt s` the values slot `s` has taken.  A write is enabled
  when every slot of the channel has taken everything written so far (the place is empty — the
  conjunction of the `received` lines) and there is at least one slot (nobody listening: the
  write blocks for ever, as in both worlds); slot `s` may read when it is behind (`cnt s < sent ch`: the
  place holds a value it has not taken).  Each agent is a deterministic sequential process: its
  next action is a function of its local state. -/

def upd {α β : Type} [DecidableEq α] (f : α → β) (a : α) (b : β) : α → β := fun x => if x = a then b else f x

inductive Act (L : Type) where
  | internal (l : L)
  | read (slot ch : Nat) (k : Nat → L)
  | write (ch v : Nat) (l : L)
  | blocked

structure NState (ι L : Type) where
  loc : ι → L
  sent : Nat → Nat
  val : Nat → Nat
  cnt : Nat → Nat
  got : Nat → List Nat

structure ChanNet (ι L : Type) where
  act : ι → L → Act L
  slotsOf : Nat → List Nat
  slotOwner : Nat → ι
  chanOwner : Nat → ι

def ChanNet.step {ι L : Type} [DecidableEq ι] (N : ChanNet ι L) (i : ι) (σ : NState ι L) : Option (NState ι L) :=
  match N.act i (σ.loc i) with
  | .internal l => some { σ with loc := upd σ.loc i l }
  | .blocked => none
  | .write ch v l =>
    if !(N.slotsOf ch).isEmpty && (N.slotsOf ch).all (fun s => σ.cnt s == σ.sent ch) then
      some { σ with loc := upd σ.loc i l, sent := upd σ.sent ch (σ.sent ch + 1), val := upd σ.val ch v }
    else none
  | .read s ch k =>
    if σ.cnt s < σ.sent ch then
      some { σ with loc := upd σ.loc i (k (σ.val ch)), cnt := upd σ.cnt s (σ.cnt s + 1),
                    got := upd σ.got s (σ.got s ++ [σ.val ch]) }
    else none

def ChanNet.sys {ι L : Type} [DecidableEq ι] (N : ChanNet ι L) : Sys ι (NState ι L) := ⟨N.step⟩

/-- every slot is read by one agent, every channel written by one agent, a slot belongs to one channel -/
structure ChanNet.Owned {ι L : Type} (N : ChanNet ι L) : Prop where
  read_own : ∀ i l s ch k, N.act i l = .read s ch k → N.slotOwner s = i ∧ s ∈ N.slotsOf ch
  write_own : ∀ i l ch v l', N.act i l = .write ch v l' → N.chanOwner ch = i
  slot_chan : ∀ s ch ch', s ∈ N.slotsOf ch → s ∈ N.slotsOf ch' → ch = ch'

end BMV.Kpn
