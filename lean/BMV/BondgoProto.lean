/-
  BMV.BondgoProto — the message protocol between the three goroutines of the `bondgo` compiler
  (/repo/cmd/bondgo/bondgo.go:150-229, /repo/pkg/bondgo/runinfo.go `Var_assigner`,
  /repo/pkg/bondgo/requirements.go `Usage_Monitor`).

  Core-only (no Mathlib): the oracle executable links against it.

  Go                                            model
  -------------------------------------------   -------------------------------------------
  main goroutine + BondgoCheck.Visit/Expr_eval  the *visitor*: an arbitrary finite list of `Act`s,
                                                then the exit sequence of bondgo.go:224-229
  `bg.Reqs <- VarReq{..}; <-bg.Answers`         `Act.req pre post`: a request to the assigner which
                                                sends `pre` usage notifications before it answers and
                                                `post` after it answered
  `bg.Used <- UsageNotify{..}`                  `Act.use`: a direct usage notification
  Var_assigner                                  `APc`
  Usage_Monitor                                 `MPc`
  chan VarReq / VarAns / UsageNotify / bool     unbuffered (`make(chan T)`): a transition is a
                                                rendezvous of one sender and one receiver (`Tr`)

  Request kinds of the real allocator, as `(pre, post)`:
      unchanged tree                                   with repo_patches/C12-notify-order.diff
      REQ_REMOVE, IO with Global_id 0      (0,0)       (0,0)
      REQ_NEW register / memory            (0,1)       (1,0)
      REQ_NEW input / output, Global_id≠0  (0,1)       (1,0)
      REQ_NEW channel                      (1,2)       (3,0)
      REQ_ATTACH channel                   (0,2)       (2,0)

  The Go scheduler is the parameter `sched`: which of the enabled rendezvous fires next.
-/
namespace BMV.BondgoProto

/-- what the visitor does next -/
inductive Act where
  | req (pre post : Nat)   -- `Reqs <- r; <-Answers`; the assigner notifies `pre` times, answers, notifies `post` times
  | use                    -- `Used <- n`
deriving DecidableEq, Repr

/-- program counter of `Var_assigner` -/
inductive APc where
  | idle                    -- `r := <-req`
  | pre (n post : Nat)      -- `n+1` notifications still to send before the answer
  | ans (post : Nat)        -- `resp <- VarAns{..}`
  | post (n : Nat)          -- `n+1` notifications still to send after the answer
  | fin                     -- `assignerdone <- true`
  | done
deriving DecidableEq, Repr

/-- program counter of `Usage_Monitor` -/
inductive MPc where
  | listen                  -- `notif := <-useditem`
  | fin                     -- `usagedone <- true`
  | done
deriving DecidableEq, Repr

/-- Global state.  `acts` = remaining visitor actions (head = current one); `vw` = the head request
    was sent and the visitor waits for the answer; `vx` = exit phase once `acts = []`:
    0 `Used <- TR_EXIT`, 1 `<-usagedone`, 2 `Reqs <- REQ_EXIT`, 3 `<-assignerdone`, 4 finished. -/
structure St where
  acts : List Act
  vw : Bool := false
  vx : Nat := 0
  a : APc := .idle
  m : MPc := .listen
deriving DecidableEq, Repr

/-- The rendezvous that can fire (sender → receiver on a channel). -/
inductive Tr where
  | vReq      -- visitor → assigner on Reqs (a request, or REQ_EXIT in exit phase 2)
  | aAns      -- assigner → visitor on Answers
  | vUse      -- visitor → monitor on Used (a notification, or TR_EXIT in exit phase 0)
  | aUse      -- assigner → monitor on Used
  | mDone     -- monitor → visitor on usagedone
  | aDone     -- assigner → visitor on assignerdone
deriving DecidableEq, Repr

def Tr.all : List Tr := [.vReq, .aAns, .vUse, .aUse, .mDone, .aDone]

/-- state of the assigner after it received a request -/
def afterReq (pre post : Nat) : APc :=
  match pre with
  | 0 => .ans post
  | n + 1 => .pre n post

/-- state of the assigner after it answered -/
def afterAns (post : Nat) : APc :=
  match post with
  | 0 => .idle
  | n + 1 => .post n

def init (acts : List Act) : St := { acts := acts }

def final (s : St) : Bool :=
  s.acts.isEmpty && s.vx == 4 && s.a == .done && s.m == .done

/-- One rendezvous; `none` = not enabled in `s`. -/
def step (s : St) : Tr → Option St
  | .vReq =>
    match s.acts, s.vw, s.a with
    | .req pre post :: _, false, .idle => some { s with vw := true, a := afterReq pre post }
    | [], _, .idle => if s.vx = 2 then some { s with vx := 3, a := .fin } else none
    | _, _, _ => none
  | .aAns =>
    match s.acts, s.vw, s.a with
    | .req _ _ :: rest, true, .ans post => some { s with acts := rest, vw := false, a := afterAns post }
    | _, _, _ => none
  | .vUse =>
    match s.acts, s.vw, s.m with
    | .use :: rest, false, .listen => some { s with acts := rest }
    | [], _, .listen => if s.vx = 0 then some { s with vx := 1, m := .fin } else none
    | _, _, _ => none
  | .aUse =>
    match s.a, s.m with
    | .pre 0 post, .listen => some { s with a := .ans post }
    | .pre (n + 1) post, .listen => some { s with a := .pre n post }
    | .post 0, .listen => some { s with a := .idle }
    | .post (n + 1), .listen => some { s with a := .post n }
    | _, _ => none
  | .mDone =>
    match s.acts, s.m with
    | [], .fin => if s.vx = 1 then some { s with vx := 2, m := .done } else none
    | _, _ => none
  | .aDone =>
    match s.acts, s.a with
    | [], .fin => if s.vx = 3 then some { s with vx := 4, a := .done } else none
    | _, _ => none

def enabled (s : St) : List Tr := Tr.all.filter fun t => (step s t).isSome

/-- a state in which no goroutine can move although the compiler has not finished: a hang -/
def deadlocked (s : St) : Bool := !final s && (enabled s).isEmpty

/-- run a list of rendezvous; a label that is not enabled is skipped (stutter) -/
def runTrs (s : St) : List Tr → St
  | [] => s
  | t :: ts => match step s t with
    | some s' => runTrs s' ts
    | none => runTrs s ts

/-- `Reach s s'`: `s'` is reachable from `s` by rendezvous steps -/
inductive Reach : St → St → Prop where
  | refl (s : St) : Reach s s
  | tail {s s' s'' : St} (t : Tr) : Reach s s' → step s' t = some s'' → Reach s s''

/-- run under a schedule: at step `i` the enabled rendezvous number `sched i` (mod their count)
    fires; stops early when nothing is enabled -/
def runSched (sched : Nat → Nat) : Nat → Nat → St → St
  | 0, _, s => s
  | fuel + 1, i, s =>
    match enabled s with
    | [] => s
    | t :: ts =>
      let pick := (t :: ts).getD (sched i % (ts.length + 1)) t
      match step s pick with
      | some s' => runSched sched fuel (i + 1) s'
      | none => s

/-- number of rendezvous a request still costs -/
def Act.cost : Act → Nat
  | .req pre post => 2 + pre + post
  | .use => 1

def actsCost : List Act → Nat
  | [] => 0
  | a :: as => a.cost + actsCost as

def APc.cost : APc → Nat
  | .idle => 0
  | .pre n q => n + 1 + 1 + q
  | .ans q => 1 + q
  | .post n => n + 1
  | .fin => 0
  | .done => 0

/-- ranking function: total number of rendezvous still to happen -/
def rank (s : St) : Nat :=
  (if s.vw then actsCost s.acts.tail else actsCost s.acts) + s.a.cost + (4 - s.vx)

/-- the notification order of repo_patches/C12-notify-order.diff: nothing is sent after the answer -/
def Act.fixed : Act → Bool
  | .req _ post => post == 0
  | .use => true

/-- what the fix does to a request -/
def Act.fix : Act → Act
  | .req pre post => .req (pre + post) 0
  | .use => .use

/-- the assigner is serving a request and will send nothing after the answer -/
def APc.servingFixed : APc → Bool
  | .pre _ q => q == 0
  | .ans q => q == 0
  | _ => false

/-- Invariant of the fixed protocol: which combinations of program counters occur. -/
def inv (s : St) : Bool :=
  s.acts.all Act.fixed &&
  (match s.acts with
   | .req _ _ :: _ =>
     s.vx == 0 && s.m == .listen &&
       (if s.vw then s.a.servingFixed else s.a == .idle)
   | .use :: _ => s.vx == 0 && s.vw == false && s.a == .idle && s.m == .listen
   | [] =>
     s.vw == false &&
     (match s.vx with
      | 0 => s.a == .idle && s.m == .listen
      | 1 => s.a == .idle && s.m == .fin
      | 2 => s.a == .idle && s.m == .done
      | 3 => s.a == .fin && s.m == .done
      | 4 => s.a == .done && s.m == .done
      | _ => false))

/-! ### exhaustive exploration (used by the oracle to predict `hang` for an action list) -/

def succs (s : St) : List St := Tr.all.filterMap (step s)

/-- breadth-first closure with fuel; the state space of an action list is finite and small -/
def explore : Nat → List St → List St → List St
  | 0, seen, _ => seen
  | _ + 1, seen, [] => seen
  | fuel + 1, seen, s :: todo =>
    let new := (succs s).filter fun x => !(seen.contains x) && !(todo.contains x)
    explore fuel (seen ++ new) (todo ++ new)

def reachable (acts : List Act) : List St :=
  explore (4 * (rank (init acts) + 2) * (rank (init acts) + 2)) [init acts] [init acts]

/-- some reachable state is a hang -/
def canDeadlock (acts : List Act) : Bool := (reachable acts).any deadlocked

end BMV.BondgoProto
