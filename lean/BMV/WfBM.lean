/-
  BMV.WfBM — the machine a front-end emits (`BM`) and the independent validator `WfBM : BM → Bool`
  (property C16).  The validator is written once, here, against the shared layout table
  (BMV.Arch.layout) and the generic disassembler (BMV.Encode.disasm); it is NOT derived from any
  front-end.  Core-only.

  Go                                           model
  -------------------------------------------  ---------------------------------------------
  bondmachine.Bondmachine.Rsize                BM.rsize
  .Domains[i] (*procbuilder.Machine)           BM.cps[i] : CP  (Arch fields, Program.Slocs, Data.Vars)
  .Processors ([]int, domain ids)              BM.procs
  .Inputs/.Outputs/.Internal_*/.Links          BM.topo : Topology.Topo  (procs = (N, M) per processor)

  What the validator checks (the invariants the simulator `procbuilder.VM.Step` and the HDL
  generator rely on):
    per processor   Rsize = machine Rsize, 1 ≤ Rsize; opcode list strictly sorted by name
                    (hence duplicate free); every opcode has a known layout and exists in the
                    processor's execution mode; every ROM word is exactly Max_word bits, decodes
                    (opcode index < #opcodes), and every field it mentions is in range: register
                    < 2^R, input < N, output < M, immediate < 2^Rsize, ROM address < 2^O, RAM
                    address < 2^L, jump location < 2^locBits; the bits after the last field are
                    zero; #Slocs + #Vars ≤ 2^O (ha mode); data words are Max_word bits.
    machine         every Processors entry names a domain; the topology's processor port counts
                    are the domains' (N, M); `Topology.wfB`; shared objects: one link list per
                    processor, links name existing objects, `Shared_constraints` = the objects
                    the links name (in order), every shared-object opcode finds an object of its
                    kind.
  Separately, `CfClosed`: every *jump target* of a `ha`-mode processor is ≤ program length (the
  simulator rejects a program counter beyond that).  A source with a literal target inside the
  ROM but beyond the program is accepted by the tools; such a machine is `WfBM` but not `CfClosed`.
-/
import BMV.Encode
import BMV.Topology
namespace BMV
open BMV.Bits

structure CP where
  arch : Arch
  prog : List Bits
  data : List Bits := []
  shared : Bool := false     -- the processor has shared objects attached (outside the layout table)
  sharedC : List String := []  -- Arch.Shared_constraints, split at ","  (e.g. "queue:8")
  mwDecl : Nat := 0          -- Max_word() as the Go code computes it (0 = not given); used only when an opcode is outside the layout table
deriving DecidableEq, Repr, Inhabited

structure BM where
  rsize : Nat
  cps : List CP
  procs : List Nat
  topo : Topology.Topo
  sos : List String := []          -- Shared_objects (String() of each instance, e.g. "queue:8")
  solinks : List (List Nat) := []  -- Shared_links: per processor, the shared objects attached to it
deriving DecidableEq, Repr, Inhabited

namespace WfBM

/-- opcodes whose numeric operand is a control-flow target in the ROM (`ha` execution mode) -/
def isJump (op : String) : Bool :=
  op ∈ ["j", "jz", "jc", "jo", "jcmpl", "jcmpo", "jgt0f", "saj"]

/-- strictly increasing by name: what `sort.Sort(procbuilder.ByName(…))` over a duplicate-free set
    gives, and what `Decode_opcode`/`Opcodes_bits` assume -/
def sortedStrict : List String → Bool
  | [] => true
  | [_] => true
  | a :: b :: rest => decide (a < b) && sortedStrict (b :: rest)

/-- one operand against its field: in range for the architecture -/
def operandOk (a : Arch) : FieldKind → Operand → Bool
  | .reg, .reg k => decide (k < 2 ^ a.r)
  | .inp, .inp k => decide (k < a.n)
  | .out, .out k => decide (k < a.m)
  | .imm, .num v => decide (v < 2 ^ a.rsize)
  | .rom, .num v => decide (v < 2 ^ a.o)
  | .ram, .num v => decide (v < 2 ^ a.l)
  | .loc, .num v => decide (v < 2 ^ a.locBits)
  | .locO, .num v => decide (v < 2 ^ a.width .locO)
  | .const w, .num v => decide (v < 2 ^ w)
  | .so kind short, .so s k => decide (s = short ∧ k < a.sharedNum kind)
  | _, _ => false

def operandsOk (a : Arch) : List FieldKind → List Operand → Bool
  | [], [] => true
  | f :: fs, x :: xs => operandOk a f x && operandsOk a fs xs
  | _, _ => false

/-- one ROM word: exact width, decodable, every field in range, and nothing but zeros after the
    last field (a wider-than-field operand that spills into the padding keeps the word length) -/
def wordOk (a : Arch) (w : Bits) : Bool :=
  w.length == a.maxWord &&
  match Encode.disasm a w with
  | none => false
  | some i =>
    match layout i.op with
    | none => false
    | some fs => modeOk i.op a.mode && operandsOk a fs i.args &&
                 (w.drop (a.opBits + (fs.map a.width).sum)).all (fun b => !b)

/-- control-flow closure of one word: a jump target of a `ha`-mode processor is an instruction of
    the program or the address just past it (where the simulator halts) -/
def targetOk (a : Arch) (plen : Nat) (op : String) : FieldKind → Operand → Bool
  | .rom, .num v => !(isJump op && a.mode == .ha) || decide (v ≤ plen)
  | .loc, .num v => !(isJump op && a.mode == .ha) || decide (v ≤ plen)
  | .locO, .num v => !(isJump op && a.mode == .ha) || decide (v ≤ plen)
  | _, _ => true

def targetsOk (a : Arch) (plen : Nat) (op : String) : List FieldKind → List Operand → Bool
  | f :: fs, x :: xs => targetOk a plen op f x && targetsOk a plen op fs xs
  | _, _ => true

def wordCf (a : Arch) (plen : Nat) (w : Bits) : Bool :=
  match Encode.disasm a w with
  | none => true
  | some i =>
    match layout i.op with
    | none => true
    | some fs => targetsOk a plen i.op fs i.args

/-- the kind of shared object an opcode talks to -/
def soKind (op : String) : Option String :=
  if op ∈ ["q2r", "r2q"] then some "queue"
  else if op ∈ ["t2r", "r2t"] then some "stack"
  else if op = "k2r" then some "kbd"
  else if op = "lfsr82r" then some "lfsr8"
  else if op ∈ ["u2r", "r2u"] then some "uart"
  else if op ∈ ["r2v", "r2vri"] then some "vtextmem"
  else if op ∈ ["wrd", "wwr", "chc", "chw"] then some "channel"
  else if op = "hit" then some "barrier"
  else none

/-- every opcode that talks to a shared object finds one of its kind among the processor's -/
def soOpsServed (cp : CP) : Bool :=
  cp.arch.ops.all fun op =>
    match soKind op with
    | none => true
    | some k => cp.sharedC.any fun c => c.startsWith (k ++ ":") || c == k

def opsKnown (a : Arch) : Bool := a.ops.all fun op => (layout op).isSome && modeOk op a.mode

def romFits (cp : CP) : Bool :=
  match cp.arch.mode with
  | .ha => decide (cp.prog.length + cp.data.length ≤ 2 ^ cp.arch.o)
  | _ => true

def wfCP (rsize : Nat) (cp : CP) : Bool :=
  cp.arch.rsize == rsize && decide (1 ≤ cp.arch.rsize) &&
  sortedStrict cp.arch.ops && opsKnown cp.arch &&
  cp.prog.all (wordOk cp.arch) &&
  cp.data.all (fun w => w.length == cp.arch.maxWord) &&
  romFits cp

/-- (N, M) of each processor, from its domain -/
def procPorts (bm : BM) : List (Option (Nat × Nat)) :=
  bm.procs.map fun d => (bm.cps[d]?).map fun cp => (cp.arch.n, cp.arch.m)

def wfTopo (bm : BM) : Bool :=
  procPorts bm == bm.topo.procs.map some && Topology.wfB bm.topo

/-- shared objects: one link list per processor, every link names an existing object, and a
    processor's `Shared_constraints` is exactly the list of the objects its links name, in order
    (the HDL generator and the simulator build the SO ports from the constraints and wire them
    through the links) -/
def wfShared (bm : BM) : Bool :=
  bm.solinks.length == bm.procs.length &&
  bm.solinks.all (fun ls => ls.all fun i => decide (i < bm.sos.length)) &&
  (bm.procs.zip bm.solinks).all (fun (d, ls) =>
    match bm.cps[d]? with
    | some cp => cp.sharedC == ls.filterMap (fun i => bm.sos[i]?)
    | none => false) &&
  bm.cps.all soOpsServed

end WfBM

/-- the validator -/
def WfBM (bm : BM) : Bool :=
  bm.cps.all (WfBM.wfCP bm.rsize) && WfBM.wfTopo bm && WfBM.wfShared bm

/-- control-flow closure (reported separately: it is not part of the property's statement, but it
    is what the simulator additionally needs — a program counter beyond the program is an error) -/
def CfClosed (bm : BM) : Bool :=
  bm.cps.all fun cp => cp.prog.all (WfBM.wordCf cp.arch cp.prog.length)

namespace WfBM

/-- named verdict per check, for the evidence (which invariant an instance violates) -/
def explainCP (rsize : Nat) (cp : CP) : List String :=
  (if cp.arch.rsize == rsize then [] else ["rsize-mismatch"]) ++
  (if decide (1 ≤ cp.arch.rsize) then [] else ["rsize-zero"]) ++
  (if sortedStrict cp.arch.ops then [] else ["ops-not-strictly-sorted"]) ++
  (if opsKnown cp.arch then [] else ["opcode-unmodelled-or-wrong-mode"]) ++
  (if cp.prog.all (fun w => w.length == cp.arch.maxWord) then [] else ["rom-word-width"]) ++
  (if cp.prog.all (wordOk cp.arch) then [] else ["rom-word-field-or-decode"]) ++
  (if cp.data.all (fun w => w.length == cp.arch.maxWord) then [] else ["data-word-width"]) ++
  (if romFits cp then [] else ["rom-too-small"])

def explain (bm : BM) : List String :=
  (bm.cps.zipIdx.flatMap fun (cp, i) => (explainCP bm.rsize cp).map fun s => s!"cp{i}:{s}") ++
  (if wfShared bm then [] else ["shared-objects-links-constraints"]) ++
  (bm.cps.zipIdx.flatMap fun (cp, i) =>
    if cp.mwDecl != 0 && !(opsKnown cp.arch) && !(cp.prog.all fun w => w.length == cp.mwDecl) then [s!"cp{i}:rom-word-width-vs-declared"] else []) ++
  (if procPorts bm == bm.topo.procs.map some then [] else ["topology-ports"]) ++
  (if Topology.wfB bm.topo then [] else ["topology-wf"])

end WfBM
end BMV
