/-
  BMV.SchedSim — scheduling model of the simulator (property C09).

  What is modelled (pkg/bondmachine/vm.go `VM.Step` / `Processor_execute`, pkg/procbuilder/vm.go
  `VM.Step`, the opcode singletons of pkg/procbuilder/machine.go):

  * every processor has private state (`PState`: pc, registers, per-VM extra state) and a step
    function; `Globals` is the state that lives *outside* any VM in the Go code (the pipeline phase
    cells behind the pointers stored in the process-wide opcode objects);
  * one tick of a machine (`stepSched`) = data movement `pre`, then every worker steps once in the
    order given by the `Schedule` (the Go scheduler), then data movement `post` — the token/answer
    barrier of `VM.Step`;
  * several simulations in one process = a product of machines sharing `Globals`, driven by an
    arbitrary interleaving of their events (`Ev`);
  * the channel protocol of the barrier itself is the transition system `Barrier` below.

  The second half is a small concrete ISA (rset/inc/add/addp/multp/nop/j/r2o) used by the oracle
  to predict digests and by the counterexample `globals_break_it`.
  Core only (compiled into oracle-c09).
-/
namespace BMV.SchedSim

/-! ## abstract processors, schedules, products -/

abbrev Globals := List Nat
abbrev PState := List Nat
abbrev Proc := Globals → PState → Globals × PState
abbrev Cells := Nat → PState

/-- the step neither reads nor writes `Globals` -/
def GlobalsFree (p : Proc) : Prop := ∀ g s, p g s = (g, (p [] s).2)

def upd {α : Type} (f : Nat → α) (i : Nat) (v : α) : Nat → α := fun j => if j = i then v else f j

structure BmState where
  cells : Cells
  wires : PState      -- registers of the bonds / external IO (touched only by data movement)

structure Machine where
  n : Nat
  proc : Nat → Proc
  pre : BmState → BmState     -- pre-compute data movement of VM.Step
  post : BmState → BmState    -- post-compute data movement of VM.Step

/-- the order in which the workers execute their step inside one tick -/
abbrev Schedule := List Nat

/-- every worker exactly once -/
def Complete (n : Nat) (σ : Schedule) : Prop := σ.Nodup ∧ ∀ i, i ∈ σ ↔ i < n

def stepOne (m : Machine) (gc : Globals × Cells) (i : Nat) : Globals × Cells :=
  let r := m.proc i gc.1 (gc.2 i)
  (r.1, upd gc.2 i r.2)

/-- one `VM.Step`: all tokens out, each worker steps (order = σ), all answers in, then movement -/
def stepSched (m : Machine) (σ : Schedule) (g : Globals) (st : BmState) : Globals × BmState :=
  let st1 := m.pre st
  let r := σ.foldl (stepOne m) (g, st1.cells)
  (r.1, m.post { st1 with cells := r.2 })

/-- events of a process that runs several simulations (index a) at once -/
inductive Ev
  | pre (a : Nat)
  | step (a i : Nat)
  | post (a : Nat)
  deriving DecidableEq, Repr

def Ev.sim : Ev → Nat
  | .pre a | .step a _ | .post a => a

/-- one event on one simulation -/
def evApply1 (m : Machine) (gs : Globals × BmState) : Ev → Globals × BmState
  | .pre _ => (gs.1, m.pre gs.2)
  | .step _ i =>
    let r := m.proc i gs.1 (gs.2.cells i)
    (r.1, { gs.2 with cells := upd gs.2.cells i r.2 })
  | .post _ => (gs.1, m.post gs.2)

def runEvs1 (m : Machine) (gs : Globals × BmState) (evs : List Ev) : Globals × BmState :=
  evs.foldl (evApply1 m) gs

/-- one event on the product: only the addressed simulation's state and `Globals` can change -/
def evApply (ms : Nat → Machine) (gS : Globals × (Nat → BmState)) (e : Ev) : Globals × (Nat → BmState) :=
  let r := evApply1 (ms e.sim) (gS.1, gS.2 e.sim) e
  (r.1, upd gS.2 e.sim r.2)

def runEvs (ms : Nat → Machine) (gS : Globals × (Nat → BmState)) (evs : List Ev) :
    Globals × (Nat → BmState) :=
  evs.foldl (evApply ms) gS

/-- the events of one tick of simulation a under schedule σ -/
def tickEvents (a : Nat) (σ : Schedule) : List Ev := [.pre a] ++ σ.map (.step a) ++ [.post a]

/-! ## the channel protocol of the barrier (VM.Step ↔ Processor_execute)

  main:    pre-movement; for i: send_chans[i] <- 1; loop { i := <-recv_chan; <-result_chans[i] }
           until all answered; post-movement
  worker:  loop { <-instruct; Step; resp <- procId; resultChan <- result }
  All channels are unbuffered: a send and its receive are one joint transition. -/

inductive WSt
  | idle        -- blocked on `<-instruct`
  | stepping    -- inside procbuilder.VM.Step: touches vm.Processors[i]
  | answering   -- blocked on `resp <- procId`
  | resulting   -- blocked on `resultChan <- result`
  deriving DecidableEq, Repr

inductive MainPc
  | pre                      -- pre-compute data movement (touches every processor's IO)
  | sending (k : Nat)        -- k tokens handed out
  | collecting (c : Nat)     -- c workers fully answered, blocked on `<-recv_chan`
  | waitResult (c i : Nat)   -- got i's id, blocked on `<-result_chans[i]`
  | moving                   -- post-compute data movement
  deriving DecidableEq, Repr

structure BSt where
  main : MainPc
  ws : List WSt
  deriving DecidableEq, Repr

inductive BAct
  | startTick           -- main: pre-movement done, start handing out tokens
  | token               -- main sends the next token, worker k receives it
  | finish (i : Nat)    -- worker i finishes its Step
  | answer (i : Nat)    -- worker i sends its id, main receives it
  | result (i : Nat)    -- worker i sends its result, main receives it
  | endTick             -- main: post-movement done, next tick begins
  deriving DecidableEq, Repr

def getW : List WSt → Nat → Option WSt
  | [], _ => none
  | w :: _, 0 => some w
  | _ :: ws, i + 1 => getW ws i

def setW : List WSt → Nat → WSt → List WSt
  | [], _, _ => []
  | _ :: ws, 0, x => x :: ws
  | w :: ws, i + 1, x => w :: setW ws i x

def binit (P : Nat) : BSt := ⟨.pre, List.replicate P .idle⟩

/-- the protocol's transition function (`none` = the joint transition is not enabled) -/
def bstep (s : BSt) : BAct → Option BSt
  | .startTick =>
    match s.main with
    | .pre => some { s with main := if s.ws.length = 0 then .moving else .sending 0 }
    | _ => none
  | .token =>
    match s.main with
    | .sending k =>
      if getW s.ws k = some .idle then
        some ⟨if k + 1 = s.ws.length then .collecting 0 else .sending (k + 1), setW s.ws k .stepping⟩
      else none
    | _ => none
  | .finish i =>
    if getW s.ws i = some .stepping then some { s with ws := setW s.ws i .answering } else none
  | .answer i =>
    match s.main with
    | .collecting c =>
      if getW s.ws i = some .answering then some ⟨.waitResult c i, setW s.ws i .resulting⟩ else none
    | _ => none
  | .result i =>
    match s.main with
    | .waitResult c j =>
      if i = j ∧ getW s.ws i = some .resulting then
        some ⟨if c + 1 = s.ws.length then .moving else .collecting (c + 1), setW s.ws i .idle⟩
      else none
    | _ => none
  | .endTick =>
    match s.main with
    | .moving => some { s with main := .pre }
    | _ => none

/-- states reachable by any interleaving of the channel operations -/
inductive BReach (P : Nat) : BSt → Prop
  | init : BReach P (binit P)
  | step {s s' : BSt} (a : BAct) : BReach P s → bstep s a = some s' → BReach P s'

/-- main is moving data (touches the IO registers of every processor) -/
def MainPc.isMovement : MainPc → Bool
  | .pre | .moving => true
  | _ => false

/-! ## a small concrete ISA (for the oracle and the counterexample) -/

inductive Op
  | rset (r v : Nat)
  | inc (r : Nat)
  | add (r s : Nat)
  | addp (r s : Nat)     -- pipelined add: two ticks, the phase cell decides which half runs
  | multp (r s : Nat)
  | nop
  | j (a : Nat)
  | r2o (r : Nat)
  deriving DecidableEq, Repr

/-- layout of a processor's private state: [pc, out, phaseAddp, phaseMultp, r0, r1, r2, r3] -/
def coreInit : PState := [0, 0, 0, 0, 0, 0, 0, 0]

def lget (l : List Nat) (i : Nat) : Nat := l.getD i 0
def lset (l : List Nat) (i v : Nat) : List Nat := if i < l.length then l.set i v else l

def regIx (r : Nat) : Nat := 4 + r % 4

/-- where the pipeline phases live: `inGlobals` lists the opcodes whose phase is kept in the shared
    opcode object (cell 0 = addp, cell 1 = multp of `Globals`) rather than in the VM -/
structure Dom where
  addp : Bool
  multp : Bool
  deriving DecidableEq, Repr

def gInit : Globals := [0, 0]

/-- a pipelined binary operation: first call arms the phase, second call computes -/
def pipelined (glob : Bool) (gcell lcell : Nat) (f : Nat → Nat → Nat) (mod r s : Nat)
    (g : Globals) (c : PState) : Globals × PState :=
  let phase := if glob then lget g gcell else lget c lcell
  if phase = 0 then
    if glob then (lset g gcell 1, c) else (g, lset c lcell 1)
  else
    let c1 := lset c (regIx r) (f (lget c (regIx r)) (lget c (regIx s)) % mod)
    let c2 := lset c1 0 (lget c 0 + 1)
    if glob then (lset g gcell 0, c2) else (g, lset c2 lcell 0)

def exec (dom : Dom) (mod : Nat) (op : Op) (g : Globals) (c : PState) : Globals × PState :=
  let pc := lget c 0
  match op with
  | .rset r v => (g, lset (lset c (regIx r) (v % mod)) 0 (pc + 1))
  | .inc r => (g, lset (lset c (regIx r) ((lget c (regIx r) + 1) % mod)) 0 (pc + 1))
  | .add r s => (g, lset (lset c (regIx r) ((lget c (regIx r) + lget c (regIx s)) % mod)) 0 (pc + 1))
  | .addp r s => pipelined dom.addp 0 2 (· + ·) mod r s g c
  | .multp r s => pipelined dom.multp 1 3 (· * ·) mod r s g c
  | .nop => (g, lset c 0 (pc + 1))
  | .j a => (g, lset c 0 a)
  | .r2o r => (g, lset (lset c 1 (lget c (regIx r))) 0 (pc + 1))

/-- one processor step: fetch at pc; past the end of the program the processor is halted -/
def isaProc (dom : Dom) (mod : Nat) (prog : List Op) : Proc := fun g c =>
  match prog[lget c 0]? with
  | some op => exec dom mod op g c
  | none => (g, c)

/-- a machine of independent cores (no bonds: movement is the identity) -/
def isaMachine (dom : Dom) (mod : Nat) (progs : List (List Op)) : Machine :=
  { n := progs.length
    proc := fun i => isaProc dom mod (progs.getD i [])
    pre := id
    post := id }

def isaInit : BmState := ⟨fun _ => coreInit, []⟩

/-- run T ticks under the same schedule every tick; returns Globals and the cells of cores 0..n-1 -/
def isaRun (dom : Dom) (mod : Nat) (progs : List (List Op)) (σ : Schedule) (g : Globals) :
    Nat → BmState → Globals × BmState
  | 0, st => (g, st)
  | t + 1, st =>
    let r := isaRun dom mod progs σ g t st
    stepSched (isaMachine dom mod progs) σ r.1 r.2

def usesPipelined (dom : Dom) (prog : List Op) : Bool :=
  prog.any fun op => match op with
    | .addp _ _ => dom.addp
    | .multp _ _ => dom.multp
    | _ => false

end BMV.SchedSim
