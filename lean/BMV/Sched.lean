/-
  BMV.Sched — nondeterminism as data (core only; DESIGN.md 5.4).

  Go randomises the iteration order of every `range` over a map, per process and per loop.  A
  theorem cannot quantify over "what the runtime does", so every modelled map walk takes the
  iteration order as an explicit argument: a list `π` that is a permutation (`List.Perm`) of the
  map's entries.  "The result does not depend on map order" is then
      ∀ π₁ π₂, π₁ ~ entries → π₂ ~ entries → f π₁ = f π₂.

  This file holds the executable definitions (walks, first match, insertion sort, framed state
  updates) and the concrete models of the Go loops that property C07 is about; lemmas are in
  BMV/Proofs/Sched.lean, property theorems in BMV/Props/C07.lean.
-/
namespace BMV.Sched

/-! ## generic walks -/

/-- `for e := range m { s = step s e }` under iteration order `order` -/
def walk {σ α : Type} (step : σ → α → σ) (init : σ) (order : List α) : σ :=
  order.foldl step init

/-- a walk whose body may `return err`: the failure test of an entry does not look at the state
    (it is local to the entry), the first failing entry aborts the whole walk -/
def stepE {σ α : Type} (fails : α → Bool) (step : σ → α → σ) (os : Option σ) (e : α) : Option σ :=
  match os with
  | none => none
  | some s => if fails e then none else some (step s e)

def walkE {σ α : Type} (fails : α → Bool) (step : σ → α → σ) (init : σ) (order : List α) : Option σ :=
  order.foldl (stepE fails step) (some init)

/-- `for e := range m { if p e { return g e } }` -/
def firstMatch {α β : Type} (p : α → Bool) (g : α → β) (order : List α) : Option β :=
  (order.find? p).map g

/-! ## insertion sort (structural, so that `decide` can run it) -/

def insertSorted {α : Type} (le : α → α → Bool) (a : α) : List α → List α
  | [] => [a]
  | b :: l => if le a b then a :: b :: l else b :: insertSorted le a l

def isort {α : Type} (le : α → α → Bool) : List α → List α
  | [] => []
  | a :: l => insertSorted le a (isort le l)

/-! ## framed updates of a keyed store (`par_step_frame`) -/

/-- a store: total function from cells to values (a Go map with a default, a struct of fields…) -/
abbrev Store (K V : Type) := K → V

def Store.set {K V : Type} [DecidableEq K] (s : Store K V) (k : K) (v : V) : Store K V :=
  fun c => if c = k then v else s c

/-- `f` touches only the cells of footprint `fp`, and what it writes there depends only on what
    those cells held (it may read anything that is not part of the store: the ranged entry, the
    program text, constants) -/
structure FrameStep {K V : Type} (fp : K → Bool) (f : Store K V → Store K V) : Prop where
  outside : ∀ s c, fp c = false → f s c = s c
  inside : ∀ s t, (∀ c, fp c = true → s c = t c) → ∀ c, fp c = true → f s c = f t c

/-! ## the inventory row type shared with the regenerated table `BMV.Gen.MapRanges` -/

/-- one site found by the extractor (`harness/cmd/c07`): identity string
    `kind|file|function|expression|ordinal` and the syntactic class of the loop body (a sorted
    list of flags; `[]` for clock / rand / env / go sites).  `key` = `siteKey id cls`, computed by
    the extractor: the kernel compares keys, not strings (string equality in the kernel costs
    about 0.1 s per pair) -/
structure Site where
  key : Nat
  id : String
  cls : List String
deriving DecidableEq, Repr

/-- FNV-1a, 64 bit, of the UTF-8 bytes of a string -/
def fnv64 (s : String) : Nat :=
  s.toUTF8.foldl (fun h b => ((h ^^^ b.toNat) * 0x100000001b3) % 18446744073709551616) 0xcbf29ce484222325

/-- the key of a site / table row: hash of `<identity>#<flag>+<flag>…` -/
def siteKey (id : String) (cls : List String) : Nat := fnv64 (id ++ "#" ++ "+".intercalate cls)

/-- THE GENERIC RULE.  A map walk of the shape "append the keys (or the values) to a fresh local
    slice of strings / integers / floats, then sort that slice with a LIBRARY sort by the natural order
    (sort.Strings / Ints / Float64s, slices.Sort, slices.Sorted(maps.Keys m)) before any other use" is
    order insensitive wherever it lives (theorem `BMV.Props.C07.sorted_after_det`: sorting a
    permutation gives the same list).  The extractor recognises the shape (class `sortedkeys`) and
    gives every such site this one key = `siteKey "*" ["sortedkeys"]`; such sites need no table row,
    so moving the code into a helper or between functions changes nothing.  Sorts with a custom
    comparator never qualify (kind `sortcmp`, reviewed by hand). -/
def sortedKeysKey : Nat := 0xdb9074ea89132dc3

/-! ## concrete models of the Go loops (each cites file:function) -/

/-- pkg/bmnumbers/import.go:ImportString
    ```go
    for k, v := range AllMatchers { re := regexp.MustCompile(k); if re.MatchString(input) { return v(re, input) } }
    return nil, errors.New("unknown number format " + input)
    ```
    `K` = the regex source (the map key), `acc k x` = "regex k matches x", `imp k x` = the importer
    registered under k applied to x.  `none` = the "unknown number format" error. -/
def importString {K I R : Type} (acc : K → I → Bool) (imp : K → I → R) (order : List K) (x : I) : Option R :=
  firstMatch (fun k => acc k x) (fun k => imp k x) order

/-- kinds of code container whose labels `symbolTagger` records -/
inductive SKind | rom | ram | frag
deriving DecidableEq, Repr

/-- a section or fragment as `symbolTagger` sees it: its name (the map key), whether it is a text
    section, and per line the labels attached to it (`line.GetMeta("symbol")` split on ":") -/
structure Sect where
  name : String
  kind : SKind
  isText : Bool
  labels : List (List String)
deriving Repr

/-- symbol table key; Go builds the string `"rom."+sectName+"."+symbol`; the model keeps the
    triple (the string is injective in the triple when names contain no '.', an assumption of
    the tie recorded in docs/C07.md) -/
abbrev SymKey := SKind × String × String

abbrev SymTab := Store SymKey (Option Nat)

/-- labels of one container with their line numbers, in source order -/
def Sect.numbered (s : Sect) : List (String × Nat) :=
  let rec go (ls : List (List String)) (i : Nat) : List (String × Nat) :=
    match ls with
    | [] => []
    | l :: rest => l.map (fun sym => (sym, i)) ++ go rest (i + 1)
  go s.labels 0

/-- "symbol is specified multiple time" -/
def Sect.hasDup (s : Sect) : Bool :=
  let rec dup : List String → Bool
    | [] => false
    | a :: l => l.contains a || dup l
  s.isText && dup (s.numbered.map (·.1))

/-- the writes of one iteration of pkg/basm/symboltagger.go:symbolTagger (both loops have this
    body): `bi.symbols[symbolPrefix+symbol] = int64(i)` for every label of the container -/
def Sect.tag (s : Sect) (t : SymTab) : SymTab :=
  if s.isText then
    s.numbered.foldl (fun t p => t.set (s.kind, s.name, p.1) (some p.2)) t
  else t

/-- pkg/basm/symboltagger.go:symbolTagger — `for sectName, section := range bi.sections {…}`
    (and the same over `bi.fragments`) under iteration order `order`; `none` = the pass returned
    the duplicate-symbol error -/
def symbolTagger (order : List Sect) (t : SymTab) : Option SymTab :=
  walkE Sect.hasDup (fun t s => s.tag t) t order

/-- A pass that ranges over `bi.sections` / `bi.fragments` / `bi.macros` and rewrites only the
    ranged element (pkg/basm: templateAutoMark, fragmentOptimizer, fragmentAnalyzer,
    callResolver, macroResolver, metadataInfer, symbolResolver, templateFinalizer,
    dynamicalInstructions: `section.sectionBody = …`, `body.Lines[i] = …` on the ranged section) and
    may fail on an entry (`return err`).  `rewrite name body` is the new body, `fails` the error
    test; both look only at the ranged entry. -/
def sectionsWalk {B : Type} (fails : String → B → Bool) (rewrite : String → B → B)
    (order : List String) (secs : Store String B) : Option (Store String B) :=
  walkE (fun n => fails n (secs n)) (fun st n => st.set n (rewrite n (st n))) secs order

/-- pkg/bmreqs: a requirement set is a Go map used as a set; `Requirement{Op: OpAdd}` inserts.
    Membership function model: inserting is setting the cell to true. -/
def reqInsert (s : Store String Bool) (v : String) : Store String Bool := s.set v true

/-- pkg/bmreqs/objectset.go:getReqs — the keys of the set in map order, joined by ","; the
    model keeps the list (strings.Join / strings.Split are inverse on comma-free, non-empty
    names: trusted library behaviour) -/
def getReqs (order : List String) : List String := order

/-- what the callers of `getReqs` / `OpGet` do with the comma list -/
inductive Consumer (ρ : Type) where
  /-- `sort.Strings(l)` / `sort.Sort(ByName(..))` first, then anything -/
  | sorted (le : String → String → Bool) (k : List String → ρ)
  /-- only asks whether a name is in the list -/
  | member (x : String) (k : Bool → ρ)
  /-- only asks how many there are -/
  | count (k : Nat → ρ)
  /-- inserts every element into another requirement set (Clone / importReqs) -/
  | reinsert (k : Store String Bool → ρ)

def Consumer.eval {ρ : Type} : Consumer ρ → List String → ρ
  | .sorted le k, l => k (isort le l)
  | .member x k, l => k (l.contains x)
  | .count k, l => k l.length
  | .reinsert k, l => k (walk reqInsert (fun _ => false) l)

/-- pkg/basm/creatorbm.go:CreateConnectingProcessor — the opcode names come out of the
    requirement set as an unordered list and are sorted (`sort.Sort(ByName(opCodes))`) before
    they are numbered; the opcode numbering is the position in the sorted list -/
def opcodeNumbering (le : String → String → Bool) (order : List String) : List String :=
  isort le (getReqs order)

/-- pkg/neuralbond/neuralbond.go:WriteBasm, last loop (unchanged tree):
    `for node := range ProcessedNodes { result += fmt.Sprintf("%%meta cpdef %s fragcollapse:%s\n", node, node) }` -/
def cpdefLines (order : List String) : List String :=
  walk (fun acc n => acc ++ ["%meta cpdef " ++ n ++ " fragcollapse:" ++ n]) [] order

/-- the same loop after the proposed fix (keys sorted first) -/
def cpdefLinesSorted (le : String → String → Bool) (order : List String) : List String :=
  cpdefLines (isort le order)

/-- pkg/basm/matcherresolver.go:matcherResolver — `for k := range sectAlts { secAltsKeys = append(secAltsKeys, k) … }`:
    the alternatives of a section are numbered by the position of their choice key in the list
    built by the walk -/
def altKeys (order : List String) : List String :=
  walk (fun acc k => acc ++ [k]) [] order

def altKeysSorted (le : String → String → Bool) (order : List String) : List String :=
  altKeys (isort le order)

end BMV.Sched
