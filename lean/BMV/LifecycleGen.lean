/-
  BMV.LifecycleGen — instantiates the lifecycle model (BMV.Lifecycle) with what the Go source says
  today (BMV/Gen/GoStmts.lean, regenerated on every run): which creation sites have an exit path
  and which launching functions call Shutdown.  Core only (compiled into oracle-c17).
-/
import BMV.Lifecycle
import BMV.Gen.GoStmts
namespace BMV.Lifecycle
open BMV.Gen.GoStmts

/-- the `go` statements of the source that create workers of kind k (matched through `sites`) -/
def stmtsOf (k : Kind) : List GoStmt :=
  goStmts.filter fun g => sites.any fun s =>
    s.kind == k && s.file == g.file && s.encl == g.encl && s.callee == g.callee

/-- kind k has an exit path iff there is a statement creating it and every such statement spawns a
    function with a known exit path (unknown = no) -/
def genExit (k : Kind) : Bool :=
  !(stmtsOf k).isEmpty && (stmtsOf k).all fun g => g.exit == some true

/-- the lifecycle configuration of the current tree -/
def genCfg : Cfg := ⟨genExit .proc, genExit .disp, genExit .emu, genExit .req, genExit .pool⟩

/-- does the launching function `fn` call Shutdown in the current tree? -/
def genShut (fn : String) : Bool :=
  launchers.any fun (_, f, sh) => f == fn && sh

end BMV.Lifecycle
