/-
  BMV.Vlog.Sexp — reader for the one-line S-expressions written by /verif/harness/vlog (`ToSexp`).

      sexp  ::= atom | string | '(' sexp* ')'
      atom  ::= any run of characters other than blanks, parentheses and '"'
      string::= '"' ( char | '\"' | '\\' | '\xHH' )* '"'

  Core-only.  The reader is total (token list + explicit stack, structural recursion only).
  Part of the trusted base (DESIGN.md section 4).
-/
namespace BMV.Vlog

inductive Sexp where
  | atom (s : String)
  | str (s : String)
  | list (xs : List Sexp)
deriving Repr, Inhabited, BEq

inductive Tok where
  | lp | rp
  | atom (s : String)
  | str (s : String)
deriving Repr, BEq

namespace Sexp

private def hexVal (c : Char) : Nat :=
  if '0' ≤ c ∧ c ≤ '9' then c.toNat - '0'.toNat
  else if 'a' ≤ c ∧ c ≤ 'f' then c.toNat - 'a'.toNat + 10
  else if 'A' ≤ c ∧ c ≤ 'F' then c.toNat - 'A'.toNat + 10 else 0

/-- lexer state: `mode` 0 = between tokens, 1 = inside an atom, 2 = inside a string,
    3 = after a backslash in a string, 4/5 = the two hex digits of `\xHH` -/
private structure LexSt where
  mode : Nat := 0
  cur : List Char := []      -- reversed
  hex : Nat := 0
  out : Array Tok := #[]
  err : Option String := none

private def flushAtom (s : LexSt) : LexSt :=
  if s.mode == 1 then { s with mode := 0, cur := [], out := s.out.push (.atom (String.ofList s.cur.reverse)) } else s

private def lexStep (s : LexSt) (c : Char) : LexSt :=
  if s.err.isSome then s else
  match s.mode with
  | 2 =>
    if c == '\\' then { s with mode := 3 }
    else if c == '"' then { s with mode := 0, cur := [], out := s.out.push (.str (String.ofList s.cur.reverse)) }
    else { s with cur := c :: s.cur }
  | 3 =>
    if c == 'x' then { s with mode := 4 } else { s with mode := 2, cur := c :: s.cur }
  | 4 => { s with mode := 5, hex := hexVal c }
  | 5 => { s with mode := 2, cur := Char.ofNat (s.hex * 16 + hexVal c) :: s.cur }
  | _ =>
    if c == '(' then let s := flushAtom s; { s with out := s.out.push .lp }
    else if c == ')' then let s := flushAtom s; { s with out := s.out.push .rp }
    else if c == '"' then
      if s.mode == 1 then { s with err := some "quote inside atom" } else { s with mode := 2, cur := [] }
    else if c == ' ' || c == '\t' || c == '\n' || c == '\r' then flushAtom s
    else { s with mode := 1, cur := c :: s.cur }

def tokens (s : String) : Except String (Array Tok) :=
  let st := flushAtom (s.toList.foldl lexStep {})
  match st.err with
  | some e => .error e
  | none => if st.mode == 0 then .ok st.out else .error "unterminated string"

/-- parser state: stack of partially read lists (innermost first, each reversed) -/
private def parseStep (acc : Except String (List (List Sexp))) (t : Tok) : Except String (List (List Sexp)) := do
  let st ← acc
  match t, st with
  | .lp, st => pure ([] :: st)
  | .rp, top :: next :: rest => pure ((.list top.reverse :: next) :: rest)
  | .rp, _ => throw "unbalanced ')'"
  | .atom a, top :: rest => pure ((.atom a :: top) :: rest)
  | .str a, top :: rest => pure ((.str a :: top) :: rest)
  | _, [] => throw "internal: empty stack"

/-- read exactly one S-expression -/
def read (s : String) : Except String Sexp := do
  let ts ← tokens s
  let st ← ts.foldl parseStep (.ok [[]])
  match st with
  | [[x]] => pure x
  | [_] => throw "expected exactly one S-expression"
  | _ => throw "unbalanced '('"

end Sexp
end BMV.Vlog
