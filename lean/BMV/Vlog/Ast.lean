/-
  BMV.Vlog.Ast — abstract syntax of the Verilog subset (DESIGN.md 5.3, docs/Vlog.md) and its
  construction from the S-expression written by the Go reader (/verif/harness/vlog).

  Core-only.  One expression / statement type serves both the source level (identifiers are
  names: `Expr.id`) and the elaborated level (identifiers are signal indices: `Expr.sig`);
  `BMV.Vlog.elab` (Sem.lean) removes every `id`, `Stmt.for`, parameter and instance.
-/
import BMV.Vlog.Sexp
namespace BMV.Vlog

inductive UnOp where
  | lnot | bnot | neg | plus | rand | ror | rxor | rnand | rnor | rxnor
deriving Repr, DecidableEq, Inhabited

inductive BinOp where
  | add | sub | mul | div | mod
  | band | bor | bxor | bxnor
  | eq | ne | lt | gt | le | ge
  | land | lor
  | shl | shr
deriving Repr, DecidableEq, Inhabited

inductive Expr where
  /-- literal; `w = none`: unsized (32 bits) -/
  | num (w : Option Nat) (v : Nat)
  /-- source-level identifier (signal, memory, parameter, integer) -/
  | id (n : String)
  /-- elaborated identifier: index into `Design.sigs` -/
  | sig (i : Nat)
  /-- `b[i]`: bit-select of a vector, word-select of a memory -/
  | idx (b : Expr) (i : Expr)
  /-- `b[m:l]` constant part-select -/
  | rng (b : Expr) (m l : Expr)
  /-- `b[s +: w]` (`up`) / `b[s -: w]` -/
  | ipart (b : Expr) (s w : Expr) (up : Bool)
  | cat (es : List Expr)
  | rep (n : Expr) (es : List Expr)
  | un (op : UnOp) (e : Expr)
  | bin (op : BinOp) (a b : Expr)
  | cond (c a b : Expr)
deriving Repr, Inhabited

structure RangeSpec where
  msb : Expr
  lsb : Expr
deriving Repr, Inhabited

structure DeclName where
  name : String
  mem : Option RangeSpec := none
  init : Option Expr := none
deriving Repr, Inhabited

inductive Dir where | input | output | none
deriving Repr, DecidableEq, Inhabited

inductive NetKind where | wire | reg | integer | none
deriving Repr, DecidableEq, Inhabited

structure Decl where
  dir : Dir
  kind : NetKind
  range : Option RangeSpec
  names : List DeclName
deriving Repr, Inhabited

inductive Stmt where
  | block (label : Option String) (locals : List Decl) (ss : List Stmt)
  /-- `else` absent = `null` -/
  | ite (c : Expr) (t e : Stmt)
  /-- items in source order; `dflt` = `null` when there is no default -/
  | case (e : Expr) (items : List (List Expr × Stmt)) (dflt : Stmt)
  | for (init : Stmt) (c : Expr) (step : Stmt) (body : Stmt)
  /-- `blocking = true`: `lhs = rhs`, else `lhs <= rhs`; intra-assignment delays are dropped -/
  | assign (blocking : Bool) (lhs rhs : Expr)
  /-- `;`, a dropped system task -/
  | null
deriving Repr, Inhabited

inductive Edge where | pos | neg | lvl
deriving Repr, DecidableEq, Inhabited

inductive Conns where
  | positional (es : List (Option Expr))
  | named (cs : List (String × Option Expr))
deriving Repr, Inhabited

inductive Item where
  | decl (d : Decl)
  | param (isLocal : Bool) (range : Option RangeSpec) (name : String) (value : Expr)
  | assign (lhs rhs : Expr)
  /-- `star = true`: `always @*`; otherwise the event list -/
  | always (star : Bool) (evs : List (Edge × Expr)) (body : Stmt)
  | initial (body : Stmt)
  | inst (module name : String) (params : Conns) (conns : Conns)
deriving Repr, Inhabited

structure Module where
  name : String
  ports : List String
  items : List Item
deriving Repr, Inhabited

/-- a parsed file set -/
structure Source where
  modules : List Module
deriving Repr, Inhabited

/-! ## S-expression → AST (grammar: docs/Vlog.md) -/

namespace OfSexp

def unOp : String → Except String UnOp
  | "!" => pure .lnot | "~" => pure .bnot | "-" => pure .neg | "+" => pure .plus
  | "&" => pure .rand | "|" => pure .ror | "^" => pure .rxor
  | "~&" => pure .rnand | "~|" => pure .rnor | "~^" => pure .rxnor | "^~" => pure .rxnor
  | s => throw s!"unknown unary operator {s}"

/-- `===`/`!==` coincide with `==`/`!=` on two-state values; `<<<`/`>>>` with `<<`/`>>` on
    unsigned operands (signed declarations are rejected by the reader) -/
def binOp : String → Except String BinOp
  | "+" => pure .add | "-" => pure .sub | "*" => pure .mul | "/" => pure .div | "%" => pure .mod
  | "&" => pure .band | "|" => pure .bor | "^" => pure .bxor | "~^" => pure .bxnor | "^~" => pure .bxnor
  | "==" => pure .eq | "!=" => pure .ne | "===" => pure .eq | "!==" => pure .ne
  | "<" => pure .lt | ">" => pure .gt | "<=" => pure .le | ">=" => pure .ge
  | "&&" => pure .land | "||" => pure .lor
  | "<<" => pure .shl | ">>" => pure .shr | "<<<" => pure .shl | ">>>" => pure .shr
  | s => throw s!"unknown binary operator {s}"

partial def expr : Sexp → Except String Expr
  | .list [.atom "num", .atom w, .atom v] => do
    let some v := v.toNat? | throw s!"bad literal value {v}"
    if w == "u" then pure (.num none v) else
    let some w := w.toNat? | throw s!"bad literal width {w}"
    pure (.num (some w) v)
  | .list [.atom "id", .str n] => pure (.id n)
  | .list [.atom "idx", b, i] => do pure (.idx (← expr b) (← expr i))
  | .list [.atom "rng", b, m, l] => do pure (.rng (← expr b) (← expr m) (← expr l))
  | .list [.atom "ipu", b, s, w] => do pure (.ipart (← expr b) (← expr s) (← expr w) true)
  | .list [.atom "ipd", b, s, w] => do pure (.ipart (← expr b) (← expr s) (← expr w) false)
  | .list (.atom "cat" :: es) => do pure (.cat (← es.mapM expr))
  | .list (.atom "rep" :: n :: es) => do pure (.rep (← expr n) (← es.mapM expr))
  | .list [.atom "un", .str op, e] => do pure (.un (← unOp op) (← expr e))
  | .list [.atom "bin", .str op, a, b] => do pure (.bin (← binOp op) (← expr a) (← expr b))
  | .list [.atom "cond", c, a, b] => do pure (.cond (← expr c) (← expr a) (← expr b))
  | s => throw s!"bad expression {repr s}"

def optExpr : Sexp → Except String (Option Expr)
  | .atom "nil" => pure none
  | s => do pure (some (← expr s))

def range : Sexp → Except String (Option RangeSpec)
  | .atom "nil" => pure none
  | .list [.atom "r", m, l] => do pure (some ⟨← expr m, ← expr l⟩)
  | s => throw s!"bad range {repr s}"

def declName : Sexp → Except String DeclName
  | .list [.atom "v", .str n, mem, init] => do pure ⟨n, ← range mem, ← optExpr init⟩
  | s => throw s!"bad declared name {repr s}"

def decl : Sexp → Except String Decl
  | .list (.atom "decl" :: .atom dir :: .atom kind :: r :: names) => do
    let dir ← match dir with
      | "input" => pure Dir.input | "output" => pure Dir.output | "none" => pure Dir.none
      | s => throw s!"bad direction {s}"
    let kind ← match kind with
      | "wire" => pure NetKind.wire | "reg" => pure NetKind.reg | "integer" => pure NetKind.integer
      | "none" => pure NetKind.none
      | s => throw s!"bad net kind {s}"
    pure ⟨dir, kind, ← range r, ← names.mapM declName⟩
  | s => throw s!"bad declaration {repr s}"

partial def stmt : Sexp → Except String Stmt
  | .list (.atom "block" :: label :: .list (.atom "locals" :: ls) :: ss) => do
    let label ← match label with
      | .atom "nil" => pure none
      | .str l => pure (some l)
      | s => throw s!"bad block label {repr s}"
    pure (.block label (← ls.mapM decl) (← ss.mapM stmt))
  | .list [.atom "if", c, t, e] => do
    let e ← match e with
      | .atom "nil" => pure Stmt.null
      | e => stmt e
    pure (.ite (← expr c) (← stmt t) e)
  | .list (.atom "case" :: e :: items) => do
    let e ← expr e
    let mut its : Array (List Expr × Stmt) := #[]
    let mut dflt := Stmt.null
    for it in items do
      match it with
      | .list [.atom "default", b] => dflt ← stmt b
      | .list [.atom "item", .list ls, b] => its := its.push (← ls.mapM expr, ← stmt b)
      | s => throw s!"bad case item {repr s}"
    pure (.case e its.toList dflt)
  | .list [.atom "for", i, c, s, b] => do pure (.for (← stmt i) (← expr c) (← stmt s) (← stmt b))
  | .list [.atom "ba", l, r, _] => do pure (.assign true (← expr l) (← expr r))
  | .list [.atom "nba", l, r, _] => do pure (.assign false (← expr l) (← expr r))
  | .list [.atom "null"] => pure .null
  | .list [.atom "sys", .str _] => pure .null
  | .list [.atom "delay", _, s] => stmt s
  | s => throw s!"bad statement {repr s}"

def conns : Sexp → Except String Conns
  | .list (.atom "pos" :: es) => do pure (.positional (← es.mapM optExpr))
  | .list (.atom "named" :: cs) => do
    let cs ← cs.mapM fun c => match c with
      | .list [.str p, e] => do pure (p, ← optExpr e)
      | s => throw s!"bad named connection {repr s}"
    pure (.named cs)
  | s => throw s!"bad connection list {repr s}"

def item : Sexp → Except String Item
  | s@(.list (.atom "decl" :: _)) => do pure (.decl (← decl s))
  | .list [.atom "param", .atom l, r, .str n, v] => do pure (.param (l == "1") (← range r) n (← expr v))
  | .list [.atom "assign", l, r] => do pure (.assign (← expr l) (← expr r))
  | .list [.atom "always", .atom "star", b] => do pure (.always true [] (← stmt b))
  | .list [.atom "always", .list (.atom "ev" :: evs), b] => do
    let evs ← evs.mapM fun e => match e with
      | .list [.atom "pos", x] => do pure (Edge.pos, ← expr x)
      | .list [.atom "neg", x] => do pure (Edge.neg, ← expr x)
      | .list [.atom "lvl", x] => do pure (Edge.lvl, ← expr x)
      | s => throw s!"bad event {repr s}"
    pure (.always false evs (← stmt b))
  | .list [.atom "initial", b] => do pure (.initial (← stmt b))
  | .list [.atom "inst", .str m, .str n, ps, cs] => do pure (.inst m n (← conns ps) (← conns cs))
  | s => throw s!"bad module item {repr s}"

def module : Sexp → Except String Module
  | .list [.atom "module", .str n, .list (.atom "ports" :: ps), .list (.atom "items" :: its)] => do
    let ps ← ps.mapM fun p => match p with
      | .str s => pure s
      | s => throw s!"bad port {repr s}"
    pure ⟨n, ps, ← its.mapM item⟩
  | s => throw s!"bad module {repr s}"

def source : Sexp → Except String Source
  | .list (.atom "design" :: ms) => do pure ⟨← ms.mapM module⟩
  | s => throw s!"bad design {repr s}"

end OfSexp

/-- text of one S-expression line → parsed file set -/
def Source.ofString (s : String) : Except String Source := do
  OfSexp.source (← Sexp.read s)

end BMV.Vlog
