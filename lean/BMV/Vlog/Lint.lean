/-
  BMV.Vlog.Lint — static checks over an elaborated design (the `Design.WF` of DESIGN.md 5.3 / C18).

  Error classes of the whole lint:
    reader (Go)     syntax / unsupported construct                → parse error with position
    `elaborate`     [undeclared] identifier, [undefined-module], [port] count/name mismatch,
                    [redeclared], [const], [unsupported]          → `Except.error`
    `Design.lint`   [assign-kind]  a reg assigned by `assign` / a port connection, or a net (wire,
                                   input) assigned in a procedural block
                    [multi-driver] a reg written by more than one `always` block; a net driven as a
                                   whole by more than one continuous assignment
                    [clock]        (with `lintClock`) a clocked block not sensitive to the clock
  Written as plain list functions so that `BMV.Props.C18` can reason about it.  Core-only.
-/
import BMV.Vlog.Elab
namespace BMV.Vlog

mutual
/-- signals written by a left-hand side, with "whole signal" flag -/
def lhsTargets : Expr → List (Nat × Bool)
  | .sig i => [(i, true)]
  | .idx b _ => (lhsTargets b).map fun (i, _) => (i, false)
  | .rng b _ _ => (lhsTargets b).map fun (i, _) => (i, false)
  | .ipart b _ _ _ => (lhsTargets b).map fun (i, _) => (i, false)
  | .cat es => lhsTargetsL es
  | _ => []
def lhsTargetsL : List Expr → List (Nat × Bool)
  | [] => []
  | e :: es => lhsTargets e ++ lhsTargetsL es
end

mutual
/-- signals assigned anywhere in a statement -/
def stmtTargets : Stmt → List Nat
  | .null => []
  | .assign _ l _ => (lhsTargets l).map (·.1)
  | .ite _ t e => stmtTargets t ++ stmtTargets e
  | .block _ _ ss => stmtTargetsL ss
  | .case _ items d => caseTargets items ++ stmtTargets d
  | .for i _ s b => stmtTargets i ++ stmtTargets s ++ stmtTargets b
def stmtTargetsL : List Stmt → List Nat
  | [] => []
  | s :: ss => stmtTargets s ++ stmtTargetsL ss
def caseTargets : List (List Expr × Stmt) → List Nat
  | [] => []
  | (_, b) :: rest => stmtTargets b ++ caseTargets rest
end

def Design.sigName (d : Design) (i : Nat) : String := (d.sigs[i]?.map (·.name)).getD s!"#{i}"

def Design.kindOf (d : Design) (i : Nat) : SigKind := (d.sigs[i]?.map (·.kind)).getD .wire
def Design.isIntSig (d : Design) (i : Nat) : Bool := (d.sigs[i]?.map (·.isInt)).getD false

/-- bodies of all `always` blocks (combinational first, then clocked), in this order they are
    numbered 0, 1, … by the lint -/
def Design.alwaysBodies (d : Design) : List Stmt := d.combs.toList ++ d.procs.toList.map (·.body)

/-- findings of one continuous assignment target; `seen` = nets already driven as a whole -/
def Design.contTarget (d : Design) (seen : List Nat) (t : Nat × Bool) : List String :=
  (if d.kindOf t.1 == .reg then [s!"[assign-kind] reg {d.sigName t.1} is assigned continuously"] else []) ++
  (if d.kindOf t.1 == .input then [s!"[assign-kind] input {d.sigName t.1} is driven inside the design"] else []) ++
  (if t.2 && seen.contains t.1 then [s!"[multi-driver] net {d.sigName t.1} has several continuous drivers"] else [])

/-- continuous assignments must drive nets, each net as a whole at most once -/
def Design.contFindings (d : Design) : List (Nat × Bool) → List Nat → List String
  | [], _ => []
  | t :: ts, seen => d.contTarget seen t ++ d.contFindings ts (if t.2 then t.1 :: seen else seen)

/-- the signals assigned by `always` block number `b` -/
def Design.blockTargets (d : Design) (b : Nat) : List Nat :=
  match d.alwaysBodies[b]? with
  | some body => stmtTargets body
  | none => []

/-- is signal `i` assigned by an `always` block with a number below `b`? -/
def Design.writtenBefore (d : Design) (b i : Nat) : Bool :=
  (List.range b).any fun b' => (d.blockTargets b').contains i

/-- findings of target `i` of procedural block number `b` (`isAlways`: an always block, not `initial`) -/
def Design.procTarget (d : Design) (b : Nat) (isAlways : Bool) (i : Nat) : List String :=
  (if d.kindOf i != .reg then [s!"[assign-kind] net {d.sigName i} is assigned in a procedural block"] else []) ++
  (if isAlways && !d.isIntSig i && d.writtenBefore b i then
    [s!"[multi-driver] reg {d.sigName i} is assigned in more than one always block"] else [])

/-- procedural blocks must assign variables; one always block per variable (loop `integer`s exempt) -/
def Design.procFindings (d : Design) : List String :=
  let blocks := d.alwaysBodies
  let all := blocks ++ d.inits.toList
  (List.range all.length).flatMap fun b =>
    match all[b]? with
    | some body => (stmtTargets body).eraseDups.flatMap (d.procTarget b (b < blocks.length))
    | none => []

/-- all findings, each prefixed by its class -/
def Design.lint (d : Design) : List String :=
  (d.contFindings (d.assigns.toList.flatMap fun a => lhsTargets a.1) [] ++ d.procFindings).eraseDups

/-- `Design.WF` : no lint finding -/
def Design.WF (d : Design) : Bool := d.lint.isEmpty

/-- clock discipline for a given clock signal -/
def Design.lintClock (d : Design) (clk : Nat) : List String :=
  match d.checkClock clk with
  | .ok _ => []
  | .error e => [s!"[clock] {e}"]

end BMV.Vlog
