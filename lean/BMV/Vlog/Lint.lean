/-
  BMV.Vlog.Lint — static checks over an elaborated design (the `Design.WF` of DESIGN.md 5.3 / C18).

  Error classes of the whole lint:
    reader (Go)     syntax / unsupported construct                → parse error with position
    `elaborate`     [undeclared] identifier, [undefined-module], [port] count/name mismatch,
                    [redeclared], [const], [unsupported]          → `Except.error`
    `Design.lint`   [assign-kind]  a reg assigned by `assign` / a port connection, or a net (wire,
                                   input) assigned in a procedural block
                    [multi-driver] a reg written by more than one `always` block; a net driven as a
                                   whole by more than one continuous assignment
                    [clock]        (with `lintClock`) a clocked block not sensitive to the clock
  No theorems here (C18 builds on it).  Core-only.
-/
import BMV.Vlog.Elab
namespace BMV.Vlog

mutual
/-- signals written by a left-hand side, with "whole signal" flag -/
def lhsTargets : Expr → List (Nat × Bool)
  | .sig i => [(i, true)]
  | .idx b _ => (lhsTargets b).map fun (i, _) => (i, false)
  | .rng b _ _ => (lhsTargets b).map fun (i, _) => (i, false)
  | .ipart b _ _ _ => (lhsTargets b).map fun (i, _) => (i, false)
  | .cat es => lhsTargetsL es
  | _ => []
def lhsTargetsL : List Expr → List (Nat × Bool)
  | [] => []
  | e :: es => lhsTargets e ++ lhsTargetsL es
end

mutual
/-- signals assigned anywhere in a statement -/
def stmtTargets : Stmt → List Nat
  | .null => []
  | .assign _ l _ => (lhsTargets l).map (·.1)
  | .ite _ t e => stmtTargets t ++ stmtTargets e
  | .block _ _ ss => stmtTargetsL ss
  | .case _ items d => caseTargets items ++ stmtTargets d
  | .for i _ s b => stmtTargets i ++ stmtTargets s ++ stmtTargets b
def stmtTargetsL : List Stmt → List Nat
  | [] => []
  | s :: ss => stmtTargets s ++ stmtTargetsL ss
def caseTargets : List (List Expr × Stmt) → List Nat
  | [] => []
  | (_, b) :: rest => stmtTargets b ++ caseTargets rest
end

def Design.sigName (d : Design) (i : Nat) : String := (d.sigs[i]?.map (·.name)).getD s!"#{i}"

/-- all findings, each prefixed by its class -/
def Design.lint (d : Design) : List String := Id.run do
  let mut out : Array String := #[]
  let kindOf (i : Nat) : SigKind := (d.sigs[i]?.map (·.kind)).getD .wire
  let isInt (i : Nat) : Bool := (d.sigs[i]?.map (·.isInt)).getD false
  -- continuous assignments must drive nets
  let mut wholeDrivers : Array Nat := #[]
  for (l, _) in d.assigns do
    for (i, whole) in lhsTargets l do
      if kindOf i == .reg then out := out.push s!"[assign-kind] reg {d.sigName i} is assigned continuously"
      if kindOf i == .input then out := out.push s!"[assign-kind] input {d.sigName i} is driven inside the design"
      if whole then
        if wholeDrivers.contains i then out := out.push s!"[multi-driver] net {d.sigName i} has several continuous drivers"
        wholeDrivers := wholeDrivers.push i
  -- procedural blocks must assign variables; one always block per variable
  let blocks : List Stmt := d.combs.toList ++ d.procs.toList.map (·.body)
  let mut owner : Array (Nat × Nat) := #[]     -- (signal, block number)
  let mut b := 0
  for body in blocks ++ d.inits.toList do
    let ts := (stmtTargets body).eraseDups
    for i in ts do
      if kindOf i != .reg then out := out.push s!"[assign-kind] net {d.sigName i} is assigned in a procedural block"
      if b < blocks.length && !isInt i then
        if owner.any (fun (j, ob) => j == i && ob != b) then
          out := out.push s!"[multi-driver] reg {d.sigName i} is assigned in more than one always block"
        owner := owner.push (i, b)
    b := b + 1
  pure out.toList.eraseDups

/-- `Design.WF` : no lint finding -/
def Design.WF (d : Design) : Bool := d.lint.isEmpty

/-- clock discipline for a given clock signal -/
def Design.lintClock (d : Design) (clk : Nat) : List String :=
  match d.checkClock clk with
  | .ok _ => []
  | .error e => [s!"[clock] {e}"]

end BMV.Vlog
