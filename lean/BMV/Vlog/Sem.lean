/-
  BMV.Vlog.Sem — meaning of the Verilog subset: elaborated designs, expression evaluation with
  IEEE-1364 §5 width rules, one clock `cycle`.  TRUSTED BASE (DESIGN.md section 4); every decision is
  spelled out in /verif/docs/Vlog.md.  Core-only.

  * values are two-state naturals; every stored value is < 2^width of its signal
  * every evaluator returns `Except String _`: unknown identifier, out-of-range select, memory
    used as a vector, non-converging combinational logic … are *errors*; `x / 0` and `x % 0` are 0
    (the two-state convention of Verilator; unknown in four-state Verilog) so that a helper module's
    `assign z = a / b` does not make a design unexecutable while `b` is at its reset value
  * `cycle` = set inputs → settle → run every triggered `always @(posedge …)` on the settled
    pre-edge state (blocking writes visible inside their own block only) → commit blocking then
    non-blocking writes in block/program order (last write wins) → settle
-/
import BMV.Vlog.Ast
namespace BMV.Vlog

inductive SigKind where | input | wire | reg
deriving Repr, DecidableEq, Inhabited

structure Sig where
  name : String
  width : Nat
  /-- index of the least significant bit in the declaration `[msb:lsb]` -/
  lsb : Nat := 0
  kind : SigKind
  /-- direction in its own module (before flattening) -/
  dir : Dir := .none
  /-- number of words; 0 = not a memory -/
  depth : Nat := 0
  /-- lowest word index of a memory -/
  memLo : Nat := 0
  /-- declared as `integer` -/
  isInt : Bool := false
deriving Repr, Inhabited

structure Proc where
  /-- signals named in `posedge` events -/
  edges : List Nat
  body : Stmt
deriving Repr, Inhabited

/-- a flattened, name-resolved design: no `Expr.id`, no `Stmt.for`, no parameters, no instances -/
structure Design where
  top : String
  sigs : Array Sig
  /-- continuous assignments `lhs = rhs` (also the port connections of flattened instances) -/
  assigns : Array (Expr × Expr)
  /-- bodies of `always @*` / level-sensitive blocks -/
  combs : Array Stmt
  procs : Array Proc
  inits : Array Stmt
  /-- for every signal the signal it is a plain alias of (through `assign a = b` chains) -/
  roots : Array Nat
  warnings : Array String := #[]
deriving Repr, Inhabited

/-- `st[i]` = the words of signal `i` (one word unless it is a memory) -/
abbrev State := Array (Array Nat)

abbrev R := Except String

def pow2 (w : Nat) : Nat := 1 <<< w

theorem pow2_eq (w : Nat) : pow2 w = 2 ^ w := by simp [pow2, Nat.shiftLeft_eq]

def getSig (sigs : Array Sig) (i : Nat) : R Sig :=
  match sigs[i]? with
  | some s => pure s
  | none => throw s!"internal: signal index {i} out of range"

def rdWord (st : State) (sigs : Array Sig) (i k : Nat) : R Nat :=
  match st[i]? with
  | some a => match a[k]? with
    | some v => pure v
    | none => throw s!"out-of-range word {k} of {(sigs[i]?.map (·.name)).getD "?"}"
  | none => throw s!"internal: no storage for signal {i}"

def constNat : Expr → R Nat
  | .num _ v => pure v
  | _ => throw "constant expected (range / replication count must be constant)"

/-! ## widths (IEEE 1364-2005 §5.4.1, self-determined) -/

mutual
def selfW (sigs : Array Sig) : Expr → R Nat
  | .num (some w) _ => pure w
  | .num none _ => pure 32
  | .id n => throw s!"undeclared identifier {n}"
  | .sig i => do
    let s ← getSig sigs i
    if s.depth > 0 then throw s!"memory {s.name} used without index" else pure s.width
  | .idx (.sig i) _ => do
    let s ← getSig sigs i
    pure (if s.depth > 0 then s.width else 1)
  | .idx _ _ => pure 1
  | .rng _ m l => do
    let m ← constNat m
    let l ← constNat l
    if m < l then throw s!"part-select [{m}:{l}] with msb < lsb" else pure (m - l + 1)
  | .ipart _ _ w _ => constNat w
  | .cat es => selfWL sigs es
  | .rep n es => do pure ((← constNat n) * (← selfWL sigs es))
  | .un op e =>
    match op with
    | .bnot | .neg | .plus => selfW sigs e
    | _ => pure 1
  | .bin op a b =>
    match op with
    | .add | .sub | .mul | .div | .mod | .band | .bor | .bxor | .bxnor => do
      pure (max (← selfW sigs a) (← selfW sigs b))
    | .shl | .shr => selfW sigs a
    | _ => pure 1
  | .cond _ a b => do pure (max (← selfW sigs a) (← selfW sigs b))
def selfWL (sigs : Array Sig) : List Expr → R Nat
  | [] => pure 0
  | e :: es => do pure ((← selfW sigs e) + (← selfWL sigs es))
end

/-! ## expression evaluation -/

def parity (w v : Nat) : Bool := (List.range w).foldl (fun acc i => acc != v.testBit i) false

def repVal (w v : Nat) : Nat → Nat
  | 0 => 0
  | n + 1 => repVal w v n * pow2 w + v

def b2n (b : Bool) : Nat := if b then 1 else 0

/-- bits `[lo, lo+w)` of `v` -/
def bitsOf (v lo w : Nat) : Nat := (v >>> lo) % pow2 w

/-- a part `[lo, lo+w)` (absolute bit numbers) of a vector declared with `lsb`, `width` -/
def partOf (name : String) (v lsb width lo w : Nat) : R Nat :=
  if lo < lsb || lo + w > lsb + width then
    throw s!"out-of-range select [{lo + w - 1}:{lo}] of {name}"
  else pure (bitsOf v (lo - lsb) w)

def memIndex (s : Sig) (k : Nat) : R Nat :=
  if k < s.memLo || k ≥ s.memLo + s.depth then throw s!"out-of-range index {k} of memory {s.name}"
  else pure (k - s.memLo)

mutual
/-- value of `e` in a context of `W ≥ selfW e` bits; the result is `< 2^W` -/
def evalC (sigs : Array Sig) (st : State) (W : Nat) : Expr → R Nat
  | .num (some w) v => pure (v % pow2 w)
  | .num none v => pure (v % pow2 32)
  | .id n => throw s!"undeclared identifier {n}"
  | .sig i => do
    let s ← getSig sigs i
    if s.depth > 0 then throw s!"memory {s.name} used without index" else rdWord st sigs i 0
  | .idx b i => do
    let k ← evalC sigs st (← selfW sigs i) i
    match b with
    | .sig j => do
      let s ← getSig sigs j
      if s.depth > 0 then rdWord st sigs j (← memIndex s k)
      else partOf s.name (← rdWord st sigs j 0) s.lsb s.width k 1
    | b => do
      let (name, v, lsb, width) ← evalBase sigs st b
      partOf name v lsb width k 1
  | .rng b m l => do
    let m ← constNat m
    let l ← constNat l
    if m < l then throw s!"part-select [{m}:{l}] with msb < lsb" else
    let (name, v, lsb, width) ← evalBase sigs st b
    partOf name v lsb width l (m - l + 1)
  | .ipart b s w up => do
    let w ← constNat w
    let k ← evalC sigs st (← selfW sigs s) s
    let (name, v, lsb, width) ← evalBase sigs st b
    if up then partOf name v lsb width k w
    else if k + 1 < w then throw s!"out-of-range select [{k} -: {w}] of {name}"
    else partOf name v lsb width (k + 1 - w) w
  | .cat es => do pure (← evalCat sigs st es).1
  | .rep n es => do
    let n ← constNat n
    let (v, w) ← evalCat sigs st es
    pure (repVal w v n)
  | .un op e =>
    match op with
    | .plus => evalC sigs st W e
    | .bnot => do pure (pow2 W - 1 - (← evalC sigs st W e))
    | .neg => do pure ((pow2 W - (← evalC sigs st W e)) % pow2 W)
    | .lnot => do pure (b2n ((← evalC sigs st (← selfW sigs e) e) == 0))
    | .ror => do pure (b2n ((← evalC sigs st (← selfW sigs e) e) != 0))
    | .rnor => do pure (b2n ((← evalC sigs st (← selfW sigs e) e) == 0))
    | .rand => do let w ← selfW sigs e; pure (b2n ((← evalC sigs st w e) == pow2 w - 1))
    | .rnand => do let w ← selfW sigs e; pure (b2n ((← evalC sigs st w e) != pow2 w - 1))
    | .rxor => do let w ← selfW sigs e; pure (b2n (parity w (← evalC sigs st w e)))
    | .rxnor => do let w ← selfW sigs e; pure (b2n (!parity w (← evalC sigs st w e)))
  | .bin op a b =>
    match op with
    | .add => do pure (((← evalC sigs st W a) + (← evalC sigs st W b)) % pow2 W)
    | .sub => do pure (((← evalC sigs st W a) + pow2 W - (← evalC sigs st W b)) % pow2 W)
    | .mul => do pure (((← evalC sigs st W a) * (← evalC sigs st W b)) % pow2 W)
    | .div => do
      let x ← evalC sigs st W a
      let y ← evalC sigs st W b
      -- two-state convention for x / 0 (unknown in four-state Verilog): 0, as Verilator; a continuous
      -- assignment `z = a / b` of a helper module must not make the whole design unexecutable while b
      -- is still at its reset value.  Runs that USE such a quotient are excluded by the properties.
      pure (if y == 0 then 0 else x / y)
    | .mod => do
      let x ← evalC sigs st W a
      let y ← evalC sigs st W b
      pure (if y == 0 then 0 else x % y)
    | .band => do pure ((← evalC sigs st W a) &&& (← evalC sigs st W b))
    | .bor => do pure ((← evalC sigs st W a) ||| (← evalC sigs st W b))
    | .bxor => do pure ((← evalC sigs st W a) ^^^ (← evalC sigs st W b))
    | .bxnor => do pure (pow2 W - 1 - ((← evalC sigs st W a) ^^^ (← evalC sigs st W b)))
    | .shl => do
      let x ← evalC sigs st W a
      let n ← evalC sigs st (← selfW sigs b) b
      pure (if n ≥ W then 0 else (x <<< n) % pow2 W)
    | .shr => do
      let x ← evalC sigs st W a
      let n ← evalC sigs st (← selfW sigs b) b
      pure (x >>> n)
    | .land => do
      let x ← evalC sigs st (← selfW sigs a) a
      let y ← evalC sigs st (← selfW sigs b) b
      pure (b2n (x != 0 && y != 0))
    | .lor => do
      let x ← evalC sigs st (← selfW sigs a) a
      let y ← evalC sigs st (← selfW sigs b) b
      pure (b2n (x != 0 || y != 0))
    | .eq | .ne | .lt | .gt | .le | .ge => do
      let w := max (← selfW sigs a) (← selfW sigs b)
      let x ← evalC sigs st w a
      let y ← evalC sigs st w b
      pure (b2n (match op with
        | .eq => x == y | .ne => x != y | .lt => x < y | .gt => x > y | .le => x ≤ y | _ => x ≥ y))
  | .cond c a b => do
    let cv ← evalC sigs st (← selfW sigs c) c
    if cv != 0 then evalC sigs st W a else evalC sigs st W b
/-- a selectable base: a vector signal or one word of a memory → (name, value, lsb, width) -/
def evalBase (sigs : Array Sig) (st : State) : Expr → R (String × Nat × Nat × Nat)
  | .sig j => do
    let s ← getSig sigs j
    if s.depth > 0 then throw s!"memory {s.name} used without index"
    else pure (s.name, ← rdWord st sigs j 0, s.lsb, s.width)
  | .idx (.sig j) a => do
    let s ← getSig sigs j
    if s.depth == 0 then throw s!"select of a bit-select of {s.name}" else
    let k ← evalC sigs st (← selfW sigs a) a
    pure (s.name, ← rdWord st sigs j (← memIndex s k), s.lsb, s.width)
  | .id n => throw s!"undeclared identifier {n}"
  | _ => throw "select applied to an expression that is not a signal or a memory word"
/-- concatenation, first element most significant → (value, width) -/
def evalCat (sigs : Array Sig) (st : State) : List Expr → R (Nat × Nat)
  | [] => pure (0, 0)
  | e :: es => do
    let w ← selfW sigs e
    let v ← evalC sigs st w e
    let (vr, wr) ← evalCat sigs st es
    pure (v * pow2 wr + vr, w + wr)
end

/-- value of `e` at its own width -/
def evalSelf (sigs : Array Sig) (st : State) (e : Expr) : R Nat := do
  evalC sigs st (← selfW sigs e) e

/-- right-hand side of an assignment to a target of `lw` bits: evaluated at
    `max lw (selfW rhs)` bits, then truncated to `lw` -/
def evalAssign (sigs : Array Sig) (st : State) (lw : Nat) (rhs : Expr) : R Nat := do
  let W := max lw (← selfW sigs rhs)
  pure ((← evalC sigs st W rhs) % pow2 lw)

/-! ## writes -/

/-- replace bits `[lo, lo+width)` of word `word` of signal `sig` by `val` -/
structure Write where
  sig : Nat
  word : Nat
  lo : Nat
  width : Nat
  val : Nat
deriving Repr, Inhabited

def applyWrite (sigs : Array Sig) (st : State) (w : Write) : R State := do
  let old ← rdWord st sigs w.sig w.word
  let cleared := old - bitsOf old w.lo w.width * pow2 w.lo
  let new := cleared + (w.val % pow2 w.width) * pow2 w.lo
  match st[w.sig]? with
  | some a => pure (st.set! w.sig (a.set! w.word new))
  | none => throw "internal: no storage"

def applyWrites (sigs : Array Sig) (st : State) (ws : Array Write) : R State :=
  ws.foldlM (applyWrite sigs) st

/-- a part `[lo, lo+w)` (absolute bit numbers) of a target declared with `lsb`, `width` -/
def partWrite (s : Sig) (j word lo w v : Nat) : R Write :=
  if lo < s.lsb || lo + w > s.lsb + s.width then
    throw s!"out-of-range select [{lo + w - 1}:{lo}] of {s.name} on the left-hand side"
  else pure ⟨j, word, lo - s.lsb, w, v % pow2 w⟩

/-- the word addressed by a selectable left-hand-side base → (signal, index, word) -/
def lhsBase (sigs : Array Sig) (st : State) : Expr → R (Sig × Nat × Nat)
  | .sig j => do
    let s ← getSig sigs j
    if s.depth > 0 then throw s!"memory {s.name} assigned without index" else pure (s, j, 0)
  | .idx (.sig j) a => do
    let s ← getSig sigs j
    if s.depth == 0 then throw s!"select of a bit-select of {s.name} on the left-hand side" else
    let k ← evalSelf sigs st a
    pure (s, j, ← memIndex s k)
  | .id n => throw s!"undeclared identifier {n}"
  | _ => throw "left-hand side is not a signal, select or concatenation"

mutual
/-- the writes that store the `selfW lhs`-bit value `v` into `lhs` (indices read from `st`) -/
def mkWrites (sigs : Array Sig) (st : State) (v : Nat) : Expr → R (List Write)
  | .sig j => do
    let s ← getSig sigs j
    if s.depth > 0 then throw s!"memory {s.name} assigned without index"
    else pure [⟨j, 0, 0, s.width, v % pow2 s.width⟩]
  | .idx b i => do
    let k ← evalSelf sigs st i
    match b with
    | .sig j => do
      let s ← getSig sigs j
      if s.depth > 0 then pure [⟨j, ← memIndex s k, 0, s.width, v % pow2 s.width⟩]
      else pure [← partWrite s j 0 k 1 v]
    | b => do
      let (s, j, word) ← lhsBase sigs st b
      pure [← partWrite s j word k 1 v]
  | .rng b m l => do
    let m ← constNat m
    let l ← constNat l
    if m < l then throw s!"part-select [{m}:{l}] with msb < lsb" else
    let (s, j, word) ← lhsBase sigs st b
    pure [← partWrite s j word l (m - l + 1) v]
  | .ipart b s0 w up => do
    let w ← constNat w
    let k ← evalSelf sigs st s0
    let (s, j, word) ← lhsBase sigs st b
    if up then pure [← partWrite s j word k w v]
    else if k + 1 < w then throw s!"out-of-range select [{k} -: {w}] of {s.name}"
    else pure [← partWrite s j word (k + 1 - w) w v]
  | .cat es => do pure (← mkWritesCat sigs st v es).1
  | .id n => throw s!"undeclared identifier {n}"
  | _ => throw "left-hand side is not a signal, select or concatenation"
/-- → (writes, number of low bits of `v` consumed) -/
def mkWritesCat (sigs : Array Sig) (st : State) (v : Nat) : List Expr → R (List Write × Nat)
  | [] => pure ([], 0)
  | e :: es => do
    let (ws, wr) ← mkWritesCat sigs st v es
    let we ← selfW sigs e
    let ws' ← mkWrites sigs st (bitsOf v wr we) e
    pure (ws' ++ ws, wr + we)
end

/-! ## procedural statements -/

structure XSt where
  /-- the state as this block sees it: pre-edge values + its own blocking writes -/
  loc : State
  /-- blocking writes, in program order -/
  bw : Array Write := #[]
  /-- pending non-blocking writes, in program order -/
  nba : Array Write := #[]

def matchLabels (sigs : Array Sig) (st : State) (W v : Nat) : List Expr → R Bool
  | [] => pure false
  | l :: ls => do
    if (← evalC sigs st W l) == v then pure true else matchLabels sigs st W v ls

/-- the common width of a case expression and all its labels (IEEE 1364-2005 §9.5) -/
def caseW (sigs : Array Sig) (w : Nat) : List (List Expr × Stmt) → R Nat
  | [] => pure w
  | (ls, _) :: rest => do
    let mut w := w
    for l in ls do
      w := max w (← selfW sigs l)
    caseW sigs w rest

mutual
def exec (sigs : Array Sig) (x : XSt) : Stmt → R XSt
  | .null => pure x
  | .assign blocking lhs rhs => do
    let lw ← selfW sigs lhs
    let v ← evalAssign sigs x.loc lw rhs
    let ws ← mkWrites sigs x.loc v lhs
    if blocking then
      let loc ← ws.foldlM (applyWrite sigs) x.loc
      pure { x with loc := loc, bw := x.bw ++ ws }
    else pure { x with nba := x.nba ++ ws }
  | .ite c t e => do
    if (← evalSelf sigs x.loc c) != 0 then exec sigs x t else exec sigs x e
  | .block _ _ ss => execL sigs x ss
  | .case e items dflt => do
    let W ← caseW sigs (← selfW sigs e) items
    let v ← evalC sigs x.loc W e
    match ← execCase sigs x W v items with
    | some x' => pure x'
    | none => exec sigs x dflt
  | .for _ _ _ _ => throw "internal: for loop not unrolled by elab"
def execL (sigs : Array Sig) (x : XSt) : List Stmt → R XSt
  | [] => pure x
  | s :: ss => do execL sigs (← exec sigs x s) ss
def execCase (sigs : Array Sig) (x : XSt) (W v : Nat) : List (List Expr × Stmt) → R (Option XSt)
  | [] => pure none
  | (ls, b) :: rest => do
    if ← matchLabels sigs x.loc W v ls then pure (some (← exec sigs x b))
    else execCase sigs x W v rest
end

/-! ## combinational settling -/

/-- did any of the written words end up different from `old`? -/
def wordsChanged (sigs : Array Sig) (old new : State) (ws : Array Write) : R Bool :=
  ws.foldlM (fun acc w => do
    if acc then pure true else
    pure ((← rdWord old sigs w.sig w.word) != (← rdWord new sigs w.sig w.word))) false

/-- one pass over all continuous assignments and combinational blocks, in source order -/
def settlePass (d : Design) (st : State) : R (State × Bool) := do
  let mut st := st
  let mut changed := false
  for (lhs, rhs) in d.assigns do
    let lw ← selfW d.sigs lhs
    let v ← evalAssign d.sigs st lw rhs
    let ws := (← mkWrites d.sigs st v lhs).toArray
    let st' ← applyWrites d.sigs st ws
    if ← wordsChanged d.sigs st st' ws then changed := true
    st := st'
  for body in d.combs do
    let x ← exec d.sigs { loc := st } body
    let st' ← applyWrites d.sigs x.loc x.nba
    if ← wordsChanged d.sigs st st' (x.bw ++ x.nba) then changed := true
    st := st'
  pure (st, changed)

def settleLoop (d : Design) : Nat → State → R State
  | 0, _ => throw "combinational logic did not settle (loop or oscillation)"
  | fuel + 1, st => do
    let (st', changed) ← settlePass d st
    if changed then settleLoop d fuel st' else pure st'

/-- fixpoint of the combinational part; a design without combinational loops settles within
    `#assigns + #combs + 1` passes, one more pass detects the fixpoint -/
def settle (d : Design) (st : State) : R State :=
  settleLoop d (d.assigns.size + d.combs.size + 2) st

/-! ## reset state and clock cycle -/

def zeroState (d : Design) : State :=
  d.sigs.map fun s => Array.replicate (if s.depth > 0 then s.depth else 1) 0

/-- all storage zero, then every `initial` block in source order (each block: blocking writes as
    they come, its non-blocking writes at its end), then settle -/
def Design.init (d : Design) : R State := do
  let mut st := zeroState d
  for body in d.inits do
    let x ← exec d.sigs { loc := st } body
    st ← applyWrites d.sigs x.loc x.nba
  settle d st

def Design.sigIdx? (d : Design) (name : String) : Option Nat :=
  d.sigs.findIdx? (·.name == name)

def Design.sigIdx (d : Design) (name : String) : R Nat :=
  match d.sigIdx? name with
  | some i => pure i
  | none => throw s!"no signal named {name} in design {d.top}"

def Design.root (d : Design) (i : Nat) : Nat := d.roots[i]?.getD i

/-- drive top-level inputs: `(signal, value)`; the value must fit -/
def Design.setInputs (d : Design) (st : State) (inputs : List (Nat × Nat)) : R State :=
  inputs.foldlM (fun st (i, v) => do
    let s ← getSig d.sigs i
    if s.kind != .input then throw s!"{s.name} is not a top-level input"
    else if s.depth > 0 then throw s!"{s.name} is a memory"
    else if v ≥ pow2 s.width then throw s!"value {v} does not fit input {s.name} ({s.width} bits)"
    else applyWrite d.sigs st ⟨i, 0, 0, s.width, v⟩) st

/-- is this process sensitive to a rising edge of `clk` (directly or through plain aliases)? -/
def Design.triggered (d : Design) (clk : Nat) (p : Proc) : Bool :=
  p.edges.any fun e => d.root e == d.root clk

/-- every clocked process must be sensitive to the clock, otherwise `cycle` would never run it -/
def Design.checkClock (d : Design) (clk : Nat) : R Unit :=
  d.procs.forM fun p =>
    if d.triggered clk p then pure ()
    else throw s!"a process is clocked only by {p.edges.map fun e => (d.sigs[e]?.map (·.name)).getD "?"}, not by the design clock"

/-- one rising edge of `clk` with the given input valuation (inputs not listed keep their value).
    Returns the settled post-edge state. -/
def Design.cycle (d : Design) (clk : Nat) (st : State) (inputs : List (Nat × Nat)) : R State := do
  let st ← d.setInputs st inputs
  let st ← settle d st
  let mut bws : Array Write := #[]
  let mut nbas : Array Write := #[]
  for p in d.procs do
    if d.triggered clk p then
      let x ← exec d.sigs { loc := st } p.body
      bws := bws ++ x.bw
      nbas := nbas ++ x.nba
  let st ← applyWrites d.sigs st bws
  let st ← applyWrites d.sigs st nbas
  settle d st

/-- change inputs without a clock edge and settle (combinational outputs follow) -/
def Design.poke (d : Design) (st : State) (inputs : List (Nat × Nat)) : R State := do
  settle d (← d.setInputs st inputs)

def Design.run (d : Design) (clk : Nat) (st : State) : List (List (Nat × Nat)) → R State
  | [] => pure st
  | i :: is => do d.run clk (← d.cycle clk st i) is

def State.get (st : State) (i : Nat) : Nat := (st[i]?.bind (·[0]?)).getD 0
def State.getWord (st : State) (i k : Nat) : Nat := (st[i]?.bind (·[k]?)).getD 0

end BMV.Vlog
