/-
  BMV.Vlog.Check — the whole-file-set lint of C18 (docs/Vlog.md §7).

  `elaborate` stops at the first error.  A lint has to report *every* inconsistency of a file set, and
  must not let an error in one module hide the errors of another.  This module therefore

    1. checks every module on its own, at source level, accumulating all findings of the classes
         [undeclared]        identifier read, written or used as a clock but declared nowhere in scope
         [undefined-module]  instance of a module that is neither in the set, nor opaque (defined in a
                             file the reader could not parse), nor in the named external-IP list
         [port]              positional connection count ≠ port count / unknown named port
         [redeclared]        two modules of one name are a reader error; duplicate instance names here
    2. *repairs* the source so that elaboration can go on: every undeclared identifier gets a
       synthetic 1-bit declaration (a `reg` if it is assigned procedurally, else a `wire`), instances
       that cannot be flattened (undefined / opaque / external module, wrong port list) are dropped;
    3. elaborates **every module as a root** (children first; a module whose own elaboration fails is
       dropped from its parents) and runs `Design.lint` on it; a finding is attributed to the module
       that declares the signal, i.e. it is kept only where the signal belongs to the root itself.
       Findings that mention a synthetic signal are follow-ons of an [undeclared] finding and are
       reported with class `follow-on`.

  Everything an error-free run of this check establishes is therefore established by `elaborate` and
  `Design.lint` themselves (step 3 runs them on the *unrepaired* modules whenever step 1 found
  nothing); steps 1–2 only widen what is reported when something is wrong.  Core-only.
-/
import BMV.Vlog.Lint
import BMV.Vlog.Wf
namespace BMV.Vlog

structure Finding where
  cls : String
  /-- the module the finding belongs to -/
  modName : String
  msg : String
deriving Repr, BEq, Inhabited

/-! ## identifiers of expressions and statements -/

mutual
def exprIds : Expr → List String
  | .id n => [n]
  | .num _ _ => []
  | .sig _ => []
  | .idx b i => exprIds b ++ exprIds i
  | .rng b m l => exprIds b ++ exprIds m ++ exprIds l
  | .ipart b s w _ => exprIds b ++ exprIds s ++ exprIds w
  | .cat es => exprIdsL es
  | .rep n es => exprIds n ++ exprIdsL es
  | .un _ e => exprIds e
  | .bin _ a b => exprIds a ++ exprIds b
  | .cond c a b => exprIds c ++ exprIds a ++ exprIds b
def exprIdsL : List Expr → List String
  | [] => []
  | e :: es => exprIds e ++ exprIdsL es
end

def optIds : Option Expr → List String
  | none => []
  | some e => exprIds e

def rangeIds : Option RangeSpec → List String
  | none => []
  | some r => exprIds r.msb ++ exprIds r.lsb

def declIds (d : Decl) : List String :=
  rangeIds d.range ++ d.names.flatMap fun n => rangeIds n.mem ++ optIds n.init

def declNames (ds : List Decl) : List String := ds.flatMap fun d => d.names.map (·.name)

-- identifiers used in a statement that are not in scope `sc` (block locals extend the scope)
mutual
def stmtFree (sc : List String) : Stmt → List String
  | .null => []
  | .assign _ l r => (exprIds l ++ exprIds r).filter (!sc.contains ·)
  | .ite c t e => (exprIds c).filter (!sc.contains ·) ++ stmtFree sc t ++ stmtFree sc e
  | .block _ locals ss =>
    (locals.flatMap declIds).filter (!sc.contains ·) ++ stmtFreeL (declNames locals ++ sc) ss
  | .case e items d => (exprIds e).filter (!sc.contains ·) ++ caseFree sc items ++ stmtFree sc d
  | .for i c s b => stmtFree sc i ++ (exprIds c).filter (!sc.contains ·) ++ stmtFree sc s ++ stmtFree sc b
def stmtFreeL (sc : List String) : List Stmt → List String
  | [] => []
  | s :: ss => stmtFree sc s ++ stmtFreeL sc ss
def caseFree (sc : List String) : List (List Expr × Stmt) → List String
  | [] => []
  | (ls, b) :: rest => (exprIdsL ls).filter (!sc.contains ·) ++ stmtFree sc b ++ caseFree sc rest
end

-- base identifiers of a left-hand side
mutual
def lhsIds : Expr → List String
  | .id n => [n]
  | .idx b _ => lhsIds b
  | .rng b _ _ => lhsIds b
  | .ipart b _ _ _ => lhsIds b
  | .cat es => lhsIdsL es
  | _ => []
def lhsIdsL : List Expr → List String
  | [] => []
  | e :: es => lhsIds e ++ lhsIdsL es
end

-- identifiers assigned procedurally in a statement
mutual
def stmtLhsIds : Stmt → List String
  | .null => []
  | .assign _ l _ => lhsIds l
  | .ite _ t e => stmtLhsIds t ++ stmtLhsIds e
  | .block _ _ ss => stmtLhsIdsL ss
  | .case _ items d => caseLhsIds items ++ stmtLhsIds d
  | .for i _ s b => stmtLhsIds i ++ stmtLhsIds s ++ stmtLhsIds b
def stmtLhsIdsL : List Stmt → List String
  | [] => []
  | s :: ss => stmtLhsIds s ++ stmtLhsIdsL ss
def caseLhsIds : List (List Expr × Stmt) → List String
  | [] => []
  | (_, b) :: rest => stmtLhsIds b ++ caseLhsIds rest
end

-- `case (e) endcase` without any item and without default: not derivable from the IEEE 1364 grammar
-- (case_statement needs at least one case_item); the Go reader accepts it, this check reports it
mutual
def emptyCases : Stmt → Nat
  | .null => 0
  | .assign _ _ _ => 0
  | .ite _ t e => emptyCases t + emptyCases e
  | .block _ _ ss => emptyCasesL ss
  | .case _ items d =>
    (match items, d with
      | [], .null => 1
      | _, _ => 0) + emptyCasesI items + emptyCases d
  | .for i _ s b => emptyCases i + emptyCases s + emptyCases b
def emptyCasesL : List Stmt → Nat
  | [] => 0
  | s :: ss => emptyCases s + emptyCasesL ss
def emptyCasesI : List (List Expr × Stmt) → Nat
  | [] => 0
  | (_, b) :: rest => emptyCases b + emptyCasesI rest
end

def connExprs : Conns → List Expr
  | .positional es => es.filterMap id
  | .named cs => cs.filterMap (·.2)

/-! ## step 1: per-module findings -/

/-- names declared at module level: parameters, nets/variables, instance names are not expressions -/
def Module.scope (m : Module) : List String :=
  m.items.flatMap fun it => match it with
    | .decl d => d.names.map (·.name)
    | .param _ _ n _ => [n]
    | _ => []

/-- every identifier used in the module that is declared nowhere in scope (with duplicates removed) -/
def Module.undeclared (m : Module) : List String :=
  let sc := m.scope
  let free (l : List String) := l.filter (!sc.contains ·)
  (m.items.flatMap fun it => match it with
    | .decl d => free (declIds d)
    | .param _ r _ v => free (rangeIds r ++ exprIds v)
    | .assign l r => free (exprIds l ++ exprIds r)
    | .always _ evs b => free (evs.flatMap fun e => exprIds e.2) ++ stmtFree sc b
    | .initial b => stmtFree sc b
    | .inst _ _ ps cs => free ((connExprs ps).flatMap exprIds ++ (connExprs cs).flatMap exprIds)).eraseDups

/-- identifiers assigned in `always` / `initial` blocks -/
def Module.procAssigned (m : Module) : List String :=
  m.items.flatMap fun it => match it with
    | .always _ _ b => stmtLhsIds b
    | .initial b => stmtLhsIds b
    | _ => []

inductive InstStatus where
  | ok | opaque | external | undefined
  | portCount (got want : Nat)
  | portName (p : String)
deriving Repr, BEq, Inhabited

def instStatus (mods : List Module) (opq ext : List String) (modName : String) (conns : Conns) : InstStatus :=
  match findModule mods modName with
  | none =>
    if opq.contains modName then .opaque
    else if ext.contains modName then .external
    else .undefined
  | some c =>
    match conns with
    | .positional es => if es.length == c.ports.length then .ok else .portCount es.length c.ports.length
    | .named cs =>
      match cs.find? fun (p, _) => !c.ports.contains p with
      | some (p, _) => .portName p
      | none => .ok

def Module.emptyCases (m : Module) : Nat :=
  (m.items.map fun it => match it with
    | .always _ _ b => BMV.Vlog.emptyCases b
    | .initial b => BMV.Vlog.emptyCases b
    | _ => 0).foldl (· + ·) 0

/-- all source-level findings of one module -/
def Module.findings (mods : List Module) (opq ext : List String) (m : Module) : List Finding :=
  (if m.emptyCases > 0 then
    [⟨"syntax", m.name, s!"{m.emptyCases} case statement(s) without any case item (IEEE 1364: at least one is required)"⟩] else []) ++
  (m.undeclared.map fun n => ⟨"undeclared", m.name, s!"identifier {n}"⟩) ++
  (m.items.filterMap fun it => match it with
    | .inst mn n _ cs =>
      match instStatus mods opq ext mn cs with
      | .undefined => some ⟨"undefined-module", m.name, s!"{mn} (instance {n})"⟩
      | .portCount g w => some ⟨"port", m.name, s!"{g} connections for {w} ports (instance {n} of {mn})"⟩
      | .portName p => some ⟨"port", m.name, s!"no port named {p} (instance {n} of {mn})"⟩
      | _ => none
    | _ => none)

/-! ## step 2: repair -/

/-- declare the undeclared, drop what cannot be flattened (also instances of `broken` modules) -/
def Module.repair (mods : List Module) (opq ext broken : List String) (m : Module) : Module :=
  let und := m.undeclared
  let pa := m.procAssigned
  let synth : List Item := und.map fun n =>
    .decl ⟨.none, if pa.contains n then .reg else .wire, none, [⟨n, none, none⟩]⟩
  let items := m.items.filter fun it => match it with
    | .inst mn _ _ cs => instStatus mods opq ext mn cs == .ok && !broken.contains mn
    | _ => true
  { m with items := synth ++ items }

/-! ## step 3: every module as a root -/

def instNames (m : Module) : List String :=
  m.items.filterMap fun it => match it with
    | .inst _ n _ _ => some n
    | _ => none

def instModules (m : Module) : List String :=
  m.items.filterMap fun it => match it with
    | .inst mn _ _ _ => some mn
    | _ => none

/-- the signal name a lint message is about: `[class] kind NAME …` -/
def lintSubject (msg : String) : String := (msg.splitOn " ").getD 2 ""

def lintClass (msg : String) : String :=
  if msg.startsWith "[" then ((msg.drop 1).toString.splitOn "]").headD "lint" else "lint"

/-- does the (flattened) name belong to the root module itself? -/
def ownName (insts : List String) (name : String) : Bool :=
  !insts.any fun i => name.startsWith (i ++ ".")

/-- elaborate `m` as root in the repaired set and lint it -/
def lintRoot (mods : List Module) (m : Module) (synthetic : List String) : Bool × List Finding :=
  match elaborate ⟨mods⟩ (some m.name) with
  | .error e => (false, [⟨lintClass e, m.name, e⟩])
  | .ok d =>
    let insts := instNames m
    -- the hypothesis of `BMV.Props.C18.wf_total_of_resolved`, re-checked on every elaborated design
    if !d.Resolved then (false, [⟨"internal", m.name, "elaborate returned a design that is not Resolved (identifier, `for` or out-of-range signal index left)"⟩]) else
    (true, d.lint.filterMap fun msg =>
      let subj := lintSubject msg
      if !ownName insts subj then none
      else if synthetic.contains subj then some ⟨"follow-on", m.name, msg⟩
      else some ⟨lintClass msg, m.name, msg⟩)

/-- children-first processing: `todo` modules whose instantiated modules are all done come first;
    `fuel` bounds the passes (cycles are processed in file order at the end) -/
def orderModules (mods : List Module) : List Module :=
  let rec go (fuel : Nat) (todo done : List Module) : List Module :=
    match fuel with
    | 0 => done ++ todo
    | fuel + 1 =>
      if todo.isEmpty then done else
      let ready := todo.filter fun m => (instModules m).all fun c =>
        !(todo.any (·.name == c)) || c == m.name
      if ready.isEmpty then done ++ todo
      else go fuel (todo.filter fun m => !ready.any (·.name == m.name)) (done ++ ready)
  go (mods.length + 1) mods []

structure CheckResult where
  findings : List Finding
  /-- modules elaborated as a root without error -/
  elaborated : Nat
  roots : List String

/-- the whole check of one parsed file set -/
def Source.check (src : Source) (opq ext : List String) : CheckResult := Id.run do
  let mods := src.modules
  let mut out : Array Finding := #[]
  for m in mods do
    for f in m.findings mods opq ext do out := out.push f
  -- children first
  let mut broken : List String := []
  let mut elaborated := 0
  for m in orderModules mods do
    let repaired := mods.map (·.repair mods opq ext broken)
    let (ok, fs) := lintRoot repaired m m.undeclared
    if ok then elaborated := elaborated + 1 else broken := m.name :: broken
    for f in fs do out := out.push f
  pure { findings := out.toList.eraseDups, elaborated, roots := topCandidates src }

end BMV.Vlog
