/-
  BMV.Vlog.SelfTest — sanity checks of the Verilog-subset semantics on textbook circuits.

  The circuits are hand-written Verilog under /verif/harness/vlog/testdata/*.v; the `.sexp` files
  next to them are what the Go reader produces (the harness re-parses the `.v` files on every run
  and compares with the `.sexp` files, so reader and these expectations cannot drift apart).
  Each test runs a script (poke / clock / expect) through `elaborate`, `Design.init`,
  `Design.cycle`; the expected values were computed by hand from the IEEE-1364 rules.
  The tests are evaluated at build time (`#guard`, by the compiler's evaluator — a sanity check,
  not a theorem) and again by `oracle-c13` (`S` line) on every check run.
-/
import BMV.Vlog.Lint
namespace BMV.Vlog.SelfTest
open BMV.Vlog

inductive Act where
  /-- set inputs and settle, no clock edge -/
  | poke (ins : List (String × Nat))
  /-- set inputs, one rising edge of the clock -/
  | clock (ins : List (String × Nat))
  /-- signal values (memories: `name[k]` is not supported here, use `word`) -/
  | expect (vals : List (String × Nat))
  | word (mem : String) (k v : Nat)

def resolveIns (d : Design) (ins : List (String × Nat)) : R (List (Nat × Nat)) :=
  ins.mapM fun (n, v) => do pure (← d.sigIdx n, v)

def runScript (d : Design) (clk : Option String) (acts : List Act) : R Unit := do
  let clkI ← match clk with
    | some c => do
      let i ← d.sigIdx c
      d.checkClock i
      pure i
    | none => pure 0
  let mut st ← d.init
  let mut n := 0
  for a in acts do
    n := n + 1
    match a with
    | .poke ins => st ← d.poke st (← resolveIns d ins)
    | .clock ins => st ← d.cycle clkI st (← resolveIns d ins)
    | .expect vals =>
      for (name, v) in vals do
        let got := st.get (← d.sigIdx name)
        if got != v then throw s!"step {n}: {name} = {got}, expected {v}"
    | .word m k v =>
      let got := st.getWord (← d.sigIdx m) k
      if got != v then throw s!"step {n}: {m}[{k}] = {got}, expected {v}"

def sim (src : String) (top : Option String) (clk : Option String) (acts : List Act) : R Unit := do
  runScript (← Design.ofString src top) clk acts

/-- the error message must contain `frag` -/
def failsWith (r : R Unit) (frag : String) : Bool :=
  match r with
  | .ok _ => false
  | .error e => (e.splitOn frag).length > 1

def counterSrc := include_str "../../../harness/vlog/testdata/counter.sexp"
def shiftregSrc := include_str "../../../harness/vlog/testdata/shiftreg.sexp"
def fsmSrc := include_str "../../../harness/vlog/testdata/fsm.sexp"
def fifoSrc := include_str "../../../harness/vlog/testdata/fifo.sexp"
def widthsSrc := include_str "../../../harness/vlog/testdata/widths.sexp"
def procsSrc := include_str "../../../harness/vlog/testdata/procs.sexp"
def hierSrc := include_str "../../../harness/vlog/testdata/hier.sexp"
def errUndeclaredSrc := include_str "../../../harness/vlog/testdata/err_undeclared.sexp"
def errRangeSrc := include_str "../../../harness/vlog/testdata/err_range.sexp"
def errPortsSrc := include_str "../../../harness/vlog/testdata/err_ports.sexp"
def errLoopSrc := include_str "../../../harness/vlog/testdata/err_loop.sexp"
def errNomoduleSrc := include_str "../../../harness/vlog/testdata/err_nomodule.sexp"
def errMemvecSrc := include_str "../../../harness/vlog/testdata/err_memvec.sexp"
def lintBadSrc := include_str "../../../harness/vlog/testdata/lint_bad.sexp"

/-- the lint findings of a source, sorted -/
def lintOf (src : String) : List String :=
  match Design.ofString src with
  | .ok d => d.lint
  | .error e => ["elab: " ++ e]

/-- counter: counts when enabled, holds otherwise, wraps 15 → 0, terminal-count flag -/
def tCounter : R Unit :=
  sim counterSrc none (some "clk") (
    [.clock [("reset", 1), ("en", 0)], .expect [("q", 0), ("tc", 0)],
     .clock [("reset", 0), ("en", 1)], .expect [("q", 1)],
     .clock [], .clock [], .expect [("q", 3)],
     .clock [("en", 0)], .expect [("q", 3)],
     .clock [("en", 1)]] ++ List.replicate 11 (.clock []) ++
    [.expect [("q", 15), ("tc", 1)], .clock [], .expect [("q", 0), ("tc", 0)], .clock [], .expect [("q", 1)],
     .clock [("reset", 1)], .expect [("q", 0)]])

/-- shift register: bits 1 0 1 1 0 0 1 0 give 0b10110010 -/
def tShiftreg : R Unit :=
  sim shiftregSrc none (some "clk")
    [.clock [("rst", 1), ("din", 1)], .expect [("q", 0)],
     .clock [("rst", 0), ("din", 1)], .expect [("q", 1), ("msb", 0)],
     .clock [("din", 0)], .clock [("din", 1)], .clock [("din", 1)], .expect [("q", 11)],
     .clock [("din", 0)], .clock [("din", 0)], .clock [("din", 1)], .clock [("din", 0)],
     .expect [("q", 178), ("msb", 1)],
     .clock [("din", 1)], .expect [("q", 101), ("msb", 0)]]

/-- Mealy 101 detector on 1 0 1 0 1 1 0 1: hits at the 3rd, 5th and 8th bit (overlapping) -/
def tFsm : R Unit :=
  let bit (x hit : Nat) : List Act := [.poke [("x", x)], .expect [("hit", hit)], .clock []]
  sim fsmSrc none (some "clk")
    ([.clock [("reset", 1), ("x", 0)], .poke [("reset", 0)]] ++
     bit 1 0 ++ bit 0 0 ++ bit 1 1 ++ bit 0 0 ++ bit 1 1 ++ bit 1 0 ++ bit 0 0 ++ bit 1 1 ++
     [.expect [("state", 1)]])

/-- FIFO: fill to full, overflow attempt ignored, drain in order, simultaneous read+write -/
def tFifo : R Unit :=
  sim fifoSrc none (some "clk")
    [.clock [("reset", 1), ("wr_en", 0), ("rd_en", 0), ("din", 0)], .expect [("empty", 1), ("full", 0)],
     .clock [("reset", 0), ("wr_en", 1), ("din", 11)], .expect [("empty", 0)],
     .clock [("din", 22)], .clock [("din", 33)], .expect [("full", 0)],
     .clock [("din", 44)], .expect [("full", 1), ("wptr", 4), ("rptr", 0)],
     .clock [("din", 55)], .expect [("full", 1), ("wptr", 4)], .word "mem" 0 11, .word "mem" 3 44,
     .clock [("wr_en", 0), ("rd_en", 1)], .expect [("dout", 11), ("full", 0)],
     .clock [("wr_en", 1), ("din", 66)], .expect [("dout", 22), ("wptr", 5), ("rptr", 2)], .word "mem" 0 66,
     .clock [("wr_en", 0)], .expect [("dout", 33)],
     .clock [], .expect [("dout", 44)],
     .clock [], .expect [("dout", 66), ("empty", 1)],
     .clock [], .expect [("dout", 66), ("empty", 1), ("rptr", 5)]]

/-- expression widths (see the comments in widths.v) -/
def tWidths : R Unit :=
  sim widthsSrc none none
    [.poke [("a", 9), ("b", 8)],
     .expect [("sum5", 17), ("avg_lost", 0), ("avg_kept", 8), ("inv8", 246), ("lt_wrap", 0), ("cat_self", 0),
              ("rep", 102), ("red_and", 0), ("red_xor", 1), ("shl", 4), ("mix", 151), ("neg", 7), ("tern", 9)],
     .poke [("a", 0), ("b", 5)],
     .expect [("sum5", 5), ("avg_lost", 2), ("avg_kept", 2), ("inv8", 255), ("lt_wrap", 0), ("cat_self", 2),
              ("rep", 17), ("red_and", 0), ("red_xor", 0), ("shl", 0), ("mix", 10), ("neg", 0), ("tern", 33)],
     .poke [("a", 15), ("b", 15)],
     .expect [("sum5", 30), ("avg_lost", 7), ("avg_kept", 15), ("inv8", 240), ("lt_wrap", 1), ("cat_self", 7),
              ("rep", 255), ("red_and", 1), ("red_xor", 0), ("shl", 12), ("mix", 240), ("neg", 1), ("tern", 33)]]

/-- non-blocking swap, blocking chain, last write wins, part-select write, loop-initialised memory -/
def tProcs : R Unit :=
  sim procsSrc none (some "clk")
    [.expect [("p", 1), ("q", 2), ("u", 3), ("v", 4), ("w", 0), ("cnt", 0)], .word "m" 2 2, .word "m" 3 3,
     .clock [("c", 0)], .expect [("p", 2), ("q", 1), ("u", 4), ("v", 3), ("t", 3), ("w", 191), ("cnt", 1)],
     .clock [("c", 1)], .expect [("p", 1), ("q", 2), ("u", 3), ("v", 4), ("w", 143), ("cnt", 3)],
     .clock [], .expect [("cnt", 7)], .clock [], .expect [("cnt", 11)]]

/-- flattening: prefixed names, positional/named ports, parameter override, part-select outputs -/
def tHier : R Unit :=
  sim hierSrc (some "hier") (some "clk")
    [.poke [("in", 5)], .expect [("a1", 6), ("a3", 9), ("u3.y", 9), ("u1.x", 5), ("out", 0)],
     .clock [], .expect [("out", 150), ("r1.q", 6), ("r3.q", 9)],
     .clock [("in", 15)], .expect [("a1", 0), ("a3", 3), ("out", 48)]]

def tests : List (String × Bool) :=
  let ok (r : R Unit) : Bool := match r with | .ok _ => true | .error _ => false
  [("counter", ok tCounter), ("shiftreg", ok tShiftreg), ("fsm", ok tFsm), ("fifo", ok tFifo),
   ("widths", ok tWidths), ("procs", ok tProcs), ("hier", ok tHier),
   ("err-undeclared", failsWith (sim errUndeclaredSrc none (some "clk") []) "[undeclared] identifier nosuch"),
   ("err-range-ok", ok (sim errRangeSrc none (some "clk") [.clock [("i", 2)]])),
   ("err-range", failsWith (sim errRangeSrc none (some "clk") [.clock [("i", 5)]]) "out-of-range select"),
   ("err-ports", failsWith (sim errPortsSrc (some "err_ports") none []) "[port] 3 connections for 2 ports"),
   ("err-loop", failsWith (sim errLoopSrc none none []) "did not settle"),
   ("err-nomodule", failsWith (sim errNomoduleSrc none none []) "[undefined-module] ghost"),
   ("err-memvec", failsWith (sim errMemvecSrc none (some "clk") [.clock []]) "used without index"),
   ("err-input-range", failsWith (sim counterSrc none (some "clk") [.clock [("en", 2)]]) "does not fit"),
   ("err-not-input", failsWith (sim counterSrc none (some "clk") [.clock [("q", 2)]]) "not a top-level input"),
   ("lint-clean", [counterSrc, shiftregSrc, fsmSrc, fifoSrc, widthsSrc, procsSrc, hierSrc].all fun s => (lintOf s).isEmpty),
   ("lint-bad", lintOf lintBadSrc ==
      ["[assign-kind] reg r is assigned continuously",
       "[multi-driver] net z has several continuous drivers",
       "[assign-kind] net w is assigned in a procedural block",
       "[multi-driver] reg done is assigned in more than one always block"]),
   ("err-sexp", failsWith (sim "(design (module" none none []) "unbalanced")]

def describe (r : R Unit) : String := match r with | .ok _ => "ok" | .error e => e

/-- lines printed by the oracle -/
def report : List String :=
  let bad := tests.filter (!·.2)
  if bad.isEmpty then [s!"S ok tests={tests.length}"]
  else [s!"S FAIL {bad.map (·.1)} counter:{describe tCounter} shiftreg:{describe tShiftreg} fsm:{describe tFsm} fifo:{describe tFifo} widths:{describe tWidths} procs:{describe tProcs} hier:{describe tHier}"]

-- evaluated on every build of this module
#guard tests.all (·.2)

end BMV.Vlog.SelfTest
