/-
  BMV.Vlog.Elab — elaboration of a parsed file set into a flat `Design`:
  parameters evaluated and substituted, declarations turned into signals, identifiers resolved
  to signal indices, constant ranges folded, `for` loops with constant bounds unrolled, module
  instances flattened (signals of an instance `u` of a module get the prefix `u.`), port
  connections turned into continuous assignments.

  Error classes (all surface as `Except.error`, message prefix in brackets):
    [undeclared]  identifier not declared            [undefined-module] instance of unknown module
    [port]        port count / unknown port name     [redeclared]       conflicting declarations
    [unsupported] construct outside the semantics    [const]            non-constant where a constant is needed
  TRUSTED BASE; decisions are listed in docs/Vlog.md.  Core-only.
-/
import BMV.Vlog.Sem
import Std.Data.HashMap
namespace BMV.Vlog

inductive Binding where
  | sig (i : Nat)
  | const (w : Nat) (v : Nat)
deriving Repr, Inhabited

abbrev Scope := Std.HashMap String Binding

structure ElabSt where
  sigs : Array Sig := #[]
  assigns : Array (Expr × Expr) := #[]
  combs : Array Stmt := #[]
  procs : Array Proc := #[]
  inits : Array Stmt := #[]
  warnings : Array String := #[]

abbrev EM := StateT ElabSt (Except String)

def efail {α : Type} (msg : String) : EM α := throw msg

/-- evaluate a closed expression (no signals) -/
def constEval (e : Expr) : R Nat :=
  match evalSelf #[] #[] e with
  | .ok v => pure v
  | .error m => throw s!"[const] constant expression expected: {m}"

/-! ### name resolution (pure) -/

mutual
def resolveExpr (sc : Scope) : Expr → R Expr
  | .num w v => pure (.num w v)
  | .sig i => pure (.sig i)
  | .id n =>
    match sc[n]? with
    | some (.sig i) => pure (.sig i)
    | some (.const w v) => pure (.num (some w) v)
    | none => throw s!"[undeclared] identifier {n}"
  | .idx b i => do pure (.idx (← resolveExpr sc b) (← resolveExpr sc i))
  | .rng b m l => do
    let m ← constEval (← resolveExpr sc m)
    let l ← constEval (← resolveExpr sc l)
    pure (.rng (← resolveExpr sc b) (.num none m) (.num none l))
  | .ipart b s w up => do
    let w ← constEval (← resolveExpr sc w)
    pure (.ipart (← resolveExpr sc b) (← resolveExpr sc s) (.num none w) up)
  | .cat es => do pure (.cat (← resolveExprs sc es))
  | .rep n es => do
    let n ← constEval (← resolveExpr sc n)
    pure (.rep (.num none n) (← resolveExprs sc es))
  | .un op e => do pure (.un op (← resolveExpr sc e))
  | .bin op a b => do pure (.bin op (← resolveExpr sc a) (← resolveExpr sc b))
  | .cond c a b => do pure (.cond (← resolveExpr sc c) (← resolveExpr sc a) (← resolveExpr sc b))
def resolveExprs (sc : Scope) : List Expr → R (List Expr)
  | [] => pure []
  | e :: es => do pure ((← resolveExpr sc e) :: (← resolveExprs sc es))
end

/-- replace signal `i` by a literal (loop unrolling) -/
def substSig (i : Nat) (lit : Expr) : Expr → Expr
  | .sig j => if i == j then lit else .sig j
  | .idx b k => .idx (substSig i lit b) (substSig i lit k)
  | .rng b m l => .rng (substSig i lit b) m l
  | .ipart b s w up => .ipart (substSig i lit b) (substSig i lit s) w up
  | .un op e => .un op (substSig i lit e)
  | .bin op a b => .bin op (substSig i lit a) (substSig i lit b)
  | .cond c a b => .cond (substSig i lit c) (substSig i lit a) (substSig i lit b)
  | e => e   -- literals; concatenations are not expected in loop headers (left as they are → [const] error)

/-- `for (i = e0; c; i = f) body` with everything in the header depending on `i` only:
    `i = v0; body; i = v1; body; …; i = vN` where `vN` is the first value falsifying `c` -/
def unrollFor (i : Nat) (c f : Expr) (body : Stmt) : Nat → Nat → Array Stmt → R (Array Stmt)
  | 0, _, _ => throw "[unsupported] for loop does not terminate within 1048576 iterations"
  | fuel + 1, v, acc => do
    let lit := Expr.num (some 32) v
    let acc := acc.push (.assign true (.sig i) lit)
    let cv ← constEval (substSig i lit c)
    if cv == 0 then pure acc else
    let v' ← constEval (.bin .add (.num (some 32) 0) (substSig i lit f))   -- 32-bit context
    unrollFor i c f body fuel (v' % pow2 32) (acc.push body)

/-! ### declarations -/

def rangeOf (sc : Scope) : Option RangeSpec → R (Nat × Nat)   -- (width, lsb)
  | none => pure (1, 0)
  | some r => do
    let m ← constEval (← resolveExpr sc r.msb)
    let l ← constEval (← resolveExpr sc r.lsb)
    if m < l then throw s!"[unsupported] ascending range [{m}:{l}]" else pure (m - l + 1, l)

def memRangeOf (sc : Scope) : Option RangeSpec → R (Nat × Nat)   -- (depth, lowest index); depth 0 = scalar
  | none => pure (0, 0)
  | some r => do
    let a ← constEval (← resolveExpr sc r.msb)
    let b ← constEval (← resolveExpr sc r.lsb)
    let lo := min a b
    let hi := max a b
    pure (hi - lo + 1, lo)

/-- declare one name; a second declaration may only complete a port (`output x; reg x;`) -/
def declare (sc : Scope) (pfx : String) (isTop : Bool) (d : Decl) (n : DeclName) : EM Scope := do
  let (w, lsb) ← (if d.kind == .integer then pure (32, 0) else rangeOf sc d.range : R _)
  let (depth, memLo) ← (memRangeOf sc n.mem : R _)
  let kind : SigKind :=
    if d.dir == .input then (if isTop then .input else .wire)
    else if d.kind == .reg || d.kind == .integer then .reg else .wire
  match sc[n.name]? with
  | some (.const _ _) => efail s!"[redeclared] {n.name} is a parameter"
  | some (.sig i) =>
    let st ← get
    let old := st.sigs[i]!
    -- completion of a port declared by direction only
    if old.dir != .none && d.dir == .none && old.kind != .reg && depth == 0
        && (d.range.isNone || (old.width == w && old.lsb == lsb)) then
      let new := { old with kind := if kind == .reg then .reg else old.kind }
      set { st with sigs := st.sigs.set! i new }
      pure sc
    else if old.dir == .none && d.dir != .none && depth == 0 && old.depth == 0
        && (d.range.isNone || old.width == w) then
      -- `reg x; output x;` order
      let k : SigKind := if d.dir == .input then (if isTop then .input else .wire) else old.kind
      let new := { old with dir := d.dir, kind := k }
      set { st with sigs := st.sigs.set! i new }
      pure sc
    else efail s!"[redeclared] {pfx}{n.name}"
  | none =>
    let st ← get
    let i := st.sigs.size
    let new : Sig :=
      { name := pfx ++ n.name, width := w, lsb := lsb, kind := kind, dir := d.dir,
        depth := depth, memLo := memLo, isInt := d.kind == .integer }
    set { st with sigs := st.sigs.push new }
    pure (sc.insert n.name (.sig i))

def declareAll (sc : Scope) (pfx : String) (isTop : Bool) (d : Decl) : List DeclName → EM Scope
  | [] => pure sc
  | n :: ns => do declareAll (← declare sc pfx isTop d n) pfx isTop d ns

def declareDecls (sc : Scope) (pfx : String) (isTop : Bool) : List Decl → EM Scope
  | [] => pure sc
  | d :: ds => do declareDecls (← declareAll sc pfx isTop d d.names) pfx isTop ds

/-! ### statements -/

mutual
def resolveStmt (sc : Scope) (pfx : String) : Stmt → EM Stmt
  | .null => pure .null
  | .assign b l r => do pure (.assign b (← (resolveExpr sc l : R _)) (← (resolveExpr sc r : R _)))
  | .ite c t e => do pure (.ite (← (resolveExpr sc c : R _)) (← resolveStmt sc pfx t) (← resolveStmt sc pfx e))
  | .block label locals ss => do
    let pfx' := match label with
      | some l => pfx ++ l ++ "."
      | none => pfx
    let sc' ← declareDecls sc pfx' false locals
    pure (.block label [] (← resolveStmts sc' pfx' ss))
  | .case e items dflt => do
    pure (.case (← (resolveExpr sc e : R _)) (← resolveItems sc pfx items) (← resolveStmt sc pfx dflt))
  | .for init c step body => do
    let body ← resolveStmt sc pfx body
    let c ← (resolveExpr sc c : R _)
    match init, step with
    | .assign true il ie, .assign true sl se => do
      let il ← (resolveExpr sc il : R _)
      let sl ← (resolveExpr sc sl : R _)
      let se ← (resolveExpr sc se : R _)
      match il, sl with
      | .sig i, .sig j =>
        if i != j then efail "[unsupported] for loop: init and step assign different variables" else
        let v0 ← (constEval (← resolveExpr sc ie) : R _)
        let ss ← (unrollFor i c se body 1048576 (v0 % pow2 32) #[] : R _)
        pure (.block none [] ss.toList)
      | _, _ => efail "[unsupported] for loop variable must be a plain identifier"
    | _, _ => efail "[unsupported] for loop header must be `i = …; cond; i = …`"
def resolveStmts (sc : Scope) (pfx : String) : List Stmt → EM (List Stmt)
  | [] => pure []
  | s :: ss => do pure ((← resolveStmt sc pfx s) :: (← resolveStmts sc pfx ss))
def resolveItems (sc : Scope) (pfx : String) : List (List Expr × Stmt) → EM (List (List Expr × Stmt))
  | [] => pure []
  | (ls, b) :: rest => do
    pure (((← (resolveExprs sc ls : R _)), (← resolveStmt sc pfx b)) :: (← resolveItems sc pfx rest))
end

/-! ### modules -/

def findModule (mods : List Module) (n : String) : Option Module := mods.find? (·.name == n)

/-- parameter overrides of an instance, already evaluated in the parent's scope -/
inductive ParamOv where
  | none
  | positional (vs : List (Nat × Nat))
  | named (vs : List (String × Nat × Nat))

/-- (width, value) of a parameter expression: width from the declared range, else self-determined -/
def paramValue (sc : Scope) (range : Option RangeSpec) (e : Expr) : R (Nat × Nat) := do
  let e ← resolveExpr sc e
  let v ← constEval e
  match range with
  | some _ => do
    let (w, _) ← rangeOf sc range
    pure (w, v % pow2 w)
  | none => pure (← selfW #[] e, v)

/-- first pass over the items: parameters (in order, with overrides) and declarations -/
def declPass (pfx : String) (isTop : Bool) (ov : ParamOv) : List Item → Scope → Nat → EM Scope
  | [], sc, _ => pure sc
  | .param isLocal range name value :: rest, sc, k => do
    if sc.contains name then efail s!"[redeclared] parameter {pfx}{name}" else
    let dflt ← (paramValue sc range value : R _)
    let (val, k') : (Nat × Nat) × Nat :=
      if isLocal then (dflt, k) else
      match ov with
      | .none => (dflt, k + 1)
      | .positional vs => (vs[k]?.getD dflt, k + 1)
      | .named vs => (((vs.find? (·.1 == name)).map (·.2)).getD dflt, k + 1)
    declPass pfx isTop ov rest (sc.insert name (.const val.1 val.2)) k'
  | .decl d :: rest, sc, k => do
    declPass pfx isTop ov rest (← declareAll sc pfx isTop d d.names) k
  | _ :: rest, sc, k => declPass pfx isTop ov rest sc k

def connList (ports : List String) : Conns → R (List (String × Option Expr))
  | .named cs => do
    for (p, _) in cs do
      if !ports.contains p then throw s!"[port] no port named {p}"
    pure cs
  | .positional es =>
    if es.length != ports.length then
      throw s!"[port] {es.length} connections for {ports.length} ports"
    else pure (ports.zip es)

def paramOv (sc : Scope) : Conns → R ParamOv
  | .positional [] => pure .none
  | .positional es => do
    let vs ← es.mapM fun e => match e with
      | some e => paramValue sc none e
      | none => throw "[port] empty parameter override"
    pure (.positional vs)
  | .named cs => do
    let vs ← cs.mapM fun (n, e) => match e with
      | some e => do pure (n, ← paramValue sc none e)
      | none => throw "[port] empty parameter override"
    pure (.named vs)

mutual
/-- second pass: behaviour.  `fuel` bounds the instantiation depth. -/
def bodyPass (mods : List Module) (pfx : String) (sc : Scope) : Nat → List Item → EM Unit
  | _, [] => pure ()
  | fuel, it :: rest => do
    match it with
    | .param .. => pure ()
    | .decl d =>
      -- `wire x = e;` is a continuous assignment, `reg x = e;` an initial value
      for n in d.names do
        match n.init with
        | none => pure ()
        | some e =>
          let e ← (resolveExpr sc e : R _)
          let l ← (resolveExpr sc (.id n.name) : R _)
          if d.kind == .reg || d.kind == .integer then
            modify fun st => { st with inits := st.inits.push (.assign true l e) }
          else modify fun st => { st with assigns := st.assigns.push (l, e) }
    | .assign l r => do
      let l ← (resolveExpr sc l : R _)
      let r ← (resolveExpr sc r : R _)
      modify fun st => { st with assigns := st.assigns.push (l, r) }
    | .initial b => do
      let b ← resolveStmt sc pfx b
      modify fun st => { st with inits := st.inits.push b }
    | .always star evs b => do
      let b ← resolveStmt sc pfx b
      let edges := evs.filter (·.1 != .lvl)
      if star || edges.isEmpty then
        modify fun st => { st with combs := st.combs.push b }
      else if edges.length != evs.length then
        efail "[unsupported] always block mixing edge and level events"
      else if evs.any (·.1 == .neg) then
        efail "[unsupported] negedge event"
      else
        let es ← evs.mapM fun (_, x) => do
          match ← (resolveExpr sc x : R _) with
          | .sig i => pure i
          | _ => efail "[unsupported] edge event on an expression"
        modify fun st => { st with procs := st.procs.push ⟨es, b⟩ }
    | .inst modName name params conns =>
      match fuel with
      | 0 => efail s!"[unsupported] instantiation depth exceeded at {pfx}{name} (recursive modules?)"
      | fuel' + 1 =>
        match findModule mods modName with
        | none => efail s!"[undefined-module] {modName} (instance {pfx}{name})"
        | some m => do
          if sc.contains name then efail s!"[redeclared] instance name {pfx}{name}" else
          let ov ← (paramOv sc params : R _)
          let csc ← elabModule mods m (pfx ++ name ++ ".") false ov fuel'
          let cl ← (match connList m.ports conns with
            | .ok c => pure c
            | .error e => throw s!"{e} (instance {pfx}{name} of {modName})" : R _)
          for (p, e) in cl do
            match csc[p]?, e with
            | some (.sig i), some e => do
              let e ← (resolveExpr sc e : R _)
              let s := (← get).sigs[i]!
              if s.dir == .input then
                modify fun st => { st with assigns := st.assigns.push (.sig i, e) }
              else if s.dir == .output then
                modify fun st => { st with assigns := st.assigns.push (e, .sig i) }
              else efail s!"[port] {p} of {modName} has no direction"
            | some (.sig _), none =>
              modify fun st => { st with warnings := st.warnings.push s!"port {p} of {pfx}{name} unconnected" }
            | _, _ => efail s!"[port] {p} is listed in the header of {modName} but not declared"
    bodyPass mods pfx sc fuel rest
termination_by fuel items => (fuel, 0, items.length)
/-- elaborate one module instance; returns its scope (ports are looked up there) -/
def elabModule (mods : List Module) (m : Module) (pfx : String) (isTop : Bool) (ov : ParamOv) :
    Nat → EM Scope
  | fuel => do
    let sc ← declPass pfx isTop ov m.items {} 0
    for p in m.ports do
      match sc[p]? with
      | some (.sig i) =>
        if ((← get).sigs[i]!).dir == .none then efail s!"[port] port {p} of {m.name} has no direction"
      | _ => efail s!"[port] port {p} of {m.name} is not declared"
    bodyPass mods pfx sc fuel m.items
    pure sc
termination_by fuel => (fuel, 1, 0)
end

/-- alias roots: `assign a = b` with both sides whole signals makes `a` an alias of `b` -/
def computeRoots (n : Nat) (assigns : Array (Expr × Expr)) : Array Nat := Id.run do
  let mut parent : Array Nat := Array.range n
  for (l, r) in assigns do
    match l, r with
    | .sig a, .sig b => if a < n && b < n then parent := parent.set! a b
    | _, _ => pure ()
  let mut roots : Array Nat := Array.range n
  for i in [0:n] do
    let mut r := i
    for _ in [0:n] do
      let p := parent[r]!
      if p == r then break
      r := p
    roots := roots.set! i r
  pure roots

/-- the modules no other module instantiates -/
def topCandidates (src : Source) : List String :=
  let used := src.modules.flatMap fun m => m.items.filterMap fun it =>
    match it with
    | .inst mn _ _ _ => some mn
    | _ => none
  (src.modules.map (·.name)).filter (!used.contains ·)

/-- elaborate the file set with `top` as root (`none`: the unique uninstantiated module) -/
def elaborate (src : Source) (top : Option String := none) : R Design := do
  let topName ← match top with
    | some t => pure t
    | none => match topCandidates src with
      | [t] => pure t
      | ts => throw s!"[undefined-module] cannot choose a top module among {ts}"
  let some m := findModule src.modules topName | throw s!"[undefined-module] top module {topName}"
  let (_, st) ← (elabModule src.modules m "" true .none 64).run {}
  pure { top := topName, sigs := st.sigs, assigns := st.assigns, combs := st.combs, procs := st.procs,
         inits := st.inits, roots := computeRoots st.sigs.size st.assigns, warnings := st.warnings }

/-- S-expression line → design -/
def Design.ofString (s : String) (top : Option String := none) : R Design := do
  elaborate (← Source.ofString s) top

end BMV.Vlog
