/-
  BMV.Vlog.Wf — well-formedness predicates of elaborated expressions / statements / designs and the
  classification of evaluator messages, used by the soundness theorems of C18 (`BMV.Props.C18`) and
  re-checked by the oracle on every elaborated design (`Design.Resolved`).  Core-only.
-/
import BMV.Vlog.Lint
namespace BMV.Vlog

/-! ## predicates used by the partial soundness theorems (BMV.Props.C18) -/

-- `closed e`: no source-level identifier is left in `e` (what `resolveExpr` establishes)
mutual
def closed : Expr → Bool
  | .id _ => false
  | .num _ _ => true
  | .sig _ => true
  | .idx b i => closed b && closed i
  | .rng b m l => closed b && closed m && closed l
  | .ipart b s w _ => closed b && closed s && closed w
  | .cat es => closedL es
  | .rep n es => closed n && closedL es
  | .un _ e => closed e
  | .bin _ a b => closed a && closed b
  | .cond c a b => closed c && closed a && closed b
def closedL : List Expr → Bool
  | [] => true
  | e :: es => closed e && closedL es
end


/-- signal `i` exists and is a scalar or vector (not a memory) -/
def okSig (sigs : Array Sig) (i : Nat) : Bool :=
  match sigs[i]? with
  | some s => s.depth == 0
  | none => false

-- `simple sigs e`: identifier-free, over existing non-memory signals, without selects and without
-- division / modulo, replication counts literal: the fragment on which evaluation is proved total
mutual
def simple (sigs : Array Sig) : Expr → Bool
  | .num _ _ => true
  | .sig i => okSig sigs i
  | .cat es => simpleL sigs es
  | .rep (.num _ _) es => simpleL sigs es
  | .un _ e => simple sigs e
  | .bin op a b => op != .div && op != .mod && simple sigs a && simple sigs b
  | .cond c a b => simple sigs c && simple sigs a && simple sigs b
  | _ => false
def simpleL (sigs : Array Sig) : List Expr → Bool
  | [] => true
  | e :: es => simple sigs e && simpleL sigs es
end

/-- the state has storage (at least word 0) for every signal of the design -/
def StateOk (sigs : Array Sig) (st : State) : Prop :=
  ∀ (i : Nat) (s : Sig), sigs[i]? = some s → ∃ (a : Array Nat) (v : Nat), st[i]? = some a ∧ a[0]? = some v


/-- elaboration-class messages of `Sem.lean`: an unresolved name, or any `internal:` condition
    (signal index out of range, no storage, loop not unrolled) -/
def ElabClassError (msg : String) : Bool :=
  "undeclared identifier".toList.isPrefixOf msg.toList || "internal:".toList.isPrefixOf msg.toList

-- `wfE n e`: no source-level identifier is left and every signal index is below `n`
mutual
def wfE (n : Nat) : Expr → Bool
  | .id _ => false
  | .num _ _ => true
  | .sig i => i < n
  | .idx b i => wfE n b && wfE n i
  | .rng b m l => wfE n b && wfE n m && wfE n l
  | .ipart b s w _ => wfE n b && wfE n s && wfE n w
  | .cat es => wfEL n es
  | .rep c es => wfE n c && wfEL n es
  | .un _ e => wfE n e
  | .bin _ a b => wfE n a && wfE n b
  | .cond c a b => wfE n c && wfE n a && wfE n b
def wfEL (n : Nat) : List Expr → Bool
  | [] => true
  | e :: es => wfE n e && wfEL n es
end


-- statements: no `for` left, every expression well-formed
mutual
def wfS (n : Nat) : Stmt → Bool
  | .null => true
  | .assign _ l r => wfE n l && wfE n r
  | .ite c t e => wfE n c && wfS n t && wfS n e
  | .block _ _ ss => wfSL n ss
  | .case e items d => wfE n e && wfItems n items && wfS n d
  | .for _ _ _ _ => false
def wfSL (n : Nat) : List Stmt → Bool
  | [] => true
  | s :: ss => wfS n s && wfSL n ss
def wfItems (n : Nat) : List (List Expr × Stmt) → Bool
  | [] => true
  | (ls, b) :: rest => wfEL n ls && wfS n b && wfItems n rest
end


/-- what `elaborate` has to establish (and what the oracle re-checks on every design): no identifier,
    no `for`, every signal index in range -/
def Design.Resolved (d : Design) : Bool :=
  d.assigns.toList.all (fun a => wfE d.sigs.size a.1 && wfE d.sigs.size a.2) &&
  d.combs.toList.all (wfS d.sigs.size) &&
  d.procs.toList.all (fun p => wfS d.sigs.size p.body) &&
  d.inits.toList.all (wfS d.sigs.size)



-- source expressions (what the reader produces): no elaborated `.sig` node
mutual
def srcE : Expr → Bool
  | .sig _ => false
  | .id _ => true
  | .num _ _ => true
  | .idx b i => srcE b && srcE i
  | .rng b m l => srcE b && srcE m && srcE l
  | .ipart b s w _ => srcE b && srcE s && srcE w
  | .cat es => srcEL es
  | .rep c es => srcE c && srcEL es
  | .un _ e => srcE e
  | .bin _ a b => srcE a && srcE b
  | .cond c a b => srcE c && srcE a && srcE b
def srcEL : List Expr → Bool
  | [] => true
  | e :: es => srcE e && srcEL es
end


-- source statements: every expression is a source expression
mutual
def srcS : Stmt → Bool
  | .null => true
  | .assign _ l r => srcE l && srcE r
  | .ite c t e => srcE c && srcS t && srcS e
  | .block _ _ ss => srcSL ss
  | .case e items d => srcE e && srcItems items && srcS d
  | .for i c s b => srcS i && srcE c && srcS s && srcS b
def srcSL : List Stmt → Bool
  | [] => true
  | s :: ss => srcS s && srcSL ss
def srcItems : List (List Expr × Stmt) → Bool
  | [] => true
  | (ls, b) :: rest => srcEL ls && srcS b && srcItems rest
end


def srcOpt : Option Expr → Bool
  | none => true
  | some e => srcE e

def srcConns : Conns → Bool
  | .positional es => es.all srcOpt
  | .named cs => cs.all fun c => srcOpt c.2

/-- a module item as the reader delivers it: no elaborated `.sig` node in any expression that
    elaboration keeps (initialisers, assignments, event expressions, statements, port connections) -/
def srcItem : Item → Bool
  | .decl d => d.names.all fun n => srcOpt n.init
  | .param _ _ _ _ => true
  | .assign l r => srcE l && srcE r
  | .always _ evs b => (evs.all fun e => srcE e.2) && srcS b
  | .initial b => srcS b
  | .inst _ _ _ cs => srcConns cs

def srcModule (m : Module) : Bool := m.items.all srcItem

/-- the file set contains no `.sig` node (the reader `OfSexp` has no way to produce one) -/
def Source.fromReader (src : Source) : Bool := src.modules.all srcModule


/-- `elaborate`'s message class for an identifier that is declared nowhere in scope -/
def UndeclMsg (msg : String) : Bool := "[undeclared]".toList.isPrefixOf msg.toList

def NoUndecl {α : Type} (r : R α) : Prop := ∀ msg, r = .error msg → UndeclMsg msg = false


end BMV.Vlog
