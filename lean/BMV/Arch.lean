/-
  BMV.Arch — processor architecture parameters and the instruction *layout table*: for each opcode
  the list of operand fields that follow the opcode index in the instruction word.  This table is
  the hand-written model of the private bit layouts of /repo/pkg/procbuilder/op_*.go
  (Op_get_instruction_len / Assembler / Disassembler / Simulate / the HDL templates all slice the
  word at these offsets).  It is tied to the Go code by (a) the regenerated instruction-length
  table BMV/Gen/InstrLen.lean and (b) the C03 correspondence on every opcode.  Core-only.
-/
import BMV.Bits
namespace BMV
open BMV.Bits

inductive Mode where
  | ha | vn | hy
deriving DecidableEq, Repr, Inhabited

/-- kinds of operand field -/
inductive FieldKind where
  | reg            -- register name rK, width R
  | inp            -- input name iK, width Inputs_bits
  | out            -- output name oK, width Outputs_bits
  | imm            -- number, width Rsize
  | rom            -- number (ROM address), width O
  | ram            -- number (RAM address), width L
  | loc            -- number (jump location), width O / L / max by mode
  | locO           -- as `loc`, but O in vn mode (jo, jcmpo: their vn case falls through to the default)
  | const (w : Nat) -- number, fixed width
  | so (kind short : String)  -- shared-object name <short><k> (q0, st1, lfsr80 …), width Shared_bits(kind)
deriving DecidableEq, Repr, Inhabited

structure Arch where
  rsize : Nat
  r : Nat          -- R: register-index bits (2^R registers)
  n : Nat          -- inputs
  m : Nat          -- outputs
  l : Nat          -- RAM address bits
  o : Nat          -- ROM address bits
  mode : Mode := .ha
  wordSize : Nat := 0
  ops : List String       -- opcode names, in the machine's (name-sorted) order
  shared : List (String × Nat) := []   -- Shared_constraints: number of shared objects of each kind
deriving DecidableEq, Repr, Inhabited

namespace Arch

def opBits (a : Arch) : Nat := fieldBits a.ops.length
def inBits (a : Arch) : Nat := fieldBits a.n
def outBits (a : Arch) : Nat := fieldBits a.m
def locBits (a : Arch) : Nat :=
  match a.mode with
  | .ha => a.o
  | .vn => a.l
  | .hy => if a.o > a.l then a.o else a.l

/-- `Arch.Shared_num` -/
def sharedNum (a : Arch) (kind : String) : Nat := (a.shared.lookup kind).getD 0

/-- `Arch.Shared_bits`: 0 without an object of the kind, else the least width ≥ 1 that numbers them -/
def sharedBits (a : Arch) (kind : String) : Nat := neededBits (a.sharedNum kind)

def width (a : Arch) : FieldKind → Nat
  | .reg => a.r
  | .inp => a.inBits
  | .out => a.outBits
  | .imm => a.rsize
  | .rom => a.o
  | .ram => a.l
  | .loc => a.locBits
  | .locO => if a.mode = .vn then a.o else a.locBits
  | .const w => w
  | .so kind _ => a.sharedBits kind

end Arch

/-- decimal prefix of a string (the `[0-9]+` group of the dynamic-family name patterns) -/
def leadingNat (s : String) : Option Nat :=
  let ds := s.toList.takeWhile Char.isDigit
  if ds.isEmpty then none else (String.ofList ds).toNat?

/-- Dynamically created opcode families (pkg/procbuilder/dynamical_*.go, dynop_*.go), recognised
    by name like their `MatchName`: rsets<N>; the fixed-point / FloPoCo / FXP / linear-quantiser
    arithmetic (two registers); callo/calla/ret<N><name>; push/pull<N><name>. -/
def dynLayout (op : String) : Option (List FieldKind) :=
  if op.startsWith "rsets" then
    match leadingNat (op.drop 5).toString with
    | some n => some [.reg, .const n]
    | none => none
  else if (["multfps", "addfps", "divfps", "multflpe", "addflpe", "divflpe", "multfxps", "addfxps", "divfxps",
            "multlqs", "addlqs", "divlqs"].any fun p => op.startsWith p) then some [.reg, .reg]
  else if op.startsWith "callo" then some [.rom]
  else if op.startsWith "calla" then some [.ram]
  else if op.startsWith "ret" ∧ (leadingNat (op.drop 3).toString).isSome then some []
  else if (op.startsWith "push" ∨ op.startsWith "pull") ∧ (leadingNat (op.drop 4).toString).isSome then some [.reg]
  else none

/-- The layout table.  `none` = opcode not modelled (reported as `unmodelled`, never silently
    skipped).  Opcodes with shared-object operands are not in the table; the dynamic families are
    recognised by name (`dynLayout`). -/
def layout (op : String) : Option (List FieldKind) :=
  if op ∈ ["adc", "add", "addf", "addf16", "addp", "and", "chc", "cmpr", "cmprlt", "cpy", "div", "divf",
           "divf16", "divp", "mod", "mulc", "mult", "multf", "multf16", "multp", "nand", "nor", "not",
           "or", "r2mri", "r2vri", "ro2rri", "rsc", "sbc", "sub", "xnor", "xor", "m2rri"] then some [.reg, .reg]
  else if op ∈ ["addi", "chw", "cil", "cilc", "cir", "cirn", "clr", "dec", "expf", "inc", "incc",
                "jcmpria", "jcmprio", "jri", "jria", "jrio"] then some [.reg]
  else if op ∈ ["clc", "cset", "dpc", "hlt", "je", "nop", "r2s", "s2r"] then some []
  else if op ∈ ["i2r", "i2rw", "sic", "sicv3"] then some [.reg, .inp]
  else if op = "sicv2" then some [.reg, .inp, .inp]
  else if op = "cmpv" then some [.inp]
  else if op ∈ ["r2o", "r2owa", "r2owaa"] then some [.reg, .out]
  else if op ∈ ["j", "jcmpl", "saj", "ja", "jcmpa"] then some [.loc]
  else if op ∈ ["jo", "jcmpo"] then some [.locO]
  else if op = "jc" then some [.rom]
  else if op ∈ ["jgt0f", "jz", "ro2r"] then some [.reg, .rom]
  else if op ∈ ["m2r", "r2m"] then some [.reg, .ram]
  else if op = "rset" then some [.reg, .imm]
  else if op = "r2v" then some [.reg, .const 8]
  else if op = "tsp" then some [.reg, .loc, .const 8]
  else if op = "k2r" then some [.reg, .so "kbd" "k"]
  else if op ∈ ["q2r", "r2q"] then some [.reg, .so "queue" "q"]
  else if op ∈ ["r2t", "t2r"] then some [.reg, .so "stack" "st"]
  else if op ∈ ["r2u", "u2r"] then some [.reg, .so "uart" "u"]
  else if op = "lfsr82r" then some [.reg, .so "lfsr8" "lfsr8"]
  else if op ∈ ["wrd", "wwr"] then some [.reg, .so "channel" "ch"]
  else dynLayout op

/-- the fields `Op_get_instruction_len` *declares*; differs from `layout` only for `m2rri`, whose
    assembler emits two register fields while its declared length counts a register and a ROM
    address (the word is then rejected by the width check whenever that makes it too long) -/
def declLayout (op : String) : Option (List FieldKind) :=
  if op = "m2rri" then some [.reg, .rom] else layout op

/-- opcodes without operands do not look at the rest of the line (no arity check in Go) -/
def lenientArity (op : String) : Bool :=
  op ∈ ["clc", "cset", "dpc", "hlt", "je", "nop", "r2s", "s2r"]

/-- opcodes that exist only in some execution modes (their instruction length is 0 elsewhere) -/
def modeOk (op : String) (m : Mode) : Bool :=
  if op ∈ ["ja", "jcmpa"] then m != .ha
  else if op ∈ ["jo", "jcmpo"] then m != .vn
  else true

namespace Arch

/-- `Op_get_instruction_len` -/
def instrLen (a : Arch) (op : String) : Nat :=
  match declLayout op with
  | some fs => if modeOk op a.mode then a.opBits + (fs.map a.width).sum else 0
  | none => 0

/-- `Max_word` -/
def maxWord (a : Arch) : Nat :=
  if a.wordSize = 0 then (a.ops.map a.instrLen).foldl max 1 else a.wordSize

end Arch
end BMV
