/-
  BMV.Lifecycle — the lifecycle of the simulator's worker goroutines (property C17).

  What is modelled (pkg/bondmachine/vm.go, simulate.go, evolutionary.go, pkg/bmreqs/reqroot.go,
  cmd/simfinetune/simfinetune.go):

  * `Launch_processors` of a VM with P processors and E emulator drivers starts one
    `EmuDriverDispatcher`, and per processor E `ed.Run` goroutines and one `Processor_execute`;
    `bmreqs.NewReqRoot` starts one `run` server; `FitnessFunction` starts a pool of W workers.
    Every one of these goroutines is a loop blocked on a channel receive.
  * A worker is either *idle* (blocked on its channel) or *busy* (it received the token of
    `VM.Step` and has not yet answered).
  * A *shutdown* of a call (close of the VM's done channel / `ReqRoot.Close` / the `chanExits`
    messages) is recorded in `closed`; a worker whose creation site has an exit path (`Cfg`) has
    exactly one enabled transition once it is idle and its call is closed: `exit`.
  * The Go scheduler is the list of `Act`s itself: any interleaving of spawns, tokens, answers,
    shutdowns and exits of any number of (sequential or overlapping) calls is a schedule.

  Which creation sites have an exit path is *not* fixed here: `Cfg` is regenerated from the Go
  source on every run (BMV/Gen/GoStmts.lean) and the theorems are stated for every `Cfg`.
  Core only (compiled into oracle-c17).
-/
namespace BMV.Lifecycle

/-- creation sites (kinds of worker goroutine) -/
inductive Kind
  | proc   -- (*VM).Processor_execute, one per processor, started by Launch_processors
  | disp   -- (*VM).EmuDriverDispatcher, one per Launch_processors
  | emu    -- EmuDriver.Run, E per processor
  | req    -- (*ReqRoot).run, one per bmreqs.NewReqRoot
  | pool   -- the worker pool of cmd/simfinetune FitnessFunction
  deriving DecidableEq, Repr

def Kind.all : List Kind := [.proc, .disp, .emu, .req, .pool]

def Kind.name : Kind → String
  | .proc => "proc" | .disp => "disp" | .emu => "emu" | .req => "req" | .pool => "pool"

/-- which creation sites have an exit path (a `return` reachable from the worker's loop) -/
structure Cfg where
  proc : Bool
  disp : Bool
  emu : Bool
  req : Bool
  pool : Bool
  deriving DecidableEq, Repr

def Cfg.hasExit (c : Cfg) : Kind → Bool
  | .proc => c.proc | .disp => c.disp | .emu => c.emu | .req => c.req | .pool => c.pool

/-- every worker kind can leave its loop -/
def allExit : Cfg := ⟨true, true, true, true, true⟩

/-- the lifecycle of the pinned commit: the simulator's workers have no exit path -/
def pinned : Cfg := ⟨false, false, false, true, true⟩

/-- the model's table of worker kinds: every `go` statement of the anchored files (file, enclosing
    function, spawned function) and the kind it creates.  BMV/Gen/GoStmts.lean (regenerated from the
    Go source) must list exactly these statements, in this order (obligation `gostmts_match_sites`). -/
structure Site where
  file : String
  encl : String
  callee : String
  kind : Kind
  deriving DecidableEq, Repr

def sites : List Site := [
  ⟨"pkg/bondmachine/vm.go", "Launch_processors", "EmuDriverDispatcher", .disp⟩,
  ⟨"pkg/bondmachine/vm.go", "Launch_processors", "Run", .emu⟩,
  ⟨"pkg/bondmachine/vm.go", "Launch_processors", "Processor_execute", .proc⟩,
  ⟨"pkg/bmreqs/reqroot.go", "NewReqRoot", "run", .req⟩,
  ⟨"cmd/simfinetune/simfinetune.go", "FitnessFunction", "func", .pool⟩
]

/-- the functions that own a launched VM (they call Launch_processors) -/
def launcherNames : List (String × String) := [
  ("pkg/bondmachine/simulate.go", "SinglePipelineSimulate"),
  ("pkg/bondmachine/evolutionary.go", "Fitness_default")
]

structure Worker where
  kind : Kind
  call : Nat      -- the call (VM / ReqRoot / pool) that owns the worker
  busy : Bool     -- holds a step token: between `<-instruct` and the two answers
  deriving DecidableEq, Repr

structure Sys where
  workers : List Worker := []   -- live goroutines, in creation order
  closed : List Nat := []       -- calls whose shutdown has happened
  deriving DecidableEq, Repr

def init : Sys := {}

inductive Act
  | spawn (c : Nat) (k : Kind) (n : Nat)   -- n `go` statements of site k on behalf of call c
  | token (i : Nat)                        -- VM.Step: `send_chans[i] <- 1` received by worker i
  | answer (i : Nat)                       -- worker i: `resp <- procId; resultChan <- result`
  | shutdown (c : Nat)                     -- close(done) / Close() / chanExits of call c
  | exit (i : Nat)                         -- worker i takes the exit branch of its select
  deriving DecidableEq, Repr

/-- the worker's own transitions (as opposed to the caller's) -/
def Act.internal : Act → Bool
  | .answer _ | .exit _ => true
  | _ => false

def setBusy : List Worker → Nat → Bool → List Worker
  | [], _, _ => []
  | w :: ws, 0, b => { w with busy := b } :: ws
  | w :: ws, i + 1, b => w :: setBusy ws i b

def eraseAt : List Worker → Nat → List Worker
  | [], _ => []
  | _ :: ws, 0 => ws
  | w :: ws, i + 1 => w :: eraseAt ws i

def getAt : List Worker → Nat → Option Worker
  | [], _ => none
  | w :: _, 0 => some w
  | _ :: ws, i + 1 => getAt ws i

def enabled (cfg : Cfg) (s : Sys) : Act → Bool
  | .spawn _ _ _ => true
  | .token i =>
    match getAt s.workers i with
    | some w => w.kind == .proc && !w.busy && !s.closed.contains w.call
    | none => false
  | .answer i =>
    match getAt s.workers i with
    | some w => w.busy
    | none => false
  | .shutdown _ => true
  | .exit i =>
    match getAt s.workers i with
    | some w => !w.busy && cfg.hasExit w.kind && s.closed.contains w.call
    | none => false

/-- one scheduler move; a move that is not enabled does not happen -/
def step (cfg : Cfg) (s : Sys) (a : Act) : Sys :=
  if enabled cfg s a then
    match a with
    | .spawn c k n => { s with workers := s.workers ++ List.replicate n ⟨k, c, false⟩ }
    | .token i => { s with workers := setBusy s.workers i true }
    | .answer i => { s with workers := setBusy s.workers i false }
    | .shutdown c => { s with closed := c :: s.closed }
    | .exit i => { s with workers := eraseAt s.workers i }
  else s

def run (cfg : Cfg) (s : Sys) (as : List Act) : Sys := as.foldl (step cfg) s

/-- live workers of creation site k -/
def count (k : Kind) : List Worker → Nat
  | [] => 0
  | w :: ws => (if w.kind = k then 1 else 0) + count k ws

def liveOf (k : Kind) (s : Sys) : Nat := count k s.workers
def live (s : Sys) : Nat := s.workers.length

/-- `go` statements of site k executed by a schedule -/
def spawnedOf (k : Kind) : List Act → Nat
  | [] => 0
  | .spawn _ k' n :: as => (if k' = k then n else 0) + spawnedOf k as
  | _ :: as => spawnedOf k as

/-- no worker can move: every goroutine is blocked for good (or gone) -/
def quiescent (cfg : Cfg) (s : Sys) : Prop :=
  ∀ i, enabled cfg s (.answer i) = false ∧ enabled cfg s (.exit i) = false

/-- upper bound on the number of moves the workers can still make on their own -/
def measure : List Worker → Nat
  | [] => 0
  | w :: ws => (if w.busy then 2 else 1) + measure ws

/-- run every worker as far as it can go on its own (answer, then exit if possible): the state
    after the settle period of the harness -/
def idle (w : Worker) : Worker := { w with busy := false }

def settle (cfg : Cfg) (s : Sys) : Sys :=
  let keep : Worker → Bool := fun w => !(cfg.hasExit w.kind && s.closed.contains w.call)
  { s with workers := (s.workers.filter keep).map idle }

/-! ### the call shapes of the Go code, as schedules -/

/-- `Launch_processors`: dispatcher first, then per processor E emulator drivers and the worker -/
def launch (c P E : Nat) : List Act :=
  .spawn c .disp 1 :: (List.replicate P [.spawn c .emu E, .spawn c .proc 1]).flatten

/-- one `VM.Step` seen from worker index `base + j` (j < P): all tokens out, then all answers in
    (the order of the answers is one particular schedule; the theorems quantify over all) -/
def tick (idx : List Nat) : List Act := idx.map .token ++ idx.map .answer

/-- one whole simulation call as the Go caller drives it: launch, `ticks` steps, and — only when
    the calling function contains the shutdown call — the shutdown.  `idx` = the indices of the
    call's processor workers in the live list at launch time. -/
def simCall (c P E ticks : Nat) (idx : List Nat) (shut : Bool) : List Act :=
  launch c P E ++ (List.replicate ticks (tick idx)).flatten ++ (if shut then [.shutdown c] else [])

/-- indices of the P processor workers of a call launched when `base` workers are live (E = 0) -/
def procIdx (base P : Nat) : List Nat := (List.range P).map fun j => base + 1 + j

/-- n sequential calls of `SinglePipelineSimulate` (E = 0) with call ids c0 .. c0+n-1, each
    settled before the next: the batch the harness runs.  Returns the final settled state. -/
def seqBatch (cfg : Cfg) (P ticks : Nat) (shut : Bool) (c0 : Nat) : Nat → Sys → Sys
  | 0, s => s
  | n + 1, s =>
    let s' := seqBatch cfg P ticks shut c0 n s
    settle cfg (run cfg s' (simCall (c0 + n) P 0 ticks (procIdx s'.workers.length P) shut))

/-- the schedule of k overlapping calls (ids c0 .. c0+k-1) started when `base` workers are live:
    all launched, then all stepped (call by call), then all shut down -/
def parActs (P ticks : Nat) (shut : Bool) (c0 k base : Nat) : List Act :=
  let launches := ((List.range k).map fun c => launch (c0 + c) P 0).flatten
  let ticksAll := ((List.range k).map fun c =>
    (List.replicate ticks (tick (procIdx (base + c * (P + 1)) P))).flatten).flatten
  let shuts := if shut then (List.range k).map fun c => .shutdown (c0 + c) else []
  launches ++ ticksAll ++ shuts

def parBatch (cfg : Cfg) (P ticks : Nat) (shut : Bool) (c0 k : Nat) (s : Sys) : Sys :=
  settle cfg (run cfg s (parActs P ticks shut c0 k s.workers.length))

/-- cmd/simfinetune `FitnessFunction`, n evaluations: each starts `w` pool workers (call id c0+j·(R+1)),
    runs R sequential simulations (ids following it) and then sends the exit tokens (`shutPool`: does
    the code send as many tokens as it started workers?); everything settles before the next one -/
def poolBatch (cfg : Cfg) (P ticks : Nat) (shut shutPool : Bool) (w R c0 : Nat) : Nat → Sys → Sys
  | 0, s => s
  | n + 1, s =>
    let s0 := poolBatch cfg P ticks shut shutPool w R c0 n s
    let c := c0 + n * (R + 1)
    let s1 := run cfg s0 [.spawn c .pool w]
    let s2 := seqBatch cfg P ticks shut (c + 1) R s1
    settle cfg (run cfg s2 (if shutPool then [.shutdown c] else []))

end BMV.Lifecycle
