/-
  C18, towards `wf_total` (5): the second elaboration pass (`bodyPass`) keeps everything it stores
  well-formed w.r.t. the signals declared so far.
-/
import BMV.Proofs.VlogElab
namespace BMV.Vlog

theorem em_forIn_inv {α β : Type} (f : α → β → EM (ForInStep β)) (I : β → ElabSt → Prop) :
    ∀ (l : List α) (b : β) (s : ElabSt) (b' : β) (s' : ElabSt), I b s →
      (∀ a b s r s1, a ∈ l → I b s → f a b s = .ok (r, s1) → I (stepVal r) s1) →
      forIn l b f s = .ok (b', s') → I b' s'
  | [], b, s, b', s', hI, _, h => by
    simp only [List.forIn_nil] at h
    obtain ⟨rfl, rfl⟩ := em_pure_ok h
    exact hI
  | a :: l, b, s, b', s', hI, hf, h => by
    simp only [List.forIn_cons] at h
    obtain ⟨r, s1, h1, h2⟩ := em_bind_ok h
    have hr := hf a b s r s1 (List.mem_cons_self ..) hI h1
    cases r with
    | done b1 =>
      obtain ⟨rfl, rfl⟩ := em_pure_ok h2
      exact hr
    | yield b1 =>
      exact em_forIn_inv f I l b1 s1 b' s' hr (fun a b s r s2 ha => hf a b s r s2 (List.mem_cons_of_mem _ ha)) h2

theorem em_mapM_state {α β : Type} (f : α → EM β) (hf : ∀ a s r s1, f a s = .ok (r, s1) → s1 = s) :
    ∀ (l : List α) (s : ElabSt) (rs : List β) (s' : ElabSt), l.mapM f s = .ok (rs, s') → s' = s
  | [], s, rs, s', h => by
    simp only [List.mapM_nil] at h
    exact (em_pure_ok h).2
  | a :: l, s, rs, s', h => by
    simp only [List.mapM_cons] at h
    obtain ⟨r, s1, h1, h2⟩ := em_bind_ok h
    obtain ⟨rs1, s2, h3, h4⟩ := em_bind_ok h2
    have e1 := hf a s r s1 h1
    have e2 := em_mapM_state f hf l s1 rs1 s2 h3
    have e3 := (em_pure_ok h4).2
    rw [e3, e2, e1]

/-- everything stored so far is well-formed w.r.t. the signals declared so far -/
structure StOk (st : ElabSt) : Prop where
  assigns : ∀ a, a ∈ st.assigns.toList → wfE st.sigs.size a.1 = true ∧ wfE st.sigs.size a.2 = true
  combs : ∀ s, s ∈ st.combs.toList → wfS st.sigs.size s = true
  procs : ∀ p, p ∈ st.procs.toList → wfS st.sigs.size p.body = true
  inits : ∀ s, s ∈ st.inits.toList → wfS st.sigs.size s = true

theorem StOk.ext {s s' : ElabSt} (h : StOk s) (e : SigExt s s') : StOk s' where
  assigns := by
    rw [e.assigns]; intro a ha
    exact ⟨wfE_mono e.size _ (h.assigns a ha).1, wfE_mono e.size _ (h.assigns a ha).2⟩
  combs := by rw [e.combs]; intro x hx; exact wfS_mono e.size _ (h.combs x hx)
  procs := by rw [e.procs]; intro x hx; exact wfS_mono e.size _ (h.procs x hx)
  inits := by rw [e.inits]; intro x hx; exact wfS_mono e.size _ (h.inits x hx)

theorem StOk.pushAssign {s : ElabSt} (h : StOk s) (l r : Expr) (hl : wfE s.sigs.size l = true)
    (hr : wfE s.sigs.size r = true) : StOk { s with assigns := s.assigns.push (l, r) } where
  assigns := by
    intro a ha
    simp only [Array.toList_push, List.mem_append, List.mem_singleton] at ha
    rcases ha with ha | rfl
    · exact h.assigns a ha
    · exact ⟨hl, hr⟩
  combs := h.combs
  procs := h.procs
  inits := h.inits

theorem StOk.pushInit {s : ElabSt} (h : StOk s) (b : Stmt) (hb : wfS s.sigs.size b = true) :
    StOk { s with inits := s.inits.push b } where
  assigns := h.assigns
  combs := h.combs
  procs := h.procs
  inits := by
    intro a ha
    simp only [Array.toList_push, List.mem_append, List.mem_singleton] at ha
    rcases ha with ha | rfl
    · exact h.inits a ha
    · exact hb

theorem StOk.pushComb {s : ElabSt} (h : StOk s) (b : Stmt) (hb : wfS s.sigs.size b = true) :
    StOk { s with combs := s.combs.push b } where
  assigns := h.assigns
  procs := h.procs
  inits := h.inits
  combs := by
    intro a ha
    simp only [Array.toList_push, List.mem_append, List.mem_singleton] at ha
    rcases ha with ha | rfl
    · exact h.combs a ha
    · exact hb

theorem StOk.pushProc {s : ElabSt} (h : StOk s) (p : Proc) (hb : wfS s.sigs.size p.body = true) :
    StOk { s with procs := s.procs.push p } where
  assigns := h.assigns
  combs := h.combs
  inits := h.inits
  procs := by
    intro a ha
    simp only [Array.toList_push, List.mem_append, List.mem_singleton] at ha
    rcases ha with ha | rfl
    · exact h.procs a ha
    · exact hb

theorem StOk.warn {s : ElabSt} (h : StOk s) (w : Array String) : StOk { s with warnings := w } :=
  ⟨h.assigns, h.combs, h.procs, h.inits⟩


theorem declPass_spec (pfx : String) (isTop : Bool) (ov : ParamOv) :
    ∀ (items : List Item) (sc : Scope) (k : Nat) (s s' : ElabSt) (sc' : Scope), ScOk sc s.sigs.size →
      declPass pfx isTop ov items sc k s = .ok (sc', s') → ScOk sc' s'.sigs.size ∧ SigExt s s'
  | [], sc, k, s, s', sc', hsc, h => by
    unfold declPass at h
    obtain ⟨rfl, rfl⟩ := em_pure_ok h
    exact ⟨hsc, SigExt.refl _⟩
  | .param isLocal range name value :: rest, sc, k, s, s', sc', hsc, h => by
    unfold declPass at h
    split at h
    · exact (em_efail h).elim
    · obtain ⟨dflt, s1, h1, ha⟩ := em_bind_ok h
      obtain ⟨_, rfl⟩ := em_lift_ok h1
      simp only [] at ha
      exact declPass_spec pfx isTop ov rest _ _ _ s' sc' (ScOk.insert_const hsc _ _ _) ha
  | .decl d :: rest, sc, k, s, s', sc', hsc, h => by
    unfold declPass at h
    obtain ⟨sc1, s1, h1, ha⟩ := em_bind_ok h
    obtain ⟨hsc1, he1⟩ := declareAll_spec pfx isTop d d.names sc s s1 sc1 hsc h1
    obtain ⟨hsc2, he2⟩ := declPass_spec pfx isTop ov rest sc1 k s1 s' sc' hsc1 ha
    exact ⟨hsc2, he1.trans he2⟩
  | .assign _ _ :: rest, sc, k, s, s', sc', hsc, h => by
    unfold declPass at h; exact declPass_spec pfx isTop ov rest sc k s s' sc' hsc h
  | .always _ _ _ :: rest, sc, k, s, s', sc', hsc, h => by
    unfold declPass at h; exact declPass_spec pfx isTop ov rest sc k s s' sc' hsc h
  | .initial _ :: rest, sc, k, s, s', sc', hsc, h => by
    unfold declPass at h; exact declPass_spec pfx isTop ov rest sc k s s' sc' hsc h
  | .inst _ _ _ _ :: rest, sc, k, s, s', sc', hsc, h => by
    unfold declPass at h; exact declPass_spec pfx isTop ov rest sc k s s' sc' hsc h

theorem connList_src (ports : List String) (conns : Conns) (cl : List (String × Option Expr))
    (hs : srcConns conns = true) (h : connList ports conns = .ok cl) :
    ∀ p e, (p, some e) ∈ cl → srcE e = true := by
  intro p e hmem
  cases conns with
  | named cs =>
    simp only [connList] at h
    have : cl = cs := by
      revert h
      generalize (forIn cs PUnit.unit _ : R PUnit) = x
      intro h
      cases x with
      | error e => simp [Functor.map, Except.map] at h
      | ok a => simp [Functor.map, Except.map] at h; exact h.symm
    subst this
    simp only [srcConns, List.all_eq_true] at hs
    exact hs _ hmem
  | positional es =>
    simp only [connList] at h
    split at h
    · simp [throw, throwThe, MonadExceptOf.throw] at h
    · simp only [pure, Except.pure, Except.ok.injEq] at h; subst h
      simp only [srcConns, List.all_eq_true] at hs
      exact hs _ (List.of_mem_zip hmem).2


def EMdSpec (mods : List Module) (fuel : Nat) : Prop :=
  ∀ (m : Module) (pfx : String) (isTop : Bool) (ov : ParamOv) (s s' : ElabSt) (csc : Scope),
    srcModule m = true → StOk s → elabModule mods m pfx isTop ov fuel s = .ok (csc, s') →
    StOk s' ∧ s.sigs.size ≤ s'.sigs.size ∧ ScOk csc s'.sigs.size

theorem srcE_id (n : String) : srcE (.id n) = true := rfl

theorem bodyPass_spec (mods : List Module) (hmods : ∀ m, m ∈ mods → srcModule m = true) (fuel : Nat)
    (hE : ∀ k, fuel = k + 1 → EMdSpec mods k) (pfx : String) (sc : Scope) :
    ∀ (items : List Item) (s s' : ElabSt), items.all srcItem = true → ScOk sc s.sigs.size → StOk s →
      bodyPass mods pfx sc fuel items s = .ok ((), s') → StOk s' ∧ s.sigs.size ≤ s'.sigs.size
  | [], s, s', _, _, hst, h => by
    unfold bodyPass at h
    obtain ⟨_, rfl⟩ := em_pure_ok h
    exact ⟨hst, Nat.le_refl _⟩
  | .param _ _ _ _ :: rest, s, s', hsrc, hsc, hst, h => by
    simp only [List.all_cons, Bool.and_eq_true] at hsrc
    unfold bodyPass at h
    simp only [] at h
    exact bodyPass_spec mods hmods fuel hE pfx sc rest _ s' hsrc.2 hsc hst h
  | .decl d :: rest, s, s', hsrc, hsc, hst, h => by
    simp only [List.all_cons, Bool.and_eq_true] at hsrc
    unfold bodyPass at h
    simp only [] at h
    obtain ⟨_, s1, h1, h2⟩ := em_bind_ok h
    have hinv : StOk s1 ∧ s1.sigs.size = s.sigs.size := by
      refine em_forIn_inv _ (fun _ st => StOk st ∧ st.sigs.size = s.sigs.size) d.names _ s _ s1 ⟨hst, rfl⟩ ?_ h1
      intro n b st r st1 hn hI hf
      have hn' : srcOpt n.init = true := by
        have := hsrc.1; simp only [srcItem, List.all_eq_true] at this; exact this n hn
      cases hinit : n.init with
      | none =>
        simp only [hinit] at hf
        obtain ⟨rfl, rfl⟩ := em_pure_ok hf
        exact hI
      | some e =>
        simp only [hinit] at hf hn'
        obtain ⟨e', sa, ha, hf2⟩ := em_bind_ok hf
        obtain ⟨he, rfl⟩ := em_lift_ok ha
        obtain ⟨l', sb, hb, hf3⟩ := em_bind_ok hf2
        obtain ⟨hl, rfl⟩ := em_lift_ok hb
        have hsc' : ScOk sc sb.sigs.size := by rw [hI.2]; exact hsc
        have we := resolveExpr_wf sc _ hsc' e e' hn' he
        have wl := resolveExpr_wf sc _ hsc' _ l' (srcE_id n.name) hl
        split at hf3
        · obtain ⟨_, sc1, hc, hf4⟩ := em_bind_ok hf3
          have := em_modify_ok hc; subst this
          obtain ⟨rfl, rfl⟩ := em_pure_ok hf4
          exact ⟨hI.1.pushInit _ (by simp [wfS, we, wl]), hI.2⟩
        · obtain ⟨_, sc1, hc, hf4⟩ := em_bind_ok hf3
          have := em_modify_ok hc; subst this
          obtain ⟨rfl, rfl⟩ := em_pure_ok hf4
          exact ⟨hI.1.pushAssign _ _ wl we, hI.2⟩
    have := bodyPass_spec mods hmods fuel hE pfx sc rest s1 s' hsrc.2 (by rw [hinv.2]; exact hsc) hinv.1 h2
    exact ⟨this.1, by rw [← hinv.2]; exact this.2⟩
  | .assign l r :: rest, s, s', hsrc, hsc, hst, h => by
    simp only [List.all_cons, Bool.and_eq_true, srcItem] at hsrc
    unfold bodyPass at h
    simp only [] at h
    obtain ⟨l', s1, h1, h2⟩ := em_bind_ok h
    obtain ⟨hl, rfl⟩ := em_lift_ok h1
    obtain ⟨r', s2, h3, h4⟩ := em_bind_ok h2
    obtain ⟨hr, rfl⟩ := em_lift_ok h3
    obtain ⟨_, s3, h5, h6⟩ := em_bind_ok h4
    have := em_modify_ok h5; subst this
    have : _ := bodyPass_spec mods hmods fuel hE pfx sc rest _ s' hsrc.2 ?_ ?_ h6
    · exact this
    · exact hsc
    · exact hst.pushAssign _ _ (resolveExpr_wf sc _ hsc l l' hsrc.1.1 hl) (resolveExpr_wf sc _ hsc r r' hsrc.1.2 hr)
  | .initial b :: rest, s, s', hsrc, hsc, hst, h => by
    simp only [List.all_cons, Bool.and_eq_true, srcItem] at hsrc
    unfold bodyPass at h
    simp only [] at h
    obtain ⟨b', s1, h1, h2⟩ := em_bind_ok h
    obtain ⟨hw, he⟩ := resolveStmt_spec sc pfx b s s1 b' hsc hsrc.1 h1
    obtain ⟨_, s2, h3, h4⟩ := em_bind_ok h2
    have := em_modify_ok h3; subst this
    have : _ := bodyPass_spec mods hmods fuel hE pfx sc rest _ s' hsrc.2 ?_ ?_ h4
    · exact ⟨this.1, Nat.le_trans he.size this.2⟩
    · exact hsc.mono he.size
    · exact (hst.ext he).pushInit b' hw
  | .always star evs b :: rest, s, s', hsrc, hsc, hst, h => by
    simp only [List.all_cons, Bool.and_eq_true, srcItem] at hsrc
    unfold bodyPass at h
    simp only [] at h
    obtain ⟨b', s1, h1, h2⟩ := em_bind_ok h
    obtain ⟨hw, he⟩ := resolveStmt_spec sc pfx b s s1 b' hsc hsrc.1.2 h1
    have hsc1 := hsc.mono he.size
    have hst1 := hst.ext he
    split at h2
    · obtain ⟨_, s2, h3, h4⟩ := em_bind_ok h2
      have := em_modify_ok h3; subst this
      have : _ := bodyPass_spec mods hmods fuel hE pfx sc rest _ s' hsrc.2 ?_ ?_ h4
      · exact ⟨this.1, Nat.le_trans he.size this.2⟩
      · exact hsc1
      · exact hst1.pushComb b' hw
    · split at h2
      · obtain ⟨_, s2, h3, _⟩ := em_bind_ok h2
        exact (em_efail h3).elim
      · split at h2
        · obtain ⟨_, s2, h3, _⟩ := em_bind_ok h2
          exact (em_efail h3).elim
        · obtain ⟨es, s2, h3, h4⟩ := em_bind_ok h2
          have hs2 : s2 = s1 := by
            refine em_mapM_state _ ?_ evs s1 es s2 h3
            intro a st r st1 hf
            obtain ⟨x, sa, ha, hf2⟩ := em_bind_ok hf
            obtain ⟨_, rfl⟩ := em_lift_ok ha
            split at hf2
            · exact (em_pure_ok hf2).2
            · exact (em_efail hf2).elim
          subst hs2
          obtain ⟨_, s3, h5, h6⟩ := em_bind_ok h4
          have := em_modify_ok h5; subst this
          have : _ := bodyPass_spec mods hmods fuel hE pfx sc rest _ s' hsrc.2 ?_ ?_ h6
          · exact ⟨this.1, Nat.le_trans he.size this.2⟩
          · exact hsc1
          · exact hst1.pushProc ⟨es, b'⟩ hw
  | .inst modName name params conns :: rest, s, s', hsrc, hsc, hst, h => by
    simp only [List.all_cons, Bool.and_eq_true, srcItem] at hsrc
    unfold bodyPass at h
    simp only [] at h
    cases fuel with
    | zero =>
      simp only [] at h
      obtain ⟨_, s2, h3, _⟩ := em_bind_ok h
      exact (em_efail h3).elim
    | succ fuel' =>
      simp only [] at h
      cases hfm : findModule mods modName with
      | none =>
        simp only [hfm] at h
        obtain ⟨_, s2, h3, _⟩ := em_bind_ok h
        exact (em_efail h3).elim
      | some m =>
        simp only [hfm] at h
        have hm : srcModule m = true := hmods m (by unfold findModule at hfm; exact List.mem_of_find?_eq_some hfm)
        split at h
        · obtain ⟨_, s2, h3, _⟩ := em_bind_ok h
          exact (em_efail h3).elim
        · obtain ⟨ov, s1, h1, h2⟩ := em_bind_ok h
          obtain ⟨_, rfl⟩ := em_lift_ok h1
          obtain ⟨csc, s2, h3, h4⟩ := em_bind_ok h2
          obtain ⟨hst2, hsz2, hcsc⟩ := hE fuel' rfl m _ false ov _ s2 csc hm hst h3
          obtain ⟨cl, s3, h5, h6⟩ := em_bind_ok h4
          obtain ⟨hcl, rfl⟩ := em_lift_ok h5
          have hcl' : connList m.ports conns = .ok cl := by
            cases hc : connList m.ports conns with
            | ok c => simp only [hc, pure, Except.pure, Except.ok.injEq] at hcl; rw [hcl]
            | error e => simp [hc, throw, throwThe, MonadExceptOf.throw] at hcl
          have hsrcl := connList_src m.ports conns cl hsrc.1 hcl'
          obtain ⟨_, s4, h7, h8⟩ := em_bind_ok h6
          have hinv : StOk s4 ∧ s4.sigs.size = s3.sigs.size := by
            refine em_forIn_inv _ (fun _ st => StOk st ∧ st.sigs.size = s3.sigs.size) cl _ s3 _ s4 ⟨hst2, rfl⟩ ?_ h7
            intro a b st r st1 ha hI hf
            obtain ⟨p, oe⟩ := a
            have hscI : ScOk sc st.sigs.size := by rw [hI.2]; exact hsc.mono hsz2
            have hcscI : ScOk csc st.sigs.size := by rw [hI.2]; exact hcsc
            simp only [] at hf
            cases hcp : csc[p]? with
            | none =>
              simp only [hcp] at hf
              obtain ⟨_, sc1, hc, _⟩ := em_bind_ok hf
              exact (em_efail hc).elim
            | some bnd =>
              cases bnd with
              | const cw cv =>
                simp only [hcp] at hf
                obtain ⟨_, sc1, hc, _⟩ := em_bind_ok hf
                exact (em_efail hc).elim
              | sig i =>
                have hi : i < st.sigs.size := hcscI p i hcp
                cases oe with
                | none =>
                  simp only [hcp] at hf
                  obtain ⟨_, sc1, hc, hf4⟩ := em_bind_ok hf
                  have := em_modify_ok hc; subst this
                  obtain ⟨rfl, rfl⟩ := em_pure_ok hf4
                  exact ⟨hI.1.warn _, hI.2⟩
                | some e =>
                  simp only [hcp] at hf
                  obtain ⟨e', sa, hea, hf2⟩ := em_bind_ok hf
                  obtain ⟨he, rfl⟩ := em_lift_ok hea
                  have we := resolveExpr_wf sc _ hscI e e' (hsrcl p e ha) he
                  obtain ⟨g, sb, hg, hf3⟩ := em_bind_ok hf2
                  obtain ⟨rfl, rfl⟩ := em_get_ok hg
                  split at hf3
                  · obtain ⟨_, sc1, hc, hf4⟩ := em_bind_ok hf3
                    have := em_modify_ok hc; subst this
                    obtain ⟨rfl, rfl⟩ := em_pure_ok hf4
                    exact ⟨hI.1.pushAssign _ _ (by simp [wfE, hi]) we, hI.2⟩
                  · split at hf3
                    · obtain ⟨_, sc1, hc, hf4⟩ := em_bind_ok hf3
                      have := em_modify_ok hc; subst this
                      obtain ⟨rfl, rfl⟩ := em_pure_ok hf4
                      exact ⟨hI.1.pushAssign _ _ we (by simp [wfE, hi]), hI.2⟩
                    · obtain ⟨_, sc1, hc, _⟩ := em_bind_ok hf3
                      exact (em_efail hc).elim
          have := bodyPass_spec mods hmods (fuel' + 1) hE pfx sc rest s4 s' hsrc.2
            (by rw [hinv.2]; exact hsc.mono hsz2) hinv.1 h8
          exact ⟨this.1, by have := this.2; rw [hinv.2] at this; exact Nat.le_trans hsz2 this⟩

end BMV.Vlog
