/-
  Helper lemmas for C06 (BMV.Frag): temporaries, renaming, block execution.
-/
import BMV.Frag
namespace BMV.Frag

/-! ## NextResource / allocTemps -/

theorem le_foldl_max (l : List Nat) (a x : Nat) (h : x ≤ a ∨ x ∈ l) : x ≤ l.foldl max a := by
  induction l generalizing a with
  | nil => simp at h; simpa using h
  | cons y ys ih =>
    simp only [List.foldl_cons]
    apply ih
    rcases h with h | h
    · left; exact Nat.le_trans h (Nat.le_max_left a y)
    · rcases List.mem_cons.mp h with h | h
      · left; subst h; exact Nat.le_max_right a x
      · right; exact h

theorem lowestFree_not_mem (used : List Nat) : lowestFree used ∉ used := by
  unfold lowestFree
  cases hf : (List.range (used.foldl max 0 + 2)).find? (fun n => !used.contains n) with
  | some n =>
    have := List.find?_some hf
    simp only [Option.getD_some]
    simpa using this
  | none =>
    simp only [Option.getD_none]
    intro hm
    have := le_foldl_max used 0 _ (Or.inr hm)
    omega

theorem allocTemps_fresh (k : Nat) : ∀ used : List Nat,
    (allocTemps used k).Nodup ∧ ∀ n ∈ allocTemps used k, n ∉ used := by
  induction k with
  | zero => intro used; simp [allocTemps]
  | succ k ih =>
    intro used
    simp only [allocTemps]
    have hf := lowestFree_not_mem used
    obtain ⟨hn, hd⟩ := ih (lowestFree used :: used)
    refine ⟨?_, ?_⟩
    · refine List.nodup_cons.mpr ⟨?_, hn⟩
      intro hm
      exact (hd _ hm) (List.mem_cons_self ..)
    · intro n hm
      rcases List.mem_cons.mp hm with h | h
      · subst h; exact hf
      · intro hu; exact (hd n h) (List.mem_cons_of_mem _ hu)

theorem allocTemps_length (k : Nat) : ∀ used : List Nat, (allocTemps used k).length = k := by
  induction k with
  | zero => intro; rfl
  | succ k ih => intro used; simp [allocTemps, ih]

/-! ## the substitution of temporaries is injective on the registers of the section -/

theorem mem_usedR {sec : List SInstr} {n : Nat} (h : Reg.r n ∈ secRegs sec) : n ∈ usedR sec := by
  unfold usedR
  exact List.mem_filterMap.mpr ⟨.r n, h, rfl⟩

theorem substReg_r (T : List Nat) (n : Nat) : substReg T (.r n) = .r n := rfl

/-- `ReplaceArg` with the registers chosen by `NextResource` never identifies two different
    registers of the section -/
theorem substReg_inj (sec : List SInstr) :
    ∀ x ∈ secRegs sec, ∀ y ∈ secRegs sec,
      substReg (tempRegs sec) x = substReg (tempRegs sec) y → x = y := by
  intro x hx y hy hxy
  obtain ⟨hnd, hfresh⟩ := allocTemps_fresh (countTemps sec) (usedR sec)
  change (tempRegs sec).Nodup at hnd
  change ∀ n ∈ tempRegs sec, n ∉ usedR sec at hfresh
  generalize tempRegs sec = T at *
  cases x with
  | r n =>
    cases y with
    | r m => simpa [substReg] using hxy
    | t k =>
      simp only [substReg] at hxy
      cases hk : T[k]? with
      | none => simp [hk] at hxy
      | some v =>
        simp only [hk, Reg.r.injEq] at hxy
        subst hxy
        exact absurd (mem_usedR hx) (hfresh _ (List.mem_of_getElem? hk))
  | t k =>
    cases y with
    | r m =>
      simp only [substReg] at hxy
      cases hk : T[k]? with
      | none => simp [hk] at hxy
      | some v =>
        simp only [hk, Reg.r.injEq] at hxy
        subst hxy
        exact absurd (mem_usedR hy) (hfresh _ (List.mem_of_getElem? hk))
    | t k' =>
      simp only [substReg] at hxy
      cases hk : T[k]? with
      | none =>
        cases hk' : T[k']? with
        | none => simpa [hk, hk'] using hxy
        | some v' => simp [hk, hk'] at hxy
      | some v =>
        cases hk' : T[k']? with
        | none => simp [hk, hk'] at hxy
        | some v' =>
          simp only [hk, hk', Reg.r.injEq] at hxy
          subst hxy
          have h1 := List.getElem?_eq_some_iff.mp hk
          obtain ⟨l1, _⟩ := h1
          have := (List.getElem?_inj l1 hnd).mp (hk.trans hk'.symm)
          rw [this]

/-! ## renaming registers injectively does not change what a section computes -/

theorem Instr.val_congr (w : Nat) (i : Instr) (ρ ρ' : Nat → Nat)
    (h : ∀ n ∈ i.srcs, ρ n = ρ' n) : i.val w ρ = i.val w ρ' := by
  cases i <;> simp [Instr.val, Instr.srcs] at * <;> simp [h]

def RenRel (S : List Reg) (σ : Reg → Reg) (st st' : SecSt) : Prop :=
  st'.outs = st.outs ∧ ∀ x ∈ S, st'.regs (σ x) = st.regs x

theorem upd_rename {S : List Reg} {σ : Reg → Reg} {ρ ρ' : RegFile} {d : Reg} (v : Nat)
    (hinj : ∀ x ∈ S, ∀ y ∈ S, σ x = σ y → x = y)
    (h : ∀ x ∈ S, ρ' (σ x) = ρ x) (hd : d ∈ S) :
    ∀ x ∈ S, (upd ρ' (σ d) v) (σ x) = (upd ρ d v) x := by
  intro x hx
  unfold upd
  by_cases hxd : x = d
  · subst hxd; simp
  · have : σ x ≠ σ d := fun e => hxd (hinj x hx d hd e)
    simp [hxd, this, h x hx]

theorem step_rename (w : Nat) (inp : Nat → Nat) {S : List Reg} {σ : Reg → Reg}
    (hinj : ∀ x ∈ S, ∀ y ∈ S, σ x = σ y → x = y) (hr : ∀ n, σ (.r n) = .r n)
    (ins : SInstr) (hins : ∀ x ∈ ins.regs, x ∈ S) (st st' : SecSt) (h : RenRel S σ st st') :
    RenRel S σ (ins.step w inp st) ((ins.mapReg σ).step w inp st') := by
  obtain ⟨ho, hreg⟩ := h
  cases ins with
  | movIn d k =>
    refine ⟨ho, ?_⟩
    exact upd_rename _ hinj hreg (hins d (by simp [SInstr.regs]))
  | movOut k s =>
    refine ⟨?_, hreg⟩
    simp only [SInstr.step, SInstr.mapReg, ho, hreg s (hins s (by simp [SInstr.regs]))]
  | movReg d s =>
    refine ⟨ho, ?_⟩
    have hs := hreg s (hins s (by simp [SInstr.regs]))
    simp only [SInstr.step, SInstr.mapReg, hs]
    exact upd_rename _ hinj hreg (hins d (by simp [SInstr.regs]))
  | op i =>
    refine ⟨ho, ?_⟩
    simp only [SInstr.step, SInstr.mapReg, Instr.execR]
    have hv : i.val w (fun n => st'.regs (.r n)) = i.val w (fun n => st.regs (.r n)) := by
      apply Instr.val_congr
      intro n hn
      have hm : Reg.r n ∈ S := hins _ (by
        simp only [SInstr.regs, Instr.regs, List.map_cons, List.mem_cons, List.mem_map]
        right; exact ⟨n, hn, rfl⟩)
      have := hreg _ hm
      rw [hr] at this
      exact this
    rw [hv]
    have hd : Reg.r i.dst ∈ S := hins _ (by simp [SInstr.regs, Instr.regs])
    have := upd_rename (σ := σ) (i.val w (fun n => st.regs (.r n))) hinj hreg hd
    rw [hr] at this
    exact this
  | jStart => exact ⟨ho, hreg⟩

theorem runSec_rename (w : Nat) (inp : Nat → Nat) {S : List Reg} {σ : Reg → Reg}
    (hinj : ∀ x ∈ S, ∀ y ∈ S, σ x = σ y → x = y) (hr : ∀ n, σ (.r n) = .r n) :
    ∀ (sec : List SInstr), (∀ ins ∈ sec, ∀ x ∈ ins.regs, x ∈ S) →
      ∀ st st', RenRel S σ st st' →
        RenRel S σ (runSec w inp sec st) (runSec w inp (sec.map (SInstr.mapReg σ)) st') := by
  intro sec
  induction sec with
  | nil => intro _ st st' h; exact h
  | cons ins rest ih =>
    intro hs st st' h
    simp only [runSec, List.map_cons, List.foldl_cons]
    apply ih (fun i hi => hs i (List.mem_cons_of_mem _ hi))
    exact step_rename w inp hinj hr ins (hs ins (List.mem_cons_self ..)) st st' h

/-- the resolved section emits what the section with symbolic temporaries emits
    (started from the correspondingly renamed register file) -/
theorem secRes_outs (g : Graph) (l : List Nat) (w : Nat) (inp : Nat → Nat) (ρ : RegFile) :
    (runSec w inp (secRes g l) ⟨ρ, []⟩).outs =
      (runSec w inp (secSym g l) ⟨fun x => ρ (substReg (tempRegs (secSym g l)) x), []⟩).outs := by
  have h := runSec_rename w inp (S := secRegs (secSym g l))
    (σ := substReg (tempRegs (secSym g l))) (substReg_inj (secSym g l)) (fun _ => rfl)
    (secSym g l)
    (fun ins hi x hx => List.mem_flatMap.mpr ⟨ins, hi, hx⟩)
    ⟨fun x => ρ (substReg (tempRegs (secSym g l)) x), []⟩ ⟨ρ, []⟩ ⟨rfl, fun _ _ => rfl⟩
  exact h.1


/-! ## enum -/

theorem enumFrom_map_snd {α : Type} : ∀ (l : List α) (n : Nat), (enumFrom n l).map (·.2) = l := by
  intro l; induction l with
  | nil => intro; rfl
  | cons x xs ih => intro n; simp [enumFrom, ih]

theorem enumFrom_map_fst_nodup {α : Type} : ∀ (l : List α) (n : Nat),
    ((enumFrom n l).map (·.1)).Nodup ∧ ∀ j ∈ (enumFrom n l).map (·.1), n ≤ j := by
  intro l; induction l with
  | nil => intro; simp [enumFrom]
  | cons x xs ih =>
    intro n
    obtain ⟨h1, h2⟩ := ih (n + 1)
    simp only [enumFrom, List.map_cons, List.nodup_cons, List.mem_cons]
    refine ⟨⟨?_, h1⟩, ?_⟩
    · intro hm; have := h2 n hm; omega
    · intro j hj
      rcases hj with h | h
      · omega
      · have := h2 j h; omega

theorem mem_enumFrom {α : Type} : ∀ (l : List α) (n j : Nat) (x : α),
    (j, x) ∈ enumFrom n l ↔ n ≤ j ∧ l[j - n]? = some x := by
  intro l; induction l with
  | nil => intro n j x; simp [enumFrom]
  | cons y ys ih =>
    intro n j x
    simp only [enumFrom, List.mem_cons, Prod.mk.injEq, ih]
    constructor
    · rintro (⟨rfl, rfl⟩ | ⟨h1, h2⟩)
      · simp
      · refine ⟨by omega, ?_⟩
        have : j - n = (j - (n + 1)) + 1 := by omega
        rw [this]; simpa using h2
    · rintro ⟨h1, h2⟩
      by_cases hj : j = n
      · left; subst hj; simpa using h2.symm
      · right
        refine ⟨by omega, ?_⟩
        have : j - n = (j - (n + 1)) + 1 := by omega
        rw [this] at h2; simpa using h2

theorem mem_enum {α : Type} (l : List α) (j : Nat) (x : α) : (j, x) ∈ enum l ↔ l[j]? = some x := by
  simp [enum, mem_enumFrom]

/-! ## fragment bodies -/

theorem runSec_append (w : Nat) (inp : Nat → Nat) (a b : List SInstr) (st : SecSt) :
    runSec w inp (a ++ b) st = runSec w inp b (runSec w inp a st) := by
  simp [runSec, List.foldl_append]

theorem execR_r (w : Nat) (ρ : RegFile) (i : Instr) :
    (fun m => (i.execR w ρ) (.r m)) = i.exec w (fun m => ρ (.r m)) := by
  funext m
  simp only [Instr.execR, Instr.exec, upd, Reg.r.injEq]

theorem execR_t (w : Nat) (ρ : RegFile) (i : Instr) (k : Nat) : (i.execR w ρ) (.t k) = ρ (.t k) := by
  simp [Instr.execR, upd]

theorem runSec_body (w : Nat) (inp : Nat → Nat) : ∀ (b : List Instr) (st : SecSt),
    (runSec w inp (b.map .op) st).outs = st.outs ∧
    (∀ k, (runSec w inp (b.map .op) st).regs (.t k) = st.regs (.t k)) ∧
    (∀ n, (runSec w inp (b.map .op) st).regs (.r n) = runBody w b (fun m => st.regs (.r m)) n) := by
  intro b
  induction b with
  | nil => intro st; simp [runSec, runBody]
  | cons i rest ih =>
    intro st
    have h := ih (SInstr.step w inp st (.op i))
    simp only [runSec, List.map_cons, List.foldl_cons] at h ⊢
    refine ⟨h.1, ?_, ?_⟩
    · intro k; rw [h.2.1 k]; simp [SInstr.step, execR_t]
    · intro n
      rw [h.2.2 n]
      simp only [SInstr.step, runBody, List.foldl_cons]
      rw [execR_r]

theorem defsOk_agree (w : Nat) : ∀ (b : List Instr) (D D' : List Nat) (ρ ρ' : Nat → Nat),
    defsOk D b = some D' → (∀ n ∈ D, ρ n = ρ' n) →
    ∀ n ∈ D', runBody w b ρ n = runBody w b ρ' n := by
  intro b
  induction b with
  | nil =>
    intro D D' ρ ρ' h hag n hn
    simp only [defsOk, Option.some.injEq] at h
    subst h
    simpa [runBody] using hag n hn
  | cons i rest ih =>
    intro D D' ρ ρ' h hag n hn
    simp only [defsOk] at h
    split at h
    · rename_i hs
      simp only [runBody, List.foldl_cons]
      apply ih (i.dst :: D) D' _ _ h _ n hn
      intro m hm
      have hv : i.val w ρ = i.val w ρ' := by
        apply Instr.val_congr
        intro x hx
        apply hag
        have := List.all_eq_true.mp hs x hx
        simpa using this
      simp only [Instr.exec, upd, hv]
      by_cases hmd : m = i.dst
      · simp [hmd]
      · simp only [hmd, if_false]
        rcases List.mem_cons.mp hm with h' | h'
        · exact absurd h' hmd
        · exact hag m h'
    · cases h

theorem loadRegs_cons (r v : Nat) (rs vs : List Nat) (ρ : Nat → Nat) :
    loadRegs (r :: rs) (v :: vs) ρ = loadRegs rs vs (upd ρ r v) := by
  simp [loadRegs]

theorem loadRegs_not_mem : ∀ (rs vs : List Nat) (ρ : Nat → Nat) (x : Nat),
    x ∉ rs → loadRegs rs vs ρ x = ρ x := by
  intro rs
  induction rs with
  | nil => intro vs ρ x _; simp [loadRegs]
  | cons r rs ih =>
    intro vs ρ x hx
    cases vs with
    | nil => simp [loadRegs]
    | cons v vs =>
      rw [loadRegs_cons, ih vs _ x (fun h => hx (List.mem_cons_of_mem _ h))]
      have : x ≠ r := fun e => hx (e ▸ List.mem_cons_self ..)
      simp [upd, this]

theorem loadRegs_get : ∀ (rs vs : List Nat) (ρ : Nat → Nat), rs.Nodup → rs.length ≤ vs.length →
    ∀ j r, rs[j]? = some r → loadRegs rs vs ρ r = vs.getD j 0 := by
  intro rs
  induction rs with
  | nil => intro vs ρ _ _ j r h; simp at h
  | cons r0 rs ih =>
    intro vs ρ hnd hlen j r h
    cases vs with
    | nil => simp at hlen
    | cons v vs =>
      rw [loadRegs_cons]
      obtain ⟨hn0, hnd'⟩ := List.nodup_cons.mp hnd
      cases j with
      | zero =>
        simp only [List.getElem?_cons_zero, Option.some.injEq] at h
        subst h
        rw [loadRegs_not_mem rs vs _ _ hn0]
        simp [upd]
      | succ j =>
        simp only [List.getElem?_cons_succ] at h
        rw [ih vs _ hnd' (by simpa using hlen) j r h]
        simp

/-- a well behaved fragment computes `fn` of the values found in its `resin` registers, whatever
    else the register file holds -/
theorem fn_spec (w : Nat) (f : Fragment) (hwb : f.wb = true) (vs : List Nat)
    (hlen : vs.length = f.resin.length) (ρ : Nat → Nat)
    (hρ : ∀ j r, f.resin[j]? = some r → ρ r = vs.getD j 0) :
    ∀ p r, f.resout[p]? = some r → runBody w f.body ρ r = (f.fn w vs).getD p 0 := by
  intro p r hp
  unfold Fragment.wb at hwb
  simp only [Bool.and_eq_true, decide_eq_true_eq] at hwb
  obtain ⟨hnd, hrest⟩ := hwb
  cases hD : defsOk f.resin f.body with
  | none => simp [hD] at hrest
  | some D =>
    simp only [hD] at hrest
    have hrD : r ∈ D := by
      have := List.all_eq_true.mp hrest r (List.mem_of_getElem? hp)
      simpa using this
    have hag : ∀ n ∈ f.resin, ρ n = loadRegs f.resin vs (fun _ => 0) n := by
      intro n hn
      obtain ⟨j, hj⟩ := List.mem_iff_getElem?.mp hn
      rw [hρ j n hj, loadRegs_get f.resin vs _ hnd (by omega) j n hj]
    rw [defsOk_agree w f.body f.resin D ρ _ hD hag r hrD]
    unfold Fragment.fn
    rw [List.getD_eq_getElem?_getD, List.getElem?_map, hp]
    simp

end BMV.Frag
